// C10 — priorities order execution; the first failing rule ends a trigger sequence.
//
// Domain: rule sets (1..8 rules over 4 triggering event kinds, priorities 0..5
// with ties, failure flags) whose Go actions add 0..4 (sometimes 5..6) child
// events through m.NewChildMonitor(prio) + p.AddEvent (kinds without a rule are
// non-triggering => skipped), 1..3 root cascades started concurrently with
// AddEventAndWait, workers 1 and 2..8, both fail-on-first-error settings.
// Generated with rapid; plus directed shapes; plus a complete enumeration of
// the two-level one-worker cascades (child priority a, grandchildren b1..bn).
//
// Oracles (all computed from the case, the stamps taken inside the Go actions and
// the hook trace: tq.push / tq.pop are recorded inside the queue lock,
// monitor.finished.locked inside the root monitor's lock):
//
//	(a) the actions of the rules triggered by one event do not overlap and run in
//	    ascending rule priority (ties in any order);
//	(b) every tq.pop takes the minimum by (priority, push sequence) of what its
//	    cascade has queued at that moment; with one worker the complete processing
//	    order of every cascade is predicted by a simulation of that policy and
//	    compared without the hooks;
//	(c) RootMonitor.HighestPriority() sampled inside actions (at the start and
//	    after every added event): with one worker it equals the model's minimum
//	    over the monitors activated by a triggering event which have not finished;
//	    with any number of workers it lies between the minimum over the monitors
//	    which were possibly counted and the minimum over those certainly counted
//	    at the moment of the reading (stamps before / after the reading against
//	    the activation windows and the finish stamps); after the cascade it is -1;
//	(d) fail-on-first-error: the executed rules are a priority-respecting prefix of
//	    the triggered rules ending at the first failing one, every triggering event
//	    added by an executed rule (also by the failing one) is processed exactly
//	    once and AllErrors() holds exactly the failing rule; without it all
//	    triggered rules run and all failures are reported.
//
// A wall-clock bound is never a verdict: a cascade which has not finished after
// 30 s makes the shard INCONCLUSIVE (exit without replay file).
package c10

import (
	"encoding/json"
	"fmt"
	"os"
	"runtime"
	"sort"
	"strconv"
	"strings"
	"sync"
	"sync/atomic"
	"testing"
	"time"

	"pgregory.net/rapid"

	"github.com/krotik/ecal/engine"
	"github.com/krotik/ecal/verifhook"

	"verif/internal/hx"
)

const rule = "case = (rule set: 1..8 rules over event kinds k0..k3 with priorities 0..5 (ties included), failure flags and 0..4 (sometimes 5..6) child events per action with monitor priorities 0..5 and kinds of a deeper level (kinds without a rule are non-triggering => skipped children); 1..3 root cascades started concurrently; workers 1 or 2..8; fail-on-first-error on/off); generated with rapid, plus a fixed list of directed shapes, plus the complete enumeration of the one-worker two-level cascades (root adds one child of priority a, the child adds b1..bn; bounds in exhaustive_bounds); non-trivial = a processed event triggered >= 2 rules of different priority, or some dequeue found >= 2 events of different priority queued for its cascade, or one event added a skipped child next to a triggering one; distinct by (rule set incl. cascade shape, root kinds, workers, fail-on-first-error)"

const (
	nKinds     = 6  // k0..k5; rules only on k0..k3, so k4/k5 never trigger
	nRuleKinds = 4  // kinds which may have rules
	maxPrio    = 5  // priorities 0..maxPrio
	maxAdds    = 6  // events added by one action
	maxEvents  = 64 // cap on the number of events (incl. skipped ones) of one case
	waitBound  = 30 * time.Second
)

// Add is one child event added by a rule action.
type Add struct {
	Kind int `json:"kind"` // kind index of the child event
	Prio int `json:"prio"` // priority of the child monitor
}

// RuleSpec is one rule. Its name is r<index>.
type RuleSpec struct {
	Kind int   `json:"kind"`           // the rule matches events of kind k<Kind>
	Prio int   `json:"prio"`           // rule priority
	Fail bool  `json:"fail,omitempty"` // the action returns an error (after adding its events)
	Spin int   `json:"spin,omitempty"` // runtime.Gosched() calls at the start of the action (schedule perturbation only)
	Adds []Add `json:"adds,omitempty"` // events added by the action, in this order
}

// Case is one engine run.
type Case struct {
	Workers   int        `json:"workers"`
	FailFirst bool       `json:"fail_first"`
	Rules     []RuleSpec `json:"rules"`
	Roots     []int      `json:"roots"`            // kind of the root event of each cascade
	Reused    bool       `json:"reused,omitempty"` // the processor has been started, finished and Reset() once before the rules are added (what the CLI does before every load); the setting was made before
}

func TestMain(m *testing.M) { hx.Main(m, "C10", rule) }

// ---------------------------------------------------------------------------
// static model of a case

func kindName(k int) string   { return "k" + strconv.Itoa(k) }
func kindPath(k int) []string { return []string{"c10", kindName(k)} }
func kindMatch(k int) string  { return "c10." + kindName(k) }

// The name of an event is a function of its kind: the processor caches the
// triggering check by event NAME (C01 territory, not judged here).
func eventName(k int) string { return "ev-" + kindName(k) }
func ruleName(i int) string  { return fmt.Sprintf("r%02d", i) }

// normalise clamps a case into the domain (needed for replay files and fuzzed
// input; generated cases are already inside). The reason is non-empty if the
// case cannot be used.
func normalise(c Case) (Case, string) {
	n := Case{Workers: c.Workers, FailFirst: c.FailFirst, Reused: c.Reused}
	if n.Workers < 1 {
		n.Workers = 1
	}
	if n.Workers > 8 {
		n.Workers = 8
	}
	if len(c.Rules) == 0 || len(c.Rules) > 12 {
		return n, "invalid.rule-count"
	}
	for _, r := range c.Rules {
		if r.Kind < 0 || r.Kind >= nRuleKinds || r.Prio < 0 || r.Prio > maxPrio || len(r.Adds) > maxAdds {
			return n, "invalid.rule"
		}
		nr := RuleSpec{Kind: r.Kind, Prio: r.Prio, Fail: r.Fail, Spin: r.Spin}
		if nr.Spin < 0 || nr.Spin > 4 {
			nr.Spin = 0
		}
		for _, a := range r.Adds {
			// children are of a deeper level: cascades terminate by construction
			if a.Kind <= r.Kind || a.Kind >= nKinds || a.Prio < 0 || a.Prio > maxPrio {
				return n, "invalid.add"
			}
			nr.Adds = append(nr.Adds, a)
		}
		n.Rules = append(n.Rules, nr)
	}
	if len(c.Roots) == 0 || len(c.Roots) > 3 {
		return n, "invalid.roots"
	}
	has := rulesByKind(n.Rules)
	for _, k := range c.Roots {
		if k < 0 || k >= nKinds || len(has[k]) == 0 {
			return n, "invalid.root-kind"
		}
		n.Roots = append(n.Roots, k)
	}
	if size(n) > maxEvents {
		return n, "too-large"
	}
	return n, ""
}

func rulesByKind(rules []RuleSpec) map[int][]int {
	m := map[int][]int{}
	for i, r := range rules {
		m[r.Kind] = append(m[r.Kind], i)
	}
	return m
}

// size is the number of events (skipped ones included) if every rule runs.
func size(c Case) int {
	by := rulesByKind(c.Rules)
	memo := map[int]int{}
	var ev func(k int) int
	ev = func(k int) int {
		if v, ok := memo[k]; ok {
			return v
		}
		n := 1
		for _, ri := range by[k] {
			for _, a := range c.Rules[ri].Adds {
				n += ev(a.Kind)
				if n > 1<<20 {
					n = 1 << 20
				}
			}
		}
		memo[k] = n
		return n
	}
	total := 0
	for _, k := range c.Roots {
		total += ev(k)
	}
	return total
}

// ---------------------------------------------------------------------------
// recording

type addRec struct {
	path     string
	kind     int
	prio     int
	monID    uint64
	skipped  bool // AddEvent returned a nil monitor
	err      error
	pre, end int64 // stamps around NewChildMonitor + AddEvent (the activation lies in between)
}

// hpSample is one HighestPriority() reading with stamps taken before and after it.
type hpSample struct {
	t0, t1 int64
	v      int
}

type actRec struct {
	path       string // event instance: c<root>/<rule>.<add>/...
	ruleIdx    int
	monID      uint64
	monPrio    int
	rootID     uint64
	tid        uint64
	start, end int64
	hp         []hpSample // HighestPriority(): [0] at the start, [j+1] after add j
	adds       []addRec
}

type traceRec struct {
	pop  bool
	root uint64
	prio int
	mon  uint64
}

type recorder struct {
	mu     sync.Mutex
	acts   []*actRec
	trace  []traceRec
	finish map[uint64]int64 // monitor id -> stamp taken inside the root monitor's lock when it finished
	panic  *hx.Failure
	clock  int64
}

func (r *recorder) stamp() int64 { return atomic.AddInt64(&r.clock, 1) }

var inconclusive []string

func noteInconclusive(reason, detail string) {
	hx.E.Exclude("inconclusive." + reason)
	inconclusive = append(inconclusive, reason+": "+detail)
	fmt.Fprintf(os.Stderr, "C10 INCONCLUSIVE %s: %s\n", reason, detail)
}

// failInconclusive makes the shard exit non-zero without a replay file, which
// the driver reports as INCONCLUSIVE (exit 2), never as a violation.
func failInconclusive(t *testing.T) {
	if len(inconclusive) > 0 {
		t.Fatalf("INCONCLUSIVE (not a verdict): %d case(s): %v", len(inconclusive), inconclusive[0])
	}
}

func pathOf(e *engine.Event) string {
	if s, ok := e.State()["id"].(string); ok {
		return s
	}
	return "?"
}

// cascadeOf returns the root index of an event path ("c2/..." -> 2).
func cascadeOf(path string) int {
	p := path
	if i := strings.IndexByte(p, '/'); i >= 0 {
		p = p[:i]
	}
	n, err := strconv.Atoi(strings.TrimPrefix(p, "c"))
	if err != nil {
		return -1
	}
	return n
}

// ---------------------------------------------------------------------------
// execution

type observation struct {
	rec     *recorder
	rootIDs []uint64
	finalHP []int
	errs    [][]*engine.TaskError
	waitErr []string
}

func execute(c Case) (*observation, *hx.Failure, bool) {
	rec := &recorder{finish: map[uint64]int64{}}
	obs := &observation{rec: rec}

	proc := engine.NewProcessor(c.Workers)
	// (the processor is used as NewProcessor configures it: the "queue is filling up" threshold of 10 stays in force,
	// its warning goes to stderr)
	proc.SetFailOnFirstErrorInTriggerSequence(c.FailFirst)
	if c.Reused {
		// a processor which is used again: settings are made once (NewECALRuntimeProvider), rules come and go
		proc.Start()
		proc.Finish()
		if err := proc.Reset(); err != nil {
			return nil, hx.Failf("harness:reset", "%v", err), false
		}
	}

	for i := range c.Rules {
		i := i
		spec := c.Rules[i]
		action := func(p engine.Processor, m engine.Monitor, e *engine.Event, tid uint64) (err error) {
			a := &actRec{path: pathOf(e), ruleIdx: i, monID: m.ID(), monPrio: m.Priority(), tid: tid}
			defer func() {
				if r := recover(); r != nil {
					f := hx.PanicFailure(r, 3)
					rec.mu.Lock()
					if rec.panic == nil {
						rec.panic = f
					}
					rec.mu.Unlock()
					err = nil
				}
			}()
			a.start = rec.stamp()
			for s := 0; s < spec.Spin; s++ {
				runtime.Gosched()
			}
			rm := m.RootMonitor()
			a.rootID = rm.ID()
			sample := func() {
				t0 := rec.stamp()
				v := rm.HighestPriority()
				a.hp = append(a.hp, hpSample{t0, rec.stamp(), v})
			}
			sample()
			for j, ad := range spec.Adds {
				pre := rec.stamp()
				cm := m.NewChildMonitor(ad.Prio)
				cp := fmt.Sprintf("%s/%d.%d", a.path, i, j)
				ce := engine.NewEvent(eventName(ad.Kind), kindPath(ad.Kind), map[interface{}]interface{}{"id": cp})
				res, aerr := p.AddEvent(ce, cm)
				a.adds = append(a.adds, addRec{path: cp, kind: ad.Kind, prio: ad.Prio, monID: cm.ID(), skipped: res == nil, err: aerr, pre: pre, end: rec.stamp()})
				sample()
			}
			a.end = rec.stamp()
			rec.mu.Lock()
			rec.acts = append(rec.acts, a)
			rec.mu.Unlock()
			if spec.Fail {
				return fmt.Errorf("failure of %s", ruleName(i))
			}
			return nil
		}
		if err := proc.AddRule(&engine.Rule{Name: ruleName(i), KindMatch: []string{kindMatch(spec.Kind)}, ScopeMatch: []string{"c10"},
			Priority: rulePriority[spec.Prio], Action: action}); err != nil {
			return nil, hx.Failf("harness:add-rule", "AddRule(%s): %v", ruleName(i), err), false
		}
	}
	// kick rule: see the kicker below
	if err := proc.AddRule(&engine.Rule{Name: "kick", KindMatch: []string{"c10kick"}, ScopeMatch: []string{"c10"}, Priority: 0,
		Action: func(p engine.Processor, m engine.Monitor, e *engine.Event, tid uint64) error { return nil }}); err != nil {
		return nil, hx.Failf("harness:add-rule", "AddRule(kick): %v", err), false
	}

	roots := make([]*engine.RootMonitor, len(c.Roots))
	rootIdx := map[uint64]int{}
	for i := range c.Roots {
		roots[i] = proc.NewRootMonitor(nil, nil)
		rootIdx[roots[i].ID()] = i
		obs.rootIDs = append(obs.rootIDs, roots[i].ID())
	}

	// The handler runs inside the TaskQueue lock: the order of the records is the
	// linearisation of the queue operations. Root ids are process-wide unique, so
	// operations of kick events (own root monitors) are dropped here.
	verifhook.SetHandler(func(point string, args ...interface{}) {
		switch point {
		case "tq.push", "tq.pop":
			root := args[0].(uint64)
			if _, ok := rootIdx[root]; !ok {
				return
			}
			rec.mu.Lock()
			rec.trace = append(rec.trace, traceRec{pop: point == "tq.pop", root: root, prio: args[1].(int), mon: args[2].(uint64)})
			rec.mu.Unlock()
		case "monitor.finished.locked":
			// called inside the root monitor's lock, before the counters change
			if _, ok := rootIdx[args[0].(uint64)]; !ok {
				return
			}
			t := rec.stamp()
			rec.mu.Lock()
			rec.finish[args[1].(uint64)] = t
			rec.mu.Unlock()
		}
	})
	defer verifhook.SetHandler(nil)

	proc.Start()

	// Kicker: the pool had a lost wake-up (property C09, repaired separately): a
	// task pushed between a worker's empty dequeue and its wait was not picked up
	// until another AddTask signalled. A harmless extra root event every 2 ms
	// keeps C10 independent of that property; kick events have their own root
	// monitors and therefore their own queue - they never mix with the cascades
	// under test and are dropped from the trace.
	stopKick := make(chan struct{})
	kickDone := make(chan struct{})
	go func() {
		defer close(kickDone)
		tk := time.NewTicker(2 * time.Millisecond)
		defer tk.Stop()
		for {
			select {
			case <-stopKick:
				return
			case <-tk.C:
				proc.AddEvent(engine.NewEvent("ev-kick", []string{"c10kick"}, nil), nil)
			}
		}
	}()

	obs.waitErr = make([]string, len(c.Roots))
	var wg sync.WaitGroup
	for i, k := range c.Roots {
		wg.Add(1)
		go func(i, k int) {
			defer wg.Done()
			defer func() {
				if r := recover(); r != nil {
					f := hx.PanicFailure(r, 3)
					rec.mu.Lock()
					if rec.panic == nil {
						rec.panic = f
					}
					rec.mu.Unlock()
				}
			}()
			ev := engine.NewEvent(eventName(k), kindPath(k), map[interface{}]interface{}{"id": "c" + strconv.Itoa(i)})
			m, err := proc.AddEventAndWait(ev, roots[i])
			if err != nil {
				obs.waitErr[i] = "error: " + err.Error()
			} else if m == nil {
				obs.waitErr[i] = "the root event was skipped (nil monitor)"
			}
		}(i, k)
	}
	done := make(chan struct{})
	go func() { wg.Wait(); close(done) }()

	timer := time.NewTimer(waitBound)
	defer timer.Stop()
	finished := false
	select {
	case <-done:
		finished = true
	case <-timer.C:
	}
	close(stopKick)
	<-kickDone

	if !finished {
		rec.mu.Lock()
		pf := rec.panic
		nActs := len(rec.acts)
		rec.mu.Unlock()
		go proc.Finish() // may never return; never waited for
		if pf != nil {
			return obs, pf, false
		}
		noteInconclusive("wait-bound", fmt.Sprintf("AddEventAndWait did not return within %v (%d actions recorded)", waitBound, nActs))
		return obs, nil, true
	}

	var fail *hx.Failure
	for i := range roots {
		i := i
		if f := hx.Guard(func() {
			obs.finalHP = append(obs.finalHP, roots[i].HighestPriority())
			obs.errs = append(obs.errs, roots[i].AllErrors())
		}); f != nil && fail == nil {
			fail = f
		}
	}
	proc.Finish()

	rec.mu.Lock()
	pf := rec.panic
	rec.mu.Unlock()
	if pf != nil {
		return obs, pf, false
	}
	return obs, fail, false
}

// ---------------------------------------------------------------------------
// evaluation

type eventInfo struct {
	path      string
	cascade   int
	kind      int
	prio      int
	monID     uint64
	triggered bool      // expected to trigger (kind has rules)
	skipped   bool      // observed: AddEvent returned nil
	acts      []*actRec // executed rules in start order
	actPre    int64     // activation window: stamps around the AddEvent call (0,0 for roots:
	actEnd    int64     // a root is activated before its event is queued)
}

func prios(c Case, idx []int) string {
	var s []string
	for _, i := range idx {
		f := ""
		if c.Rules[i].Fail {
			f = "!"
		}
		s = append(s, fmt.Sprintf("%s(p%d%s)", ruleName(i), c.Rules[i].Prio, f))
	}
	return "[" + strings.Join(s, " ") + "]"
}

func runCase(in Case) *hx.Failure {
	c, reason := normalise(in)
	if reason != "" {
		hx.E.Exclude(reason)
		return nil
	}
	if len(inconclusive) > 0 {
		// the shard is going to be reported as inconclusive anyway: do not
		// spend another wait bound on every further case
		hx.E.Exclude("not-run.after-inconclusive")
		return nil
	}
	kb, _ := json.Marshal(c)
	key := string(kb)

	hx.WriteInflight(c)
	obs, fail, incon := execute(c)
	hx.ClearInflight()
	if incon {
		return nil
	}
	if fail != nil {
		hx.E.Case(false, key, "aborted")
		return fail
	}
	f, nontrivial, classes := evaluate(c, obs)
	if c.Reused {
		classes = append(classes, "processor.reused-after-reset")
	}
	hx.E.Case(nontrivial, key, classes...)
	if nontrivial {
		hx.E.Sample(key, map[string]interface{}{"case": c, "classes": classes})
	}
	return f
}

func evaluate(c Case, obs *observation) (fail *hx.Failure, nontrivial bool, classes []string) {
	cl := map[string]bool{}
	defer func() {
		for k := range cl {
			classes = append(classes, k)
		}
		sort.Strings(classes)
	}()
	setFail := func(f *hx.Failure) {
		if fail == nil {
			fail = f
		}
	}

	if c.Workers == 1 {
		cl["workers.1"] = true
	} else {
		cl["workers.2-8"] = true
	}
	if c.FailFirst {
		cl["failfirst.on"] = true
	} else {
		cl["failfirst.off"] = true
	}
	cl[fmt.Sprintf("cascades.%d", len(c.Roots))] = true

	by := rulesByKind(c.Rules)
	rec := obs.rec
	acts := append([]*actRec(nil), rec.acts...)
	sort.Slice(acts, func(i, j int) bool { return acts[i].start < acts[j].start })

	for i, w := range obs.waitErr {
		if w != "" {
			return hx.Failf("root-event-not-processed", "cascade c%d: AddEventAndWait: %s", i, w), false, nil
		}
	}

	// ---- event table: roots + everything the executed actions added
	events := map[string]*eventInfo{}
	byMon := map[uint64]*eventInfo{}
	for i, k := range c.Roots {
		e := &eventInfo{path: "c" + strconv.Itoa(i), cascade: i, kind: k, prio: 0, monID: obs.rootIDs[i], triggered: true}
		events[e.path] = e
		byMon[e.monID] = e
	}
	for _, a := range acts {
		for _, ad := range a.adds {
			e := &eventInfo{path: ad.path, cascade: cascadeOf(ad.path), kind: ad.kind, prio: ad.prio, monID: ad.monID,
				triggered: len(by[ad.kind]) > 0, skipped: ad.skipped, actPre: ad.pre, actEnd: ad.end}
			if _, dup := events[e.path]; dup {
				// the same (event, rule) ran twice: reported below as a duplicate execution
				continue
			}
			events[e.path] = e
			byMon[e.monID] = e
			if ad.err != nil {
				setFail(hx.Failf("add-event-error", "AddEvent for %s (kind %s) inside %s of %s returned an error: %v", ad.path, kindName(ad.kind), ruleName(a.ruleIdx), a.path, ad.err))
			}
			if e.triggered == e.skipped {
				setFail(hx.Failf("add-outcome", "event %s of kind %s (rules on that kind: %d): AddEvent returned nil monitor = %v", ad.path, kindName(ad.kind), len(by[ad.kind]), ad.skipped))
			}
		}
	}
	if fail != nil {
		return
	}
	for _, a := range acts {
		e := events[a.path]
		if e == nil {
			return hx.Failf("unknown-event-processed", "an action of %s ran for event %q which no executed action added", ruleName(a.ruleIdx), a.path), false, nil
		}
		if e.skipped {
			return hx.Failf("skipped-event-processed", "%s ran for event %s which AddEvent reported as skipped", ruleName(a.ruleIdx), a.path), false, nil
		}
		if a.monID != e.monID || a.monPrio != e.prio {
			return hx.Failf("wrong-monitor", "action %s of %s ran with monitor %d (priority %d); the event was added with monitor %d (priority %d)", ruleName(a.ruleIdx), a.path, a.monID, a.monPrio, e.monID, e.prio), false, nil
		}
		e.acts = append(e.acts, a)
	}

	paths := make([]string, 0, len(events))
	for p := range events {
		paths = append(paths, p)
	}
	sort.Strings(paths)

	// ---- per event: (a) sequential + priority order, (d) prefix rule; expected errors
	wantErrs := map[errKey]bool{}
	nProcessed, nSkipped := 0, 0
	for _, p := range paths {
		e := events[p]
		if e.skipped {
			nSkipped++
			continue
		}
		trig := by[e.kind]
		if len(e.acts) == 0 {
			setFail(hx.Failf("added-event-not-processed", "event %s (kind %s, priority %d, triggering rules %s) was added but none of its rules ran before the cascade was reported finished", p, kindName(e.kind), e.prio, prios(c, trig)))
			continue
		}
		nProcessed++
		var ex []int
		seen := map[int]bool{}
		for i, a := range e.acts {
			ex = append(ex, a.ruleIdx)
			if c.Rules[a.ruleIdx].Kind != e.kind {
				setFail(hx.Failf("rule-not-triggered", "%s (kind %s) ran for event %s of kind %s", ruleName(a.ruleIdx), kindName(c.Rules[a.ruleIdx].Kind), p, kindName(e.kind)))
			}
			if seen[a.ruleIdx] {
				setFail(hx.Failf("rule-ran-twice", "%s ran twice for event %s", ruleName(a.ruleIdx), p))
			}
			seen[a.ruleIdx] = true
			if i > 0 {
				prev := e.acts[i-1]
				if prev.end > a.start {
					setFail(hx.Failf("actions-overlap", "event %s: %s [%d,%d] overlaps %s [%d,%d]", p, ruleName(prev.ruleIdx), prev.start, prev.end, ruleName(a.ruleIdx), a.start, a.end))
				}
				if c.Rules[prev.ruleIdx].Prio > c.Rules[a.ruleIdx].Prio {
					setFail(hx.Failf("rule-order", "event %s (workers %d): executed %s, not in ascending priority; triggered %s", p, c.Workers, prios(c, exUpTo(e.acts, i)), prios(c, trig)))
				}
			}
		}
		if fail != nil {
			continue
		}
		// classes
		ps := map[int]int{}
		for _, ri := range trig {
			ps[c.Rules[ri].Prio]++
		}
		if len(ps) >= 2 {
			cl["nt.rules-different-priority"] = true
		}
		for _, n := range ps {
			if n >= 2 {
				cl["rules.tie"] = true
			}
		}

		last := ex[len(ex)-1]
		firstFail := -1
		for i, ri := range ex {
			if c.Rules[ri].Fail {
				firstFail = i
				break
			}
		}
		if !c.FailFirst {
			if len(ex) != len(trig) {
				setFail(hx.Failf("rule-not-run", "fail-on-first-error off, event %s: executed %s of triggered %s", p, prios(c, ex), prios(c, trig)))
				continue
			}
			for _, ri := range trig {
				if c.Rules[ri].Fail {
					wantErrs[errKey{p, ruleName(ri)}] = true
				}
			}
			if firstFail >= 0 && firstFail < len(ex)-1 {
				cl["off.ran-after-failure"] = true
			}
		} else {
			if firstFail >= 0 && firstFail < len(ex)-1 {
				setFail(hx.Failf("ran-after-failure", "fail-on-first-error on, event %s: executed %s - %s failed but further rules ran", p, prios(c, ex), ruleName(ex[firstFail])))
				continue
			}
			if firstFail < 0 && len(ex) != len(trig) {
				setFail(hx.Failf("stopped-without-failure", "fail-on-first-error on, event %s: executed %s of triggered %s although no executed rule failed", p, prios(c, ex), prios(c, trig)))
				continue
			}
			if firstFail >= 0 {
				wantErrs[errKey{p, ruleName(last)}] = true
				// rules which did not run must not have a higher priority than the failing one
				for _, ri := range trig {
					if !seen[ri] && c.Rules[ri].Prio < c.Rules[last].Prio {
						setFail(hx.Failf("prefix-skips-higher-priority", "fail-on-first-error on, event %s: executed %s, but %s (priority %d) never ran", p, prios(c, ex), ruleName(ri), c.Rules[ri].Prio))
					}
				}
				switch {
				case len(ex) < len(trig) && len(ex) == 1:
					cl["on.stopped-at-first-rule"] = true
				case len(ex) < len(trig):
					cl["on.stopped-in-the-middle"] = true
				default:
					cl["on.failed-at-last-rule"] = true
				}
				for _, ad := range e.acts[len(e.acts)-1].adds {
					if !ad.skipped {
						cl["on.failing-rule-added-events"] = true
					}
				}
			}
		}
		// skipped child next to a triggering one
		sk, tr := 0, 0
		for _, a := range e.acts {
			for _, ad := range a.adds {
				if ad.skipped {
					sk++
				} else {
					tr++
				}
			}
		}
		if sk > 0 {
			cl["skipped-child"] = true
		}
		if sk > 0 && tr > 0 {
			cl["nt.skipped-next-to-triggering"] = true
		}
	}
	if fail != nil {
		return
	}
	cl["events."+bucket(nProcessed)] = true
	if nSkipped > 0 {
		cl["events.some-skipped"] = true
	}

	// ---- error report
	gotErrs := map[errKey]bool{}
	for ci, list := range obs.errs {
		seenEv := map[string]bool{}
		for _, te := range list {
			p := pathOf(te.Event)
			if cascadeOf(p) != ci {
				setFail(hx.Failf("error-report-foreign", "AllErrors() of cascade c%d reports event %s", ci, p))
			}
			if seenEv[p] {
				setFail(hx.Failf("error-report-duplicate", "AllErrors() of cascade c%d reports event %s twice", ci, p))
			}
			seenEv[p] = true
			for rn := range te.ErrorMap {
				gotErrs[errKey{p, rn}] = true
			}
		}
	}
	for k := range wantErrs {
		if !gotErrs[k] {
			setFail(hx.Failf("error-report-missing", "fail-on-first-error %v: %s failed for event %s but AllErrors() does not report it (reported: %v)", c.FailFirst, k.rule, k.path, errList(gotErrs)))
		}
	}
	for k := range gotErrs {
		if !wantErrs[k] {
			setFail(hx.Failf("error-report-extra", "fail-on-first-error %v: AllErrors() reports %s for event %s; expected %v", c.FailFirst, k.rule, k.path, errList(wantErrs)))
		}
	}
	if len(wantErrs) > 0 {
		cl["errors.reported"] = true
	}
	if fail != nil {
		return
	}

	// ---- (b) dequeue trace against the model multiset per root
	type qItem struct {
		prio, seq int
		e         *eventInfo
	}
	queues := map[uint64][]qItem{}
	pushes, pops := map[string]int{}, map[string]int{}
	seq := 0
	maxQ := 0
	for _, tr := range rec.trace {
		e := byMon[tr.mon]
		if e == nil {
			return hx.Failf("trace-unknown-monitor", "queue operation (pop=%v root=%d priority=%d monitor=%d) for a monitor which no recorded action created", tr.pop, tr.root, tr.prio, tr.mon), false, nil
		}
		if tr.prio != e.prio || tr.root != obs.rootIDs[e.cascade] {
			return hx.Failf("trace-wrong-priority", "event %s was added with priority %d in cascade c%d; the queue saw priority %d root %d", e.path, e.prio, e.cascade, tr.prio, tr.root), false, nil
		}
		if e.skipped {
			return hx.Failf("skipped-event-queued", "event %s was reported as skipped but was queued", e.path), false, nil
		}
		q := queues[tr.root]
		if !tr.pop {
			pushes[e.path]++
			queues[tr.root] = append(q, qItem{tr.prio, seq, e})
			seq++
			if len(queues[tr.root]) > maxQ {
				maxQ = len(queues[tr.root])
			}
			continue
		}
		pops[e.path]++
		if len(q) == 0 {
			return hx.Failf("dequeue-not-queued", "event %s was dequeued but the model queue of cascade c%d is empty", e.path, e.cascade), false, nil
		}
		min, at := 0, -1
		pset := map[int]int{}
		for i, it := range q {
			pset[it.prio]++
			if it.prio < q[min].prio || (it.prio == q[min].prio && it.seq < q[min].seq) {
				min = i
			}
			if it.e == e {
				at = i
			}
		}
		if len(pset) >= 2 {
			cl["nt.queued-different-priority"] = true
		}
		if pset[q[min].prio] >= 2 {
			cl["queue.tie"] = true
		}
		if at < 0 {
			return hx.Failf("dequeue-not-queued", "event %s was dequeued but is not in the model queue of cascade c%d", e.path, e.cascade), false, nil
		}
		if at != min {
			var qs []string
			for _, it := range q {
				qs = append(qs, fmt.Sprintf("%s(p%d,#%d)", it.e.path, it.prio, it.seq))
			}
			sig := "dequeue-not-lowest-priority"
			if q[at].prio == q[min].prio {
				sig = "dequeue-not-oldest-among-equals"
			}
			return hx.Failf(sig, "workers %d: a worker took %s (priority %d, push #%d) while cascade c%d had queued %v - expected %s", c.Workers, e.path, q[at].prio, q[at].seq, e.cascade, qs, q[min].e.path), false, nil
		}
		queues[tr.root] = append(append([]qItem(nil), q[:at]...), q[at+1:]...)
	}
	for _, p := range paths {
		e := events[p]
		if e.skipped {
			continue
		}
		if pushes[p] != 1 || pops[p] != 1 {
			return hx.Failf("trace-count", "event %s: %d queue pushes and %d pops (expected one each)", p, pushes[p], pops[p]), false, nil
		}
	}
	cl["maxqueue."+bucket(maxQ)] = true

	// ---- (b') one worker: complete processing order per cascade, no hooks
	if c.Workers == 1 {
		for ci := range c.Roots {
			var order []*eventInfo // observed: by first action
			for _, p := range paths {
				e := events[p]
				if e.cascade == ci && !e.skipped && len(e.acts) > 0 {
					order = append(order, e)
				}
			}
			sort.Slice(order, func(i, j int) bool { return order[i].acts[0].start < order[j].acts[0].start })
			type sItem struct {
				prio, seq int
				e         *eventInfo
			}
			q := []sItem{{0, 0, events["c"+strconv.Itoa(ci)]}}
			sq := 1
			var predicted []string
			for pos := 0; len(q) > 0; pos++ {
				min := 0
				for i, it := range q {
					if it.prio < q[min].prio || (it.prio == q[min].prio && it.seq < q[min].seq) {
						min = i
					}
				}
				cur := q[min].e
				q = append(q[:min], q[min+1:]...)
				predicted = append(predicted, fmt.Sprintf("%s(p%d)", cur.path, cur.prio))
				if pos >= len(order) || order[pos] != cur {
					var got []string
					for _, o := range order {
						got = append(got, fmt.Sprintf("%s(p%d)", o.path, o.prio))
					}
					return hx.Failf("one-worker-order", "one worker, cascade c%d: processing order %v differs from the documented policy at position %d: expected %v...", ci, got, pos, predicted), false, nil
				}
				// children in the order in which the executed rules added them
				for _, a := range cur.acts {
					for _, ad := range a.adds {
						if !ad.skipped {
							q = append(q, sItem{ad.prio, sq, events[ad.path]})
							sq++
						}
					}
				}
			}
		}
	}

	// ---- (c) HighestPriority
	for i, hp := range obs.finalHP {
		if hp != -1 {
			return hx.Failf("highest-priority-after-finish", "cascade c%d: HighestPriority() = %d after the cascade finished; expected -1", i, hp), false, nil
		}
	}
	nSamples := 0
	if c.Workers == 1 {
		for ci := range c.Roots {
			active := map[string]int{"c" + strconv.Itoa(ci): 0}
			cur := ""
			for _, a := range acts {
				if cascadeOf(a.path) != ci {
					continue
				}
				if a.path != cur {
					if cur != "" {
						delete(active, cur) // one worker: the previous event's task has finished
					}
					cur = a.path
				}
				check := func(k int, what string) *hx.Failure {
					nSamples++
					want := -1
					for _, p := range active {
						if want < 0 || p < want {
							want = p
						}
					}
					if a.hp[k].v != want {
						var as []string
						for p, pr := range active {
							as = append(as, fmt.Sprintf("%s(p%d)", p, pr))
						}
						sort.Strings(as)
						sig := "highest-priority"
						if a.hp[k].v == -1 {
							sig = "highest-priority:-1-while-active"
						}
						return hx.Failf(sig, "one worker, cascade c%d, inside %s of event %s %s: HighestPriority() = %d; activated unfinished monitors %v => expected %d", ci, ruleName(a.ruleIdx), a.path, what, a.hp[k].v, as, want)
					}
					return nil
				}
				if f := check(0, "at the start of the action"); f != nil {
					return f, false, nil
				}
				for j, ad := range a.adds {
					what := fmt.Sprintf("after adding triggering child %s (priority %d)", ad.path, ad.prio)
					if !ad.skipped {
						active[ad.path] = ad.prio
					} else {
						what = fmt.Sprintf("after adding skipped child %s (priority %d)", ad.path, ad.prio)
					}
					if f := check(j+1, what); f != nil {
						return f, false, nil
					}
				}
			}
		}
		cl["hp.exact"] = true
	}
	// Any number of workers: bracket every sample. The finish stamps are taken
	// inside the root monitor's lock (hook monitor.finished.locked) and
	// HighestPriority() takes the same lock, so relative to a reading with stamps
	// [t0,t1] a monitor is certainly counted if its activation was complete before
	// t0 and its finish stamp is later than t1, and possibly counted if its
	// activation began before t1 and its finish stamp is later than t0.
	perCascade := make([][]*eventInfo, len(c.Roots))
	for _, p := range paths {
		if e := events[p]; !e.skipped && e.cascade >= 0 && e.cascade < len(c.Roots) {
			perCascade[e.cascade] = append(perCascade[e.cascade], e)
		}
	}
	for _, a := range acts {
		ci := cascadeOf(a.path)
		for k, smp := range a.hp {
			if c.Workers > 1 {
				nSamples++
			}
			lo, hi := -1, -1 // lo: minimum over the possibly counted, hi: over the certainly counted
			var certain, possible []string
			for _, e := range perCascade[ci] {
				fin, done := rec.finish[e.monID]
				if e.actPre < smp.t1 && (!done || fin > smp.t0) {
					if lo < 0 || e.prio < lo {
						lo = e.prio
					}
					possible = append(possible, fmt.Sprintf("%s(p%d)", e.path, e.prio))
				}
				// the activation is complete when AddEvent has returned in the adding
				// action - or earlier, once a worker has started to process the event
				actDone := e.actEnd
				if len(e.acts) > 0 && e.acts[0].start < actDone {
					actDone = e.acts[0].start
				}
				if actDone < smp.t0 && (!done || fin > smp.t1) {
					if hi < 0 || e.prio < hi {
						hi = e.prio
					}
					certain = append(certain, fmt.Sprintf("%s(p%d)", e.path, e.prio))
				}
			}
			if hi < 0 {
				// the running event itself is always certainly counted
				return hx.Failf("harness:bracket", "no certainly active monitor for a sample inside %s of %s", ruleName(a.ruleIdx), a.path), false, nil
			}
			if smp.v < lo || smp.v > hi {
				sig := "highest-priority:bracket"
				if smp.v == -1 {
					sig = "highest-priority:-1-while-active"
				}
				return hx.Failf(sig, "workers %d, cascade c%d, inside %s of event %s, sample %d: HighestPriority() = %d; monitors certainly activated and unfinished at that moment %v, possibly %v => expected a value in [%d,%d]", c.Workers, ci, ruleName(a.ruleIdx), a.path, k, smp.v, certain, possible, lo, hi), false, nil
			}
			if lo != hi {
				cl["hp.bracket-open"] = true
			}
		}
	}
	hx.E.Class("hp.samples", int64(nSamples))
	hx.E.Class("actions", int64(len(acts)))
	hx.E.Class("dequeues", int64(len(rec.trace)/2))

	nontrivial = cl["nt.rules-different-priority"] || cl["nt.queued-different-priority"] || cl["nt.skipped-next-to-triggering"]
	return
}

func exUpTo(acts []*actRec, i int) []int {
	var r []int
	for _, a := range acts[:i+1] {
		r = append(r, a.ruleIdx)
	}
	return r
}

type errKey struct{ path, rule string }

func errList(m map[errKey]bool) []string {
	s := []string{}
	for k := range m {
		s = append(s, k.path+":"+k.rule)
	}
	sort.Strings(s)
	return s
}

func bucket(n int) string {
	switch {
	case n <= 1:
		return "1"
	case n <= 3:
		return "2-3"
	case n <= 7:
		return "4-7"
	case n <= 15:
		return "8-15"
	default:
		return "16+"
	}
}

// ---------------------------------------------------------------------------
// tests

func TestRegress(t *testing.T) {
	hx.Regress(t, runCase)
	failInconclusive(t)
}

// rep is n additions of an event of the given kind and priority
func rep(n, kind, prio int) []Add {
	var out []Add
	for i := 0; i < n; i++ {
		out = append(out, Add{Kind: kind, Prio: prio})
	}
	return out
}

// directed shapes, each run with workers {1,4} x fail-on-first-error {off,on}
func directedCases() []Case {
	shapes := []Case{
		// a skipped child of priority 0 next to the running root event
		{Rules: []RuleSpec{{Kind: 0, Prio: 0, Adds: []Add{{Kind: 5, Prio: 0}}}}, Roots: []int{0}},
		// skipped children next to triggering ones of the same and of other priorities
		{Rules: []RuleSpec{{Kind: 0, Prio: 0, Adds: []Add{{Kind: 1, Prio: 2}, {Kind: 5, Prio: 2}, {Kind: 1, Prio: 3}, {Kind: 4, Prio: 1}}}, {Kind: 1, Prio: 0, Adds: []Add{{Kind: 5, Prio: 3}}}}, Roots: []int{0}},
		// rules of different priority declared in descending order, the middle one fails after adding an event
		{Rules: []RuleSpec{{Kind: 0, Prio: 5}, {Kind: 0, Prio: 3, Fail: true, Adds: []Add{{Kind: 1, Prio: 1}}}, {Kind: 0, Prio: 1}, {Kind: 1, Prio: 0}}, Roots: []int{0}},
		// children queued in descending priority with ties
		{Rules: []RuleSpec{{Kind: 0, Prio: 0, Adds: []Add{{Kind: 1, Prio: 5}, {Kind: 1, Prio: 3}, {Kind: 2, Prio: 3}, {Kind: 1, Prio: 0}}}, {Kind: 1, Prio: 0, Adds: []Add{{Kind: 2, Prio: 4}}}, {Kind: 2, Prio: 0}}, Roots: []int{0}},
		// all six priorities active at once, finishing in an order which exercises the removal from the priority heap
		{Rules: []RuleSpec{{Kind: 0, Prio: 0, Adds: []Add{{Kind: 1, Prio: 3}, {Kind: 1, Prio: 1}, {Kind: 1, Prio: 4}, {Kind: 1, Prio: 5}}}, {Kind: 0, Prio: 1, Adds: []Add{{Kind: 1, Prio: 2}}}, {Kind: 1, Prio: 0}}, Roots: []int{0}},
		// wide cascades: 18 events are queued for one cascade while the root event's rules still run (more than the
		// processor's queue-is-filling-up threshold of 10): equal priorities first, then lower and higher ones
		{Rules: []RuleSpec{{Kind: 0, Prio: 0, Adds: rep(6, 1, 1)}, {Kind: 0, Prio: 1, Adds: rep(6, 1, 1)}, {Kind: 0, Prio: 2, Adds: append(rep(4, 1, 5), rep(2, 1, 0)...)}, {Kind: 1, Prio: 0}}, Roots: []int{0}},
		// ... in descending priority
		{Rules: []RuleSpec{{Kind: 0, Prio: 0, Adds: append(rep(4, 1, 5), rep(2, 1, 4)...)}, {Kind: 0, Prio: 1, Adds: append(rep(3, 1, 3), rep(3, 1, 2)...)}, {Kind: 0, Prio: 2, Adds: append(rep(3, 1, 1), rep(3, 1, 0)...)}, {Kind: 1, Prio: 0}}, Roots: []int{0}},
		// ... every child adds a grandchild while the queue is still long; skipped events in between
		{Rules: []RuleSpec{{Kind: 0, Prio: 0, Adds: append(rep(5, 1, 2), rep(1, 5, 2)...)}, {Kind: 0, Prio: 1, Adds: append(rep(5, 1, 2), rep(1, 4, 0)...)}, {Kind: 0, Prio: 2, Adds: rep(6, 1, 3)}, {Kind: 1, Prio: 0, Adds: []Add{{Kind: 2, Prio: 1}, {Kind: 2, Prio: 4}}}, {Kind: 2, Prio: 0}}, Roots: []int{0}},
		// ... two wide cascades at once
		{Rules: []RuleSpec{{Kind: 0, Prio: 0, Adds: rep(6, 1, 1)}, {Kind: 0, Prio: 1, Adds: append(rep(3, 1, 4), rep(3, 1, 0)...)}, {Kind: 1, Prio: 0}}, Roots: []int{0, 0}},
		// three cascades at once
		{Rules: []RuleSpec{{Kind: 0, Prio: 1, Adds: []Add{{Kind: 1, Prio: 4}, {Kind: 1, Prio: 2}}}, {Kind: 0, Prio: 0, Fail: true}, {Kind: 1, Prio: 2, Fail: true}, {Kind: 1, Prio: 2}}, Roots: []int{0, 0, 1}},
	}
	var out []Case
	for _, s := range shapes {
		for _, w := range []int{1, 4} {
			for _, ff := range []bool{false, true} {
				c := s
				c.Workers, c.FailFirst = w, ff
				out = append(out, c)
			}
		}
	}
	return out
}

var violated bool

func TestExhaustive(t *testing.T) {
	cases := directedCases()
	hx.Enumerate(t, "directed", func(yield func(Case) bool) {
		for _, c := range cases {
			if !yield(c) {
				return
			}
		}
	}, func(c Case) *hx.Failure {
		f := runCase(c)
		violated = violated || f != nil
		return f
	})
	hx.E.Exhaustive("directed", map[string]interface{}{"cases": len(cases), "what": "10 fixed cascade shapes (4 wide ones: 12-18 events queued for one cascade while the root event's rules still run; skipped child next to the running root; skipped next to triggering siblings; failing middle rule which adds an event; descending priorities with ties; six priorities active at once; three cascades) x workers {1,4} x fail-on-first-error {off,on}"})
	if violated {
		return
	}

	// Two-level cascades with one worker, enumerated completely: the root event
	// adds one child with priority a; that child adds the events b1..bn (all
	// triggering, leaves); every sequence of finish / activate operations on
	// the priority bookkeeping which such a cascade can produce is covered, and
	// every dequeue decision over the queued b's.
	maxRep, maxDistinct := 4, 6
	if hx.Thorough() {
		maxRep = 6
	}
	n := hx.Enumerate(t, "two-level", func(yield func(Case) bool) {
		for a := 0; a <= maxPrio; a++ {
			b := []int{}
			var rec func() bool
			rec = func() bool {
				distinct := true
				seen := map[int]bool{}
				for _, p := range b {
					if seen[p] {
						distinct = false
					}
					seen[p] = true
				}
				if len(b) <= maxRep || (distinct && len(b) <= maxDistinct) {
					c := Case{Workers: 1, Roots: []int{0}, Rules: []RuleSpec{
						{Kind: 0, Prio: 0, Adds: []Add{{Kind: 1, Prio: a}}},
						{Kind: 1, Prio: 0},
						{Kind: 2, Prio: 0},
					}}
					for _, p := range b {
						c.Rules[1].Adds = append(c.Rules[1].Adds, Add{Kind: 2, Prio: p})
					}
					if !yield(c) {
						return false
					}
				}
				if len(b) >= maxDistinct || (!distinct && len(b) >= maxRep) {
					return true
				}
				for p := 0; p <= maxPrio; p++ {
					b = append(b, p)
					if !rec() {
						return false
					}
					b = b[:len(b)-1]
				}
				return true
			}
			if !rec() {
				return
			}
		}
	}, func(c Case) *hx.Failure {
		f := runCase(c)
		violated = violated || f != nil
		return f
	})
	_ = n
	hx.E.Exhaustive("two-level", map[string]interface{}{"workers": 1, "child_priority": "0..5", "grandchildren": fmt.Sprintf("every priority sequence over 0..5 up to length %d, and every sequence of pairwise different priorities up to length %d", maxRep, maxDistinct)})
	failInconclusive(t)
}

// The generator draws self-contained rule records (rapid can delete a whole
// rule or a whole add while shrinking) and resolves the references between
// them (which deeper kinds have a rule) afterwards.
// rulePriority maps the rule priority index 0..maxPrio of a case to the number given to the engine: order preserving, with
// numbers of different digit counts (a comparison of the printed numbers would order 10 before 2 and 100 before 25)
var rulePriority = [maxPrio + 1]int{0, 2, 9, 10, 25, 100}

type addDraw struct {
	Prio int // priority, or index into the unused priorities if the rule spreads
	Trig int // < 3: a deeper kind which has a rule (if any); 3: a kind without a rule
	Pick int // which of the candidate kinds
}

type ruleDraw struct {
	Kind   int
	Prio   int
	Fail   bool
	Spin   int
	Spread bool // the children of this action get pairwise different priorities
	Adds   []addDraw
}

var genAdd = rapid.Custom(func(t *rapid.T) addDraw {
	return addDraw{
		Prio: rapid.IntRange(0, maxPrio).Draw(t, "aprio"),
		Trig: rapid.IntRange(0, 3).Draw(t, "atrig"),
		Pick: rapid.IntRange(0, 5).Draw(t, "apick"),
	}
})

var genRule = rapid.Custom(func(t *rapid.T) ruleDraw {
	r := ruleDraw{
		Kind:   rapid.IntRange(0, nRuleKinds-1).Draw(t, "kind"),
		Prio:   rapid.IntRange(0, maxPrio).Draw(t, "prio"),
		Fail:   rapid.IntRange(0, 3).Draw(t, "fail") == 3,
		Spin:   rapid.IntRange(0, 2).Draw(t, "spin"),
		Spread: rapid.IntRange(0, 1).Draw(t, "spread") == 1,
	}
	lo, hi := 0, 4
	switch rapid.IntRange(0, 9).Draw(t, "shape") {
	case 8, 9: // wide fan
		lo, hi = 5, maxAdds
	case 7: // may be a leaf
	default:
		lo = 1
	}
	r.Adds = rapid.SliceOfN(genAdd, lo, hi).Draw(t, "adds")
	return r
})

func drawCase(rt *rapid.T) Case {
	c := Case{Workers: 1}
	if rapid.IntRange(0, 9).Draw(rt, "multi") < 5 {
		c.Workers = rapid.IntRange(2, 8).Draw(rt, "workers")
	}
	c.FailFirst = rapid.Bool().Draw(rt, "failfirst")
	c.Reused = rapid.IntRange(0, 3).Draw(rt, "reused") == 0
	// rapid prefers the first elements / small numbers: the common shapes come first
	topKind := rapid.SampledFrom([]int{1, 2, 3, 1, 2, 3, 1, 2, 3, 0}).Draw(rt, "topkind")
	minRules := 2
	if rapid.IntRange(0, 15).Draw(rt, "single") == 15 {
		minRules = 1
	}
	draws := rapid.SliceOfN(genRule, minRules, 8).Draw(rt, "rules")
	for i, d := range draws {
		// the first rule is on the root kind, the second on the deepest one
		kind := 0
		if i == 1 {
			kind = topKind
		} else if i > 1 {
			kind = d.Kind % (topKind + 1)
		}
		c.Rules = append(c.Rules, RuleSpec{Kind: kind, Prio: d.Prio, Fail: d.Fail, Spin: d.Spin})
	}
	by := rulesByKind(c.Rules)
	var kinds []int
	for k := 0; k < nRuleKinds; k++ {
		if len(by[k]) > 0 {
			kinds = append(kinds, k)
		}
	}
	for i, d := range draws {
		r := &c.Rules[i]
		// deeper kinds with / without a rule
		var trig, non []int
		for k := r.Kind + 1; k < nKinds; k++ {
			if len(by[k]) > 0 {
				trig = append(trig, k)
			} else {
				non = append(non, k)
			}
		}
		pool := []int{0, 1, 2, 3, 4, 5}
		for _, a := range d.Adds {
			ad := Add{Prio: a.Prio}
			if d.Spread {
				k := a.Prio % len(pool)
				ad.Prio = pool[k]
				pool = append(pool[:k:k], pool[k+1:]...)
			}
			if len(trig) > 0 && a.Trig < 3 {
				ad.Kind = trig[a.Pick%len(trig)]
			} else {
				ad.Kind = non[a.Pick%len(non)]
			}
			r.Adds = append(r.Adds, ad)
		}
	}
	nroots := 1
	if rapid.IntRange(0, 2).Draw(rt, "multiroot") == 2 {
		nroots = rapid.IntRange(2, 3).Draw(rt, "nroots")
	}
	for i := 0; i < nroots; i++ {
		// mostly the lowest kind with a rule (deepest cascade)
		if rapid.IntRange(0, 3).Draw(rt, "rootlow") < 3 {
			c.Roots = append(c.Roots, kinds[0])
		} else {
			c.Roots = append(c.Roots, rapid.SampledFrom(kinds).Draw(rt, "rootkind"))
		}
	}
	// keep the cascade inside the size cap by construction: drop the last add of
	// the last rule which still has one
	for size(c) > maxEvents {
		trimmed := false
		for i := len(c.Rules) - 1; i >= 0 && !trimmed; i-- {
			if n := len(c.Rules[i].Adds); n > 0 {
				c.Rules[i].Adds = c.Rules[i].Adds[:n-1]
				trimmed = true
			}
		}
		if !trimmed {
			break
		}
		hx.E.Class("gen.trimmed-add", 1)
	}
	return c
}

func TestProp(t *testing.T) {
	if violated {
		t.Skip("the directed cases already found a violation (its replay file is kept)")
	}
	hx.Check(t, drawCase, runCase)
	failInconclusive(t)
}
