package c06

// (e) sink declarations whose attributes take arbitrary members of U, and
// events whose state values / scope arguments are arbitrary members of U.
//
// Two sinks are declared: "good" (kind c06.good, logs a marker) and "bad"
// (the sink under test). The events of the case are sent first, a harmless
// c06.good event follows.
//
// direct path (default): the declaration runs bare on the calling goroutine;
// every event goes through what addEvent and the worker do - argument
// conversion as in addevent.addEvent, Processor.IsTriggering, Monitor.Activate,
// Processor.ProcessEvent, Monitor.SetErrors / Finish - on the calling goroutine
// under recover (the worker path minus the loop).
//
// pool path (Pool=true): one ECAL program declares the sinks (the one under
// test inside try) and sends the events with addEventAndWait, so the sink
// bodies run on a real pool worker. A panic there kills the process: the case
// is written ahead (hx.WriteInflight).
//
// Oracle: no panic; declaration problems come back as error values; errors are
// reported for sink "bad" only; the following c06.good event is processed
// (marker logged once more, no error reported); no worker is lost.

import (
	"fmt"
	"strconv"
	"strings"

	"github.com/krotik/ecal/engine"
	"pgregory.net/rapid"

	"verif/internal/hx"
)

// SinkCase is the sink part of a case.
type SinkCase struct {
	Attrs  []string `json:"attrs"` // source of kindmatch, scopematch, statematch, priority, suppresses of sink "bad" ("" = absent)
	Body   string   `json:"body"`
	Events []EvCase `json:"events"`
	Pool   bool     `json:"pool,omitempty"`
}

// EvCase is one event; every field is ECAL source.
type EvCase struct {
	Name  string `json:"name"`
	Kind  string `json:"kind"`
	State string `json:"state"`
	Scope string `json:"scope,omitempty"` // "" = no fourth argument
}

var attrNames = []string{"kindmatch", "scopematch", "statematch", "priority", "suppresses"}

const (
	goodMarker = "c06-good-ran"
	badMarker  = "c06-bad-ran"
	openC01    = "C01-unhashable-state"
)

func sinkDecl(name string, attrs []string, body string) string {
	var b strings.Builder
	b.WriteString("sink " + name + "\n")
	var parts []string
	for i, a := range attrs {
		if a != "" {
			parts = append(parts, "    "+attrNames[i]+" "+a)
		}
	}
	b.WriteString(strings.Join(parts, ",\n"))
	b.WriteString("\n{\n" + body + "\n}\n")
	return b.String()
}

func goodDecl() string {
	return sinkDecl("good", []string{`["c06.good"]`}, `    log("`+goodMarker+`")`)
}

func badDecl(s *SinkCase) string {
	return sinkDecl("bad", s.Attrs, `    log("`+badMarker+`")`+"\n"+s.Body)
}

func (e EvCase) args() string {
	if e.State == "" {
		// fewer arguments than documented (pool path only)
		if e.Kind == "" {
			return e.Name
		}
		return e.Name + ", " + e.Kind
	}
	a := e.Name + ", " + e.Kind + ", " + e.State
	if e.Scope != "" {
		a += ", " + e.Scope
	}
	return a
}

// sink bodies; event.state.v is the state value under test
var sinkBodies = []cval{
	{"ok", "    x := 1"},
	{"raise", "    raise(\"T\", \"d\", event.state)"},
	{"raise0", "    raise()"},
	{"plus", "    x := event.state.v + 1"},
	{"index", "    x := event.state.v[5]"},
	{"neg-index-write", "    x := event.state.v\n    x[-5] := 1"},
	{"eq", "    x := event.state.v == event.state.v"},
	{"in", "    x := event.state.v in [event.state.v]"},
	{"mapkey", "    x := {event.state.v : 1}"},
	{"mod0", "    x := 5 % 0"},
	{"iterate", "    for [a, b] in event.state.v {\n        x := a\n    }"},
	{"return", "    return event.state.v"},
	{"break", "    break"},
	{"call", "    event.state.v()"},
	{"del", "    x := del(event.state.v, 5)"},
	{"add", "    x := add(event.state.v, 1, 5)"},
	{"doc", "    x := doc(event.state.v)"},
	{"event-write", "    event.state.v.a := 1\n    event.kind[0] := 1"},
	{"add-event", "    addEvent(\"child\", \"c06.other\", {\"v\" : event.state.v})\n    addEvent(event.state.v, event.state.v, event.state.v, event.state.v)"},
	{"try-inside", "    try {\n        raise(event.state.v)\n    } except e {\n        x := e.type\n    } finally {\n        event.state.v[5]\n    }"},
	// the sink changes the event object it was given (whatever the sender passed as state)
	{"state-write", "    event.state.seen := true\n    event.state[\"k\"] := [event.state.seen]"},
	{"event-replace", "    event.name := [1]\n    event.state := {\"v\" : 1}\n    event.kind := null"},
	{"state-iterate-len", "    for [k, v] in event.state {\n        x := k\n    }\n    x := len(event.state)"},
}

var eventWritingBodies = map[string]bool{"state-write": true, "event-replace": true, "state-iterate-len": true, "event-write": true}

func runSink(c Case) *hx.Failure {
	s := c.Sink
	classes := []string{"kind." + c.Kind}
	if s.Pool {
		classes = append(classes, "sink.pool")
	} else {
		classes = append(classes, "sink.direct")
	}
	nontrivial := false
	finish := func(f *hx.Failure, extra ...string) *hx.Failure {
		classes = append(classes, extra...)
		if f != nil {
			nontrivial = true
			classes = append(classes, "outcome.violation")
		}
		hx.E.Case(nontrivial, c.Key, classes...)
		if nontrivial {
			hx.E.Sample(c.Key, map[string]interface{}{"kind": c.Kind, "sink": s, "classes": strings.Join(classes, " ")})
		}
		return f
	}
	if s.Pool {
		return finish(runSinkPool(c, &classes, &nontrivial))
	}
	return finish(runSinkDirect(c, &classes, &nontrivial))
}

func runSinkDirect(c Case, classes *[]string, nontrivial *bool) *hx.Failure {
	s := c.Sink
	src := goodDecl() + badDecl(s)
	o := exec(src, 0, true)
	defer o.close()
	if o.panicked != nil {
		*classes = append(*classes, "decl.panic")
		return o.panicked
	}
	*classes = append(*classes, "decl."+o.stage())
	if err := o.anyErr(); err != nil {
		*nontrivial = true
		*classes = append(*classes, "error."+errClass(err))
	}
	if o.perr != nil || o.verr != nil {
		return nil // nothing was declared
	}
	proc := o.erp.Processor
	tid := o.erp.NewThreadID()

	send := func(name string, kind []string, state map[interface{}]interface{}, scope *engine.RuleScope) (map[string]error, *hx.Failure) {
		var errs map[string]error
		f := hx.Guard(func() {
			ev := engine.NewEvent(name, kind, state)
			if !proc.IsTriggering(ev) {
				return
			}
			mon := proc.NewRootMonitor(nil, scope)
			mon.Activate(ev)
			errs = proc.ProcessEvent(tid, ev, mon)
			if len(errs) > 0 {
				te := &engine.TaskError{ErrorMap: errs, Event: ev, Monitor: mon}
				mon.SetErrors(te)
				for _, e := range errs {
					_ = e.Error()
				}
			}
			mon.Finish()
			for _, te := range mon.RootMonitor().AllErrors() {
				_ = te.Error()
			}
		})
		return errs, f
	}

	type sent struct {
		name  string
		kind  []string
		state map[interface{}]interface{}
		scope *engine.RuleScope
		ran   int
		nerr  int
	}
	var first *sent
	for i, e := range s.Events {
		// evaluate the four arguments the way the interpreter would
		a := exec("ev := ["+e.Name+", "+e.Kind+", "+e.State+", "+orNull(e.Scope)+"]\n", 0, false)
		if a.panicked != nil {
			return a.panicked
		}
		if a.anyErr() != nil {
			*classes = append(*classes, "event.arguments-fail")
			continue
		}
		v, _, _ := a.global.GetValue("ev")
		args := v.([]interface{})
		state, ok := args[2].(map[interface{}]interface{})
		if !ok {
			*classes = append(*classes, "event.rejected-state")
			*nontrivial = true
			continue
		}
		var scope *engine.RuleScope
		if e.Scope != "" {
			sm, ok := args[3].(map[interface{}]interface{})
			if !ok {
				*classes = append(*classes, "event.rejected-scope")
				*nontrivial = true
				continue
			}
			data := map[string]bool{}
			for k, v := range sm {
				b, _ := strconv.ParseBool(fmt.Sprint(v))
				data[fmt.Sprint(k)] = b
			}
			scope = engine.NewRuleScope(data)
		}
		before := o.logged(badMarker)
		errs, f := send(fmt.Sprint(args[0]), strings.Split(fmt.Sprint(args[1]), "."), state, scope)
		if f != nil {
			*classes = append(*classes, "event.panic")
			return f
		}
		ran := o.logged(badMarker) - before
		*classes = append(*classes, fmt.Sprintf("event.bad-ran-%d", ran))
		for name, err := range errs {
			*nontrivial = true
			*classes = append(*classes, "sink-error."+errClass(err))
			if name != "bad" {
				return hx.Failf("sink-poisons-processor", "event %d: sink %q is reported failed (%v); only sink bad can fail\n%s", i, name, err, src)
			}
		}
		if len(errs) > 0 && ran == 0 {
			return hx.Failf("sink-poisons-processor", "event %d: errors %v reported although sink bad did not run\n%s", i, errs, src)
		}
		if first == nil {
			first = &sent{fmt.Sprint(args[0]), strings.Split(fmt.Sprint(args[1]), "."), state, scope, ran, len(errs)}
		}
	}

	// a failed invocation fails only that invocation: the same event sent again is handled like the first time
	if first != nil && !strings.Contains(s.Body, "event.state.v.a := 1") { // (the body which changes the event itself aside)
		before := o.logged(badMarker)
		errs, f := send(first.name, first.kind, first.state, first.scope)
		if f != nil {
			return f
		}
		if ran := o.logged(badMarker) - before; ran != first.ran || len(errs) != first.nerr {
			return hx.Failf("sink-poisons-processor", "the first event sent again: sink bad ran %d times with %d errors, the first time %d times with %d errors\n%s", ran, len(errs), first.ran, first.nerr, src)
		}
	}

	// the following event
	before := o.logged(goodMarker)
	errs, f := send("follow", []string{"c06", "good"}, map[interface{}]interface{}{}, nil)
	if f != nil {
		return f
	}
	if len(errs) != 0 || o.logged(goodMarker) != before+1 {
		return hx.Failf("sink-poisons-processor", "the following c06.good event: errors=%v, marker logged %d times (want 1)\n%s", errs, o.logged(goodMarker)-before, src)
	}
	o.checkWorkers()
	if o.workerLoss != "" {
		return hx.Failf("worker-died", "%s\n%s", o.workerLoss, src)
	}
	return nil
}

func orNull(s string) string {
	if s == "" {
		return "null"
	}
	return s
}

func poolProgram(s *SinkCase) string {
	var b strings.Builder
	b.WriteString(goodDecl())
	b.WriteString("try {\n" + badDecl(s) + "} except e {\n    log(\"c06-decl-error \", e.type)\n}\n")
	for i, e := range s.Events {
		fmt.Fprintf(&b, "r%d := null\ntry {\n    r%d := addEventAndWait(%s)\n} except e {\n    log(\"c06-event-error \", e.type)\n}\n", i, i, e.args())
	}
	b.WriteString("follow := addEventAndWait(\"follow\", \"c06.good\", {})\n")
	return b.String()
}

func runSinkPool(c Case, classes *[]string, nontrivial *bool) *hx.Failure {
	s := c.Sink
	src := poolProgram(s)
	hx.WriteInflight(c)
	o := exec(src, 0, true)
	hx.ClearInflight()
	defer o.close()
	if o.panicked != nil {
		*classes = append(*classes, "pool.panic")
		return o.panicked
	}
	*classes = append(*classes, "pool."+o.stage())
	if o.perr != nil || o.verr != nil {
		*nontrivial = true
		return nil
	}
	if o.logged("c06-decl-error") > 0 {
		*nontrivial = true
		*classes = append(*classes, "decl.eval-error")
	}
	if o.logged("c06-event-error") > 0 {
		*nontrivial = true
		*classes = append(*classes, "event.rejected")
	}
	if o.err != nil {
		return hx.Failf("sink-poisons-processor", "the following c06.good event could not be sent: %v\n%s", o.err, src)
	}
	for i := range s.Events {
		r, _, _ := o.global.GetValue(fmt.Sprintf("r%d", i))
		items, _ := r.([]interface{})
		for _, it := range items {
			m, _ := it.(map[interface{}]interface{})
			errs, _ := m["errors"].(map[interface{}]interface{})
			for name, e := range errs {
				*nontrivial = true
				if em, ok := e.(map[interface{}]interface{}); ok {
					if t := fmt.Sprint(em["type"]); ecalTypes[t] {
						*classes = append(*classes, "sink-error."+short(t))
					} else {
						*classes = append(*classes, "sink-error.raised-type")
					}
				}
				if name != "bad" {
					return hx.Failf("sink-poisons-processor", "event %d: sink %v is reported failed (%v); only sink bad can fail\n%s", i, name, e, src)
				}
			}
		}
	}
	follow, _, _ := o.global.GetValue("follow")
	if l, ok := follow.([]interface{}); !ok && follow != nil || len(l) != 0 {
		return hx.Failf("sink-poisons-processor", "the following c06.good event reported errors: %v\n%s", follow, src)
	}
	if n := o.logged(goodMarker); n != 1 {
		return hx.Failf("sink-poisons-processor", "the sink of the following c06.good event ran %d times (want 1)\n%s", n, src)
	}
	o.checkWorkers()
	if o.workerLoss != "" {
		return hx.Failf("worker-died", "%s\n%s", o.workerLoss, src)
	}
	return nil
}

// ---------------------------------------------------------------------------
// construction

// stateContainer reports whether a case puts a list / map where the engine
// hashes a value: as a statematch value or as the value of an event state
// entry while a state index exists (open finding of C01).
func usesStateContainer(smIdx, evIdx int) bool {
	return smIdx >= 0 && U[smIdx].container() || evIdx >= 0 && U[evIdx].container()
}

func mkSink(key string, attrs []string, body cval, pool bool, evs ...EvCase) Case {
	k := "sink:" + key + ":" + body.Name
	if pool {
		k += ":pool"
	}
	return Case{Kind: "sink", Key: k, Sink: &SinkCase{Attrs: attrs, Body: body.Lit, Events: evs, Pool: pool}}
}

func defaultAttrs() []string { return []string{`["c06.bad"]`, "", "", "", ""} }

func sinkMatrix(yield func(Case) bool) {
	n := 0
	both := func(c Case) bool {
		if !yield(c) {
			return false
		}
		n++
		if n%9 == 0 || hx.Thorough() {
			p := *c.Sink
			p.Pool = true
			c2 := c
			c2.Sink = &p
			c2.Key += ":pool"
			return yield(c2)
		}
		return true
	}
	plain := EvCase{`"e"`, `"c06.bad"`, `{"v" : 1}`, ""}
	// (i) every attribute x U
	for a := range attrNames {
		for u := range U {
			attrs := defaultAttrs()
			attrs[a] = U[u].Lit
			c := mkSink(attrNames[a]+"="+U[u].Name, attrs, sinkBodies[1], false, plain)
			if a == 2 && hx.KnownOpen(openC01) && U[u].Name == `{"k":{"n":[1]}}` {
				c.Skip = "known." + openC01
			}
			if !both(c) {
				return
			}
		}
	}
	// (ii) statematch value x event state value
	for sm := range U {
		for ev := range U {
			attrs := defaultAttrs()
			attrs[2] = `{"v" : ` + U[sm].Lit + `}`
			c := mkSink("statematch.v="+U[sm].Name+",state.v="+U[ev].Name, attrs, sinkBodies[1], false,
				EvCase{`"e"`, `"c06.bad"`, `{"v" : ` + U[ev].Lit + `}`, ""})
			if hx.KnownOpen(openC01) && usesStateContainer(sm, ev) {
				c.Skip = "known." + openC01
			}
			if !both(c) {
				return
			}
		}
	}
	// (iii) scope argument and scope values; name and kind
	for u := range U {
		attrs := defaultAttrs()
		attrs[1] = `["a"]`
		for _, e := range []EvCase{
			{`"e"`, `"c06.bad"`, `{"v" : 1}`, U[u].Lit},
			{`"e"`, `"c06.bad"`, `{"v" : 1}`, `{"a" : ` + U[u].Lit + `}`},
			{`"e"`, `"c06.bad"`, `{"v" : 1}`, `{` + U[u].Lit + ` : true, "a" : true}`},
			{U[u].Lit, U[u].Lit, `{"v" : 1}`, ""},
			{`"e"`, `"c06.bad"`, U[u].Lit, ""},
			{`"e"`, `"c06.bad"`, `{` + U[u].Lit + ` : ` + U[u].Lit + `}`, ""},
		} {
			if U[u].container() && strings.HasPrefix(e.Scope+e.State, "{"+U[u].Lit+" :") {
				continue // a container as map key is covered by the directed sets (mapkey)
			}
			if !both(mkSink("event("+e.args()+")", attrs, sinkBodies[1], false, e)) {
				return
			}
		}
	}
	// (v) sinks which write into / walk over the event they were given x every form of the state ARGUMENT of the
	// sender (every member of U, and fewer arguments than documented), always through the real addEventAndWait on a
	// pool worker: whatever the sender is allowed to pass must be safe for the sink to use
	for _, b := range sinkBodies {
		if !eventWritingBodies[b.Name] {
			continue
		}
		evs := []EvCase{{`"e"`, `"c06.bad"`, "", ""}, {`"e"`, "", "", ""}}
		for u := range U {
			evs = append(evs, EvCase{`"e"`, `"c06.bad"`, U[u].Lit, ""})
		}
		for _, e := range evs {
			if !yield(mkSink("event("+e.args()+")", defaultAttrs(), b, true, e)) {
				return
			}
		}
	}
	// (iv) sink bodies x state value
	for _, b := range sinkBodies {
		for u := range U {
			if !both(mkSink("state.v="+U[u].Name, defaultAttrs(), b, false, EvCase{`"e"`, `"c06.bad"`, `{"v" : ` + U[u].Lit + `}`, ""})) {
				return
			}
		}
	}
}

func drawSink(rt *rapid.T) Case {
	pick := func(n int, l string) int { return rapid.IntRange(0, n-1).Draw(rt, l) }
	wellTyped := []string{`["c06.bad"]`, `["a"]`, `{"v" : 1}`, "2", `["good2"]`}
	attrs := make([]string, 5)
	var sig []string
	smContainer := false
	hasSM := false
	for a := range attrs {
		switch k := pick(10, "attr"); {
		case a == 0 && k < 6, a != 0 && k < 3:
			attrs[a] = wellTyped[a]
			sig = append(sig, attrNames[a])
		case k < 6:
			// absent
		case a == 2 && k < 8:
			u := drawU(rt, "smv")
			attrs[a] = `{"v" : ` + U[u].Lit + `, "w" : null}`
			sig = append(sig, "statematch.v="+U[u].Name)
			smContainer = smContainer || U[u].container()
		default:
			u := drawU(rt, "attru")
			attrs[a] = U[u].Lit
			sig = append(sig, attrNames[a]+"="+U[u].Name)
			smContainer = smContainer || a == 2 && U[u].Name == `{"k":{"n":[1]}}`
		}
		hasSM = hasSM || a == 2 && attrs[a] != ""
	}
	body := sinkBodies[pick(len(sinkBodies), "body")]
	var evs []EvCase
	evContainer := false
	for i, n := 0, 1+pick(3, "nev"); i < n; i++ {
		e := EvCase{`"e"`, `"c06.bad"`, "", ""}
		if pick(6, "evname") == 0 {
			e.Name = U[drawU(rt, "evn")].Lit
		}
		switch pick(6, "evkind") {
		case 0:
			e.Kind = U[drawU(rt, "evk")].Lit
		case 1:
			e.Kind = `"a"`
		}
		switch k := pick(6, "evstate"); {
		case k == 0:
			u := drawU(rt, "evs")
			e.State = U[u].Lit
			sig = append(sig, "state="+U[u].Name)
			if U[u].Kind == "map" {
				evContainer = evContainer || U[u].Name == `{"k":{"n":[1]}}`
			}
		case k == 1:
			e.State = `{"w" : 2}`
		default:
			u, w := drawU(rt, "evsv"), drawU(rt, "evsw")
			e.State = `{"v" : ` + U[u].Lit + `, "w" : ` + U[w].Lit + `}`
			sig = append(sig, "state.v="+U[u].Name, "state.w="+U[w].Name)
			evContainer = evContainer || U[u].container() || U[w].container()
		}
		switch pick(6, "evscope") {
		case 0:
			u := drawU(rt, "evsc")
			e.Scope = U[u].Lit
			sig = append(sig, "scope="+U[u].Name)
		case 1:
			u := drawU(rt, "evscv")
			e.Scope = `{"a" : ` + U[u].Lit + `, "" : true}`
			sig = append(sig, "scope.a="+U[u].Name)
		case 2:
			e.Scope = `{"a" : true}`
		}
		evs = append(evs, e)
	}
	c := mkSink(strings.Join(sig, ","), attrs, body, pick(10, "pool") < 3, evs...)
	if hx.KnownOpen(openC01) && (smContainer || hasSM && evContainer) {
		c.Skip = "known." + openC01
	}
	return c
}
