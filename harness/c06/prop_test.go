// C06 - no ECAL program, sink attribute or event can crash the host process.
//
// Oracle: totality. Parsing, validating and evaluating a candidate on the
// calling goroutine under recover must give back a (value, error) pair - no
// panic, no lost worker. Every candidate is run twice: bare, and wrapped as
//
//	caught := null
//	try { <candidate> } except e { caught := e.type }
//
// In the wrapped form no error may escape the try statement and, if the bare
// run raised an error, caught must be set. Sink cases are described in
// sink_test.go.
//
// Domains (DESIGN 4/C06): (a) every built-in x argument vectors of length 0..2
// over U (exhaustive) and 3..4 (random), range also as loop iterator; (b) all
// 19 binary and 3 prefix operators x operand pairs over U (exhaustive);
// (c) container access / assignment / call with every index kind, destructuring,
// guards, map literal keys, add / del indices, raise / try shapes, new with
// malformed templates (exhaustive directed sets); (d) generated programs
// (c04 / c05 grammars) with sub-expressions replaced by members of U (random);
// (e) sink attributes and event states / scopes over U; (f) FuzzEval (bytes).
package c06

import (
	"fmt"
	"strings"
	"testing"

	"github.com/krotik/common/timeutil"
	"pgregory.net/rapid"

	"github.com/krotik/ecal/util"

	"verif/internal/erun"
	"verif/internal/hx"
	"verif/internal/lang"
)

const rule = "case = one candidate (ECAL statement(s), or sink declaration + events) run bare and wrapped in try/except on the calling goroutine under recover (sink bodies additionally on the real pool); non-trivial = the candidate reached a failure path: the bare or wrapped run ended with an error value (parse, validate or runtime error, error reported for a sink invocation) or the except clause saw an error; distinct by (construct, operand value classes) signature: built-in name + argument members of U, operator + operand members, access form + container + index kinds, mutated positions + inserted members for generated programs, attribute / state / scope members for sinks"

// Case is one candidate.
type Case struct {
	Kind   string    `json:"kind"`
	Pre    string    `json:"pre,omitempty"`    // trusted prelude: binds members of U / containers to variables
	Src    string    `json:"src"`              // the candidate
	Key    string    `json:"key"`              // (construct, operand kinds) signature
	Budget int       `json:"budget,omitempty"` // step budget for candidates which may loop (0 = none)
	Skip   string    `json:"skip,omitempty"`   // excluded by construction: reason
	Sink   *SinkCase `json:"sink,omitempty"`
}

func TestMain(m *testing.M) { hx.Main(m, "C06", rule) }

// bareSrc puts the candidate after the prelude. The semicolon keeps a candidate which
// starts with a prefix operator from continuing the last prelude statement.
func bareSrc(c Case) string {
	if c.Pre == "" {
		return c.Src
	}
	return c.Pre + ";" + c.Src
}

func wrap(c Case) string {
	return c.Pre + "caught := null\ntry {\n" + c.Src + "\n} except e {\n    caught := e.type\n}\n"
}

func runCase(c Case) *hx.Failure {
	if c.Skip != "" {
		hx.E.Exclude(c.Skip)
		return nil
	}
	if c.Sink != nil {
		return runSink(c)
	}
	// a runtime abort (stack overflow through a cyclic structure, concurrent map access) cannot be
	// recovered: the case is written ahead so that the driver can report it (crash:inflight)
	hx.WriteInflight(c)
	defer hx.ClearInflight()
	classes := []string{"kind." + c.Kind}
	nontrivial := false
	finish := func(f *hx.Failure, extra ...string) *hx.Failure {
		classes = append(classes, extra...)
		if f != nil {
			nontrivial = true
			classes = append(classes, "outcome.violation")
		}
		hx.E.Case(nontrivial, c.Key, classes...)
		if nontrivial {
			hx.E.Sample(c.Key, map[string]interface{}{"kind": c.Kind, "pre": c.Pre, "src": c.Src, "classes": strings.Join(classes, " ")})
		}
		return f
	}
	discard := func(reason string) *hx.Failure {
		hx.E.Case(false, c.Key, append(classes, "outcome.discarded")...)
		hx.E.Exclude(reason)
		return nil
	}

	// bare
	bare := exec(bareSrc(c), c.Budget, false)
	if bare.exhausted() {
		return discard("unspecified.step-budget-exhausted")
	}
	if bare.sawCycle() {
		return discard("known.C06-cyclic-container-print")
	}
	if bare.panicked != nil {
		return finish(bare.panicked, "bare.panic")
	}
	if bare.workerLoss != "" {
		return finish(hx.Failf("worker-died", "%s after\n%s", bare.workerLoss, bareSrc(c)))
	}
	berr := bare.anyErr()
	bareRaised := false
	classes = append(classes, "bare."+bare.stage())
	if berr != nil {
		nontrivial = true
		if bare.stage() == "eval-error" {
			if isControl(bare.err) {
				classes = append(classes, "bare.control-signal")
			} else {
				bareRaised = true
				classes = append(classes, "error."+errClass(bare.err))
			}
		}
	}
	if bare.perr != nil {
		return finish(nil)
	}

	// wrapped
	w := exec(wrap(c), c.Budget, false)
	if w.exhausted() {
		return discard("unspecified.step-budget-exhausted")
	}
	if w.sawCycle() {
		return discard("known.C06-cyclic-container-print")
	}
	if w.panicked != nil {
		return finish(w.panicked, "wrapped.panic")
	}
	if w.workerLoss != "" {
		return finish(hx.Failf("worker-died", "%s after\n%s", w.workerLoss, wrap(c)))
	}
	if w.perr != nil || w.verr != nil {
		// an error value came back before anything was evaluated
		nontrivial = true
		return finish(nil, "wrapped."+w.stage())
	}
	if w.err != nil {
		if isControl(w.err) {
			return discard("unspecified.control-signal-leaves-candidate")
		}
		return finish(hx.Failf("not-catchable:"+errClass(w.err), "the error escaped try/except: %v\n%s", w.err, wrap(c)))
	}
	caught, _, _ := w.global.GetValue("caught")
	if caught != nil {
		nontrivial = true
		classes = append(classes, "wrapped.caught")
	} else {
		classes = append(classes, "wrapped.no-error")
		// (a source which asks for the time or a random number may take another path in its second run)
		if bareRaised && !strings.Contains(c.Src, "rand") && !strings.Contains(c.Src, "now") && !strings.Contains(c.Src, "timestamp") {
			return finish(hx.Failf("not-catchable:"+errClass(bare.err), "the bare candidate failed with %v, inside try the except clause did not see an error\n%s", bare.err, wrap(c)))
		}
	}
	return finish(nil)
}

var ecalTypes = map[string]bool{}

func init() {
	for _, e := range []error{util.ErrRuntimeError, util.ErrUnknownConstruct, util.ErrInvalidConstruct, util.ErrInvalidState, util.ErrVarAccess, util.ErrNotANumber,
		util.ErrNotABoolean, util.ErrNotAList, util.ErrNotAMap, util.ErrNotAListOrMap, util.ErrSink, util.ErrIsIterator} {
		ecalTypes[e.Error()] = true
	}
}

// errClass buckets an error for the class histogram: the built-in ECAL error
// types by name, raised types as one class, Go errors by their Go type.
func errClass(err error) string {
	t, _, _, _, ok := erun.ErrInfo(err)
	switch {
	case !ok:
		return "go." + short(t)
	case ecalTypes[t]:
		return short(t)
	}
	return "raised-type"
}

// short makes an error type usable as a class label / signature part.
func short(s string) string {
	s = strings.Map(func(r rune) rune {
		switch {
		case r >= 'a' && r <= 'z', r >= 'A' && r <= 'Z', r >= '0' && r <= '9':
			return r
		}
		return '-'
	}, s)
	if len(s) > 40 {
		s = s[:40]
	}
	return s
}

func TestRegress(t *testing.T) { hx.Regress(t, runCase) }

// ---------------------------------------------------------------------------
// (a) built-ins

// vectors enumerates all index vectors of length n over U.
func vectors(n int, f func([]int) bool) bool {
	v := make([]int, n)
	var rec func(i int) bool
	rec = func(i int) bool {
		if i == n {
			return f(append([]int{}, v...))
		}
		for k := range U {
			v[i] = k
			if !rec(i + 1) {
				return false
			}
		}
		return true
	}
	return rec(0)
}

// goString is what fmt.Sprint gives for U[i] inside the interpreter.
func goString(i int) string {
	u := U[i]
	switch u.Kind {
	case "str":
		return strings.Trim(u.Lit, `"`)
	case "num":
		return fmt.Sprint(u.N)
	case "null":
		return "<nil>"
	case "bool":
		return u.Lit
	case "func":
		return "ecal.function: (Line 1, Pos 1)"
	}
	// containers: only the number of space separated fields matters for the cron spec test;
	// evaluate it for real
	return fmt.Sprint(uGo(i))
}

var uGoCache = map[int]interface{}{}

// uGo evaluates the literal of U[i] once (trusted prelude path) and returns the Go value.
func uGo(i int) interface{} {
	if v, ok := uGoCache[i]; ok {
		return v
	}
	o := exec("x := "+U[i].Lit+"\n", 0, false)
	if o.anyErr() != nil || o.panicked != nil {
		panic(fmt.Sprintf("c06: universe member %s does not evaluate: %v %v", U[i].Name, o.anyErr(), o.panicked))
	}
	v, _, _ := o.global.GetValue("x")
	uGoCache[i] = v
	return v
}

// builtinSkip returns the reason a call must not be executed (it would block
// for long or start something which cannot be stopped), "" otherwise.
func builtinSkip(fn string, v []int) string {
	switch fn {
	case "sleep":
		if len(v) > 0 && U[v[0]].Num && U[v[0]].N > 1000 {
			return "by-design.sleep-longer-than-1ms"
		}
	case "setPulseTrigger":
		// starts a goroutine which lives as long as the process once the arguments pass validation
		if len(v) > 2 && U[v[0]].Num {
			return "by-design.pulse-trigger-starts-immortal-goroutine"
		}
	case "setCronTrigger":
		if len(v) > 2 {
			if _, err := timeutil.NewCronSpec(goString(v[0])); err == nil {
				return "by-design.cron-trigger-registers-permanent-job"
			}
		}
	}
	return ""
}

func argList(v []int, asVar []bool) (string, string, []int) {
	var src, names []string
	var used []int
	for i, k := range v {
		if i < len(asVar) && asVar[i] {
			src = append(src, uvar(k))
			used = append(used, k)
		} else {
			src = append(src, U[k].Lit)
		}
		names = append(names, U[k].Name)
	}
	return strings.Join(src, ", "), strings.Join(names, ","), used
}

func builtinCase(fn string, v []int, asVar []bool) Case {
	args, names, used := argList(v, asVar)
	return Case{Kind: "builtin", Pre: prelude(used...), Src: fn + "(" + args + ")", Key: "builtin:" + fn + "(" + names + ")", Skip: builtinSkip(fn, v)}
}

// rangeLoopCase uses range as a loop iterator; the body leaves the loop after three rounds.
func rangeLoopCase(v []int, asVar []bool, destructure bool) Case {
	args, names, used := argList(v, asVar)
	head := "for i in range(" + args + ") {\n"
	key := "loop:range("
	if destructure {
		head = "for [i, j] in range(" + args + ") {\n"
		key = "loop-destructure:range("
	}
	return Case{Kind: "loop", Pre: prelude(used...) + "n := 0\n", Src: head + "    n := n + 1\n    if n > 3 {\n        break\n    }\n}", Key: key + names + ")"}
}

// maxVector is the length up to which argument vectors are enumerated completely.
func maxVector() int {
	if hx.Thorough() {
		return 3
	}
	return 2
}

func builtinMatrix(yield func(Case) bool) {
	for _, fn := range builtins() {
		for n := 0; n <= maxVector(); n++ {
			if !vectors(n, func(v []int) bool { return yield(builtinCase(fn, v, nil)) }) {
				return
			}
		}
	}
	// standard library functions with 0..1 arguments
	erun.Setup()
	for _, fn := range stdlibFuncs() {
		for n := 0; n <= 1; n++ {
			if !vectors(n, func(v []int) bool {
				c := builtinCase(fn, v, nil)
				c.Kind, c.Key = "stdlib", "std"+c.Key
				return yield(c)
			}) {
				return
			}
		}
	}
	// numbers which only arithmetic produces (infinities, NaN, negative zero) in every argument position
	for _, fn := range builtins() {
		for _, sp := range specials {
			for pos := 0; pos < 3; pos++ {
				args := []string{"[1, 2, 3]", "9", "1"}[:pos+1]
				args[pos] = sp.Lit
				c := Case{Kind: "builtin", Src: fn + "(" + strings.Join(args, ", ") + ")", Key: fmt.Sprintf("builtin:%s(arg%d=%s)", fn, pos, sp.Name)}
				if fn == "sleep" || fn == "setPulseTrigger" && pos == 2 {
					c.Skip = "by-design.sleep-or-pulse-with-non-finite-duration"
				}
				if !yield(c) {
					return
				}
			}
		}
	}
	for n := 0; n <= 2; n++ {
		if !vectors(n, func(v []int) bool {
			if !yield(rangeLoopCase(v, nil, false)) {
				return false
			}
			return n != 1 || yield(rangeLoopCase(v, nil, true))
		}) {
			return
		}
	}
}

// ---------------------------------------------------------------------------
// (b) operators

func opMatrix(yield func(Case) bool) {
	for _, op := range lang.BinOps {
		for l := range U {
			for r := range U {
				c := Case{Kind: "op", Src: operand(l) + " " + op.Sym + " " + operand(r), Key: "op:" + op.Name + "(" + U[l].Name + "," + U[r].Name + ")"}
				if !yield(c) {
					return
				}
			}
		}
	}
	for _, op := range lang.BinOps {
		for _, sp := range specials {
			for x := range U {
				if !yield(Case{Kind: "op", Src: sp.Lit + " " + op.Sym + " " + operand(x), Key: "op:" + op.Name + "(" + sp.Name + "," + U[x].Name + ")"}) ||
					!yield(Case{Kind: "op", Src: operand(x) + " " + op.Sym + " " + sp.Lit, Key: "op:" + op.Name + "(" + U[x].Name + "," + sp.Name + ")"}) {
					return
				}
			}
			for _, sp2 := range specials {
				if !yield(Case{Kind: "op", Src: sp.Lit + " " + op.Sym + " " + sp2.Lit, Key: "op:" + op.Name + "(" + sp.Name + "," + sp2.Name + ")"}) {
					return
				}
			}
		}
	}
	for _, op := range []struct{ name, sym string }{{"minus", "-"}, {"plus", "+"}, {"not", "not "}} {
		for x := range U {
			if !yield(Case{Kind: "prefix", Src: op.sym + operand(x), Key: "prefix:" + op.name + "(" + U[x].Name + ")"}) {
				return
			}
			// through a variable (the error detail path differs for identifiers)
			if !yield(Case{Kind: "prefix", Pre: prelude(x), Src: op.sym + uvar(x), Key: "prefix-var:" + op.name + "(" + U[x].Name + ")"}) {
				return
			}
		}
	}
}

// ---------------------------------------------------------------------------
// (c) container access, destructuring, guards, literals, add / del, raise, new

func accessMatrix(yield func(Case) bool) {
	for _, c := range containers {
		pre := bind("c", c.Lit)
		mk := func(form, src string, ks ...string) bool {
			return yield(Case{Kind: "access", Pre: pre, Src: src, Key: "access:" + form + "(" + c.Name + "," + strings.Join(ks, ",") + ")"})
		}
		for _, k := range indexKinds {
			if !mk("read", "c["+k.Lit+"]", k.Name) ||
				!mk("read-assign", "x := c["+k.Lit+"]", k.Name) ||
				!mk("write", "c["+k.Lit+"] := 9", k.Name) ||
				!mk("write-list", "c["+k.Lit+"] := [1]", k.Name) ||
				!mk("call", "c["+k.Lit+"]()", k.Name) ||
				!mk("call-args", "c["+k.Lit+"](1, c)", k.Name) ||
				!mk("read-dot", "c["+k.Lit+"].a", k.Name) ||
				!mk("write-dot", "c["+k.Lit+"].a := 9", k.Name) ||
				!mk("del", "del(c, "+k.Lit+")", k.Name) ||
				!mk("add", "add(c, 9, "+k.Lit+")", k.Name) ||
				!mk("del-assign", "c := del(c, "+k.Lit+")\nc["+k.Lit+"]", k.Name) ||
				!mk("add-assign", "c := add(c, 9, "+k.Lit+")\nc["+k.Lit+"]", k.Name) {
				return
			}
			second := indexKinds2
			if hx.Thorough() {
				second = indexKinds
			}
			for _, k2 := range second {
				if !mk("read2", "c["+k.Lit+"]["+k2.Lit+"]", k.Name, k2.Name) ||
					!mk("write2", "c["+k.Lit+"]["+k2.Lit+"] := 9", k.Name, k2.Name) {
					return
				}
			}
		}
		for _, f := range []struct{ form, src string }{
			{"dot-a", "c.a"}, {"dot-a-write", "c.a := 9"}, {"dot-a-call", "c.a()"}, {"dot-k-n", "c.k.n"}, {"dot-k-n-0", "c.k.n[0]"},
			{"dot-k-n-5", "c.k.n[5]"}, {"dot-k-n--5", "c.k.n[-5]"}, {"dot-k-n--5-write", "c.k.n[-5] := 1"}, {"dot-k-zz-y", "c.k.zz.y"},
			{"dot-k-zz-y-write", "c.k.zz.y := 1"}, {"dot-l--5", "c.l[-5]"}, {"dot-l--5-write", "c.l[-5] := 1"}, {"dot-a-b", "c.a.b"},
			{"dot-a-b-write", "c.a.b := 1"}, {"dot-a-b-c-write", "c.a.b.c := 1"}, {"dot-m-call", "c.m()"}, {"dot-m-call-idx", "c.m()[5]"}, {"dot-m-call-neg", "c.m()[-5]"},
			{"dot-x--9", "c.x[-9]"}, {"dot-x--9-write", "c.x[-9] := 1"}, {"call", "c()"}, {"call-args", "c(1, 2)"}, {"call-call", "c()()"},
			{"call-idx", "c()[0]"}, {"call-idx-5", "c()[5]"}, {"call-idx--5", "c()[-5]"}, {"call-dot", "c().x"}, {"call-idx-idx", "c()[0][-7]"},
			{"len", "len(c)"}, {"iter", "for x in c {\n    y := x\n}"}, {"iter2", "for [x, y] in c {\n    z := x\n}"},
			{"let-shadow", "let c := c\nc[0] := 1"}, {"self-insert", "c[0] := c\nc[0][0]"}, {"self-key", "c[c] := 1"},
			{"doc", "doc(c)"}, {"doc-call", "doc(c())"}, {"doc-idx", "doc(c[0])"}, {"doc-idx-neg", "doc(c[-9])"}, {"doc-dot", "doc(c.a)"}, {"doc-dot-dot", "doc(c.a.b)"},
			{"doc-dot-call", "doc(c.m())"}, {"doc-idx-idx", "doc(c[0][1])"}, {"doc-expr", "doc(c == null)"},
			{"interpolate", "\"{{c}} {{c[0]}} {{c[-9]}} {{c.a}}\""}, {"type", "type(c)"}, {"dumpenv", "dumpenv()"},
			{"new-from", "new(c)"}, {"new-self-super", "c.super := [c]\nnew(c)"}, {"new-cyclic-super", "d := {\"super\" : [c]}\nc.super := [d]\nnew(d)"},
			{"new-diamond-super", "new({\"super\" : [c, c]})"}, {"new-super", "new({\"super\" : [c]})"}, {"new-super-raw", "new({\"super\" : c})"}, {"new-init", "new({\"init\" : c})"}, {"new-init-args", "new({\"init\" : c}, 1, 2)"},
		} {
			if !mk(f.form, f.src) {
				return
			}
		}
	}
}

// shapes used on the value side of destructuring assignments and loops
var shapes = []cval{
	{"[[1]]", "[[1]]"}, {"[[1,2]]", "[[1, 2]]"}, {"[[1,2,3]]", "[[1, 2, 3]]"}, {"[1,[2,3]]", "[1, [2, 3]]"}, {"[[1,2],3]", "[[1, 2], 3]"}, {"[[1,2],[3]]", "[[1, 2], [3]]"},
	{"[1,2]", "[1, 2]"}, {"[null,null]", "[null, null]"}, {`{"a":[1,2]}`, `{"a" : [1, 2]}`}, {"{1:2}", "{1 : 2}"}, {"[[],[]]", "[[], []]"}, {`["ab","cd"]`, `["ab", "cd"]`},
	// strings which mean something to a regular expression, a format string, an interpolation or a path
	{"str-open-bracket", `"(a"`}, {"str-open-class", `"[a"`}, {"str-star", `"*a"`}, {"str-format-verbs", `"%d%s%!"`}, {"str-backslash", `"a\\"`}, {"str-braces", `r"{{"`},
	{"str-dots", `"../.."`}, {"str-newline", `"a\nb"`},
}

func directedSets(yield func(Case) bool) {
	// destructuring assignment and loop variables with every value shape
	vals := []cval{}
	for _, u := range U {
		vals = append(vals, cval{u.Name, u.Lit})
	}
	vals = append(vals, shapes...)
	for _, v := range vals {
		pre := bind("v", v.Lit)
		for _, f := range []struct{ form, src string }{
			{"multi2", "[a, b] := v"}, {"multi1", "[a] := v"}, {"multi0", "[] := v"}, {"multi3", "[a, b, c] := v"}, {"let-multi2", "let [a, b] := v"},
			{"multi-path", "m := {}\n[a, m.x] := v"}, {"multi-badpath", "[a, zz.x] := v"}, {"multi-idx", "l := [0]\n[l[0], l[5]] := v"}, {"multi-neg-idx", "l := [0]\n[l[-1], l[-5]] := v"},
			{"multi-nested", "[a, [b, c]] := v"}, {"multi-literal", "[a, 1] := v"}, {"multi-call", "[a, f()] := v"},
			{"for1", "for a in v {\n    b := a\n}"}, {"for2", "for [a, b] in v {\n    c := a\n}"}, {"for3", "for [a, b, c] in v {\n    d := a\n}"}, {"for0", "for [] in v {\n    d := 1\n}"},
			{"for-path", "m := {}\nfor m.x in v {\n    d := 1\n}"}, {"for-nested", "for [a, [b, c]] in v {\n    d := 1\n}"}, {"for-literal", "for 1 in v {\n    d := 1\n}"},
			{"for-idx", "l := [0]\nfor l[0] in v {\n    d := 1\n}"},
			{"if", "if v {\n    a := 1\n}"}, {"elif", "if false {\n    a := 1\n} elif v {\n    a := 2\n} else {\n    a := 3\n}"}, {"while", "for v {\n    break\n}"},
			{"while-not", "n := 0\nfor not v {\n    n := n + 1\n    if n > 2 {\n        break\n    }\n}"},
			{"mapkey", "{v : 1}"}, {"mapkey2", "{1 : 2, v : 3, v : 4}"}, {"mapkeyval", "m := {v : v}\nm[v]"}, {"map-write-key", "m := {}\nm[v] := 1\nm[v]"}, {"map-del-key", "m := {1 : 2}\ndel(m, v)"},
			{"list-elem", "[v, [v], {\"a\" : v}]"}, {"in-list", "v in [v]"}, {"notin-list", "v notin [[v]]"}, {"eq-self", "v == v"}, {"neq-self", "[v] != [v]"},
			{"return", "func f() {\n    return v\n}\nf()"}, {"default-param", "func f(a=v) {\n    return a\n}\nf()"}, {"param", "func f(a, b) {\n    return a\n}\nf(v)\nf(v, v, v)"}, {"default-fails", "func f(a=v[5], b=zz.y) {\n    return a\n}\nf(1)\nf()"},
			{"interpolate", "\"x{{v}}y\""}, {"raise-data", "raise(v, v, v)"}, {"raise-in-func", "func f() {\n    raise(v)\n}\nf()"},
			{"except-type", "try {\n    raise(\"N\")\n} except \"{{v}}\" {\n    a := 1\n} except e {\n    b := 1\n}"},
			{"except-type-second", "try {\n    a := 1 + \"x\"\n} except \"A\", \"{{v}}\" {\n    a := 1\n} except {\n    b := 1\n}"},
			{"except-type-only", "try {\n    raise(\"N\")\n} except \"{{v}}\" {\n    a := 1\n}"},
			{"like-pattern", "\"abc\" like v"}, {"like-subject", "v like \"a\""}, {"hasprefix", "v hasPrefix v"}, {"raise-type-caught-by-name", "try {\n    raise(v)\n} except \"{{v}}\" {\n    a := 1\n}"},
			{"import-path", "import \"{{v}}\" as x"}, {"mutex", "mutex m {\n    a := v + 1\n}"}, {"mutex-reenter", "mutex m {\n    mutex m {\n        a := v[5]\n    }\n}"},
			{"method-this", "o := new({\"x\" : v, \"get\" : func() {\n    return this.x[5]\n}})\no.get()"},
			{"super-call", "o := new({\"super\" : [{\"init\" : func(a) {\n    this.q := a[5]\n}}], \"init\" : func(a) {\n    super[0](a)\n    super[5](a)\n}}, v)"},
			{"super-not-func", "o := new({\"super\" : [{\"init\" : v}], \"init\" : func(a) {\n    super[0](a)\n}}, v)"},
			{"init-this-index", "o := new({\"init\" : func(a) {\n    this[a] := a\n}}, v)"},
		} {
			if !yield(Case{Kind: "directed", Pre: pre, Src: f.src, Key: "directed:" + f.form + "(" + v.Name + ")"}) {
				return
			}
		}
	}

	// the assignment target is read before the right side is evaluated and written afterwards: a right side
	// which changes the container in between reaches the bounds / kind checks of the write path on their own
	for _, to := range []cval{{"shorter-list", "del(l, 1)"}, {"empty-list", "[]"}, {"number", "5"}, {"null", "null"}, {"map", "{}"}, {"string", "\"ab\""}, {"list-of-scalars", "[1, 2]"}} {
		for _, target := range []string{"l[1][0]", "l[1]", "l[-2][0]", "l[-2]", "l[1][0][0]", "l[1][-1]", "[l[1][0], x]", "[x, l[-2]]"} {
			src := "l := [[[1]], [[2]]]\nfunc f() {\n    l := " + to.Lit + "\n    return [[9]]\n}\n" + target + " := f()"
			if strings.HasPrefix(target, "[") {
				src = strings.Replace(src, ":= f()", ":= [f(), f()]", 1)
			}
			if !yield(Case{Kind: "directed", Src: src, Key: "directed:target-changes-during-assignment(" + target + "," + to.Name + ")"}) {
				return
			}
		}
		for _, target := range []string{"m.a.b", "m.a", "m.a.b.c", "[m.a.b, x]"} {
			src := "m := {\"a\" : {\"b\" : {\"c\" : 1}}}\nfunc f() {\n    m := " + strings.Replace(to.Lit, "del(l, 1)", "{\"a\" : 1}", 1) + "\n    return 9\n}\n" + target + " := f()"
			if strings.HasPrefix(target, "[") {
				src = strings.Replace(src, ":= f()", ":= [f(), f()]", 1)
			}
			if !yield(Case{Kind: "directed", Src: src, Key: "directed:target-changes-during-assignment(" + target + "," + to.Name + ")"}) {
				return
			}
		}
	}

	// code inside an interpolated literal which parses but does not validate (or does not parse, or fails):
	// once, in a loop, in a function called twice, nested in another interpolation
	for _, sn := range []cval{{"map-entry-without-key", " {a} "}, {"map-entry-number", " {1} "}, {"loop-var-not-simple", "for a.b in [[]] {\n}"}, {"assign-to-number", "1 := 2"},
		{"assign-list-to-numbers", "[1, 2] := 3"}, {"parse-error", "1 +"}, {"runtime-error", "1 + [2]"}, {"sink-declaration", "sink s kindmatch [\\\"a\\\"] {\n}"}, {"return", "return 5"}, {"break", "break"}} {
		lit := "\"x{{" + sn.Lit + "}}y\""
		for _, f := range []struct{ form, src string }{
			{"once", "s := " + lit},
			{"loop", "for i in [1, 2, 3] {\n    s := " + lit + "\n}"},
			{"func-twice", "func f() {\n    return " + lit + "\n}\nf()\nf()"},
			{"in-condition-loop", "n := 0\nfor n < 2 {\n    n := n + 1\n    if " + lit + " == \"\" {\n        n := 5\n    }\n}"},
		} {
			if !yield(Case{Kind: "directed", Src: f.src, Key: "directed:interpolated-code(" + sn.Name + "," + f.form + ")"}) {
				return
			}
		}
	}

	// setCronTrigger with cron specs which pass validation (the provider's cron thread is stopped, nothing
	// fires) and with malformed ones
	for _, spec := range []string{"1 1 1 1 1 1", "* * * * * *", "*%2 *%3 *%5 *%7 *%11 *%3", "0,1,59 0-59 1 1 1 0", "*%1 * * * * *", "*%0 * * * * *", "*% * * * * *",
		"60 * * * * *", "* * * 0 * *", "* * * * 13 *", "* * * * * 7", "1 1 1 1 1", "1 1 1 1 1 1 1", "a b c d e f", "-1 * * * * *", "1.5 * * * * *", "*%a * * * * *", ", , , , , ,", "     ", ""} {
		for _, v := range []string{`"ev", "a.b"`, `null, null`, `[1], {}`, `"", ""`} {
			if !yield(Case{Kind: "directed", Src: "x := setCronTrigger(\"" + spec + "\", " + v + ")\nlog(x)", Key: "directed:cron(" + spec + ";" + v + ")"}) {
				return
			}
		}
	}

	// raise with 0..4 arguments and every try / except shape around it
	raises := []cval{
		{"0", "raise()"}, {"null", "raise(null)"}, {"str", "raise(\"T\")"}, {"str,str", "raise(\"T\", \"d\")"}, {"str,str,list", "raise(\"T\", \"d\", [1])"},
		{"str,str,list,num", "raise(\"T\", \"d\", [1], 4)"}, {"null,null,null", "raise(null, null, null)"}, {"list", "raise([1])"}, {"map,map,map", "raise({}, {}, {})"},
		{"func,func,func", "raise(raise, raise, raise)"}, {"num,list", "raise(1, [1])"}, {"empty-str", "raise(\"\")"}, {"runtime", "1 + \"a\""}, {"mod0", "5 % 0"},
		{"iterator-type", "raise(\"Function is an iterator\")"}, {"eoi-type", "raise(\"End of iteration was reached\")"}, {"continue-type", "raise(\"End of iteration step - Continue iteration\")"},
		{"return-type", "raise(\"*** return ***\")"}, {"range-call", "range(1)"}, {"like-bad-pattern", "\"a\" like \"(\""}, {"import-missing", "import \"nope\" as x"},
		{"import-broken", "import \"bad\" as x"}, {"import-failing", "import \"err\" as x"}, {"nested-raise", "try {\n    raise()\n} finally {\n    a := 1\n}"},
		{"through-function", "func ff() {\n    raise(\"T\", \"d\", [1])\n}\nff()"}, {"runtime-through-functions", "func f1() {\n    return 1 + \"a\"\n}\nfunc f2() {\n    return f1()\n}\nf2()"},
	}
	trys := []struct{ form, head, tail string }{
		{"bare", "", ""},
		{"except", "try {\n", "\n} except {\n    a := 1\n}"},
		{"except-var", "try {\n", "\n} except e {\n    a := [e.type, e.detail, e.error, e.pos, e.line, e.source, e.trace]\n    b := e.data\n}"},
		{"except-type", "try {\n", "\n} except \"T\" {\n    a := 1\n}"},
		{"except-type-as", "try {\n", "\n} except \"T\", \"\", \"<nil>\" as e {\n    a := e\n}"},
		{"except-interpolated-type", "try {\n", "\n} except \"{{1 + 'a'}}\", \"{{zz[5]}}\" as e {\n    a := e\n}"},
		{"except-reraise", "try {\n", "\n} except e {\n    raise(e.type, e.detail, e.data)\n}"},
		{"except-reraise-obj", "try {\n", "\n} except e {\n    raise(e)\n}"},
		{"except-fails", "try {\n", "\n} except e {\n    e.type[5]\n}"},
		{"finally", "try {\n", "\n} finally {\n    a := 1\n}"},
		{"finally-fails", "try {\n", "\n} finally {\n    raise()\n}"},
		{"otherwise", "try {\n", "\n} except \"zz\" {\n    a := 1\n} otherwise {\n    a := 2\n} finally {\n    a := 3\n}"},
		{"in-loop", "for i in [1, 2] {\n    try {\n", "\n    } except e {\n        continue\n    }\n}"},
		{"in-func", "func f() {\n    try {\n", "\n    } except e {\n        return e\n    }\n}\nx := f()\nlog(x)"},
		{"log-error", "try {\n", "\n} except e {\n    log(e)\n    error(e, e)\n    debug(e.type)\n}"},
	}
	// every field of the error object under equality, membership, map key, len, iteration, interpolation and arithmetic
	for _, f := range []string{"type", "detail", "error", "pos", "line", "source", "trace", "data", "nofield"} {
		for _, op := range []struct{ n, s string }{
			{"eq", "a := e.%s == e.%s"}, {"neq", "a := e.%s != [e.%s]"}, {"in", "a := e.%s in [e.%s, [e.%s]]"}, {"key", "a := {e.%s : 1}"}, {"len", "a := len(e.%s)"},
			{"iter", "for x in e.%s {\n        a := x\n    }"}, {"interp", "a := \"{{e.%s}}\""}, {"arith", "a := e.%s + 1"}, {"index", "a := e.%s[0]"}, {"concat", "a := concat(e.%s, e.%s)"},
		} {
			body := strings.ReplaceAll(op.s, "%s", f)
			trys = append(trys, struct{ form, head, tail string }{"except-field-" + f + "-" + op.n, "try {\n", "\n} except e {\n    " + body + "\n}"})
		}
	}
	for _, r := range raises {
		for _, t := range trys {
			if !yield(Case{Kind: "raise", Src: t.head + r.Lit + t.tail, Key: "raise:" + t.form + "(" + r.Name + ")"}) {
				return
			}
		}
	}
}

// ---------------------------------------------------------------------------

func TestExhaustive(t *testing.T) {
	hx.Enumerate(t, "builtins", builtinMatrix, runCase)
	hx.E.Exhaustive("builtins", map[string]interface{}{"functions": builtins(), "argument_vectors": fmt.Sprintf("length 0..%d over U; +-Inf, NaN, -0 in each of the first three positions", maxVector()), "stdlib_functions": "every standard library function x vectors of length 0..1", "range_as_loop_iterator": "vectors of length 0..2 (destructuring head for length 1)", "universe": universeNames()})
	hx.Enumerate(t, "operators", opMatrix, runCase)
	hx.E.Exhaustive("operators", "19 binary operators x (U + {+Inf, -Inf, NaN, -0}) x (U + the same) (literal operands), 3 prefix operators x U (literal and variable operand)")
	hx.Enumerate(t, "access", accessMatrix, runCase)
	hx.E.Exhaustive("access", map[string]interface{}{"containers": names(containers), "index_kinds": inames(indexKinds), "second_level_index_kinds": map[bool]interface{}{false: inames(indexKinds2), true: "all index kinds"}[hx.Thorough()],
		"forms": "read, write, call, dot read/write after index, del, add (x index kind); two level read / write (x index kind x second level kind); 50 dotted / call / doc / new forms"})
	hx.Enumerate(t, "directed", directedSets, runCase)
	hx.E.Exhaustive("directed", "49 destructuring / guard / literal / function / object forms x (U + 12 list shapes); 12 assignment targets x 7 replacement values for a container changed by the right side; 20 cron specs x 4 name / kind pairs; 24 raising statements x 15 try/except shapes")
	hx.Enumerate(t, "corpus", corpusSet, runCase)
	hx.Enumerate(t, "sinks", sinkMatrix, runCase)
	hx.E.Exhaustive("sinks", "each of the five sink attributes x U; statematch value x event state value over U x U; scope argument, scope values, event name / kind / state over U; 20 sink bodies x state value over U - all through Processor.ProcessEvent on the calling goroutine, every 9th case (thorough: every case) also through the pool with addEventAndWait")
}

func universeNames() []string {
	var out []string
	for _, u := range U {
		out = append(out, u.Name)
	}
	return out
}

func names(cs []cval) []string {
	var out []string
	for _, c := range cs {
		out = append(out, c.Name)
	}
	return out
}

func inames(cs []ikind) []string {
	var out []string
	for _, c := range cs {
		out = append(out, c.Name)
	}
	return out
}

// ---------------------------------------------------------------------------
// random part

func drawU(rt *rapid.T, label string) int { return rapid.IntRange(0, len(U)-1).Draw(rt, label) }

// randExpr draws an expression tree over U leaves (depth <= 3) as source text.
func randExpr(rt *rapid.T, depth int, used *[]int, sig *[]string) string {
	k := rapid.IntRange(0, 9).Draw(rt, "ek")
	if depth == 0 || k < 3 {
		i := drawU(rt, "leaf")
		*sig = append(*sig, U[i].Name)
		if rapid.IntRange(0, 2).Draw(rt, "leafvar") == 0 {
			*used = append(*used, i)
			return uvar(i)
		}
		return operand(i)
	}
	switch {
	case k < 7:
		op := lang.BinOps[rapid.IntRange(0, len(lang.BinOps)-1).Draw(rt, "op")]
		*sig = append(*sig, op.Name)
		return "(" + randExpr(rt, depth-1, used, sig) + " " + op.Sym + " " + randExpr(rt, depth-1, used, sig) + ")"
	case k == 7:
		op := []string{"-", "+", "not "}[rapid.IntRange(0, 2).Draw(rt, "pop")]
		*sig = append(*sig, "prefix"+strings.TrimSpace(op))
		return op + "(" + randExpr(rt, depth-1, used, sig) + ")"
	case k == 8:
		*sig = append(*sig, "list")
		return "[" + randExpr(rt, depth-1, used, sig) + ", " + randExpr(rt, depth-1, used, sig) + "]"
	default:
		fns := builtins()
		fn := fns[rapid.IntRange(0, len(fns)-1).Draw(rt, "fn")]
		if fn == "sleep" || fn == "setPulseTrigger" || fn == "setCronTrigger" {
			fn = "len"
		}
		*sig = append(*sig, fn)
		return fn + "(" + randExpr(rt, depth-1, used, sig) + ", " + randExpr(rt, depth-1, used, sig) + ")"
	}
}

func drawCase(rt *rapid.T) Case {
	// rapid favours small numbers: the rarer kinds get the small slots
	k := []int{95, 65, 75, 85, 0, 10, 20, 30, 40, 50, 55, 58}[rapid.IntRange(0, 11).Draw(rt, "kind")]
	switch {
	case k < 60: // (d) generated program with ill-typed mutations
		var p *lang.Prog
		src := "c04"
		if rapid.Bool().Draw(rt, "gen5") {
			p, src = genProg5(rt), "c05"
		} else {
			p = genProg4(rt)
		}
		pre, sig := mutate(rt, p)
		p.Number()
		return Case{Kind: "prog", Pre: pre, Src: p.Src(), Key: "prog:" + src + ":" + sig, Budget: stepBudget}
	case k < 72: // (a) built-in with 3..4 arguments
		fns := builtins()
		fn := fns[rapid.IntRange(0, len(fns)-1).Draw(rt, "fn")]
		n := rapid.IntRange(3, 4).Draw(rt, "nargs")
		v := make([]int, n)
		asVar := make([]bool, n)
		for i := range v {
			v[i] = drawU(rt, "arg")
			asVar[i] = rapid.IntRange(0, 3).Draw(rt, "argvar") == 0
		}
		if fn == "range" && rapid.Bool().Draw(rt, "asloop") {
			return rangeLoopCase(v, asVar, rapid.IntRange(0, 4).Draw(rt, "destr") == 0)
		}
		return builtinCase(fn, v, asVar)
	case k < 82: // expression trees over U in statement positions
		var used []int
		var sig []string
		e := randExpr(rt, 3, &used, &sig)
		forms := []struct{ name, head, tail string }{
			{"stmt", "", ""}, {"assign", "x := ", ""}, {"if", "if ", " {\n    x := 1\n}"}, {"while", "for ", " {\n    break\n}"}, {"for", "for x in ", " {\n    break\n}"},
			{"index", "l := [1, 2, 3]\nl[", "]"}, {"index-write", "l := [1, 2, 3]\nl[", "] := 1"}, {"mapkey", "m := {", " : 1}"}, {"arg", "func f(a) {\n    return a\n}\nf(", ")"},
			{"return", "func f() {\n    return ", "\n}\nf()"}, {"interpolate", "\"{{", "}}\""}, {"raise", "raise(", ")"},
		}
		f := forms[rapid.IntRange(0, len(forms)-1).Draw(rt, "form")]
		budget := 0
		if f.name == "interpolate" && strings.Contains(e, "\"") {
			f = forms[0]
		}
		return Case{Kind: "expr", Pre: prelude(used...), Src: f.head + e + f.tail, Key: "expr:" + f.name + ":" + strings.Join(sig, " "), Budget: budget}
	case k < 90: // access chains
		c := containers[rapid.IntRange(0, len(containers)-1).Draw(rt, "cont")]
		n := rapid.IntRange(1, 4).Draw(rt, "chain")
		src, sig := "c", []string{c.Name}
		for i := 0; i < n; i++ {
			switch rapid.IntRange(0, 5).Draw(rt, "acc") {
			case 0:
				name := []string{"a", "k", "n", "l", "x", "m", "zz"}[rapid.IntRange(0, 6).Draw(rt, "field")]
				src += "." + name
				sig = append(sig, "."+name)
			case 1:
				src += "()"
				sig = append(sig, "()")
			default:
				ik := indexKinds[rapid.IntRange(0, len(indexKinds)-1).Draw(rt, "ik")]
				src += "[" + ik.Lit + "]"
				sig = append(sig, "["+ik.Name+"]")
			}
		}
		form := rapid.IntRange(0, 3).Draw(rt, "accform")
		switch {
		case form == 0 && !strings.HasSuffix(src, ")"):
			src += " := " + U[drawU(rt, "wval")].Lit
			sig = append(sig, ":=")
		case form == 1:
			src = "x := " + src + "\nx[0]"
		case form == 2:
			src = "doc(" + src + ")"
			sig = append(sig, "doc")
		}
		return Case{Kind: "chain", Pre: bind("c", c.Lit), Src: src, Key: "chain:" + strings.Join(sig, "")}
	default:
		return drawSink(rt)
	}
}

func TestProp(t *testing.T) { hx.Check(t, drawCase, runCase) }
