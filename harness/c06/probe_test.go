package c06

import (
	"fmt"
	"os"
	"runtime"
	"strings"
	"testing"
)

// temporary development probe
func TestProbe(t *testing.T) {
	fn := os.Getenv("C06_PROBE")
	if fn == "" {
		t.Skip()
	}
	b, _ := os.ReadFile(fn)
	for _, src := range strings.Split(string(b), "\n---\n") {
		src = strings.TrimSpace(src)
		if src == "" {
			continue
		}
		o := exec(src, stepBudget, false)
		fmt.Printf("=== %s\n    stage=%s val=%v err=%v\n", strings.ReplaceAll(src, "\n", "\n    "), o.stage(), o.val, o.anyErr())
		if o.panicked != nil {
			fmt.Printf("    PANIC %s\n", o.panicked.Sig)
		}
	}
}

func TestSpeed(t *testing.T) {
	if os.Getenv("C06_SPEED") == "" {
		t.Skip()
	}
	for i := 0; i < 60000; i++ {
		exec("caught := null\ntry {\n    1 + \"a\"\n} except e {\n    caught := e.type\n}\n", stepBudget, false)
		exec("a := (1 +", stepBudget, false)
		if i%10000 == 0 {
			var ms runtime.MemStats
			runtime.ReadMemStats(&ms)
			fmt.Println(i, "goroutines", runtime.NumGoroutine(), "heap MB", ms.HeapAlloc>>20)
		}
	}
}
