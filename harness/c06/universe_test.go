package c06

import (
	"fmt"
	"sort"
	"strconv"
	"strings"

	"github.com/krotik/ecal/interpreter"
	"github.com/krotik/ecal/stdlib"

	"verif/internal/lang"
)

// uval is one member of the value universe U (DESIGN section 3).
type uval struct {
	Name string  // short stable name used in case keys
	Lit  string  // ECAL source which evaluates to the value
	Kind string  // null bool num str list map func
	Num  bool    // accepted as a number by the built-ins (a number or a numeric string)
	N    float64 // its numeric value then
}

// The lexer only knows the exponent form <digits>e+<digits>.
const hugeLit = "1e+308"

var U = []uval{
	{"null", "null", "null", false, 0},
	{"true", "true", "bool", false, 0},
	{"false", "false", "bool", false, 0},
	{"0", "0", "num", true, 0},
	{"1", "1", "num", true, 1},
	{"-1", "-1", "num", true, -1},
	{"2", "2", "num", true, 2},
	{"7", "7", "num", true, 7},
	{"0.5", "0.5", "num", true, 0.5},
	{"-2.5", "-2.5", "num", true, -2.5},
	{"huge", hugeLit, "num", true, 1e308},
	{"big", "123456789", "num", true, 123456789},
	{`""`, `""`, "str", false, 0},
	{`"a"`, `"a"`, "str", false, 0},
	{`"abc"`, `"abc"`, "str", false, 0},
	{`"1"`, `"1"`, "str", true, 1},
	{`"a.b"`, `"a.b"`, "str", false, 0},
	{"[]", "[]", "list", false, 0},
	{"[1,2,3]", "[1, 2, 3]", "list", false, 0},
	{`["a",[1]]`, `["a", [1]]`, "list", false, 0},
	{"{}", "{}", "map", false, 0},
	{`{"a":1}`, `{"a" : 1}`, "map", false, 0},
	{`{1:"x"}`, `{1 : "x"}`, "map", false, 0},
	{`{"k":{"n":[1]}}`, `{"k" : {"n" : [1]}}`, "map", false, 0},
	{"func", "func() {\n}", "func", false, 0},
	{"obj", "new({})", "map", false, 0},
}

// container reports whether the value is a list or a map (not hashable, not comparable in Go).
func (u uval) container() bool { return u.Kind == "list" || u.Kind == "map" }

// uvar is the name of the prelude variable holding U[i].
func uvar(i int) string { return fmt.Sprintf("u%d", i) }

// operand prints U[i] as an operand: negative literals are parenthesised.
func operand(i int) string {
	if strings.HasPrefix(U[i].Lit, "-") {
		return "(" + U[i].Lit + ")"
	}
	return U[i].Lit
}

// prelude binds the given U members to their variables (sorted, without duplicates).
func prelude(idx ...int) string {
	seen := map[int]bool{}
	var ids []int
	for _, i := range idx {
		if !seen[i] {
			seen[i] = true
			ids = append(ids, i)
		}
	}
	sort.Ints(ids)
	var b strings.Builder
	for _, i := range ids {
		fmt.Fprintf(&b, "%s := %s\n", uvar(i), U[i].Lit)
	}
	return b.String()
}

// uexpr builds the harness tree of U[i].
func uexpr(i int) *lang.E {
	var lit func(s string) *lang.E
	lit = func(s string) *lang.E {
		switch {
		case s == "null":
			return lang.Null()
		case s == "true" || s == "false":
			return lang.Bool(s == "true")
		case strings.HasPrefix(s, "-"):
			return lang.Op("minus", lang.Num(s[1:]))
		case strings.HasPrefix(s, `"`):
			u, _ := strconv.Unquote(s)
			return lang.Str(u)
		}
		return lang.Num(s)
	}
	switch U[i].Name {
	case "[]":
		return lang.List()
	case "[1,2,3]":
		return lang.List(lang.Num("1"), lang.Num("2"), lang.Num("3"))
	case `["a",[1]]`:
		return lang.List(lang.Str("a"), lang.List(lang.Num("1")))
	case "{}":
		return lang.MapLit()
	case `{"a":1}`:
		return lang.MapLit(lang.Str("a"), lang.Num("1"))
	case `{1:"x"}`:
		return lang.MapLit(lang.Num("1"), lang.Str("x"))
	case `{"k":{"n":[1]}}`:
		return lang.MapLit(lang.Str("k"), lang.MapLit(lang.Str("n"), lang.List(lang.Num("1"))))
	case "func":
		return &lang.E{K: "func", Fn: &lang.Func{}}
	case "obj":
		return lang.Call(lang.Var("new"), lang.MapLit())
	}
	return lit(U[i].Lit)
}

// needsVar reports whether the literal of U[i] contains a brace (it cannot
// stand in an if/for header) or is a call/func literal.
func needsVar(i int) bool { return strings.ContainsAny(U[i].Lit, "{(") }

// builtins returns every built-in function name: InbuildFuncMap plus the log functions.
func builtins() []string {
	var out []string
	for k := range interpreter.InbuildFuncMap {
		out = append(out, k)
	}
	out = append(out, "log", "error", "debug")
	sort.Strings(out)
	return out
}

// stdlibFuncs returns the functions of the standard library packages (Go
// functions behind the adapter; C19 owns the bridge, here they are only called
// with arbitrary arguments). The harness's own t.rec is left out.
func stdlibFuncs() []string {
	_, _, funcs := stdlib.GetStdlibSymbols()
	var out []string
	for _, f := range funcs {
		if !strings.HasPrefix(f, "t.") {
			out = append(out, f)
		}
	}
	sort.Strings(out)
	return out
}

// index kinds for container access / add / del (c = [1, 2, 3] has length 3)
type ikind struct{ Name, Lit string }

var indexKinds = []ikind{
	{"0", "0"}, {"1", "1"}, {"2", "2"}, {"len", "3"}, {"len+2", "5"}, {"-1", "-1"}, {"-len", "-3"}, {"-len-1", "-4"}, {"-5", "-5"},
	{"0.5", "0.5"}, {"1.5", "1.5"}, {"-0.5", "-0.5"}, {"-1.5", "-1.5"}, {"huge", hugeLit}, {"-huge", "-" + hugeLit}, {"big", "123456789"},
	{`"1"`, `"1"`}, {`"-5"`, `"-5"`}, {`"1.5"`, `"1.5"`}, {`"a"`, `"a"`}, {`"k"`, `"k"`}, {`"zz"`, `"zz"`}, {`"a.b"`, `"a.b"`}, {`"k.n"`, `"k.n"`}, {`""`, `""`},
	{"[0]", "[0]"}, {"{}", "{}"}, {"null", "null"}, {"true", "true"}, {"func", "func() {\n}"},
	{"inf", "1 / 0"}, {"-inf", "-1 / 0"}, {"nan", "0 / 0"},
}

// numbers which only arithmetic produces
var specials = []ikind{{"inf", "(1 / 0)"}, {"-inf", "(-1 / 0)"}, {"nan", "(0 / 0)"}, {"-0", "(0 * -1)"}}

// a smaller set for the second level of nested accesses
var indexKinds2 = []ikind{
	{"0", "0"}, {"len+2", "5"}, {"-1", "-1"}, {"-5", "-5"}, {"0.5", "0.5"}, {"huge", hugeLit}, {`"1"`, `"1"`}, {`"a"`, `"a"`}, {`"n"`, `"n"`}, {"[0]", "[0]"}, {"null", "null"},
}

// containers (and non-containers) which are indexed
type cval struct{ Name, Lit string }

var containers = []cval{
	{"list3", "[1, 2, 3]"}, {"list1", "[1]"}, {"list0", "[]"}, {"nested", "[[1, 2], [3], {\"a\" : [1]}]"},
	{"map", `{"a" : 1, 1 : "x", "k" : {"n" : [1], "a" : 2}, "l" : [1, 2]}`}, {"map0", "{}"},
	{"str", `"abc"`}, {"num", "7"}, {"null", "null"}, {"bool", "true"}, {"func", "func() {\n    return [1, 2]\n}"},
	{"obj", "new({\"x\" : [1, 2], \"m\" : func() {\n    return this.x\n}})"}, {"undef", ""},
}

func bind(name, lit string) string {
	if lit == "" {
		return ""
	}
	return name + " := " + lit + "\n"
}
