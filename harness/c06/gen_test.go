package c06

// Program generators copied from c04 (control flow) and c05 (scoping,
// containers, objects) - test packages cannot import each other - and the
// "ill-typed mutation" pass of C06 (DESIGN 4/C06 (d)): sub-expressions of a
// well-formed generated program are replaced by arbitrary members of U.

import (
	"fmt"
	"sort"
	"strings"

	"pgregory.net/rapid"

	"verif/internal/lang"
)

// ---------------------------------------------------------------------------
// c04 generator (control flow, try/except/otherwise/finally)

type gen4 struct {
	rt     *rapid.T
	mark   int
	nvar   int
	nfunc  int
	funcs  []string // defined function names with their arity
	arity  map[string]int
	budget int
}

func (g *gen4) pick(n int, l string) int { return rapid.IntRange(0, n-1).Draw(g.rt, l) }

func (g *gen4) marker() *lang.S {
	g.mark++
	return lang.Mark(fmt.Sprintf("m%d", g.mark))
}

type ctx4 struct {
	depth  int
	inLoop bool
	inFunc bool
	vars   []string // numeric variables readable and writable here
	inFin  bool
}

var errTypes4 = []string{"A", "B", "C"}

func (g *gen4) numExpr(c ctx4) *lang.E {
	if len(c.vars) > 0 && g.pick(2, "nv") == 0 {
		v := lang.Var(c.vars[g.pick(len(c.vars), "nvi")])
		if g.pick(3, "nop") == 0 {
			return lang.Op("plus", v, lang.Num(fmt.Sprint(g.pick(4, "nl"))))
		}
		return v
	}
	return lang.Num(fmt.Sprint(g.pick(6, "nl2")))
}

func (g *gen4) cond(c ctx4) *lang.E {
	switch g.pick(6, "cond") {
	case 0:
		return lang.Bool(true)
	case 1:
		return lang.Bool(false)
	default:
		op := []string{"<", "<=", ">", ">=", "==", "!="}[g.pick(6, "cop")]
		return lang.Op(op, g.numExpr(c), g.numExpr(c))
	}
}

// exit generates a non-fallthrough statement appropriate for the context (or nil).
func (g *gen4) exit(c ctx4) *lang.S {
	var opts []string
	if c.inLoop {
		opts = append(opts, "break", "continue")
	}
	if c.inFunc {
		opts = append(opts, "return", "returnv")
	}
	opts = append(opts, "raise", "raise", "rterr")
	switch opts[g.pick(len(opts), "exit")] {
	case "break":
		return lang.Break()
	case "continue":
		return lang.Continue()
	case "return":
		return lang.Return(nil)
	case "returnv":
		return lang.Return(g.numExpr(c))
	case "raise":
		args := []*lang.E{lang.Str(errTypes4[g.pick(3, "et")])}
		if n := g.pick(3, "rargs"); n >= 1 {
			args = append(args, lang.Str([]string{"d1", "some detail", ""}[g.pick(3, "rd")]))
			if n == 2 {
				args = append(args, []*lang.E{lang.List(lang.Num("1"), lang.Str("x")), lang.Num("7"), lang.Str("data"), lang.Null()}[g.pick(4, "rdata")])
			}
		}
		return lang.ExprS(lang.Call(lang.Var("raise"), args...))
	default:
		// a runtime error of known type
		return lang.ExprS(lang.Op("plus", lang.Num("1"), lang.Str("a")))
	}
}

func (g *gen4) block(c ctx4, maxStmts int) []*lang.S {
	n := 1 + g.pick(maxStmts, "nstmts")
	var out []*lang.S
	for i := 0; i < n && g.budget > 0; i++ {
		out = append(out, g.stmt(c)...)
	}
	if len(out) == 0 {
		out = append(out, g.marker())
	}
	return out
}

func (g *gen4) stmt(c ctx4) []*lang.S {
	g.budget--
	k := g.pick(20, "stmt")
	if c.depth >= 4 && k >= 6 && k <= 14 {
		k = 0
	}
	if c.inFin && (k >= 15 || (k >= 6 && k <= 14)) {
		k = k % 3 // finally bodies: markers and assignments only
	}
	inner := c
	inner.depth++
	switch {
	case k <= 2:
		return []*lang.S{g.marker()}
	case k == 3:
		if len(c.vars) == 0 {
			return []*lang.S{g.marker()}
		}
		v := c.vars[g.pick(len(c.vars), "av")]
		return []*lang.S{lang.Assign(lang.Var(v), lang.Op("plus", lang.Var(v), lang.Num("1")))}
	case k <= 5:
		return []*lang.S{lang.Rec(g.numExpr(c))}
	case k <= 7: // if
		s := &lang.S{K: "if"}
		nb := 1 + g.pick(3, "nbr")
		for i := 0; i < nb; i++ {
			s.Br = append(s.Br, &lang.Branch{Cond: g.cond(c), Body: g.block(inner, 3)})
		}
		if g.pick(2, "else") == 0 {
			s.Br = append(s.Br, &lang.Branch{Body: g.block(inner, 3)})
		}
		return []*lang.S{g.marker(), s, g.marker()}
	case k <= 10: // loops
		li := inner
		li.inLoop = true
		g.nvar++
		switch g.pick(5, "loop") {
		case 0: // condition loop with a guard counter incremented at the head
			w := fmt.Sprintf("w%d", g.nvar)
			init := lang.Assign(lang.Var(w), lang.Num("0"))
			if c.inFunc {
				init = lang.LetS(w, lang.Num("0"))
			}
			li.vars = append(append([]string{}, c.vars...), w)
			body := append([]*lang.S{lang.Assign(lang.Var(w), lang.Op("plus", lang.Var(w), lang.Num("1")))}, g.block(li, 3)...)
			return []*lang.S{init, lang.While(lang.Op("<", lang.Var(w), lang.Num(fmt.Sprint(1+g.pick(3, "wn")))), body...), g.marker()}
		case 1, 2: // range
			v := fmt.Sprintf("i%d", g.nvar)
			li.vars = append(append([]string{}, c.vars...), v)
			var args []*lang.E
			from, to := g.pick(5, "from"), g.pick(5, "to")
			switch g.pick(4, "rform") {
			case 0:
				args = []*lang.E{lang.Num(fmt.Sprint(to % 4))}
			case 1:
				if from > to {
					from, to = to, from
				}
				args = []*lang.E{lang.Num(fmt.Sprint(from)), lang.Num(fmt.Sprint(to))}
			default:
				step := 1 + g.pick(2, "step")
				if from > to {
					args = []*lang.E{lang.Num(fmt.Sprint(from)), lang.Num(fmt.Sprint(to)), lang.Op("minus", lang.Num(fmt.Sprint(step)))}
				} else {
					args = []*lang.E{lang.Num(fmt.Sprint(from)), lang.Num(fmt.Sprint(to)), lang.Num(fmt.Sprint(step))}
				}
			}
			body := append([]*lang.S{lang.Rec(lang.Var(v))}, g.block(li, 3)...)
			return []*lang.S{{K: "for", Vars: []string{v}, E: lang.Call(lang.Var("range"), args...), Body: body}, g.marker()}
		case 3: // list
			v := fmt.Sprintf("i%d", g.nvar)
			li.vars = append(append([]string{}, c.vars...), v)
			l := lang.List()
			for i, n := 0, g.pick(4, "ll"); i < n; i++ {
				l.A = append(l.A, lang.Num(fmt.Sprint(g.pick(9, "lv"))))
			}
			body := append([]*lang.S{lang.Rec(lang.Var(v))}, g.block(li, 3)...)
			return []*lang.S{{K: "for", Vars: []string{v}, E: l, Body: body}, g.marker()}
		default: // map as [key, value]
			k, v := fmt.Sprintf("k%d", g.nvar), fmt.Sprintf("v%d", g.nvar)
			li.vars = append(append([]string{}, c.vars...), v)
			m := lang.MapLit()
			keys := [][]string{{"b", "a", "c"}, {"zz", "z", "y"}, {"B", "a", "A"}, {"k"}, {}}[g.pick(5, "mk")]
			for i, key := range keys {
				m.A = append(m.A, lang.Str(key), lang.Num(fmt.Sprint(i+1)))
			}
			body := append([]*lang.S{lang.Rec(lang.Var(k)), lang.Rec(lang.Var(v))}, g.block(li, 2)...)
			// a map literal cannot stand in a loop header (the brace opens the body): bind it first, as in ecal.md
			mv := fmt.Sprintf("mp%d", g.nvar)
			bind := lang.Assign(lang.Var(mv), m)
			if c.inFunc {
				bind = lang.LetS(mv, m)
			}
			return []*lang.S{bind, {K: "for", Vars: []string{k, v}, E: lang.Var(mv), Body: body}, g.marker()}
		}
	case k <= 12: // try
		s := &lang.S{K: "try"}
		s.Body = g.block(inner, 3)
		if g.pick(3, "tryexit") != 0 {
			s.Body = append(s.Body, g.exit(inner))
		}
		nex := g.pick(4, "nex")
		for i := 0; i < nex; i++ {
			x := &lang.Except{}
			switch g.pick(6, "xshape") {
			case 0: // bare
			case 1:
				x.As = "e"
			case 2:
				x.Types = []string{g.errType()}
			case 3:
				x.Types = []string{g.errType()}
				x.As = "e"
			case 4:
				x.Types = []string{g.errType(), g.errType()}
			default:
				x.Types = []string{g.errType(), g.errType()}
				x.As = "e"
			}
			x.Body = []*lang.S{g.marker()}
			if x.As != "" {
				x.Body = append(x.Body, lang.Rec(lang.Dot(lang.Var("e"), "type")))
				if g.pick(3, "recdetail") == 0 {
					x.Body = append(x.Body, &lang.S{K: "try", Body: []*lang.S{lang.Rec(lang.Dot(lang.Var("e"), "detail")), lang.Rec(lang.Dot(lang.Var("e"), "data"))},
						Ex: []*lang.Except{{Body: []*lang.S{lang.Mark("nodetail")}}}})
				}
			}
			x.Body = append(x.Body, g.block(inner, 2)...)
			if g.pick(4, "xexit") == 0 {
				x.Body = append(x.Body, g.exit(inner))
			}
			s.Ex = append(s.Ex, x)
		}
		if g.pick(3, "oth") == 0 {
			s.Oth = &lang.Block{Body: g.block(inner, 2)}
			if g.pick(5, "othexit") == 0 {
				s.Oth.Body = append(s.Oth.Body, g.exit(inner))
			}
		}
		if g.pick(2, "fin") == 0 {
			fi := inner
			fi.inFin = true
			s.Fin = &lang.Block{Body: g.block(fi, 2)}
		}
		return []*lang.S{g.marker(), s, g.marker()}
	case k <= 14: // function definition + call (definitions only at the top level of the program / not inside loops to keep names unique)
		if c.inFunc || c.inLoop || c.depth > 0 {
			return g.callStmt(c)
		}
		g.nfunc++
		name := fmt.Sprintf("f%d", g.nfunc)
		np := g.pick(3, "np")
		f := &lang.Func{Name: name}
		fc := ctx4{depth: c.depth + 1, inFunc: true}
		for i := 0; i < np; i++ {
			p := fmt.Sprintf("p%d", i+1)
			f.Params = append(f.Params, p)
			fc.vars = append(fc.vars, p)
		}
		f.Body = g.block(fc, 4)
		if g.pick(2, "fret") == 0 {
			f.Body = append(f.Body, lang.Return(g.numExpr(fc)))
		} else {
			f.Body = append(f.Body, lang.Return(lang.Num("0")))
		}
		g.funcs = append(g.funcs, name)
		g.arity[name] = np
		out := []*lang.S{{K: "func", Fn: f}}
		return append(out, g.callStmt(c)...)
	case k <= 16:
		if e := g.exit(c); e != nil && g.pick(3, "doexit") == 0 {
			return []*lang.S{e}
		}
		return []*lang.S{g.marker()}
	default:
		return g.callStmt(c)
	}
}

func (g *gen4) errType() string {
	if g.pick(5, "rtt") == 0 {
		return lang.TNotANumber
	}
	return errTypes4[g.pick(3, "et2")]
}

func (g *gen4) callStmt(c ctx4) []*lang.S {
	if len(g.funcs) == 0 || c.inFunc {
		return []*lang.S{g.marker()}
	}
	name := g.funcs[g.pick(len(g.funcs), "fn")]
	var args []*lang.E
	for i := 0; i < g.arity[name]; i++ {
		args = append(args, g.numExpr(c))
	}
	return []*lang.S{lang.Rec(lang.Call(lang.Var(name), args...)), g.marker()}
}

func genProg4(rt *rapid.T) *lang.Prog {
	g := &gen4{rt: rt, arity: map[string]int{}, budget: 40}
	p := &lang.Prog{}
	c := ctx4{vars: []string{"a", "b"}}
	p.Body = append(p.Body, lang.Assign(lang.Var("a"), lang.Num("0")), lang.Assign(lang.Var("b"), lang.Num("3")))
	n := 1 + g.pick(5, "top")
	for i := 0; i < n && g.budget > 0; i++ {
		p.Body = append(p.Body, g.stmt(c)...)
	}
	p.Body = append(p.Body, lang.Rec(lang.Var("a")), lang.Rec(lang.Var("b")))
	return p
}

// ---------------------------------------------------------------------------
// c05 generator (scoping, closures, containers, objects)

type gen5 struct {
	rt    *rapid.T
	n     int // unique-name counter
	tags  map[string]bool
	stmts int
}

func (g *gen5) pick(n int, l string) int { return rapid.IntRange(0, n-1).Draw(g.rt, l) }
func (g *gen5) flip(l string) bool       { return rapid.Bool().Draw(g.rt, l) }
func (g *gen5) tag(t string)             { g.tags[t] = true }
func (g *gen5) uniq(p string) string     { g.n++; return fmt.Sprintf("%s%d", p, g.n) }

func num5(n int) *lang.E { return lang.Num(fmt.Sprint(n)) }

// env5 is the generator's conservative view of what is definitely defined.
type env5 struct {
	parent *env5
	nums   map[string]bool // numeric variables defined in this scope
	fn     bool            // function boundary
}

func newEnv5(p *env5) *env5 { return &env5{parent: p, nums: map[string]bool{}} }

func (e *env5) visibleNums() []string {
	seen := map[string]bool{}
	var out []string
	for c := e; c != nil; c = c.parent {
		for _, n := range []string{"a", "b", "c", "d", "p", "q"} {
			if c.nums[n] && !seen[n] {
				seen[n] = true
				out = append(out, n)
			}
		}
	}
	return out
}

func (e *env5) defined(n string) bool {
	for c := e; c != nil; c = c.parent {
		if c.nums[n] {
			return true
		}
	}
	return false
}

func (g *gen5) numExpr(e *env5) *lang.E {
	vs := e.visibleNums()
	if len(vs) > 0 && g.pick(3, "ne") != 0 {
		v := lang.Var(vs[g.pick(len(vs), "nev")])
		switch g.pick(4, "neop") {
		case 0:
			return lang.Op("plus", v, num5(1+g.pick(3, "nel")))
		case 1:
			return lang.Op("times", v, num5(2))
		}
		return v
	}
	return num5(g.pick(10, "nl"))
}

var scopeNames5 = []string{"a", "b", "c", "d"}

// scopingBlock generates statements exercising definition / assignment / let / probes.
func (g *gen5) scopingBlock(e *env5, depth int) []*lang.S {
	var out []*lang.S
	n := 1 + g.pick(5, "sn")
	for i := 0; i < n && g.stmts < 60; i++ {
		g.stmts++
		switch k := g.pick(16, "sk"); {
		case k <= 2: // plain assignment
			x := scopeNames5[g.pick(4, "sx")]
			out = append(out, lang.Assign(lang.Var(x), g.numExpr(e)))
			if !e.defined(x) {
				e.nums[x] = true
			}
		case k == 3: // let
			x := scopeNames5[g.pick(4, "lx")]
			if e.defined(x) && !e.nums[x] {
				g.tag("shadow-let")
			}
			init := g.numExpr(e)
			out = append(out, lang.LetS(x, init))
			e.nums[x] = true
		case k <= 5:
			if vs := e.visibleNums(); len(vs) > 0 {
				out = append(out, lang.Rec(lang.Var(vs[g.pick(len(vs), "rv")])))
			}
		case k == 6:
			out = append(out, lang.Probe(g.uniq("pr"), scopeNames5[g.pick(4, "px")]))
		case k <= 10 && depth < 3: // nested block
			inner := newEnv5(e)
			var s *lang.S
			switch g.pick(6, "bk") {
			case 0:
				s = &lang.S{K: "if", Br: []*lang.Branch{{Cond: lang.Bool(true), Body: g.scopingBlock(inner, depth+1)}}}
			case 1:
				s = &lang.S{K: "if", Br: []*lang.Branch{{Cond: lang.Op("<", g.numExpr(e), num5(5)), Body: g.scopingBlock(inner, depth+1)},
					{Body: g.scopingBlock(newEnv5(e), depth+1)}}}
			case 2:
				iv := g.uniq("i")
				body := g.scopingBlock(inner, depth+1)
				s = &lang.S{K: "for", Vars: []string{iv}, E: lang.Call(lang.Var("range"), num5(1), num5(1+g.pick(3, "rn"))),
					Body: append([]*lang.S{lang.Rec(lang.Var(iv))}, body...)}
			case 3:
				s = &lang.S{K: "try", Body: g.scopingBlock(inner, depth+1), Fin: &lang.Block{Body: g.scopingBlock(newEnv5(e), depth+1)}}
			case 4:
				s = &lang.S{K: "mutex", Name: "mx", Body: g.scopingBlock(inner, depth+1)}
			default:
				s = &lang.S{K: "try", Body: append(g.scopingBlock(inner, depth+1), lang.ExprS(lang.Call(lang.Var("raise"), lang.Str("E")))),
					Ex: []*lang.Except{{As: "ex", Body: append([]*lang.S{lang.Rec(lang.Dot(lang.Var("ex"), "type"))}, g.scopingBlock(newEnv5(e), depth+1)...)}}}
			}
			out = append(out, s)
		case k <= 13 && depth < 3: // function definition and calls
			out = append(out, g.function(e, depth)...)
		default:
			out = append(out, lang.Probe(g.uniq("pr"), scopeNames5[g.pick(4, "px2")]))
		}
	}
	return out
}

// function generates a function (named or anonymous), then calls.
func (g *gen5) function(e *env5, depth int) []*lang.S {
	var out []*lang.S
	name := g.uniq("f")
	fe := newEnv5(e)
	fe.fn = true
	f := &lang.Func{}
	np := g.pick(3, "fnp")
	params := []string{"p", "q"}[:np]
	for i, p := range params {
		f.Params = append(f.Params, p)
		var d *lang.E
		if g.pick(3, "fdef") == 0 {
			d = num5(40 + i)
		}
		f.Defs = append(f.Defs, d)
		if e.defined(p) {
			g.tag("shadow-param")
		}
		fe.nums[p] = true
	}
	kind := g.pick(5, "fkind")
	switch kind {
	case 0: // recursion with a depth argument
		if np == 0 {
			f.Params, f.Defs = []string{"p"}, []*lang.E{nil}
			fe.nums["p"] = true
			np = 1
		}
		f.Body = []*lang.S{
			lang.Rec(lang.Var("p")),
			{K: "if", Br: []*lang.Branch{{Cond: lang.Op("<=", lang.Var("p"), num5(0)), Body: []*lang.S{lang.Return(num5(0))}}}},
			lang.LetS("r", lang.Call(lang.Var(name), lang.Op("minus", lang.Var("p"), num5(1)))),
			lang.Return(lang.Op("plus", lang.Var("r"), lang.Var("p"))),
		}
		f.Name = name
		out = append(out, &lang.S{K: "func", Fn: f})
		args := []*lang.E{num5(g.pick(4, "rec"))}
		for i := 1; i < np; i++ {
			args = append(args, num5(1))
		}
		out = append(out, lang.Rec(lang.Call(lang.Var(name), args...)))
		return out
	case 1: // counter factory: closure outliving its defining call
		f.Name = name
		inner := &lang.Func{Body: []*lang.S{
			lang.Assign(lang.Var("n"), lang.Op("plus", lang.Var("n"), num5(1))),
			lang.Return(lang.Var("n")),
		}}
		start := g.numExpr(fe)
		f.Body = []*lang.S{lang.LetS("n", start), lang.Return(&lang.E{K: "func", Fn: inner})}
		out = append(out, &lang.S{K: "func", Fn: f})
		c1, c2 := g.uniq("k"), g.uniq("k")
		args := g.args(e, np, f)
		out = append(out, lang.Assign(lang.Var(c1), lang.Call(lang.Var(name), args...)))
		out = append(out, lang.Assign(lang.Var(c2), lang.Call(lang.Var(name), g.args(e, np, f)...)))
		for i, n := 0, 1+g.pick(3, "ncalls"); i < n; i++ {
			out = append(out, lang.Rec(lang.Call(lang.Var([]string{c1, c2}[g.pick(2, "which")]))))
		}
		g.tag("closure-after-return")
		return out
	default:
		body := g.scopingBlock(fe, depth+1)
		body = append(body, lang.Return(g.numExpr(fe)))
		f.Body = body
		if kind == 2 { // anonymous function bound to a variable
			out = append(out, lang.Assign(lang.Var(name), &lang.E{K: "func", Fn: f}))
		} else {
			f.Name = name
			out = append(out, &lang.S{K: "func", Fn: f})
		}
		for i, n := 0, 1+g.pick(2, "fc"); i < n; i++ {
			out = append(out, lang.Rec(lang.Call(lang.Var(name), g.args(e, np, f)...)))
		}
		return out
	}
}

// args: argument counts below or equal to the parameter count (missing ones read as null or the default).
func (g *gen5) args(e *env5, np int, f *lang.Func) []*lang.E {
	n := np
	// drop trailing arguments only where a default exists (a null parameter would be used in arithmetic otherwise)
	for n > 0 && n-1 < len(f.Defs) && f.Defs[n-1] != nil && g.flip("dropArg") {
		n--
	}
	var out []*lang.E
	for i := 0; i < n; i++ {
		out = append(out, g.numExpr(e))
	}
	return out
}

// ---------------------------------------------------------------------------
// containers

type cvar5 struct {
	name string
	kind string // list | map
	n    int    // list length (exact)
	keys []*lang.E
}

func (g *gen5) scalar() *lang.E {
	switch g.pick(5, "sc") {
	case 0:
		return lang.Str([]string{"x", "y", "zed", ""}[g.pick(4, "scs")])
	case 1:
		return lang.Bool(g.flip("scb"))
	case 2:
		return lang.Null()
	}
	return num5(g.pick(20, "scn"))
}

func (g *gen5) containers() []*lang.S {
	var out []*lang.S
	var vars []*cvar5
	newList := func() *cvar5 {
		c := &cvar5{name: g.uniq("l"), kind: "list", n: g.pick(5, "ll")}
		l := lang.List()
		for i := 0; i < c.n; i++ {
			l.A = append(l.A, g.scalar())
		}
		out = append(out, lang.Assign(lang.Var(c.name), l))
		vars = append(vars, c)
		return c
	}
	newMap := func() *cvar5 {
		c := &cvar5{name: g.uniq("m"), kind: "map"}
		m := lang.MapLit()
		used := map[string]bool{}
		for i, n := 0, g.pick(4, "mk"); i < n; i++ {
			var k *lang.E
			if g.pick(3, "mkk") == 0 {
				k = num5(1 + g.pick(4, "mkn"))
			} else {
				k = lang.Str([]string{"k", "key", "x", "abc"}[g.pick(4, "mks")])
			}
			if used[k.S] {
				continue
			}
			used[k.S] = true
			c.keys = append(c.keys, k)
			m.A = append(m.A, k, g.scalar())
		}
		out = append(out, lang.Assign(lang.Var(c.name), m))
		vars = append(vars, c)
		return c
	}
	newList()
	newMap()
	pickVar := func(kind string) *cvar5 {
		var c []*cvar5
		for _, v := range vars {
			if v.kind == kind {
				c = append(c, v)
			}
		}
		if len(c) == 0 {
			return nil
		}
		return c[g.pick(len(c), "cv")]
	}
	acc := func(c *cvar5, k *lang.E) *lang.E {
		if k.K == "str" && g.flip("dot") && k.S != "" {
			return lang.Dot(lang.Var(c.name), k.S)
		}
		return lang.Idx(lang.Var(c.name), k)
	}
	n := 3 + g.pick(10, "cn")
	for i := 0; i < n; i++ {
		switch g.pick(14, "ck") {
		case 0:
			newList()
		case 1:
			newMap()
		case 2: // list element write + read
			if c := pickVar("list"); c != nil && c.n > 0 {
				idx := num5(g.pick(c.n, "li"))
				out = append(out, lang.Assign(lang.Idx(lang.Var(c.name), idx), g.scalar()), lang.Rec(lang.Idx(lang.Var(c.name), idx)), lang.Rec(lang.Var(c.name)))
			}
		case 3, 4: // map write + read (string or numeric key, existing or new)
			if c := pickVar("map"); c != nil {
				var k *lang.E
				if len(c.keys) > 0 && g.flip("existing") {
					k = c.keys[g.pick(len(c.keys), "mki")]
				} else if g.pick(3, "newnum") == 0 {
					k = num5(5 + g.pick(3, "nk"))
					c.keys = append(c.keys, k)
				} else {
					k = lang.Str([]string{"n1", "n2", "other"}[g.pick(3, "nks")])
					c.keys = append(c.keys, k)
				}
				if k.K == "num" {
					g.tag("numeric-map-key")
				}
				out = append(out, lang.Assign(acc(c, k), g.scalar()), lang.Rec(acc(c, k)), lang.Rec(lang.Call(lang.Var("len"), lang.Var(c.name))), lang.Rec(lang.Var(c.name)))
			}
		case 5: // alias through a second name
			if c := pickVar([]string{"list", "map"}[g.pick(2, "ak")]); c != nil {
				al := &cvar5{name: g.uniq("al"), kind: c.kind, n: c.n, keys: c.keys}
				out = append(out, lang.Assign(lang.Var(al.name), lang.Var(c.name)))
				if c.kind == "list" && c.n > 0 {
					idx := num5(g.pick(c.n, "ali"))
					out = append(out, lang.Assign(lang.Idx(lang.Var(al.name), idx), g.scalar()), lang.Rec(lang.Idx(lang.Var(c.name), idx)))
					g.tag("alias")
				} else if c.kind == "map" {
					k := lang.Str("viaAlias")
					out = append(out, lang.Assign(lang.Idx(lang.Var(al.name), k), g.scalar()), lang.Rec(lang.Dot(lang.Var(c.name), "viaAlias")))
					c.keys = append(c.keys, k)
					g.tag("alias")
				}
				vars = append(vars, al)
			}
		case 6: // mutation through a parameter; scalars by value
			if c := pickVar("list"); c != nil && c.n > 0 {
				fn := g.uniq("mut")
				idx := num5(g.pick(c.n, "pi"))
				f := &lang.Func{Name: fn, Params: []string{"x", "s"}, Body: []*lang.S{
					lang.Assign(lang.Idx(lang.Var("x"), idx), g.scalar()),
					lang.Assign(lang.Var("s"), num5(99)),
					lang.Return(lang.Var("s")),
				}}
				sv := g.uniq("sv")
				out = append(out, &lang.S{K: "func", Fn: f}, lang.Assign(lang.Var(sv), num5(g.pick(9, "svv"))),
					lang.Rec(lang.Call(lang.Var(fn), lang.Var(c.name), lang.Var(sv))), lang.Rec(lang.Var(c.name)), lang.Rec(lang.Var(sv)))
				g.tag("param-reference")
			}
		case 7: // add
			if c := pickVar("list"); c != nil {
				args := []*lang.E{lang.Var(c.name), g.scalar()}
				if g.flip("addidx") {
					args = append(args, num5(g.pick(c.n+1, "ai")))
				}
				out = append(out, lang.Assign(lang.Var(c.name), lang.Call(lang.Var("add"), args...)), lang.Rec(lang.Var(c.name)), lang.Rec(lang.Call(lang.Var("len"), lang.Var(c.name))))
				c.n++
				g.dropAliases(&vars, c)
			}
		case 8: // del on a list
			if c := pickVar("list"); c != nil && c.n > 0 {
				out = append(out, lang.Assign(lang.Var(c.name), lang.Call(lang.Var("del"), lang.Var(c.name), num5(g.pick(c.n, "di")))), lang.Rec(lang.Var(c.name)))
				c.n--
				g.dropAliases(&vars, c)
			}
		case 9: // del on a map
			if c := pickVar("map"); c != nil && len(c.keys) > 0 {
				ki := g.pick(len(c.keys), "dk")
				k := c.keys[ki]
				if k.K == "num" {
					g.tag("numeric-map-key")
				}
				out = append(out, lang.Assign(lang.Var(c.name), lang.Call(lang.Var("del"), lang.Var(c.name), k)), lang.Rec(lang.Call(lang.Var("len"), lang.Var(c.name))), lang.Rec(lang.Var(c.name)))
				c.keys = append(append([]*lang.E{}, c.keys[:ki]...), c.keys[ki+1:]...)
				g.dropAliases(&vars, c)
			}
		case 10: // concat
			a, b := pickVar("list"), pickVar("list")
			if a != nil && b != nil {
				c := &cvar5{name: g.uniq("cc"), kind: "list", n: a.n + b.n}
				out = append(out, lang.Assign(lang.Var(c.name), lang.Call(lang.Var("concat"), lang.Var(a.name), lang.Var(b.name))), lang.Rec(lang.Var(c.name)))
				if c.n > 0 { // the result is a new list: writing to it must not change the operands
					out = append(out, lang.Assign(lang.Idx(lang.Var(c.name), num5(0)), lang.Str("w")), lang.Rec(lang.Var(a.name)), lang.Rec(lang.Var(b.name)))
				}
				vars = append(vars, c)
			}
		case 11: // nested path
			nm := g.uniq("nst")
			lit := lang.MapLit(lang.Str("k"), lang.MapLit(lang.Str("n"), lang.List(num5(1), num5(2), num5(3))), lang.Str("l"), lang.List(lang.MapLit(lang.Str("z"), num5(0))))
			out = append(out, lang.Assign(lang.Var(nm), lit))
			switch g.pick(3, "np") {
			case 0:
				p := lang.Idx(lang.Dot(lang.Dot(lang.Var(nm), "k"), "n"), num5(g.pick(3, "npi")))
				out = append(out, lang.Assign(p, g.scalar()), lang.Rec(p))
			case 1:
				p := lang.Dot(lang.Idx(lang.Dot(lang.Var(nm), "l"), num5(0)), "z")
				out = append(out, lang.Assign(p, g.scalar()), lang.Rec(p))
			default:
				inner := g.uniq("in")
				out = append(out, lang.Assign(lang.Var(inner), lang.Dot(lang.Dot(lang.Var(nm), "k"), "n")),
					lang.Assign(lang.Idx(lang.Var(inner), num5(1)), g.scalar()))
			}
			out = append(out, lang.Rec(lang.Var(nm)))
			g.tag("nested-path")
		case 12: // iterate
			if c := pickVar([]string{"list", "map"}[g.pick(2, "ik")]); c != nil {
				if c.kind == "list" {
					iv := g.uniq("it")
					out = append(out, &lang.S{K: "for", Vars: []string{iv}, E: lang.Var(c.name), Body: []*lang.S{lang.Rec(lang.Var(iv))}})
				} else {
					kv, vv := g.uniq("ik"), g.uniq("iv")
					out = append(out, &lang.S{K: "for", Vars: []string{kv, vv}, E: lang.Var(c.name), Body: []*lang.S{lang.Rec(lang.Var(kv)), lang.Rec(lang.Var(vv))}})
				}
			}
		default:
			if c := pickVar([]string{"list", "map"}[g.pick(2, "lk")]); c != nil {
				out = append(out, lang.Rec(lang.Call(lang.Var("len"), lang.Var(c.name))))
			}
		}
	}
	return out
}

// after add/del only the returned value may be used: forget other names of the old value.
func (g *gen5) dropAliases(vars *[]*cvar5, keep *cvar5) {
	var out []*cvar5
	for _, v := range *vars {
		if v == keep || !hasPrefix5(v.name, "al") {
			out = append(out, v)
		}
	}
	*vars = out
}

func hasPrefix5(s, p string) bool { return len(s) >= len(p) && s[:len(p)] == p }

// ---------------------------------------------------------------------------
// objects

func fn5(params []string, body ...*lang.S) *lang.E {
	return &lang.E{K: "func", Fn: &lang.Func{Params: params, Body: body}}
}

func (g *gen5) objects() []*lang.S {
	var out []*lang.S
	this := func(f string) *lang.E { return lang.Dot(lang.Var("this"), f) }
	// Base templates: each with its own property, method and optionally init
	nb := 1 + g.pick(2, "nbase")
	var bases []string
	for i := 0; i < nb; i++ {
		name := g.uniq("Base")
		prop := fmt.Sprintf("bp%d", i)
		t := lang.MapLit(
			lang.Str(prop), num5(10*(i+1)),
			lang.Str(fmt.Sprintf("getB%d", i)), fn5(nil, lang.Return(this(prop))),
			lang.Str(fmt.Sprintf("setB%d", i)), fn5([]string{"v"}, lang.Assign(this(prop), lang.Var("v"))),
		)
		if g.pick(4, "binit") != 0 {
			t.A = append(t.A, lang.Str("init"), fn5([]string{"x"}, lang.Rec(lang.List(lang.Str("init-"+name), lang.Var("x"))), lang.Assign(this(prop), lang.Var("x"))))
		}
		out = append(out, lang.Assign(lang.Var(name), t))
		bases = append(bases, name)
	}
	// Derived template
	der := g.uniq("Der")
	nsup := g.pick(nb+1, "nsup")
	t := lang.MapLit(lang.Str("dp"), num5(7), lang.Str("sum"), fn5([]string{"k"}, lang.Return(lang.Op("plus", this("dp"), lang.Var("k")))))
	if nsup > 0 {
		sl := lang.List()
		for i := 0; i < nsup; i++ {
			sl.A = append(sl.A, lang.Var(bases[i]))
		}
		t.A = append(t.A, lang.Str("super"), sl)
		g.tag("object-with-super")
	}
	ownInit := g.pick(3, "dinit") != 0
	if ownInit {
		body := []*lang.S{lang.Rec(lang.List(lang.Str("init-"+der), lang.Var("a1"), lang.Var("a2")))}
		// call the super constructors that exist (the generator knows which bases have init)
		for i := 0; i < nsup; i++ {
			if g.hasInit(out, bases[i]) && g.flip("callsuper") {
				body = append(body, lang.ExprS(lang.Call(lang.Idx(lang.Var("super"), num5(i)), lang.Op("plus", lang.Var("a1"), num5(i)))))
			}
		}
		body = append(body, lang.Assign(this("dp"), lang.Var("a2")))
		t.A = append(t.A, lang.Str("init"), fn5([]string{"a1", "a2"}, body...))
	}
	out = append(out, lang.Assign(lang.Var(der), t))
	// instances
	ni := 1 + g.pick(2, "ninst")
	for k := 0; k < ni; k++ {
		o := g.uniq("o")
		args := []*lang.E{lang.Var(der)}
		inheritsInit := false
		for i := 0; i < nsup; i++ {
			if g.hasInit(out, bases[i]) {
				inheritsInit = true
			}
		}
		if ownInit {
			args = append(args, num5(1+g.pick(5, "ia1")), num5(20+g.pick(5, "ia2")))
		} else if inheritsInit {
			args = append(args, num5(30+g.pick(5, "ia3")))
		}
		out = append(out, lang.Assign(lang.Var(o), lang.Call(lang.Var("new"), args...)))
		out = append(out, lang.Rec(lang.Dot(lang.Var(o), "dp")), lang.Rec(lang.Call(lang.Dot(lang.Var(o), "sum"), num5(g.pick(5, "sk")))))
		for i := 0; i < nsup; i++ {
			out = append(out, lang.Rec(lang.Dot(lang.Var(o), fmt.Sprintf("bp%d", i))), lang.Rec(lang.Call(lang.Dot(lang.Var(o), fmt.Sprintf("getB%d", i)))))
			if g.flip("setb") {
				out = append(out, lang.ExprS(lang.Call(lang.Dot(lang.Var(o), fmt.Sprintf("setB%d", i)), num5(g.pick(50, "setv")))),
					lang.Rec(lang.Call(lang.Dot(lang.Var(o), fmt.Sprintf("getB%d", i)))))
			}
		}
		// the template itself is unchanged by what instances do
		out = append(out, lang.Rec(lang.Dot(lang.Var(der), "dp")))
		for i := 0; i < nsup; i++ {
			out = append(out, lang.Rec(lang.Dot(lang.Var(bases[i]), fmt.Sprintf("bp%d", i))))
		}
	}
	return out
}

func (g *gen5) hasInit(stmts []*lang.S, name string) bool {
	for _, s := range stmts {
		if s.K == "assign" && s.L.K == "var" && s.L.S == name && s.E.K == "map" {
			for i := 0; i+1 < len(s.E.A); i += 2 {
				if s.E.A[i].S == "init" {
					return true
				}
			}
		}
	}
	return false
}

func genProg5(rt *rapid.T) *lang.Prog {
	g := &gen5{rt: rt, tags: map[string]bool{}}
	p := &lang.Prog{}
	sections := 1 + g.pick(3, "sections")
	e := newEnv5(nil)
	p.Body = append(p.Body, lang.Assign(lang.Var("a"), num5(1)), lang.Assign(lang.Var("b"), num5(2)))
	e.nums["a"], e.nums["b"] = true, true
	for i := 0; i < sections; i++ {
		switch g.pick(4, "section") {
		case 0, 1:
			p.Body = append(p.Body, g.scopingBlock(e, 0)...)
		case 2:
			p.Body = append(p.Body, g.containers()...)
		default:
			p.Body = append(p.Body, g.objects()...)
		}
	}
	for _, n := range scopeNames5 {
		p.Body = append(p.Body, lang.Probe("final-"+n, n))
	}
	return p
}

// ---------------------------------------------------------------------------
// ill-typed mutation

// slot is one replaceable expression position of a program.
type slot struct {
	set func(*lang.E)
	pos string // what the position is (part of the case key)
	// form restriction: "var" = only a variable can stand here without changing the syntax
	// class (callee, indexed container, if/for header with a brace literal)
	varOnly bool
	header  bool
}

// collectSlots lists the expression positions of p. Positions which keep the
// generated programs terminating (guard and counter of condition loops) are
// left alone; everything else may be replaced.
func collectSlots(p *lang.Prog) []slot {
	var out []slot
	var expr func(e *lang.E, set func(*lang.E), pos string, varOnly, header bool)
	var stmts func(ss []*lang.S)
	expr = func(e *lang.E, set func(*lang.E), pos string, varOnly, header bool) {
		if e == nil {
			return
		}
		out = append(out, slot{set, pos, varOnly, header})
		switch e.K {
		case "call":
			fn := "call"
			if e.A[0].K == "var" {
				fn = e.A[0].S
			} else if e.A[0].K == "dot" {
				fn = "." + e.A[0].S
			}
			if !(e.A[0].K == "dot" && e.A[0].A[0].K == "var" && e.A[0].A[0].S == "t") { // t.rec stays callable
				if e.A[0].K == "var" {
					out = append(out, slot{func(n *lang.E) { e.A[0] = n }, "callee", true, header})
				} else {
					expr(e.A[0], func(n *lang.E) { e.A[0] = n }, "callee", true, header)
				}
			}
			for i := range e.A[1:] {
				i := i + 1
				expr(e.A[i], func(n *lang.E) { e.A[i] = n }, fmt.Sprintf("arg%d:%s", i, fn), false, header)
			}
		case "idx":
			expr(e.A[0], func(n *lang.E) { e.A[0] = n }, "indexed", true, header)
			expr(e.A[1], func(n *lang.E) { e.A[1] = n }, "index", false, header)
		case "dot":
			expr(e.A[0], func(n *lang.E) { e.A[0] = n }, "dotted", true, header)
		case "func":
			if e.Fn != nil {
				for i := range e.Fn.Defs {
					i := i
					if e.Fn.Defs[i] != nil {
						out = append(out, slot{func(n *lang.E) { e.Fn.Defs[i] = n }, "default", false, false})
					}
				}
				stmts(e.Fn.Body)
			}
		case "map":
			for i := range e.A {
				i := i
				pos := "mapkey"
				if i%2 == 1 {
					pos = "mapval"
				}
				expr(e.A[i], func(n *lang.E) { e.A[i] = n }, pos, false, header)
			}
		case "list":
			for i := range e.A {
				i := i
				expr(e.A[i], func(n *lang.E) { e.A[i] = n }, "elem", false, header)
			}
		default:
			for i := range e.A {
				i := i
				expr(e.A[i], func(n *lang.E) { e.A[i] = n }, fmt.Sprintf("operand%d:%s", i, e.K), false, header)
			}
		}
	}
	stmts = func(ss []*lang.S) {
		for _, s := range ss {
			s := s
			switch s.K {
			case "expr":
				expr(s.E, func(n *lang.E) { s.E = n }, "stmt", false, false)
			case "assign":
				expr(s.E, func(n *lang.E) { s.E = n }, "rhs", false, false)
				if s.L != nil && s.L.K != "var" {
					// the root of an assignment target must stay a variable path; its indices may change
					var target func(e *lang.E)
					target = func(e *lang.E) {
						switch e.K {
						case "idx":
							target(e.A[0])
							expr(e.A[1], func(n *lang.E) { e.A[1] = n }, "target-index", false, false)
						case "dot":
							target(e.A[0])
						}
					}
					target(s.L)
				}
			case "multi":
				expr(s.E, func(n *lang.E) { s.E = n }, "multi-rhs", false, false)
			case "return":
				if s.E != nil {
					expr(s.E, func(n *lang.E) { s.E = n }, "return", false, false)
				}
			case "if":
				for _, b := range s.Br {
					b := b
					if b.Cond != nil {
						expr(b.Cond, func(n *lang.E) { b.Cond = n }, "if-guard", false, true)
					}
					stmts(b.Body)
				}
			case "while":
				// guard and counter (first body statement) keep the loop finite: not replaced
				if len(s.Body) > 0 {
					stmts(s.Body[1:])
				}
			case "for":
				expr(s.E, func(n *lang.E) { s.E = n }, "for-iterable", false, true)
				stmts(s.Body)
			case "func":
				for i := range s.Fn.Defs {
					i := i
					if s.Fn.Defs[i] != nil {
						out = append(out, slot{func(n *lang.E) { s.Fn.Defs[i] = n }, "default", false, false})
					}
				}
				stmts(s.Fn.Body)
			case "try":
				stmts(s.Body)
				for _, x := range s.Ex {
					stmts(x.Body)
				}
				if s.Oth != nil {
					stmts(s.Oth.Body)
				}
				if s.Fin != nil {
					stmts(s.Fin.Body)
				}
			case "mutex":
				stmts(s.Body)
			}
		}
	}
	stmts(p.Body)
	return out
}

// mutate replaces 1..4 expression positions of p by members of U and returns
// the prelude binding the variables it used and the mutation signature.
func mutate(rt *rapid.T, p *lang.Prog) (pre string, sig string) {
	n := rapid.IntRange(1, 4).Draw(rt, "nmut")
	var used []int
	var sigs []string
	for m := 0; m < n; m++ {
		slots := collectSlots(p)
		if len(slots) == 0 {
			break
		}
		sl := slots[rapid.IntRange(0, len(slots)-1).Draw(rt, "slot")]
		ui := rapid.IntRange(0, len(U)-1).Draw(rt, "u")
		asVar := sl.varOnly || (sl.header && needsVar(ui)) || rapid.IntRange(0, 3).Draw(rt, "asvar") == 0
		if asVar {
			sl.set(lang.Var(uvar(ui)))
			used = append(used, ui)
		} else {
			sl.set(uexpr(ui))
		}
		sigs = append(sigs, sl.pos+"="+U[ui].Name)
	}
	sort.Strings(sigs)
	return prelude(used...), strings.Join(sigs, ";")
}
