package c06

import (
	"encoding/json"
	"os"
	"path/filepath"
	"testing"

	"verif/internal/hx"
)

// TestWriteRegress (re)creates the committed regression cases of the root
// causes found so far: each case is executed against the tree the harness is
// built with and stored with the failure it produced there (run it on the
// tree WITHOUT the fixes). Only runs with VERIF_WRITE_REGRESS=1.
func TestWriteRegress(t *testing.T) {
	if os.Getenv("VERIF_WRITE_REGRESS") == "" {
		t.Skip()
	}
	cases := map[string]Case{
		"modulo-by-zero":               {Kind: "op", Src: "5 % 0", Key: "op:modint(5,0)"},
		"compare-two-lists":            {Kind: "op", Src: "[1] == [1]", Key: "op:==([1],[1])"},
		"compare-two-maps":             {Kind: "op", Src: "{} != {}", Key: "op:!=({},{})"},
		"list-in-list-of-lists":        {Kind: "op", Src: "[1] in [[1]]", Key: "op:in([1],[[1]])"},
		"map-literal-container-key":    {Kind: "directed", Src: "{[1] : 2}", Key: "directed:mapkey([1])"},
		"negative-index-read":          {Kind: "access", Pre: "c := [1]\n", Src: "c[-5]", Key: "access:read(list1,-5)"},
		"negative-index-write":         {Kind: "access", Pre: "c := [1]\n", Src: "c[-2] := 0", Key: "access:write(list1,-2)"},
		"negative-index-nested-write":  {Kind: "access", Pre: "c := [[1, 2], [3]]\n", Src: "c[-5][0] := 9", Key: "access:write2(nested,-5,0)"},
		"del-index-out-of-range":       {Kind: "access", Src: "del([1, 2, 3], 5)", Key: "access:del(list3,len+2)"},
		"del-negative-index":           {Kind: "access", Src: "del([1, 2, 3], -1)", Key: "access:del(list3,-1)"},
		"add-index-out-of-range":       {Kind: "access", Src: "add([1], 2, 5)", Key: "access:add(list1,len+2)"},
		"raise-without-type-in-try":    {Kind: "raise", Src: "try {\nraise()\n} except {\n    a := 1\n}", Key: "raise:except(0)"},
		"raise-without-type-in-sink":   mkSink("state.v=1", defaultAttrs(), sinkBodies[2], true, EvCase{`"e"`, `"c06.bad"`, `{"v" : 1}`, ""}),
		"doc-of-call-result":           {Kind: "access", Pre: "c := func() {\n}\n", Src: "doc(c())", Key: "access:doc-call(func)"},
		"doc-of-indexed-value":         {Kind: "access", Pre: "c := [null]\n", Src: "doc(c[0])", Key: "access:doc-idx(list1)"},
		"sink-state-value-is-a-list":   mkSink("statematch.v=1,state.v=[]", []string{`["c06.bad"]`, "", `{"v" : 1}`, "", ""}, sinkBodies[0], false, EvCase{`"e"`, `"c06.bad"`, `{"v" : []}`, ""}),
		"sink-statematch-value-a-list": mkSink("statematch.v=[]", []string{`["c06.bad"]`, "", `{"v" : []}`, "", ""}, sinkBodies[0], false, EvCase{`"e"`, `"c06.bad"`, `{"v" : 1}`, ""}),
	}
	dir := filepath.Join(hx.Root(), "regress", "C06")
	os.MkdirAll(dir, 0755)
	for name, c := range cases {
		f := runCase(c)
		if f == nil {
			t.Errorf("%s: no failure on this tree", name)
			continue
		}
		cb, _ := json.Marshal(c)
		b, _ := json.MarshalIndent(map[string]interface{}{"property": "C06", "sig": f.Sig, "msg": f.Msg, "case": json.RawMessage(cb)}, "", " ")
		if err := os.WriteFile(filepath.Join(dir, name+".json"), b, 0644); err != nil {
			t.Fatal(err)
		}
	}
}
