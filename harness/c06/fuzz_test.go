package c06

import (
	"encoding/json"
	"os"
	"strings"
	"testing"

	"github.com/krotik/ecal/parser"

	"verif/internal/hx"
)

// maximal source size accepted from the fuzzer
const fuzzMaxInput = 4000

// Sources which block or start something that cannot be stopped by design
// (DESIGN 2.8) and event cascades (a sink which waits for its own cascade
// dead-locks the single worker: user-written non-termination).
var fuzzSkipWords = []string{"sleep", "setPulseTrigger", "setCronTrigger", "addEvent"}

func fuzzSkip(src string) bool {
	if len(src) > fuzzMaxInput {
		return true
	}
	// every operator evaluation prints its whole subtree (an eagerly built assertion message in numVal & co.):
	// a chain of n nested prefix operators costs about n^3 and the step budget counts visits, not time. A run of
	// more than 64 sign / bracket characters is slow, not a crash - the fuzzing engine would report the worker
	// it kills as a failing input (it did: 3000 x "+" in a 25 minute campaign)
	run := 0
	for _, r := range src {
		if strings.ContainsRune("+-([{ \t", r) {
			if r != ' ' && r != '\t' {
				run++
			}
			if run > 64 {
				return true
			}
		} else {
			run = 0
		}
	}
	for _, w := range fuzzSkipWords {
		if strings.Contains(src, w) {
			return true
		}
	}
	return false
}

// fuzzKey is the (construct) signature of a fuzz input: the first node names of its tree.
func fuzzKey(src string) string {
	var names []string
	func() {
		defer func() { recover() }()
		n, err := parser.Parse("c06", src)
		if err != nil || n == nil {
			names = append(names, "unparsable")
			return
		}
		var walk func(n *parser.ASTNode)
		walk = func(n *parser.ASTNode) {
			if n == nil || len(names) >= 12 {
				return
			}
			names = append(names, n.Name)
			for _, c := range n.Children {
				walk(c)
			}
		}
		walk(n)
	}()
	return "fuzz:" + strings.Join(names, " ")
}

func fuzzCase(src string) Case {
	return Case{Kind: "fuzz", Src: src, Key: fuzzKey(src), Budget: stepBudget}
}

// corpus returns the programs lifted from the repository (shared with C07).
func corpus() []string {
	var out []string
	for _, fn := range []string{"testdata/corpus.json", "../c07/testdata/corpus.json"} {
		b, err := os.ReadFile(fn)
		if err != nil {
			continue
		}
		if json.Unmarshal(b, &out) == nil && len(out) > 0 {
			return out
		}
	}
	return nil
}

// FuzzEval: source bytes -> Parse / Validate / Eval (bare and wrapped in try)
// under the step budget; the oracle of runCase applies.
func FuzzEval(f *testing.F) {
	for _, s := range corpus() {
		if !fuzzSkip(s) {
			f.Add([]byte(s))
		}
	}
	for _, s := range []string{
		"a := 1", "l := [1, 2, 3]\nl[-1] := l[0] % 2", "try {\n raise(\"a\", \"b\", [1])\n} except \"a\" as e {\n log(e)\n} finally {\n x := 1\n}",
		"for [k, v] in {\"a\" : 1} {\n if k == \"a\" {\n  break\n }\n}", "o := new({\"super\" : [{\"init\" : func(a) {\n}}], \"init\" : func(a=1) {\n super[0](a)\n}})",
		"sink s\n kindmatch [\"a.*\"],\n statematch {\"a\" : 1},\n priority 1\n{\n raise(\"x\")\n}", "func f(a, b=2) {\n return a + b\n}\nx := f(1) // 0\ndoc(f)", "\"{{1 + 'a'}} {{x[5]}}\"",
		"x := {1 : [1, {\"a\" : null}]}\nx[1][1].a := del(x[1], 0)", "import \"ok\" as m\nm.f()\nm.v.w", "mutex m {\n a := 1 in [1]\n b := a notin [[1]]\n}", "-x + not true or 1 like \"(\"",
	} {
		f.Add([]byte(s))
	}
	f.Fuzz(func(t *testing.T, b []byte) {
		src := string(b)
		if fuzzSkip(src) {
			t.Skip()
		}
		c := fuzzCase(src)
		if fl := hx.Handle(c, runCase(c)); fl != nil {
			t.Fatalf("VIOLATION C06: %s", fl)
		}
	})
}

// corpusSet runs the fuzz seeds as ordinary cases, so that the quick tier also
// evaluates the programs lifted from the repository under the oracle.
func corpusSet(yield func(Case) bool) {
	for _, s := range corpus() {
		c := fuzzCase(s)
		c.Kind = "corpus"
		if fuzzSkip(s) {
			c.Skip = "by-design.blocking-or-immortal-builtin-in-corpus-program"
		}
		if !yield(c) {
			return
		}
	}
}
