package c06

import (
	"errors"
	"fmt"
	"reflect"
	"strings"
	"sync/atomic"
	"time"

	"github.com/krotik/common/datautil"
	"github.com/krotik/ecal/engine/pool"
	"github.com/krotik/ecal/interpreter"
	"github.com/krotik/ecal/parser"
	"github.com/krotik/ecal/scope"
	"github.com/krotik/ecal/util"

	"verif/internal/erun"
	"verif/internal/hx"
)

// stepBudget is the number of node visits a generated program / fuzz input may
// use (DESIGN 2.8). Every construct evaluates its node through
// baseRuntime.Eval, which consults the debugger: once the budget is gone every
// further visit fails and the evaluation unwinds. Exhausting it is "user
// non-termination" (outside the property) - the case is discarded and counted.
const stepBudget = 20000

var errBudget = errors.New("verif step budget exhausted")

var errCycle = errors.New("verif: self-containing container (open finding C06-cyclic-container-print)")

type stepDbg struct {
	visits int64
	budget int64
	// open finding C06-cyclic-container-print: a container made to contain itself kills the process as soon as it is printed.
	// The roots assigned to are watched; once one of them holds a cycle the evaluation is stopped and the case discarded.
	watch  atomic.Value // string: root identifier of the last assignment target
	cyclic int32
}

func (d *stepDbg) VisitState(node *parser.ASTNode, vs parser.Scope, tid uint64) util.TraceableRuntimeError {
	if atomic.AddInt64(&d.visits, 1) > d.budget {
		return util.NewRuntimeError("c06", errBudget, "more than the allowed node visits", node).(util.TraceableRuntimeError)
	}
	if atomic.LoadInt32(&d.cyclic) != 0 {
		return util.NewRuntimeError("c06", errCycle, "", node).(util.TraceableRuntimeError)
	}
	if root, _ := d.watch.Load().(string); root != "" && vs != nil {
		if v, ok, _ := vs.GetValue(root); ok && hasCycle(v, nil, 0) {
			atomic.StoreInt32(&d.cyclic, 1)
			return util.NewRuntimeError("c06", errCycle, "", node).(util.TraceableRuntimeError)
		}
	}
	if node.Name == parser.NodeASSIGN && len(node.Children) > 0 {
		l := node.Children[0]
		if l.Name == parser.NodeLET && len(l.Children) > 0 {
			l = l.Children[0]
		}
		if l.Name == parser.NodeIDENTIFIER && l.Token != nil && len(l.Children) > 0 {
			d.watch.Store(l.Token.Val)
		}
	}
	return nil
}
func (d *stepDbg) exhausted() bool { return atomic.LoadInt64(&d.visits) > d.budget }
func (d *stepDbg) sawCycle() bool  { return atomic.LoadInt32(&d.cyclic) != 0 }

type contID struct {
	p uintptr
	n int
}

// hasCycle reports whether printing v would recurse forever.
func hasCycle(v interface{}, path []contID, depth int) bool {
	if depth > 64 {
		return true
	}
	var id contID
	switch c := v.(type) {
	case []interface{}:
		if len(c) == 0 {
			return false
		}
		id = contID{reflect.ValueOf(c).Pointer(), len(c)}
	case map[interface{}]interface{}:
		if len(c) == 0 {
			return false
		}
		id = contID{reflect.ValueOf(c).Pointer(), -1}
	default:
		return false
	}
	for _, p := range path {
		if p == id {
			return true
		}
	}
	path = append(path, id)
	switch c := v.(type) {
	case []interface{}:
		for _, e := range c {
			if hasCycle(e, path, depth+1) {
				return true
			}
		}
	case map[interface{}]interface{}:
		for _, e := range c {
			if hasCycle(e, path, depth+1) {
				return true
			}
		}
	}
	return false
}

func (d *stepDbg) HandleInput(string) (interface{}, error)                 { return nil, nil }
func (d *stepDbg) StopThreads(time.Duration) bool                          { return false }
func (d *stepDbg) BreakOnStart(bool)                                       {}
func (d *stepDbg) BreakOnError(bool)                                       {}
func (d *stepDbg) SetLockingState(map[string]uint64, *datautil.RingBuffer) {}
func (d *stepDbg) SetThreadPool(*pool.ThreadPool)                          {}
func (d *stepDbg) VisitStepInState(*parser.ASTNode, parser.Scope, uint64) util.TraceableRuntimeError {
	return nil
}
func (d *stepDbg) VisitStepOutState(*parser.ASTNode, parser.Scope, uint64, error) util.TraceableRuntimeError {
	return nil
}
func (d *stepDbg) RecordThreadFinished(uint64)               {}
func (d *stepDbg) SetBreakPoint(string, int)                 {}
func (d *stepDbg) DisableBreakPoint(string, int)             {}
func (d *stepDbg) RemoveBreakPoint(string, int)              {}
func (d *stepDbg) ExtractValue(uint64, string, string) error { return nil }
func (d *stepDbg) InjectValue(uint64, string, string) error  { return nil }
func (d *stepDbg) Continue(uint64, util.ContType)            {}
func (d *stepDbg) Status() interface{}                       { return nil }
func (d *stepDbg) LockState() interface{}                    { return nil }
func (d *stepDbg) Describe(uint64) interface{}               { return nil }

// outcome of one Parse / Validate / Eval round on the calling goroutine.
type outcome struct {
	perr, verr, err error
	val             interface{}
	panicked        *hx.Failure
	global          parser.Scope
	erp             *interpreter.ECALRuntimeProvider
	logger          *util.MemoryLogger
	dbg             *stepDbg
	workerLoss      string // non-empty: the pool lost a worker while the case ran
}

func (o *outcome) exhausted() bool { return o.dbg != nil && o.dbg.exhausted() }
func (o *outcome) sawCycle() bool  { return o.dbg != nil && o.dbg.sawCycle() }

// anyErr returns the error value the round produced (nil if it completed).
func (o *outcome) anyErr() error {
	switch {
	case o.perr != nil:
		return o.perr
	case o.verr != nil:
		return o.verr
	}
	return o.err
}

// stage names where the round ended.
func (o *outcome) stage() string {
	switch {
	case o.panicked != nil:
		return "panic"
	case o.perr != nil:
		return "parse-error"
	case o.verr != nil:
		return "validate-error"
	case o.err != nil:
		return "eval-error"
	}
	return "ok"
}

func (o *outcome) logged(marker string) int {
	n := 0
	for _, l := range o.logger.Slice() {
		if strings.Contains(l, marker) {
			n++
		}
	}
	return n
}

// close tears down what the case started.
func (o *outcome) close() {
	if o.erp != nil && !o.erp.Processor.Stopped() {
		o.erp.Processor.Finish()
	}
}

// checkWorkers compares the number of live workers with the configured one (only
// meaningful while the processor runs).
func (o *outcome) checkWorkers() {
	if o.erp == nil || o.workerLoss != "" {
		return
	}
	p := o.erp.Processor
	if p.Status() == pool.StatusRunning {
		if have, want := p.ThreadPool().WorkerCount(), p.Workers(); have != want {
			o.workerLoss = fmt.Sprintf("%d of %d workers alive", have, want)
		}
	}
}

// exec parses, validates and evaluates src on the calling goroutine under
// recover. With keep=false everything is torn down before it returns.
func exec(src string, budget int, keep bool) *outcome {
	erun.Setup()
	o := &outcome{logger: util.NewMemoryLogger(200)}
	o.erp = erun.NewProvider("c06", &util.MemoryImportLocator{Files: map[string]string{
		"ok":  "v := 1\nfunc f() {\n    return 2\n}\n",
		"bad": "v := 1 +\n",
		"err": "v := 1 + \"a\"\n",
	}}, o.logger)
	if budget > 0 {
		o.dbg = &stepDbg{budget: int64(budget)}
		o.erp.Debugger = o.dbg
	}
	second := false
	o.panicked = hx.Guard(func() {
		var ast *parser.ASTNode
		if ast, o.perr = parser.ParseWithRuntime("c06", src, o.erp); o.perr != nil {
			return
		}
		if o.verr = ast.Runtime.Validate(); o.verr != nil {
			return
		}
		o.global = scope.NewScope(scope.GlobalScope)
		o.val, o.err = ast.Runtime.Eval(o.global, make(map[string]interface{}), o.erp.NewThreadID())
		if o.exhausted() || o.sawCycle() {
			return
		}
		// the same tree once more in a fresh scope (every node is evaluated a second time, as in a
		// loop or a function called twice): whatever the first evaluation left in the nodes must not
		// make the second one panic; its value is not judged
		second = true
		ast.Runtime.Eval(scope.NewScope(scope.GlobalScope), make(map[string]interface{}), o.erp.NewThreadID())
	})
	if o.panicked != nil && second {
		o.panicked.Msg = "(in the SECOND evaluation of the same tree, in a fresh scope) " + o.panicked.Msg
		o.panicked.Sig = "again:" + o.panicked.Sig
	}
	if o.panicked == nil {
		o.checkWorkers()
	}
	if !keep {
		o.close()
	}
	return o
}

// errType names the type of an error value: the ECAL error type for runtime
// errors, the Go type otherwise.
func errType(err error) string {
	if err == nil {
		return ""
	}
	t, _, _, _, ok := erun.ErrInfo(err)
	if ok {
		return t
	}
	if _, isParse := err.(*parser.Error); isParse {
		return "parser.Error"
	}
	return t
}

// isControl reports whether err is one of the internal signals of return /
// break / continue (they are not errors; a generator never lets them escape a
// construct on purpose, but an ill-typed mutation can).
func isControl(err error) bool {
	var re *util.RuntimeError
	switch e := err.(type) {
	case *util.RuntimeError:
		re = e
	case *util.RuntimeErrorWithDetail:
		re = e.RuntimeError
	default:
		// returnValue (unexported) embeds *util.RuntimeError with Type ErrReturn
		if _, ok := err.(util.TraceableRuntimeError); ok {
			return strings.Contains(err.Error(), util.ErrReturn.Error())
		}
		return false
	}
	if re == nil || re.Type == nil {
		return false
	}
	return re.Type == util.ErrEndOfIteration || re.Type == util.ErrContinueIteration || re.Type == util.ErrReturn
}
