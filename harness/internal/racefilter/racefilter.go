// Package racefilter reads the log files the Go race detector writes when a
// test binary built with -race runs under
//
//	GORACE="log_path=<dir>/race-<shard> halt_on_error=0 exitcode=0"
//
// (the runtime appends ".<pid>" to the path) and separates the reports whose
// RACING ACCESSES THEMSELVES lie in the packages a property names from all
// others. The detector is used as a history invariant over executions which a
// generator produced (DESIGN 2.7); nothing here looks at source code.
//
// A report has two access stacks ("Read at / Write at ... by goroutine N" and
// "Previous read at / Previous write at ... by goroutine M"; atomic variants
// exist too). The site of an access is the top frame of its stack which is
// not executed on behalf of the caller by the Go runtime (mapaccess, mapassign,
// slice/string helpers, sync/atomic ...) - rule SkipRuntime - or, with rule
// SkipStdlib, the top frame outside the whole Go standard library (so that a
// bytes.Buffer or fmt call made by a package is attributed to that package).
// A report is "in" a set of package prefixes only if BOTH sites are.
// Reports with a lost stack ("failed to restore the stack") cannot be
// attributed and are returned separately.
package racefilter

import (
	"fmt"
	"os"
	"path/filepath"
	"regexp"
	"sort"
	"strconv"
	"strings"
)

// Rule says which frames are skipped when looking for the site of an access.
type Rule int

const (
	// SkipRuntime skips frames of runtime, runtime/..., internal/... and sync/atomic.
	SkipRuntime Rule = iota
	// SkipStdlib skips every frame of the Go standard library.
	SkipStdlib
)

// Frame is one stack frame of a report.
type Frame struct {
	Func string `json:"func"` // fully qualified, e.g. github.com/krotik/ecal/parser.(*parser).next
	File string `json:"file"` // absolute path as printed
	Line int    `json:"line"`
}

// Access is one of the two racing accesses.
type Access struct {
	Op        string  `json:"op"` // "Read", "Write", "Previous read", "Previous atomic write", ...
	Addr      string  `json:"addr"`
	Goroutine string  `json:"goroutine"`
	Stack     []Frame `json:"stack"`
	Lost      bool    `json:"lost,omitempty"` // the detector could not restore the stack
}

// Report is one "WARNING: DATA RACE" block.
type Report struct {
	Access [2]Access `json:"access"`
	Text   string    `json:"-"` // the block as printed (without the ===== lines)
}

const delim = "=================="

var (
	accessRe = regexp.MustCompile(`^((?:Previous )?(?:[Aa]tomic )?(?:[Rr]ead|[Ww]rite)) (?:of size \d+ )?at (0x[0-9a-f]+) by (.*?):?$`)
	fileRe   = regexp.MustCompile(`^\s+(\S.*):(\d+)(?: \+0x[0-9a-f]+)?$`)
)

// Pkg returns the import path of the frame's package.
func (f Frame) Pkg() string {
	fn := f.Func
	slash := strings.LastIndex(fn, "/")
	dot := strings.Index(fn[slash+1:], ".")
	if dot < 0 {
		return fn
	}
	return fn[:slash+1+dot]
}

// ShortFunc returns the function without the directory part of the package
// path, e.g. parser.(*parser).next
func (f Frame) ShortFunc() string {
	return f.Func[strings.LastIndex(f.Func, "/")+1:]
}

// ShortFile returns <last package path element>/<file name>, e.g. parser/parser.go
func (f Frame) ShortFile() string {
	p := f.Pkg()
	return p[strings.LastIndex(p, "/")+1:] + "/" + filepath.Base(f.File)
}

// Site is the stable, line-free description of a frame used in signatures.
func (f Frame) Site() string { return f.ShortFile() + ":" + f.ShortFunc() }

func (f Frame) String() string { return fmt.Sprintf("%s %s:%d", f.Func, f.File, f.Line) }

func isRuntimeFrame(f Frame) bool {
	p := f.Pkg()
	return p == "runtime" || strings.HasPrefix(p, "runtime/") || strings.HasPrefix(p, "internal/") || p == "sync/atomic"
}

// isStdlibFrame: standard library import paths have no dot in their first
// element; module paths of real code do. The harness module is called "verif"
// (no dot) and is recognised explicitly.
func isStdlibFrame(f Frame) bool {
	p := f.Pkg()
	first := p
	if i := strings.Index(p, "/"); i >= 0 {
		first = p[:i]
	}
	if first == "verif" || first == "main" || strings.HasSuffix(first, "_test") {
		return false
	}
	return !strings.Contains(first, ".")
}

// Site returns the frame which is held responsible for the access.
func (a Access) Site(rule Rule) (Frame, bool) {
	for _, f := range a.Stack {
		if isRuntimeFrame(f) {
			continue
		}
		if rule == SkipStdlib && isStdlibFrame(f) {
			continue
		}
		return f, true
	}
	return Frame{}, false
}

// Sites returns the two access sites; ok is false if one cannot be determined.
func (r Report) Sites(rule Rule) (a, b Frame, ok bool) {
	a, ok1 := r.Access[0].Site(rule)
	b, ok2 := r.Access[1].Site(rule)
	return a, b, ok1 && ok2
}

// Sig returns "race@<file:function of access 1>|<file:function of access 2>"
// without line numbers; the two sites are ordered so that the signature does
// not depend on which access the detector saw second.
func (r Report) Sig(rule Rule) string {
	a, b, ok := r.Sites(rule)
	if !ok {
		return "race@unattributed"
	}
	s := []string{a.Site(), b.Site()}
	sort.Strings(s)
	return "race@" + s[0] + "|" + s[1]
}

func hasPrefix(pkg string, prefixes []string) bool {
	for _, p := range prefixes {
		if pkg == p || strings.HasPrefix(pkg, strings.TrimSuffix(p, "/")+"/") {
			return true
		}
	}
	return false
}

// In reports whether both access sites lie in one of the package prefixes
// (a prefix matches the package itself and its sub-packages).
func (r Report) In(prefixes []string, rule Rule) bool {
	a, b, ok := r.Sites(rule)
	return ok && hasPrefix(a.Pkg(), prefixes) && hasPrefix(b.Pkg(), prefixes)
}

// Split sorts reports into those whose two sites are inside the prefixes,
// those with at least one site elsewhere, and those which cannot be attributed.
func Split(reports []Report, prefixes []string, rule Rule) (in, foreign, unattributed []Report) {
	for _, r := range reports {
		if _, _, ok := r.Sites(rule); !ok {
			unattributed = append(unattributed, r)
		} else if r.In(prefixes, rule) {
			in = append(in, r)
		} else {
			foreign = append(foreign, r)
		}
	}
	return
}

// Parse extracts all complete reports from log text. consumed is the number
// of bytes up to the end of the last complete report: a block which is still
// being written is left for the next call.
func Parse(log string) (reports []Report, consumed int) {
	pos := 0
	inBlock := false
	var block []string
	for pos < len(log) {
		nl := strings.IndexByte(log[pos:], '\n')
		if nl < 0 {
			break // incomplete last line
		}
		line := strings.TrimRight(log[pos:pos+nl], "\r")
		pos += nl + 1
		if line == delim {
			if inBlock {
				if r, ok := parseBlock(block); ok {
					reports = append(reports, r)
				}
				consumed = pos
			}
			inBlock = !inBlock
			block = block[:0]
			continue
		}
		if inBlock {
			block = append(block, line)
		} else if strings.TrimSpace(line) != "" {
			// text outside of a block (e.g. "Found N data race(s)"): skip it
			consumed = pos
		} else {
			consumed = pos
		}
	}
	return reports, consumed
}

func parseBlock(lines []string) (Report, bool) {
	var r Report
	if len(lines) == 0 || !strings.Contains(lines[0], "DATA RACE") {
		return r, false
	}
	r.Text = strings.Join(lines, "\n")
	n := 0
	i := 1
	for i < len(lines) && n < 2 {
		m := accessRe.FindStringSubmatch(lines[i])
		if m == nil {
			i++
			continue
		}
		a := Access{Op: m[1], Addr: m[2], Goroutine: m[3]}
		i++
		for i < len(lines) && strings.TrimSpace(lines[i]) != "" {
			l := lines[i]
			if strings.Contains(l, "failed to restore the stack") {
				a.Lost = true
				i++
				continue
			}
			fn := strings.TrimSuffix(strings.TrimSpace(l), "()")
			fr := Frame{Func: fn}
			if i+1 < len(lines) {
				if fm := fileRe.FindStringSubmatch(lines[i+1]); fm != nil {
					fr.File = fm[1]
					fr.Line, _ = strconv.Atoi(fm[2])
					i++
				}
			}
			a.Stack = append(a.Stack, fr)
			i++
		}
		r.Access[n] = a
		n++
	}
	return r, n == 2
}

// LogPath returns the log_path option of a GORACE value ("" if absent).
func LogPath(gorace string) string {
	for _, f := range strings.Fields(gorace) {
		if strings.HasPrefix(f, "log_path=") {
			return strings.TrimPrefix(f, "log_path=")
		}
	}
	return ""
}

// Files returns the log files of a log_path prefix: all processes
// (<prefix>.*) if pid is 0, else only <prefix>.<pid>.
func Files(prefix string, pid int) []string {
	if prefix == "" || prefix == "stdout" || prefix == "stderr" {
		return nil
	}
	if pid != 0 {
		fn := fmt.Sprintf("%s.%d", prefix, pid)
		if _, err := os.Stat(fn); err != nil {
			return nil
		}
		return []string{fn}
	}
	fs, _ := filepath.Glob(prefix + ".*")
	sort.Strings(fs)
	return fs
}

// ReadAll parses every complete report in the log files of a prefix.
func ReadAll(prefix string, pid int) ([]Report, error) {
	var all []Report
	for _, fn := range Files(prefix, pid) {
		b, err := os.ReadFile(fn)
		if err != nil {
			return all, err
		}
		rs, _ := Parse(string(b))
		all = append(all, rs...)
	}
	return all, nil
}

// Tail reads the log of THIS process incrementally: every call of Next
// returns the reports completed since the previous call.
type Tail struct {
	file string
	off  int64
}

// NewTail follows <prefix>.<pid of this process>. The file need not exist yet
// (the runtime creates it with the first report).
func NewTail(prefix string) *Tail {
	return &Tail{file: fmt.Sprintf("%s.%d", prefix, os.Getpid())}
}

// File returns the path being followed.
func (t *Tail) File() string { return t.file }

// Next returns the reports which were completed since the last call.
func (t *Tail) Next() ([]Report, error) {
	f, err := os.Open(t.file)
	if err != nil {
		if os.IsNotExist(err) {
			return nil, nil
		}
		return nil, err
	}
	defer f.Close()
	st, err := f.Stat()
	if err != nil {
		return nil, err
	}
	if st.Size() <= t.off {
		return nil, nil
	}
	buf := make([]byte, st.Size()-t.off)
	n, err := f.ReadAt(buf, t.off)
	if n == 0 && err != nil {
		return nil, err
	}
	rs, consumed := Parse(string(buf[:n]))
	t.off += int64(consumed)
	return rs, nil
}

// Describe renders up to max reports with their full stacks.
func Describe(reports []Report, max int) string {
	var sb strings.Builder
	for i, r := range reports {
		if i == max {
			fmt.Fprintf(&sb, "... and %d more report(s)\n", len(reports)-max)
			break
		}
		sb.WriteString(r.Text)
		sb.WriteString("\n")
	}
	return sb.String()
}
