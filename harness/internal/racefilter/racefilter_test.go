package racefilter

import (
	"os"
	"path/filepath"
	"strings"
	"testing"
)

const sample = `==================
WARNING: DATA RACE
Read at 0x00c0000acb40 by goroutine 27:
  runtime.mapaccess2_fast64()
      /usr/lib/go-1.23/src/runtime/map_fast64.go:62 +0x0
  github.com/krotik/ecal/parser.(*parser).next()
      /tmp/x/repo/parser/parser.go:328 +0xe0a
  github.com/krotik/ecal/parser.ParseWithRuntime()
      /tmp/x/repo/parser/parser.go:182 +0x1ce
  verif/probe.TestP.func1()
      /tmp/x/harness/probe/p_test.go:21 +0x131

Previous write at 0x00c0000acb40 by goroutine 29:
  runtime.mapassign_fast64()
      /usr/lib/go-1.23/src/runtime/map_fast64.go:113 +0x0
  github.com/krotik/ecal/parser.ndGuard.func1()
      /tmp/x/repo/parser/parser.go:700 +0x25c
  github.com/krotik/ecal/parser.ndGuard()
      /tmp/x/repo/parser/parser.go:717 +0xb6

Goroutine 27 (running) created at:
  verif/probe.TestP()
      /tmp/x/harness/probe/p_test.go:18 +0x14f

Goroutine 29 (running) created at:
  verif/probe.TestP()
      /tmp/x/harness/probe/p_test.go:18 +0x14f
==================
==================
WARNING: DATA RACE
Write at 0x000001e06520 by goroutine 27:
  github.com/krotik/ecal/interpreter.newBaseRuntime()
      /tmp/x/repo/interpreter/rt_general.go:75 +0x31

Previous read at 0x000001e06520 by goroutine 28:
  bytes.(*Buffer).Write()
      /usr/lib/go-1.23/src/bytes/buffer.go:10 +0x1
  github.com/krotik/ecal/engine/pool.(*ThreadPool).SetWorkerCount()
      /tmp/x/repo/engine/pool/threadpool.go:75 +0x49
==================
==================
WARNING: DATA RACE
Read at 0x000001e06520 by goroutine 27:
  [failed to restore the stack]

Previous write at 0x000001e06520 by main goroutine:
  github.com/krotik/ecal/parser.ndLoop()
      /tmp/x/repo/parser/parser.go:753 +0x31
==================
Found 3 data race(s)
==================
WARNING: DATA RACE
Read at 0x01 by goroutine 2:
  github.com/krotik/ecal/parser.x()
`

func TestParse(t *testing.T) {
	rs, consumed := Parse(sample)
	if len(rs) != 3 {
		t.Fatalf("want 3 complete reports, got %d", len(rs))
	}
	if !strings.HasPrefix(sample[consumed:], delim+"\nWARNING: DATA RACE\nRead at 0x01") {
		t.Fatalf("the incomplete block must not be consumed: %q", sample[consumed:])
	}
	pk := []string{"github.com/krotik/ecal/parser", "github.com/krotik/ecal/interpreter"}
	in, foreign, un := Split(rs, pk, SkipStdlib)
	if len(in) != 1 || len(foreign) != 1 || len(un) != 1 {
		t.Fatalf("split %d/%d/%d", len(in), len(foreign), len(un))
	}
	if got, want := in[0].Sig(SkipStdlib), "race@parser/parser.go:parser.(*parser).next|parser/parser.go:parser.ndGuard.func1"; got != want {
		t.Fatalf("sig %q", got)
	}
	a, b, _ := foreign[0].Sites(SkipStdlib)
	if a.Pkg() != "github.com/krotik/ecal/interpreter" || b.Pkg() != "github.com/krotik/ecal/engine/pool" {
		t.Fatalf("sites %v %v", a, b)
	}
	if _, b, _ := foreign[0].Sites(SkipRuntime); b.Pkg() != "bytes" {
		t.Fatalf("SkipRuntime site %v", b)
	}
	if rs[0].Access[0].Op != "Read" || rs[0].Access[1].Op != "Previous write" || rs[0].Access[0].Stack[1].Line != 328 {
		t.Fatalf("access parse: %+v", rs[0].Access)
	}
	if !rs[2].Access[0].Lost || rs[2].Access[1].Goroutine != "main goroutine" {
		t.Fatalf("lost stack: %+v", rs[2].Access)
	}
	if hasPrefix("github.com/krotik/ecal/parserx", pk) || !hasPrefix("github.com/krotik/ecal/parser/sub", pk) {
		t.Fatal("prefix match")
	}
}

func TestTail(t *testing.T) {
	dir := t.TempDir()
	prefix := filepath.Join(dir, "race-0")
	tl := NewTail(prefix)
	if rs, err := tl.Next(); err != nil || len(rs) != 0 {
		t.Fatal(rs, err)
	}
	cut := strings.Index(sample, "Previous read at")
	os.WriteFile(tl.File(), []byte(sample[:cut]), 0644)
	rs, _ := tl.Next()
	if len(rs) != 1 {
		t.Fatalf("first chunk: %d", len(rs))
	}
	os.WriteFile(tl.File(), []byte(sample), 0644)
	rs, _ = tl.Next()
	if len(rs) != 2 {
		t.Fatalf("second chunk: %d", len(rs))
	}
	if rs, _ = tl.Next(); len(rs) != 0 {
		t.Fatalf("third: %d", len(rs))
	}
	if LogPath("halt_on_error=0 log_path=/a/b exitcode=0") != "/a/b" {
		t.Fatal("LogPath")
	}
	all, _ := ReadAll(prefix, os.Getpid())
	if len(all) != 3 {
		t.Fatalf("ReadAll %d", len(all))
	}
}
