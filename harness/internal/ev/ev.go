// Package ev collects what a check actually explored (evidence) inside the
// test process and flushes it as JSON for the driver to merge.
package ev

import (
	"encoding/binary"
	"encoding/json"
	"fmt"
	"hash/fnv"
	"os"
	"path/filepath"
	"sort"
	"sync"
)

const maxSamples = 6

type sample struct {
	h uint64
	v interface{}
}

// Collector gathers counters, class histogram, distinct hashes and samples.
type Collector struct {
	mu          sync.Mutex
	Prop        string
	Rule        string
	evaluations int64
	hashes      map[uint64]struct{}
	classes     map[string]int64
	excluded    map[string]int64
	known       map[string]int64
	extra       map[string]interface{}
	samples     []sample
	exhaustive  map[string]interface{}
	assumptions []string
}

// New creates a collector for a property.
func New(prop, rule string) *Collector {
	return &Collector{Prop: prop, Rule: rule, hashes: map[uint64]struct{}{},
		classes: map[string]int64{}, excluded: map[string]int64{}, known: map[string]int64{},
		extra: map[string]interface{}{}, exhaustive: map[string]interface{}{}}
}

// Hash returns the 64 bit FNV-1a hash of a string.
func Hash(s string) uint64 {
	h := fnv.New64a()
	h.Write([]byte(s))
	return h.Sum64()
}

// Case records one executed case. key identifies the case for the distinct
// count; it is only stored if the case is non-trivial by the property's rule.
func (c *Collector) Case(nontrivial bool, key string, classes ...string) {
	c.mu.Lock()
	defer c.mu.Unlock()
	c.evaluations++
	if nontrivial {
		c.hashes[Hash(key)] = struct{}{}
		c.classes["nontrivial"]++
	}
	for _, cl := range classes {
		c.classes[cl]++
	}
}

// Class adds n to a class counter.
func (c *Collector) Class(name string, n int64) {
	c.mu.Lock()
	c.classes[name] += n
	c.mu.Unlock()
}

// Exclude counts a case which was discarded (unspecified behaviour or known finding).
func (c *Collector) Exclude(reason string) {
	c.mu.Lock()
	c.excluded[reason]++
	c.mu.Unlock()
}

// Known counts a failure which matched an open known finding.
func (c *Collector) Known(id string) {
	c.mu.Lock()
	c.known[id]++
	c.mu.Unlock()
}

// Set stores an extra key in the evidence (last writer wins).
func (c *Collector) Set(key string, v interface{}) {
	c.mu.Lock()
	c.extra[key] = v
	c.mu.Unlock()
}

// Exhaustive notes that a finite sub-space was enumerated completely.
func (c *Collector) Exhaustive(name string, bound interface{}) {
	c.mu.Lock()
	c.exhaustive[name] = bound
	c.mu.Unlock()
}

// Assume records an assumption of the check.
func (c *Collector) Assume(s string) {
	c.mu.Lock()
	defer c.mu.Unlock()
	for _, a := range c.assumptions {
		if a == s {
			return
		}
	}
	c.assumptions = append(c.assumptions, s)
}

// Sample offers a case as a sample; the maxSamples offers with the smallest
// key hash are kept (deterministic, spread over the run).
func (c *Collector) Sample(key string, v interface{}) {
	h := Hash(key)
	c.mu.Lock()
	defer c.mu.Unlock()
	if len(c.samples) >= maxSamples && h >= c.samples[len(c.samples)-1].h {
		return
	}
	for _, s := range c.samples {
		if s.h == h {
			return
		}
	}
	c.samples = append(c.samples, sample{h, trunc(v)})
	sort.Slice(c.samples, func(i, j int) bool { return c.samples[i].h < c.samples[j].h })
	if len(c.samples) > maxSamples {
		c.samples = c.samples[:maxSamples]
	}
}

func trunc(v interface{}) interface{} {
	if s, ok := v.(string); ok && len(s) > 600 {
		return s[:600] + fmt.Sprintf("...(%d bytes)", len(s))
	}
	return v
}

// Evaluations returns the number of recorded cases.
func (c *Collector) Evaluations() int64 {
	c.mu.Lock()
	defer c.mu.Unlock()
	return c.evaluations
}

// Flush writes stats-<shard>-<pid>.json and .hashes into dir.
func (c *Collector) Flush(dir string, shard int) error {
	c.mu.Lock()
	defer c.mu.Unlock()
	if dir == "" {
		return nil
	}
	if c.evaluations == 0 && len(c.classes) == 0 && len(c.excluded) == 0 && len(c.extra) == 0 {
		return nil
	}
	base := filepath.Join(dir, fmt.Sprintf("stats-%d-%d", shard, os.Getpid()))
	var samples []interface{}
	for _, s := range c.samples {
		samples = append(samples, s.v)
	}
	out := map[string]interface{}{
		"property": c.Prop, "rule": c.Rule, "evaluations": c.evaluations,
		"classes": c.classes, "excluded": c.excluded, "known": c.known, "extra": c.extra,
		"samples": samples, "exhaustive": c.exhaustive, "assumptions": c.assumptions,
		"nhashes": len(c.hashes),
	}
	b, err := json.Marshal(out)
	if err != nil {
		return err
	}
	hb := make([]byte, 0, 8*len(c.hashes))
	for h := range c.hashes {
		hb = binary.LittleEndian.AppendUint64(hb, h)
	}
	if err := os.WriteFile(base+".hashes", hb, 0644); err != nil {
		return err
	}
	return os.WriteFile(base+".json", b, 0644)
}
