// Package sched owns the schedule at the verifhook points: a generated
// perturbation plan can delay a goroutine at a named point (yield, sleep, or
// hold until another point has been passed), always bounded by a timeout, so
// a plan can delay but never deadlock the code under test.
package sched

import (
	"fmt"
	"runtime"
	"sync"
	"sync/atomic"
	"time"

	"github.com/krotik/ecal/verifhook"
)

// Rule perturbs the Nth (1-based; 0 = every) passage of Point.
type Rule struct {
	Point   string `json:"point"`
	Nth     int    `json:"nth"`
	Action  string `json:"action"`            // yield | sleep | hold
	N       int    `json:"n,omitempty"`       // yield: count; sleep: microseconds
	Until   string `json:"until,omitempty"`   // hold: release when Until has been passed Plus more times (counted from the start of the hold)
	Plus    int    `json:"plus,omitempty"`    // default 1
	Timeout int    `json:"timeout,omitempty"` // hold: milliseconds (default 100, max 2000)
}

// Plan is a list of rules.
type Plan []Rule

// Event is one recorded hook passage.
type Event struct {
	Seq   int64
	Point string
	Args  []interface{}
}

// Sched is an installed handler.
type Sched struct {
	plan     Plan
	mu       sync.Mutex
	counts   map[string]*int64
	seq      int64
	holds    int64 // currently active holds
	released int64 // holds released by their condition
	timedOut int64 // holds released by timeout
	trace    []Event
	keep     map[string]bool // points whose events are recorded
	Observer func(point string, args []interface{})
	closed   int32
}

// Install sets the handler. record lists the points whose passages are kept in the trace.
func Install(plan Plan, record ...string) *Sched {
	s := &Sched{plan: plan, counts: map[string]*int64{}, keep: map[string]bool{}}
	for _, r := range record {
		s.keep[r] = true
	}
	verifhook.SetHandler(s.handle)
	return s
}

// Uninstall removes the handler; goroutines held at a point are released.
func (s *Sched) Uninstall() {
	atomic.StoreInt32(&s.closed, 1)
	verifhook.SetHandler(nil)
}

func (s *Sched) counter(p string) *int64 {
	s.mu.Lock()
	c, ok := s.counts[p]
	if !ok {
		c = new(int64)
		s.counts[p] = c
	}
	s.mu.Unlock()
	return c
}

// Count returns how often a point has been passed.
func (s *Sched) Count(p string) int64 { return atomic.LoadInt64(s.counter(p)) }

// ActiveHolds returns the number of goroutines currently held by the plan.
func (s *Sched) ActiveHolds() int64 { return atomic.LoadInt64(&s.holds) }

// HoldStats returns (released by condition, released by timeout).
func (s *Sched) HoldStats() (int64, int64) {
	return atomic.LoadInt64(&s.released), atomic.LoadInt64(&s.timedOut)
}

// Trace returns the recorded events.
func (s *Sched) Trace() []Event {
	s.mu.Lock()
	defer s.mu.Unlock()
	return append([]Event(nil), s.trace...)
}

// Counts returns a copy of all counters.
func (s *Sched) Counts() map[string]int64 {
	s.mu.Lock()
	defer s.mu.Unlock()
	out := map[string]int64{}
	for k, v := range s.counts {
		out[k] = atomic.LoadInt64(v)
	}
	return out
}

func (s *Sched) handle(point string, args ...interface{}) {
	if atomic.LoadInt32(&s.closed) != 0 {
		return
	}
	n := atomic.AddInt64(s.counter(point), 1)
	if s.keep[point] {
		s.mu.Lock()
		s.seq++
		s.trace = append(s.trace, Event{s.seq, point, append([]interface{}(nil), args...)})
		s.mu.Unlock()
	}
	if s.Observer != nil {
		s.Observer(point, args)
	}
	for i := range s.plan {
		r := &s.plan[i]
		if r.Point != point || (r.Nth != 0 && int64(r.Nth) != n) {
			continue
		}
		switch r.Action {
		case "yield":
			for k := 0; k < r.N+1; k++ {
				runtime.Gosched()
			}
		case "sleep":
			d := r.N
			if d > 500 {
				d = 500
			}
			time.Sleep(time.Duration(d) * time.Microsecond)
		case "hold":
			plus := int64(r.Plus)
			if plus <= 0 {
				plus = 1
			}
			to := r.Timeout
			if to <= 0 {
				to = 100
			}
			if to > 2000 {
				to = 2000
			}
			c := s.counter(r.Until)
			target := atomic.LoadInt64(c) + plus
			deadline := time.Now().Add(time.Duration(to) * time.Millisecond)
			atomic.AddInt64(&s.holds, 1)
			ok := false
			for atomic.LoadInt32(&s.closed) == 0 {
				if atomic.LoadInt64(c) >= target {
					ok = true
					break
				}
				if time.Now().After(deadline) {
					break
				}
				time.Sleep(20 * time.Microsecond)
			}
			atomic.AddInt64(&s.holds, -1)
			if ok {
				atomic.AddInt64(&s.released, 1)
			} else {
				atomic.AddInt64(&s.timedOut, 1)
			}
		}
	}
}

func (r Rule) String() string {
	switch r.Action {
	case "hold":
		return fmt.Sprintf("%s#%d:hold-until(%s+%d,%dms)", r.Point, r.Nth, r.Until, r.Plus, r.Timeout)
	default:
		return fmt.Sprintf("%s#%d:%s(%d)", r.Point, r.Nth, r.Action, r.N)
	}
}
