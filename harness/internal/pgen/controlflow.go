// Package pgen holds rapid generators for ECAL programs which several checks share.
package pgen

import (
	"fmt"

	"pgregory.net/rapid"

	"verif/internal/lang"
)

// ---------------------------------------------------------------------------
// generator

type gen struct {
	rt     *rapid.T
	mark   int
	nvar   int
	nfunc  int
	funcs  []string // defined function names with their arity
	arity  map[string]int
	budget int
}

func (g *gen) pick(n int, l string) int { return rapid.IntRange(0, n-1).Draw(g.rt, l) }

func (g *gen) marker() *lang.S {
	g.mark++
	return lang.Mark(fmt.Sprintf("m%d", g.mark))
}

type ctx struct {
	depth  int
	inLoop bool
	inFunc bool
	vars   []string // numeric variables readable and writable here
	inFin  bool
}

var errTypes = []string{"A", "B", "C"}

func (g *gen) numExpr(c ctx) *lang.E {
	if len(c.vars) > 0 && g.pick(2, "nv") == 0 {
		v := lang.Var(c.vars[g.pick(len(c.vars), "nvi")])
		if g.pick(3, "nop") == 0 {
			return lang.Op("plus", v, lang.Num(fmt.Sprint(g.pick(4, "nl"))))
		}
		return v
	}
	return lang.Num(fmt.Sprint(g.pick(6, "nl2")))
}

func (g *gen) cond(c ctx) *lang.E {
	switch g.pick(6, "cond") {
	case 0:
		return lang.Bool(true)
	case 1:
		return lang.Bool(false)
	default:
		op := []string{"<", "<=", ">", ">=", "==", "!="}[g.pick(6, "cop")]
		return lang.Op(op, g.numExpr(c), g.numExpr(c))
	}
}

// exit generates a non-fallthrough statement appropriate for the context (or nil).
func (g *gen) exit(c ctx) *lang.S {
	var opts []string
	if c.inLoop {
		opts = append(opts, "break", "continue")
	}
	if c.inFunc {
		opts = append(opts, "return", "returnv")
	}
	opts = append(opts, "raise", "raise", "rterr")
	switch opts[g.pick(len(opts), "exit")] {
	case "break":
		return lang.Break()
	case "continue":
		return lang.Continue()
	case "return":
		return lang.Return(nil)
	case "returnv":
		return lang.Return(g.numExpr(c))
	case "raise":
		args := []*lang.E{lang.Str(errTypes[g.pick(3, "et")])}
		if n := g.pick(3, "rargs"); n >= 1 {
			args = append(args, lang.Str([]string{"d1", "some detail", ""}[g.pick(3, "rd")]))
			if n == 2 {
				args = append(args, []*lang.E{lang.List(lang.Num("1"), lang.Str("x")), lang.Num("7"), lang.Str("data"), lang.Null()}[g.pick(4, "rdata")])
			}
		}
		return lang.ExprS(lang.Call(lang.Var("raise"), args...))
	default:
		// a runtime error of known type
		return lang.ExprS(lang.Op("plus", lang.Num("1"), lang.Str("a")))
	}
}

func (g *gen) block(c ctx, maxStmts int) []*lang.S {
	n := 1 + g.pick(maxStmts, "nstmts")
	var out []*lang.S
	for i := 0; i < n && g.budget > 0; i++ {
		out = append(out, g.stmt(c)...)
	}
	if len(out) == 0 {
		out = append(out, g.marker())
	}
	return out
}

func (g *gen) stmt(c ctx) []*lang.S {
	g.budget--
	k := g.pick(20, "stmt")
	if c.depth >= 4 && k >= 6 && k <= 14 {
		k = 0
	}
	if c.inFin && (k >= 15 || (k >= 6 && k <= 14)) {
		k = k % 3 // finally bodies: markers and assignments only
	}
	inner := c
	inner.depth++
	switch {
	case k <= 2:
		return []*lang.S{g.marker()}
	case k == 3:
		if len(c.vars) == 0 {
			return []*lang.S{g.marker()}
		}
		v := c.vars[g.pick(len(c.vars), "av")]
		return []*lang.S{lang.Assign(lang.Var(v), lang.Op("plus", lang.Var(v), lang.Num("1")))}
	case k <= 5:
		return []*lang.S{lang.Rec(g.numExpr(c))}
	case k <= 7: // if
		s := &lang.S{K: "if"}
		nb := 1 + g.pick(3, "nbr")
		for i := 0; i < nb; i++ {
			s.Br = append(s.Br, &lang.Branch{Cond: g.cond(c), Body: g.block(inner, 3)})
		}
		if g.pick(2, "else") == 0 {
			s.Br = append(s.Br, &lang.Branch{Body: g.block(inner, 3)})
		}
		return []*lang.S{g.marker(), s, g.marker()}
	case k <= 10: // loops
		li := inner
		li.inLoop = true
		g.nvar++
		switch g.pick(5, "loop") {
		case 0: // condition loop with a guard counter incremented at the head
			w := fmt.Sprintf("w%d", g.nvar)
			init := lang.Assign(lang.Var(w), lang.Num("0"))
			if c.inFunc {
				init = lang.LetS(w, lang.Num("0"))
			}
			li.vars = append(append([]string{}, c.vars...), w)
			body := append([]*lang.S{lang.Assign(lang.Var(w), lang.Op("plus", lang.Var(w), lang.Num("1")))}, g.block(li, 3)...)
			return []*lang.S{init, lang.While(lang.Op("<", lang.Var(w), lang.Num(fmt.Sprint(1+g.pick(3, "wn")))), body...), g.marker()}
		case 1, 2: // range
			v := fmt.Sprintf("i%d", g.nvar)
			li.vars = append(append([]string{}, c.vars...), v)
			var args []*lang.E
			from, to := g.pick(5, "from"), g.pick(5, "to")
			switch g.pick(4, "rform") {
			case 0:
				args = []*lang.E{lang.Num(fmt.Sprint(to % 4))}
			case 1:
				if from > to {
					from, to = to, from
				}
				args = []*lang.E{lang.Num(fmt.Sprint(from)), lang.Num(fmt.Sprint(to))}
			default:
				// steps incl. fractions that are exact in binary (0.5, 1.5) and bounds that the step does not hit (the end is "the last number within step")
				step := []string{"1", "2", "0.5", "1.5", "3"}[g.pick(5, "step")]
				if from > to {
					args = []*lang.E{lang.Num(fmt.Sprint(from)), lang.Num(fmt.Sprint(to)), lang.Op("minus", lang.Num(step))}
				} else {
					args = []*lang.E{lang.Num(fmt.Sprint(from)), lang.Num(fmt.Sprint(to)), lang.Num(step)}
				}
				if g.pick(4, "negfrom") == 0 && from <= to {
					args[0] = lang.Op("minus", lang.Num(fmt.Sprint(1+g.pick(2, "nf")))) // negative start
				}
			}
			body := append([]*lang.S{lang.Rec(lang.Var(v))}, g.block(li, 3)...)
			return []*lang.S{{K: "for", Vars: []string{v}, E: lang.Call(lang.Var("range"), args...), Body: body}, g.marker()}
		case 3: // list
			if g.pick(3, "destr") == 0 { // list of pairs, destructured
				a, b := fmt.Sprintf("x%d", g.nvar), fmt.Sprintf("y%d", g.nvar)
				li.vars = append(append([]string{}, c.vars...), a, b)
				l := lang.List()
				for i, n := 0, g.pick(4, "pl"); i < n; i++ {
					l.A = append(l.A, lang.List(lang.Num(fmt.Sprint(g.pick(9, "pa"))), lang.Num(fmt.Sprint(g.pick(9, "pb")))))
				}
				body := append([]*lang.S{lang.Rec(lang.Var(a)), lang.Rec(lang.Var(b))}, g.block(li, 2)...)
				return []*lang.S{{K: "for", Vars: []string{a, b}, E: l, Body: body}, g.marker()}
			}
			v := fmt.Sprintf("i%d", g.nvar)
			li.vars = append(append([]string{}, c.vars...), v)
			l := lang.List()
			for i, n := 0, g.pick(4, "ll"); i < n; i++ {
				l.A = append(l.A, lang.Num(fmt.Sprint(g.pick(9, "lv"))))
			}
			body := append([]*lang.S{lang.Rec(lang.Var(v))}, g.block(li, 3)...)
			return []*lang.S{{K: "for", Vars: []string{v}, E: l, Body: body}, g.marker()}
		default: // map as [key, value]
			k, v := fmt.Sprintf("k%d", g.nvar), fmt.Sprintf("v%d", g.nvar)
			li.vars = append(append([]string{}, c.vars...), v)
			m := lang.MapLit()
			keys := [][]string{{"b", "a", "c"}, {"zz", "z", "y"}, {"B", "a", "A"}, {"k"}, {}}[g.pick(5, "mk")]
			for i, key := range keys {
				m.A = append(m.A, lang.Str(key), lang.Num(fmt.Sprint(i+1)))
			}
			body := append([]*lang.S{lang.Rec(lang.Var(k)), lang.Rec(lang.Var(v))}, g.block(li, 2)...)
			// a map literal cannot stand in a loop header (the brace opens the body): bind it first, as in ecal.md
			mv := fmt.Sprintf("mp%d", g.nvar)
			bind := lang.Assign(lang.Var(mv), m)
			if c.inFunc {
				bind = lang.LetS(mv, m)
			}
			return []*lang.S{bind, {K: "for", Vars: []string{k, v}, E: lang.Var(mv), Body: body}, g.marker()}
		}
	case k <= 12: // try
		s := &lang.S{K: "try"}
		s.Body = g.block(inner, 3)
		if g.pick(3, "tryexit") != 0 {
			s.Body = append(s.Body, g.exit(inner))
		}
		nex := g.pick(4, "nex")
		for i := 0; i < nex; i++ {
			x := &lang.Except{}
			switch g.pick(6, "xshape") {
			case 0: // bare
			case 1:
				x.As = "e"
			case 2:
				x.Types = []string{g.errType()}
			case 3:
				x.Types = []string{g.errType()}
				x.As = "e"
			case 4:
				x.Types = []string{g.errType(), g.errType()}
			default:
				x.Types = []string{g.errType(), g.errType()}
				x.As = "e"
			}
			x.Body = []*lang.S{g.marker()}
			if x.As != "" {
				x.Body = append(x.Body, lang.Rec(lang.Dot(lang.Var("e"), "type")))
				if g.pick(3, "recdetail") == 0 {
					x.Body = append(x.Body, &lang.S{K: "try", Body: []*lang.S{lang.Rec(lang.Dot(lang.Var("e"), "detail")), lang.Rec(lang.Dot(lang.Var("e"), "data"))},
						Ex: []*lang.Except{{Body: []*lang.S{lang.Mark("nodetail")}}}})
				}
			}
			x.Body = append(x.Body, g.block(inner, 2)...)
			if g.pick(4, "xexit") == 0 {
				x.Body = append(x.Body, g.exit(inner))
			}
			s.Ex = append(s.Ex, x)
		}
		if g.pick(3, "oth") == 0 {
			s.Oth = &lang.Block{Body: g.block(inner, 2)}
			if g.pick(5, "othexit") == 0 {
				s.Oth.Body = append(s.Oth.Body, g.exit(inner))
			}
		}
		if g.pick(2, "fin") == 0 {
			fi := inner
			fi.inFin = true
			s.Fin = &lang.Block{Body: g.block(fi, 2)}
		}
		return []*lang.S{g.marker(), s, g.marker()}
	case k <= 14: // function definition + call (definitions only at the top level of the program / not inside loops to keep names unique)
		if c.inFunc || c.inLoop || c.depth > 0 {
			return g.callStmt(c)
		}
		g.nfunc++
		name := fmt.Sprintf("f%d", g.nfunc)
		np := g.pick(3, "np")
		f := &lang.Func{Name: name}
		fc := ctx{depth: c.depth + 1, inFunc: true}
		for i := 0; i < np; i++ {
			p := fmt.Sprintf("p%d", i+1)
			f.Params = append(f.Params, p)
			fc.vars = append(fc.vars, p)
		}
		f.Body = g.block(fc, 4)
		if g.pick(2, "fret") == 0 {
			f.Body = append(f.Body, lang.Return(g.numExpr(fc)))
		} else {
			f.Body = append(f.Body, lang.Return(lang.Num("0")))
		}
		g.funcs = append(g.funcs, name)
		g.arity[name] = np
		out := []*lang.S{{K: "func", Fn: f}}
		return append(out, g.callStmt(c)...)
	case k <= 16:
		if e := g.exit(c); e != nil && g.pick(3, "doexit") == 0 {
			return []*lang.S{e}
		}
		return []*lang.S{g.marker()}
	default:
		return g.callStmt(c)
	}
}

func (g *gen) errType() string {
	if g.pick(5, "rtt") == 0 {
		return lang.TNotANumber
	}
	return errTypes[g.pick(3, "et2")]
}

func (g *gen) callStmt(c ctx) []*lang.S {
	if len(g.funcs) == 0 || c.inFunc {
		return []*lang.S{g.marker()}
	}
	name := g.funcs[g.pick(len(g.funcs), "fn")]
	var args []*lang.E
	for i := 0; i < g.arity[name]; i++ {
		args = append(args, g.numExpr(c))
	}
	return []*lang.S{lang.Rec(lang.Call(lang.Var(name), args...)), g.marker()}
}

// ControlFlow generates a terminating control-flow program (if/elif/else, the four
// loop forms, break/continue/return, functions, try with all clause shapes,
// raise and runtime errors) with an observation before/after every construct.
func ControlFlow(rt *rapid.T) *lang.Prog {
	g := &gen{rt: rt, arity: map[string]int{}, budget: 40}
	p := &lang.Prog{}
	c := ctx{vars: []string{"a", "b"}}
	p.Body = append(p.Body, lang.Assign(lang.Var("a"), lang.Num("0")), lang.Assign(lang.Var("b"), lang.Num("3")))
	n := 1 + g.pick(5, "top")
	for i := 0; i < n && g.budget > 0; i++ {
		p.Body = append(p.Body, g.stmt(c)...)
	}
	p.Body = append(p.Body, lang.Rec(lang.Var("a")), lang.Rec(lang.Var("b")))
	return p
}
