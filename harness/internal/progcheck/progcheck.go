// Package progcheck compares a generated program's behaviour under the real
// interpreter with the prediction of the reference interpreter (all
// documentation-undetermined variants must agree, otherwise the case is
// discarded as unspecified).
package progcheck

import (
	"fmt"
	"strings"

	"verif/internal/erun"
	"verif/internal/hx"
	"verif/internal/lang"
)

// Predict runs the reference interpreter under every variant of the choices
// the documentation leaves open. It returns the distinct outcomes (any of
// them is acceptable: the implementation corresponds to one combination of
// the choices), or a non-empty reason why the program is unspecified (some
// variant meets behaviour the references do not determine at all).
func Predict(p *lang.Prog, env map[string]lang.Value, variants []lang.Variants) ([]*lang.Outcome, string) {
	var outs []*lang.Outcome
	seen := map[string]bool{}
	for _, v := range variants {
		o := lang.Run(p, cloneEnv(env), v)
		if o.Unspecified != "" {
			return nil, strings.SplitN(o.Unspecified, ":", 2)[0]
		}
		k := Key(o)
		if !seen[k] {
			seen[k] = true
			outs = append(outs, o)
		}
	}
	if len(outs) > 8 {
		return nil, "too-many-acceptable-outcomes"
	}
	return outs, ""
}

func cloneEnv(env map[string]lang.Value) map[string]lang.Value {
	out := map[string]lang.Value{}
	for k, v := range env {
		out[k] = lang.FromGo(lang.ToGo(v))
	}
	return out
}

// Key serialises an outcome for comparison between variants.
func Key(o *lang.Outcome) string {
	var b strings.Builder
	for _, t := range o.Trace {
		if t.Alt != nil {
			b.WriteString("alt(")
			for _, a := range t.Alt {
				b.WriteString(lang.Show(a) + "|")
			}
			b.WriteString(");")
		} else {
			b.WriteString(lang.Show(t.Val) + ";")
		}
	}
	b.WriteString(" err=" + ErrString(o.Err))
	return b.String()
}

// ErrString renders a predicted error.
func ErrString(e *lang.ErrV) string {
	if e == nil {
		return "none"
	}
	if e.Raised {
		return fmt.Sprintf("raised(%q,%q,%s)", e.Type, e.Detail, lang.Show(e.Data))
	}
	return fmt.Sprintf("runtime(%q)", e.Type)
}

// Compare checks the real run against the prediction. sigPrefix is put in
// front of the failure signature.
func Compare(src string, wants []*lang.Outcome, res *erun.Result) *hx.Failure {
	var first *hx.Failure
	for _, w := range wants {
		f := compareOne(src, w, res)
		if f == nil {
			return nil
		}
		if first == nil {
			first = f
		}
	}
	if first != nil && len(wants) > 1 {
		first.Msg = fmt.Sprintf("(none of the %d acceptable outcomes matches; shown against the first)\n%s", len(wants), first.Msg)
	}
	return first
}

func compareOne(src string, want *lang.Outcome, res *erun.Result) *hx.Failure {
	if res.Panic != nil {
		return &hx.Failure{Sig: res.Panic.Sig, Msg: src + "\n" + res.Panic.Msg}
	}
	if res.ParseErr != nil {
		return hx.Failf("parse-error", "generated program rejected by the parser: %v\n%s", res.ParseErr, src)
	}
	if res.ValidateErr != nil {
		return hx.Failf("validate-error", "generated program rejected by Validate: %v\n%s", res.ValidateErr, src)
	}
	// trace
	n := len(want.Trace)
	if len(res.Trace) < n {
		n = len(res.Trace)
	}
	for i := 0; i < n; i++ {
		if !matchItem(want.Trace[i], res.Trace[i]) {
			return hx.Failf("trace-mismatch", "observation %d: got %s, reference says %s\n  got trace  %s\n  want trace %s\n  got error %v, want %s\n%s",
				i, lang.Show(res.Trace[i]), showItem(want.Trace[i]), showGot(res.Trace), showWant(want.Trace), res.Err, ErrString(want.Err), src)
		}
	}
	if len(res.Trace) != len(want.Trace) {
		return hx.Failf("trace-length", "got %d observations, reference says %d\n  got trace  %s\n  want trace %s\n  got error %v, want %s\n%s",
			len(res.Trace), len(want.Trace), showGot(res.Trace), showWant(want.Trace), res.Err, ErrString(want.Err), src)
	}
	// error
	if want.Err == nil {
		if res.Err != nil {
			return hx.Failf("unexpected-error", "program must end without an error but failed: %v\n%s", res.Err, src)
		}
		return nil
	}
	if res.Err == nil {
		return hx.Failf("error-missing", "program must fail with %s but ended without an error\n%s", ErrString(want.Err), src)
	}
	typ, detail, data, _, _ := erun.ErrInfo(res.Err)
	if typ != want.Err.Type {
		return hx.Failf("error-type", "program failed with type %q (%v), reference says %s\n%s", typ, res.Err, ErrString(want.Err), src)
	}
	if want.Err.Raised {
		if detail != want.Err.Detail {
			return hx.Failf("error-detail", "raised error has detail %q, reference says %q\n%s", detail, want.Err.Detail, src)
		}
		if !lang.Match(want.Err.Data, data) {
			return hx.Failf("error-data", "raised error has data %s, reference says %s\n%s", lang.Show(data), lang.Show(want.Err.Data), src)
		}
	}
	return nil
}

func matchItem(w lang.TraceItem, got interface{}) bool {
	if w.Alt != nil {
		for _, a := range w.Alt {
			if lang.Match(a, got) {
				return true
			}
		}
		return false
	}
	return lang.Match(w.Val, got)
}

func showItem(w lang.TraceItem) string {
	if w.Alt != nil {
		var p []string
		for _, a := range w.Alt {
			p = append(p, lang.Show(a))
		}
		return "one of " + strings.Join(p, " | ")
	}
	return lang.Show(w.Val)
}

func showGot(t []interface{}) string {
	var p []string
	for _, x := range t {
		p = append(p, lang.Show(x))
	}
	return strings.Join(p, " ")
}

func showWant(t []lang.TraceItem) string {
	var p []string
	for _, x := range t {
		p = append(p, showItem(x))
	}
	return strings.Join(p, " ")
}
