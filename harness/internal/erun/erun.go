// Package erun runs ECAL source through the real parser and interpreter and
// collects everything a check wants to observe.
package erun

import (
	"fmt"
	"sync"

	"github.com/krotik/ecal/engine"
	"github.com/krotik/ecal/interpreter"
	"github.com/krotik/ecal/parser"
	"github.com/krotik/ecal/scope"
	"github.com/krotik/ecal/stdlib"
	"github.com/krotik/ecal/util"

	"verif/internal/hx"
	"verif/internal/lang"
)

// Rec collects the values passed to t.rec(...).
type Rec struct {
	mu    sync.Mutex
	Items []interface{}
	Tids  []uint64
}

var (
	once       sync.Once
	current    *Rec
	curMu      sync.Mutex
	byProvider = map[*interpreter.ECALRuntimeProvider]*Rec{}
	closedRing []*interpreter.ECALRuntimeProvider
)

func bind(erp *interpreter.ECALRuntimeProvider, r *Rec) {
	curMu.Lock()
	defer curMu.Unlock()
	byProvider[erp] = r
	if r == nil { // remember the last finished providers only
		closedRing = append(closedRing, erp)
		if len(closedRing) > 2048 {
			delete(byProvider, closedRing[0])
			closedRing = closedRing[1:]
		}
	}
}

type recFunc struct{}

func (recFunc) Run(instanceID string, vs parser.Scope, is map[string]interface{}, tid uint64, args []interface{}) (interface{}, error) {
	curMu.Lock()
	r := current
	// route by runtime provider: a thread leaked by an earlier case (e.g. one killed late by the debugger) must not write into a later case's record
	if erp, ok := is["erp"].(*interpreter.ECALRuntimeProvider); ok {
		if pr, known := byProvider[erp]; known {
			r = pr // nil once the provider's run is over
		}
	}
	curMu.Unlock()
	if r != nil {
		var v interface{}
		if len(args) > 0 {
			v = Copy(args[0])
		}
		r.mu.Lock()
		r.Items = append(r.Items, v)
		r.Tids = append(r.Tids, tid)
		r.mu.Unlock()
	}
	return nil, nil
}

func (recFunc) DocString() (string, error) {
	return "records a value for the verification harness", nil
}

// StartRecording installs a fresh recorder for t.rec (for checks which drive
// the interpreter themselves).
func StartRecording() *Rec {
	Setup()
	r := &Rec{}
	curMu.Lock()
	current = r
	curMu.Unlock()
	return r
}

// Close stops recording for a provider whose Run never returns.
func Close(erp *interpreter.ECALRuntimeProvider) { bind(erp, nil) }

// StopRecording removes the recorder.
func StopRecording() {
	curMu.Lock()
	current = nil
	curMu.Unlock()
}

// Snapshot returns the recorded values in recording order.
func (r *Rec) Snapshot() []interface{} {
	r.mu.Lock()
	defer r.mu.Unlock()
	return append([]interface{}(nil), r.Items...)
}

// Copy deep-copies an ECAL value.
func Copy(v interface{}) interface{} {
	switch c := v.(type) {
	case []interface{}:
		out := make([]interface{}, len(c))
		for i, x := range c {
			out[i] = Copy(x)
		}
		return out
	case map[interface{}]interface{}:
		out := make(map[interface{}]interface{}, len(c))
		for k, x := range c {
			out[k] = Copy(x)
		}
		return out
	}
	return v
}

// Setup registers the harness's observation function t.rec once per process.
func Setup() {
	once.Do(func() {
		stdlib.AddStdlibPkg("t", "verification harness observation functions")
		stdlib.AddStdlibFunc("t", "rec", recFunc{})
		lang.IsFunc = func(v interface{}) bool { _, ok := v.(util.ECALFunction); return ok }
	})
}

// Result is the outcome of running a program.
type Result struct {
	ParseErr    error
	ValidateErr error
	Val         interface{}
	Err         error
	Trace       []interface{}
	Log         []string
	Panic       *hx.Failure
	Global      parser.Scope
	AST         *parser.ASTNode
	// second evaluation of the same tree (Options.Env2)
	Again bool
	Val2  interface{}
	Err2  error
}

// Options for Run.
type Options struct {
	Env2     map[string]interface{} // not nil: the SAME tree is evaluated a second time in a fresh global scope holding these values (after an evaluation with Env)
	Env      map[string]interface{}
	Imports  map[string]string
	Debugger func(erp *interpreter.ECALRuntimeProvider, vs parser.Scope) util.ECALDebugger
	Name     string
	NoEval   bool // parse (and validate) only
	Workers  int  // > 0: replace the provider's processor by one with this many workers (fail-on-first-error as in ECAL)
}

// Run parses, validates and evaluates src on the calling goroutine.
func Run(src string, o Options) *Result {
	Setup()
	res := &Result{}
	rec := &Rec{}
	curMu.Lock()
	current = rec
	curMu.Unlock()
	defer func() {
		curMu.Lock()
		current = nil
		curMu.Unlock()
	}()
	name := o.Name
	if name == "" {
		name = "verif"
	}
	logger := util.NewMemoryLogger(1000)
	var il util.ECALImportLocator = &util.MemoryImportLocator{Files: o.Imports}
	if o.Imports == nil {
		il = &util.MemoryImportLocator{Files: map[string]string{}}
	}
	erp := NewProvider(name, il, logger)
	if o.Workers > 0 {
		erp.Processor = engine.NewProcessor(o.Workers)
		erp.Processor.SetFailOnFirstErrorInTriggerSequence(true)
	}
	bind(erp, rec)
	defer bind(erp, nil)
	defer func() {
		if !erp.Processor.Stopped() {
			erp.Processor.Finish()
		}
	}()
	res.Panic = hx.Guard(func() {
		var ast *parser.ASTNode
		if ast, res.ParseErr = parser.ParseWithRuntime(name, src, erp); res.ParseErr != nil {
			return
		}
		res.AST = ast
		if res.ValidateErr = ast.Runtime.Validate(); res.ValidateErr != nil {
			return
		}
		if o.NoEval {
			return
		}
		vs := scope.NewScope(scope.GlobalScope)
		for k, v := range o.Env {
			vs.SetValue(k, v)
		}
		res.Global = vs
		if o.Debugger != nil {
			erp.Debugger = o.Debugger(erp, vs)
		}
		res.Val, res.Err = ast.Runtime.Eval(vs, make(map[string]interface{}), erp.NewThreadID())
		if o.Env2 != nil {
			vs2 := scope.NewScope(scope.GlobalScope)
			for k, v := range o.Env2 {
				vs2.SetValue(k, v)
			}
			res.Val2, res.Err2 = ast.Runtime.Eval(vs2, make(map[string]interface{}), erp.NewThreadID())
			res.Again = true
		}
	})
	rec.mu.Lock()
	res.Trace = rec.Items
	rec.mu.Unlock()
	res.Log = logger.Slice()
	return res
}

// NewProvider creates a runtime provider whose cron thread is stopped at
// once from a detached goroutine: timeutil.Cron.Stop() (krotik/common) can
// deadlock against the cron tick when the provider lives across a 1 s tick
// boundary, so no verdict path may ever wait for it.
func NewProvider(name string, il util.ECALImportLocator, logger util.Logger) *interpreter.ECALRuntimeProvider {
	erp := interpreter.NewECALRuntimeProvider(name, il, logger)
	go erp.Cron.Stop()
	return erp
}

// ErrInfo extracts (type, detail, data, hasData) from an ECAL error.
func ErrInfo(err error) (typ, detail string, data interface{}, withDetail bool, ok bool) {
	switch e := err.(type) {
	case *util.RuntimeErrorWithDetail:
		t := "<nil>"
		if e.Type != nil {
			t = e.Type.Error()
		}
		return t, e.Detail, e.Data, true, true
	case *util.RuntimeError:
		t := "<nil>"
		if e.Type != nil {
			t = e.Type.Error()
		}
		return t, e.Detail, nil, false, true
	}
	if err == nil {
		return "", "", nil, false, false
	}
	return fmt.Sprintf("%T", err), err.Error(), nil, false, false
}
