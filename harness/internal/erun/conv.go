package erun

import (
	"fmt"

	"github.com/krotik/ecal/parser"

	"verif/internal/lang"
)

// ToExpr converts a parsed ECAL expression tree into the harness's own tree
// type (operators, literals, plain variables, list literals). Parentheses are
// not nodes in either representation.
func ToExpr(n *parser.ASTNode) (*lang.E, error) {
	if n == nil {
		return nil, fmt.Errorf("nil node")
	}
	switch n.Name {
	case parser.NodeNUMBER:
		return lang.Num(n.Token.Val), nil
	case parser.NodeSTRING:
		q := `"`
		if !n.Token.AllowEscapes {
			q = `r"`
		}
		return lang.StrQ(n.Token.Val, q), nil
	case parser.NodeTRUE:
		return lang.Bool(true), nil
	case parser.NodeFALSE:
		return lang.Bool(false), nil
	case parser.NodeNULL:
		return lang.Null(), nil
	case parser.NodeIDENTIFIER:
		if len(n.Children) != 0 {
			return nil, fmt.Errorf("identifier with access path")
		}
		return lang.Var(n.Token.Val), nil
	case parser.NodeLIST:
		l := lang.List()
		for _, c := range n.Children {
			e, err := ToExpr(c)
			if err != nil {
				return nil, err
			}
			l.A = append(l.A, e)
		}
		return l, nil
	}
	if _, ok := lang.Bin(n.Name); ok || n.Name == "not" {
		if len(n.Children) == 0 || len(n.Children) > 2 {
			return nil, fmt.Errorf("operator %s with %d children", n.Name, len(n.Children))
		}
		e := lang.Op(n.Name)
		for _, c := range n.Children {
			ce, err := ToExpr(c)
			if err != nil {
				return nil, err
			}
			e.A = append(e.A, ce)
		}
		return e, nil
	}
	return nil, fmt.Errorf("unsupported node %s", n.Name)
}
