// Package lang holds the harness's own model of ECAL: a tree type for
// expressions and statements, a surface printer written from the documented
// grammar/precedence (not from the parser's tables) and a reference
// interpreter written from ecal.md and the property statements. It shares no
// code with /repo.
package lang

import (
	"fmt"
	"strconv"
	"strings"
)

// E is an expression node.
//
// K is one of: num str true false null var list map call idx dot func
// or an operator node name as used by the ECAL AST (plus minus times div divint
// modint >= <= != == > < like hasprefix hassuffix in notin and or not).
// Prefix minus/plus are "minus"/"plus" with one child.
type E struct {
	K  string `json:"k"`
	S  string `json:"s,omitempty"`  // number text, string content (unescaped), variable / field name
	Q  string `json:"q,omitempty"`  // str: quote style: `"` `'` `r"` `r'`
	A  []*E   `json:"a,omitempty"`  // children
	P  int    `json:"p,omitempty"`  // redundant parenthesis pairs around this node (surface only)
	Sp string `json:"sp,omitempty"` // layout after the operator / opening parenthesis (surface only)
	Kw string `json:"kw,omitempty"` // keyword spelling override (surface only), e.g. AND, hasPrefix
	Fn *Func  `json:"fn,omitempty"` // func literal
}

// OpInfo describes a binary operator.
type OpInfo struct {
	Name  string // ECAL AST node name
	Sym   string // surface syntax
	Level int    // documented precedence level (higher binds tighter)
	Class string // arith cmp eq str list bool
}

// Documented precedence levels (ecal.md / property C03): or < and < not <
// comparison & membership < additive < multiplicative < prefix minus/plus.
const (
	LvOr     = 10
	LvAnd    = 20
	LvNot    = 25
	LvCmp    = 30
	LvAdd    = 40
	LvMul    = 50
	LvPrefix = 60
	LvAtom   = 100
)

// BinOps is the list of the 19 documented binary operators.
var BinOps = []OpInfo{
	{"times", "*", LvMul, "arith"}, {"div", "/", LvMul, "arith"}, {"divint", "//", LvMul, "arith"}, {"modint", "%", LvMul, "arith"},
	{"plus", "+", LvAdd, "arith"}, {"minus", "-", LvAdd, "arith"},
	{">=", ">=", LvCmp, "cmp"}, {"<=", "<=", LvCmp, "cmp"}, {"!=", "!=", LvCmp, "eq"}, {"==", "==", LvCmp, "eq"},
	{">", ">", LvCmp, "cmp"}, {"<", "<", LvCmp, "cmp"},
	{"like", "like", LvCmp, "str"}, {"hasprefix", "hasPrefix", LvCmp, "str"}, {"hassuffix", "hasSuffix", LvCmp, "str"},
	{"in", "in", LvCmp, "list"}, {"notin", "notin", LvCmp, "list"},
	{"and", "and", LvAnd, "bool"}, {"or", "or", LvOr, "bool"},
}

// PrefixOps are the documented prefix operators.
var PrefixOps = []string{"minus", "plus", "not"}

var binByName = map[string]OpInfo{}

func init() {
	for _, o := range BinOps {
		binByName[o.Name] = o
	}
}

// Bin returns the operator info for a binary node name.
func Bin(name string) (OpInfo, bool) { o, ok := binByName[name]; return o, ok }

// IsBinary reports whether e is a binary operator application.
func (e *E) IsBinary() bool { _, ok := binByName[e.K]; return ok && len(e.A) == 2 }

// IsPrefix reports whether e is a prefix operator application.
func (e *E) IsPrefix() bool {
	return len(e.A) == 1 && (e.K == "minus" || e.K == "plus" || e.K == "not")
}

// Level is the documented precedence level of the node.
func (e *E) Level() int {
	if e.IsBinary() {
		return binByName[e.K].Level
	}
	if e.IsPrefix() {
		if e.K == "not" {
			return LvNot
		}
		return LvPrefix
	}
	return LvAtom
}

// Constructors

func Num(s string) *E     { return &E{K: "num", S: s} }
func Str(s string) *E     { return &E{K: "str", S: s, Q: `"`} }
func StrQ(s, q string) *E { return &E{K: "str", S: s, Q: q} }
func Bool(b bool) *E {
	if b {
		return &E{K: "true"}
	}
	return &E{K: "false"}
}
func Null() *E                   { return &E{K: "null"} }
func Var(n string) *E            { return &E{K: "var", S: n} }
func List(items ...*E) *E        { return &E{K: "list", A: items} }
func Op(name string, a ...*E) *E { return &E{K: name, A: a} }
func Call(fn *E, args ...*E) *E  { return &E{K: "call", A: append([]*E{fn}, args...)} }
func Idx(c, i *E) *E             { return &E{K: "idx", A: []*E{c, i}} }
func Dot(c *E, field string) *E  { return &E{K: "dot", S: field, A: []*E{c}} }

// MapLit builds a map literal from alternating key, value expressions.
func MapLit(kv ...*E) *E { return &E{K: "map", A: kv} }

// PrintMode selects how parentheses are written.
type PrintMode int

const (
	Minimal PrintMode = iota // only the parentheses the documented precedence requires (+ e.P redundant pairs)
	Full                     // every operator application is parenthesised
)

// QuoteString renders string content in the given quote style. ok=false if
// the content cannot be written in that style (caller picks another).
func QuoteString(s, q string) (string, bool) {
	switch q {
	case `r"`, `r'`:
		if strings.Contains(s, q[1:]) {
			return "", false
		}
		return q + s + q[1:], true
	case `'`:
		if strings.ContainsAny(s, "'\\") {
			return "", false
		}
		var b strings.Builder
		b.WriteByte('\'')
		for _, r := range s {
			switch r {
			case '\n':
				b.WriteString(`\n`)
			case '\t':
				b.WriteString(`\t`)
			case '\r':
				b.WriteString(`\r`)
			default:
				b.WriteRune(r)
			}
		}
		b.WriteByte('\'')
		return b.String(), true
	default:
		if strings.HasSuffix(s, `\`) {
			// the documented escape \\ directly before the closing quote: see C08 known finding; callers avoid it
			return strconv.Quote(s), true
		}
		var b strings.Builder
		b.WriteByte('"')
		for _, r := range s {
			switch r {
			case '"':
				b.WriteString(`\"`)
			case '\\':
				b.WriteString(`\\`)
			case '\n':
				b.WriteString(`\n`)
			case '\t':
				b.WriteString(`\t`)
			case '\r':
				b.WriteString(`\r`)
			case '\a':
				b.WriteString(`\a`)
			case '\b':
				b.WriteString(`\b`)
			case '\f':
				b.WriteString(`\f`)
			case '\v':
				b.WriteString(`\v`)
			default:
				b.WriteRune(r)
			}
		}
		b.WriteByte('"')
		return b.String(), true
	}
}

func (e *E) sym() string {
	if e.Kw != "" {
		return e.Kw
	}
	if o, ok := binByName[e.K]; ok && len(e.A) == 2 {
		return o.Sym
	}
	switch e.K {
	case "minus":
		return "-"
	case "plus":
		return "+"
	}
	return e.K
}

func (e *E) sp() string {
	if e.Sp != "" {
		return e.Sp
	}
	return " "
}

// Src prints the expression as ECAL source.
func (e *E) Src(m PrintMode) string {
	var b strings.Builder
	e.write(&b, m)
	return b.String()
}

func (e *E) write(b *strings.Builder, m PrintMode) {
	for i := 0; i < e.P; i++ {
		b.WriteString("(")
		if e.Sp != "" && i == 0 {
			b.WriteString(e.Sp)
		}
	}
	e.writeBare(b, m)
	for i := 0; i < e.P; i++ {
		b.WriteString(")")
	}
}

func writeChild(b *strings.Builder, c *E, m PrintMode, paren bool) {
	if paren && c.P == 0 {
		b.WriteString("(")
		c.writeBare(b, m)
		b.WriteString(")")
		return
	}
	c.write(b, m)
}

func (e *E) writeBare(b *strings.Builder, m PrintMode) {
	switch {
	case e.IsBinary():
		lv := e.Level()
		l, r := e.A[0], e.A[1]
		writeChild(b, l, m, (m == Full && l.Level() < LvAtom) || l.Level() < lv)
		b.WriteString(" " + e.sym() + e.sp())
		writeChild(b, r, m, (m == Full && r.Level() < LvAtom) || r.Level() <= lv)
	case e.IsPrefix():
		c := e.A[0]
		b.WriteString(e.sym())
		if e.K == "not" {
			b.WriteString(e.sp())
			writeChild(b, c, m, (m == Full && c.Level() < LvAtom) || c.Level() < LvNot)
		} else {
			if c.IsPrefix() || e.Sp != "" {
				b.WriteString(e.sp())
			}
			writeChild(b, c, m, (m == Full && c.Level() < LvAtom) || c.Level() < LvPrefix)
		}
	case e.K == "num":
		b.WriteString(e.S)
	case e.K == "str":
		q, ok := QuoteString(e.S, e.Q)
		if !ok {
			q, _ = QuoteString(e.S, `"`)
		}
		b.WriteString(q)
	case e.K == "true" || e.K == "false" || e.K == "null":
		if e.Kw != "" {
			b.WriteString(e.Kw)
		} else {
			b.WriteString(e.K)
		}
	case e.K == "var":
		b.WriteString(e.S)
	case e.K == "list":
		b.WriteString("[")
		for i, c := range e.A {
			if i > 0 {
				b.WriteString(", ")
			}
			c.write(b, m)
		}
		b.WriteString("]")
	case e.K == "map":
		b.WriteString("{")
		for i := 0; i+1 < len(e.A); i += 2 {
			if i > 0 {
				b.WriteString(", ")
			}
			e.A[i].write(b, m)
			b.WriteString(" : ")
			e.A[i+1].write(b, m)
		}
		b.WriteString("}")
	case e.K == "call":
		e.A[0].write(b, m)
		b.WriteString("(")
		for i, c := range e.A[1:] {
			if i > 0 {
				b.WriteString(", ")
			}
			c.write(b, m)
		}
		b.WriteString(")")
	case e.K == "idx":
		e.A[0].write(b, m)
		b.WriteString("[")
		e.A[1].write(b, m)
		b.WriteString("]")
	case e.K == "dot":
		e.A[0].write(b, m)
		b.WriteString("." + e.S)
	case e.K == "func":
		e.Fn.writeHead(b, "")
		b.WriteString(" {\n")
		for _, s := range e.Fn.Body {
			s.write(b, 1)
		}
		b.WriteString("}")
	default:
		panic(fmt.Sprintf("lang: cannot print node kind %q", e.K))
	}
}

// Shape renders the semantic structure (no surface hints) canonically, for
// structural comparison with the tree ECAL parsed.
func (e *E) Shape() string {
	var b strings.Builder
	e.shape(&b)
	return b.String()
}

func (e *E) shape(b *strings.Builder) {
	switch e.K {
	case "num":
		f, err := strconv.ParseFloat(e.S, 64)
		if err != nil {
			b.WriteString("num:" + e.S)
		} else {
			b.WriteString("num:" + strconv.FormatFloat(f, 'g', -1, 64))
		}
		return
	case "str":
		raw := "q"
		if strings.HasPrefix(e.Q, "r") {
			raw = "r"
		}
		b.WriteString("str" + raw + ":" + strconv.Quote(e.S))
		return
	case "var":
		b.WriteString("var:" + e.S)
		return
	}
	b.WriteString(e.K)
	if e.K == "dot" {
		b.WriteString(":" + e.S)
	}
	if len(e.A) > 0 {
		b.WriteString("(")
		for i, c := range e.A {
			if i > 0 {
				b.WriteString(",")
			}
			c.shape(b)
		}
		b.WriteString(")")
	}
}

// Walk visits all expression nodes.
func (e *E) Walk(f func(*E)) {
	f(e)
	for _, c := range e.A {
		c.Walk(f)
	}
}
