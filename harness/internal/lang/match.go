package lang

import (
	"fmt"
	"math"
	"sort"
	"strings"
)

// ToGo converts a reference value into the Go representation ECAL uses
// (float64, string, bool, nil, []interface{}, map[interface{}]interface{}).
func ToGo(v Value) interface{} {
	switch c := v.(type) {
	case *ListV:
		out := make([]interface{}, 0, len(c.Items))
		for _, i := range c.Items {
			out = append(out, ToGo(i))
		}
		return out
	case *MapV:
		out := map[interface{}]interface{}{}
		for k, i := range c.M {
			out[k] = ToGo(i)
		}
		return out
	}
	return v
}

// FromGo converts an ECAL Go value into a reference value (functions become "<function>").
func FromGo(v interface{}) Value {
	switch c := v.(type) {
	case nil, bool, float64, string:
		return c
	case []interface{}:
		l := &ListV{}
		for _, i := range c {
			l.Items = append(l.Items, FromGo(i))
		}
		return l
	case map[interface{}]interface{}:
		m := &MapV{M: map[interface{}]Value{}}
		for k, i := range c {
			m.M[k] = FromGo(i)
		}
		return m
	}
	return "<function>"
}

// IsFunc tells Match what counts as a function value on the ECAL side.
var IsFunc = func(v interface{}) bool { return false }

// Match compares a reference value with a Go value produced by ECAL.
// Map keys are compared by their printed form (the reference never holds the
// number n and the string "n" in one map).
func Match(ref Value, got interface{}) bool {
	switch r := ref.(type) {
	case nil:
		return got == nil
	case bool:
		g, ok := got.(bool)
		return ok && g == r
	case float64:
		g, ok := got.(float64)
		return ok && (g == r && math.Signbit(g) == math.Signbit(r) || (g != g && r != r))
	case string:
		if r == "<function>" {
			return IsFunc(got)
		}
		g, ok := got.(string)
		return ok && g == r
	case *ListV:
		g, ok := got.([]interface{})
		if !ok || len(g) != len(r.Items) {
			return false
		}
		for i := range g {
			if !Match(r.Items[i], g[i]) {
				return false
			}
		}
		return true
	case *MapV:
		g, ok := got.(map[interface{}]interface{})
		if !ok || len(g) != len(r.M) {
			return false
		}
		gk := map[string]interface{}{}
		for k, v := range g {
			switch k.(type) {
			case float64, string:
			default:
				return false
			}
			gk[keyString(k)] = v
		}
		if len(gk) != len(g) {
			return false
		}
		for k, v := range r.M {
			gv, ok := gk[keyString(k)]
			if !ok || !Match(v, gv) {
				return false
			}
		}
		return true
	}
	return false
}

// Show renders a reference value or an ECAL Go value for messages.
func Show(v interface{}) string {
	switch c := v.(type) {
	case nil:
		return "null"
	case string:
		return fmt.Sprintf("%q", c)
	case float64:
		return fmt.Sprintf("%v", c)
	case bool:
		return fmt.Sprint(c)
	case *ListV:
		var p []string
		for _, i := range c.Items {
			p = append(p, Show(i))
		}
		return "[" + strings.Join(p, ", ") + "]"
	case []interface{}:
		var p []string
		for _, i := range c {
			p = append(p, Show(i))
		}
		return "[" + strings.Join(p, ", ") + "]"
	case *MapV:
		var p []string
		for k, i := range c.M {
			p = append(p, Show(k)+":"+Show(i))
		}
		sort.Strings(p)
		return "{" + strings.Join(p, ", ") + "}"
	case map[interface{}]interface{}:
		var p []string
		for k, i := range c {
			p = append(p, Show(k)+":"+Show(i))
		}
		sort.Strings(p)
		return "{" + strings.Join(p, ", ") + "}"
	case *FuncV:
		return "<function>"
	}
	return fmt.Sprintf("<%T>", v)
}
