package lang

import (
	"fmt"
	"strings"
)

// S is a statement node.
//
// K: expr assign multi if while for break continue return func try mutex probe
type S struct {
	K    string    `json:"k"`
	E    *E        `json:"e,omitempty"`    // expr stmt / assign RHS / return value / while condition / for iterable
	L    *E        `json:"l,omitempty"`    // assign target: var | idx | dot chain
	Let  bool      `json:"let,omitempty"`  // assign: `let x := e`
	Vars []string  `json:"vars,omitempty"` // for: loop variables (len>1 = destructuring); multi: targets
	Body []*S      `json:"body,omitempty"` // while/for/mutex/try body
	Br   []*Branch `json:"br,omitempty"`   // if
	Ex   []*Except `json:"ex,omitempty"`   // try
	Oth  *Block    `json:"oth,omitempty"`  // try otherwise
	Fin  *Block    `json:"fin,omitempty"`  // try finally
	Name string    `json:"name,omitempty"` // mutex name / probe label / probe variable
	Fn   *Func     `json:"fn,omitempty"`   // func statement
	ID   int       `json:"id,omitempty"`   // unique per program (set by Number)
	Line int       `json:"-"`              // first source line (set by printing)
}

// Branch is one if/elif/else branch (Cond nil = else).
type Branch struct {
	Cond *E   `json:"cond,omitempty"`
	Body []*S `json:"body"`
}

// Except is one except clause.
type Except struct {
	Types []string `json:"types,omitempty"` // listed error types (empty = catch all)
	As    string   `json:"as,omitempty"`    // bound variable ("" = none)
	Body  []*S     `json:"body"`
}

// Block is an optional statement list.
type Block struct {
	Body []*S `json:"body"`
}

// Func is a function declaration or literal.
type Func struct {
	Name   string   `json:"name,omitempty"`
	Params []string `json:"params,omitempty"`
	Defs   []*E     `json:"defs,omitempty"` // default per parameter (nil entry = none); literals only
	Body   []*S     `json:"body"`
	ID     int      `json:"id,omitempty"`
}

// Prog is a program.
type Prog struct {
	Body []*S `json:"body"`
}

// Statement constructors

func ExprS(e *E) *S               { return &S{K: "expr", E: e} }
func Assign(l *E, e *E) *S        { return &S{K: "assign", L: l, E: e} }
func LetS(name string, e *E) *S   { return &S{K: "assign", L: Var(name), E: e, Let: true} }
func Mark(label string) *S        { return ExprS(Call(Dot(Var("t"), "rec"), Str(label))) }
func Rec(e *E) *S                 { return ExprS(Call(Dot(Var("t"), "rec"), e)) }
func Break() *S                   { return &S{K: "break"} }
func Continue() *S                { return &S{K: "continue"} }
func Return(e *E) *S              { return &S{K: "return", E: e} }
func While(c *E, body ...*S) *S   { return &S{K: "while", E: c, Body: body} }
func Probe(label, name string) *S { return &S{K: "probe", Name: label, L: Var(name)} }

// RW is a read-after-write check: `target := value` then read `target` again.
func RW(label string, target, value *E) *S { return &S{K: "rw", Name: label, L: target, E: value} }

// Number assigns unique ids to statements and functions.
func (p *Prog) Number() {
	n := 0
	var stmts func([]*S)
	var expr func(*E)
	fn := func(f *Func) {
		n++
		f.ID = n
		stmts(f.Body)
	}
	expr = func(e *E) {
		if e == nil {
			return
		}
		e.Walk(func(x *E) {
			if x.K == "func" && x.Fn != nil {
				fn(x.Fn)
			}
		})
	}
	stmts = func(ss []*S) {
		for _, s := range ss {
			n++
			s.ID = n
			expr(s.E)
			expr(s.L)
			stmts(s.Body)
			for _, b := range s.Br {
				expr(b.Cond)
				stmts(b.Body)
			}
			for _, x := range s.Ex {
				stmts(x.Body)
			}
			if s.Oth != nil {
				stmts(s.Oth.Body)
			}
			if s.Fin != nil {
				stmts(s.Fin.Body)
			}
			if s.Fn != nil {
				fn(s.Fn)
			}
		}
	}
	stmts(p.Body)
}

// Src prints the program; statement line numbers are recorded in S.Line.
func (p *Prog) Src() string {
	var b strings.Builder
	for _, s := range p.Body {
		s.write(&b, 0)
	}
	return b.String()
}

func lineOf(b *strings.Builder) int { return strings.Count(b.String(), "\n") + 1 }

func ind(b *strings.Builder, n int) {
	for i := 0; i < n; i++ {
		b.WriteString("    ")
	}
}

func writeBlock(b *strings.Builder, body []*S, n int) {
	b.WriteString("{\n")
	for _, s := range body {
		s.write(b, n+1)
	}
	ind(b, n)
	b.WriteString("}")
}

func (f *Func) writeHead(b *strings.Builder, name string) {
	b.WriteString("func")
	if name != "" {
		b.WriteString(" " + name)
	}
	b.WriteString("(")
	for i, p := range f.Params {
		if i > 0 {
			b.WriteString(", ")
		}
		b.WriteString(p)
		if i < len(f.Defs) && f.Defs[i] != nil {
			b.WriteString("=")
			f.Defs[i].write(b, Minimal)
		}
	}
	b.WriteString(")")
}

func (s *S) write(b *strings.Builder, n int) {
	ind(b, n)
	s.Line = lineOf(b)
	switch s.K {
	case "expr":
		s.E.write(b, Minimal)
	case "assign":
		if s.Let {
			b.WriteString("let ")
		}
		s.L.write(b, Minimal)
		b.WriteString(" := ")
		s.E.write(b, Minimal)
	case "multi":
		if s.Let {
			b.WriteString("let ")
		}
		b.WriteString("[" + strings.Join(s.Vars, ", ") + "] := ")
		s.E.write(b, Minimal)
	case "if":
		for i, br := range s.Br {
			switch {
			case i == 0:
				b.WriteString("if ")
				br.Cond.write(b, Minimal)
				b.WriteString(" ")
			case br.Cond != nil:
				b.WriteString(" elif ")
				br.Cond.write(b, Minimal)
				b.WriteString(" ")
			default:
				b.WriteString(" else ")
			}
			writeBlock(b, br.Body, n)
		}
	case "while":
		b.WriteString("for ")
		s.E.write(b, Minimal)
		b.WriteString(" ")
		writeBlock(b, s.Body, n)
	case "for":
		b.WriteString("for ")
		if len(s.Vars) == 1 {
			b.WriteString(s.Vars[0])
		} else {
			b.WriteString("[" + strings.Join(s.Vars, ", ") + "]")
		}
		b.WriteString(" in ")
		s.E.write(b, Minimal)
		b.WriteString(" ")
		writeBlock(b, s.Body, n)
	case "break", "continue":
		b.WriteString(s.K)
	case "return":
		b.WriteString("return")
		if s.E != nil {
			b.WriteString(" ")
			s.E.write(b, Minimal)
		}
	case "func":
		s.Fn.writeHead(b, s.Fn.Name)
		b.WriteString(" ")
		writeBlock(b, s.Fn.Body, n)
	case "try":
		b.WriteString("try ")
		writeBlock(b, s.Body, n)
		for _, x := range s.Ex {
			b.WriteString(" except ")
			for i, t := range x.Types {
				if i > 0 {
					b.WriteString(", ")
				}
				q, _ := QuoteString(t, `"`)
				b.WriteString(q)
			}
			if len(x.Types) > 0 {
				b.WriteString(" ")
			}
			if x.As != "" {
				if len(x.Types) > 0 {
					b.WriteString("as ")
				}
				b.WriteString(x.As + " ")
			}
			writeBlock(b, x.Body, n)
		}
		if s.Oth != nil {
			b.WriteString(" otherwise ")
			writeBlock(b, s.Oth.Body, n)
		}
		if s.Fin != nil {
			b.WriteString(" finally ")
			writeBlock(b, s.Fin.Body, n)
		}
	case "mutex":
		b.WriteString("mutex " + s.Name + " ")
		writeBlock(b, s.Body, n)
	case "rw":
		// read-after-write check on one access expression; a failing write is acceptable (the statement speaks of successful writes)
		lab, _ := QuoteString(s.Name, `"`)
		b.WriteString("try { ")
		s.L.write(b, Minimal)
		b.WriteString(" := ")
		s.E.write(b, Minimal)
		fmt.Fprintf(b, "; t.rec([%s, ", lab)
		s.L.write(b, Minimal)
		fmt.Fprintf(b, "]) } except { t.rec([%s, \"ERR\"]) }", lab)
	case "probe":
		// visibility probe: the name may be invisible here; null or an error are both acceptable then
		lab, _ := QuoteString(s.Name, `"`)
		fmt.Fprintf(b, "try { t.rec([%s, %s]) } except { t.rec([%s, \"ERR\"]) }", lab, s.L.S, lab)
	default:
		panic("lang: cannot print statement kind " + s.K)
	}
	b.WriteString("\n")
}
