package lang

import (
	"fmt"
	"math"
	"regexp"
	"sort"
	"strconv"
	"strings"
)

// ---------------------------------------------------------------------------
// Values of the reference interpreter

// Value is nil | bool | float64 | string | *ListV | *MapV | *FuncV
type Value interface{}

// ListV is a list (reference semantics).
type ListV struct {
	Items []Value
	Dead  bool // consumed by add/del: "only the returned value should be used further"
}

// MapV is a map (reference semantics) with typed keys (float64 | string).
type MapV struct {
	M     map[interface{}]Value
	Dead  bool
	Loose map[interface{}]bool // number keys created by assignment: whether iteration yields them as number or text is not documented
}

// FuncV is a function value (closure, optionally bound to an object).
type FuncV struct {
	Fn    *Func
	Env   *Scope
	This  *MapV
	Super []Value
	HasSu bool
}

// ErrV is an error travelling through the reference interpreter.
type ErrV struct {
	Type    string // error type string (raise: first argument; runtime: the util.Err* text)
	Detail  string
	Data    Value
	Raised  bool     // produced by raise(): detail and data are specified
	Operand []string // runtime kind errors: acceptable operand names ("" = no naming requirement)
}

// Variants are the choices the documentation does not make. The outcome of
// any combination is acceptable (progcheck.Predict collects the distinct ones).
type Variants struct {
	PersistBlocks  bool // block scopes are reused when the same block is entered again from the same parent scope
	LoopPerIter    bool // the loop scope is fresh per iteration (false: one per loop entry)
	LoopVarLocal   bool // the loop variable is always defined in the loop scope (false: nearest existing definition)
	FuncStmtLocal  bool // `func f(){}` always defines f locally (false: nearest existing definition)
	ExceptVarLocal bool // `as e` always defines e in the clause scope (false: nearest existing definition)

	// `otherwise` also runs when the try block is left by return/break/continue (it "raised nothing"); the exit still takes effect afterwards
	OtherwiseOnExit bool
}

// AllVariants enumerates all combinations.
func AllVariants() []Variants {
	var out []Variants
	for i := 0; i < 64; i++ {
		out = append(out, Variants{i&1 != 0, i&2 != 0, i&4 != 0, i&8 != 0, i&16 != 0, i&32 != 0})
	}
	return out
}

// Impl is the variant combination the current implementation happens to use
// (used only where a check wants ONE run, e.g. expressions: variants do not matter there).
var Impl = Variants{PersistBlocks: true}

// Scope is a lexical scope.
type Scope struct {
	vars   map[string]Value
	parent *Scope
	kids   map[int]*Scope // persistent children keyed by statement id (PersistBlocks)
}

func newScope(parent *Scope) *Scope { return &Scope{vars: map[string]Value{}, parent: parent} }

func (s *Scope) find(name string) *Scope {
	for c := s; c != nil; c = c.parent {
		if _, ok := c.vars[name]; ok {
			return c
		}
	}
	return nil
}

// TraceItem is one observation recorded by t.rec(...).
type TraceItem struct {
	Val Value   // snapshot (deep copy)
	Alt []Value // if non-nil: any of these snapshots is acceptable
}

type sigKind int

const (
	sigNone sigKind = iota
	sigBreak
	sigContinue
	sigReturn
	sigError
	sigUnspec
)

type signal struct {
	kind sigKind
	val  Value
	err  *ErrV
	why  string
}

// Outcome is what the reference interpreter predicts for a program.
type Outcome struct {
	Unspecified string // non-empty: the references do not determine the behaviour (case is discarded)
	Trace       []TraceItem
	Err         *ErrV // error escaping the program
	Result      Value // value of the last expression statement (only meaningful for single-expression programs)
	Steps       int
}

// Interp is one run of the reference interpreter.
type Interp struct {
	V      Variants
	trace  []TraceItem
	steps  int
	Budget int
	global *Scope
}

// Error type strings of runtime errors (mirrors the exported util.Err* values: part of the API).
const (
	TNotANumber  = "Operand is not a number"
	TNotABoolean = "Operand is not a boolean"
	TNotAList    = "Operand is not a list"
	TRuntime     = "Runtime error"
)

// Run executes a program with preset global variables.
func Run(p *Prog, env map[string]Value, v Variants) *Outcome {
	in := &Interp{V: v, Budget: 200000}
	in.global = newScope(nil)
	for k, val := range env {
		in.global.vars[k] = val
	}
	var last Value
	sig := in.block(p.Body, in.global, &last)
	out := &Outcome{Trace: in.trace, Steps: in.steps, Result: last}
	switch sig.kind {
	case sigUnspec:
		out.Unspecified = sig.why
	case sigError:
		out.Err = sig.err
	case sigBreak, sigContinue, sigReturn:
		out.Unspecified = "control-signal-at-top-level"
	}
	return out
}

// EvalExpr evaluates a single expression.
func EvalExpr(e *E, env map[string]Value) (Value, *ErrV, string) {
	o := Run(&Prog{Body: []*S{ExprS(e)}}, env, Impl)
	return o.Result, o.Err, o.Unspecified
}

func unspec(why string) signal { return signal{kind: sigUnspec, why: why} }
func errSig(e *ErrV) signal    { return signal{kind: sigError, err: e} }

var none = signal{}

func (in *Interp) tick() bool {
	in.steps++
	return in.steps > in.Budget
}

func (in *Interp) child(parent *Scope, id int) *Scope {
	if in.V.PersistBlocks && id != 0 {
		if parent.kids == nil {
			parent.kids = map[int]*Scope{}
		}
		if c, ok := parent.kids[id]; ok {
			return c
		}
		c := newScope(parent)
		parent.kids[id] = c
		return c
	}
	return newScope(parent)
}

func (in *Interp) block(body []*S, sc *Scope, last *Value) signal {
	for _, s := range body {
		if sig := in.stmt(s, sc, last); sig.kind != sigNone {
			return sig
		}
	}
	return none
}

func assignVar(sc *Scope, name string, v Value, local bool) {
	if !local {
		if d := sc.find(name); d != nil {
			d.vars[name] = v
			return
		}
	}
	sc.vars[name] = v
}

func (in *Interp) stmt(s *S, sc *Scope, last *Value) signal {
	if in.tick() {
		return unspec("ref-budget")
	}
	switch s.K {
	case "expr":
		v, sig := in.eval1(s.E, sc)
		if sig.kind != sigNone {
			return sig
		}
		if _, ok := v.(*noReturn); ok {
			v = nil
		}
		if last != nil {
			*last = v
		}
		return none

	case "assign":
		if s.Let {
			if s.L.K != "var" {
				return unspec("let-non-variable")
			}
			sc.vars[s.L.S] = nil
		}
		v, sig := in.eval(s.E, sc)
		if sig.kind != sigNone {
			return sig
		}
		return in.assign(s.L, v, sc, s.Let)

	case "multi":
		if s.Let {
			for _, n := range s.Vars {
				sc.vars[n] = nil
			}
		}
		v, sig := in.eval(s.E, sc)
		if sig.kind != sigNone {
			return sig
		}
		l, ok := v.(*ListV)
		if !ok || l.Dead || len(l.Items) != len(s.Vars) {
			return unspec("multi-assign-shape")
		}
		for i, n := range s.Vars {
			assignVar(sc, n, l.Items[i], false)
		}
		return none

	case "if":
		isc := in.child(sc, s.ID)
		for _, br := range s.Br {
			take := true
			if br.Cond != nil {
				v, sig := in.eval(br.Cond, isc)
				if sig.kind != sigNone {
					return sig
				}
				b, ok := v.(bool)
				if !ok {
					return unspec("non-boolean-guard")
				}
				take = b
			}
			if take {
				return in.block(br.Body, isc, nil)
			}
		}
		return none

	case "while":
		lsc := in.child(sc, s.ID)
		for {
			if in.tick() {
				return unspec("ref-budget")
			}
			bsc := lsc
			if in.V.LoopPerIter {
				bsc = newScope(sc)
			}
			v, sig := in.eval(s.E, bsc)
			if sig.kind != sigNone {
				return sig
			}
			b, ok := v.(bool)
			if !ok {
				return unspec("non-boolean-guard")
			}
			if !b {
				return none
			}
			sig = in.block(s.Body, bsc, nil)
			switch sig.kind {
			case sigBreak:
				return none
			case sigContinue, sigNone:
			default:
				return sig
			}
		}

	case "for":
		lsc := in.child(sc, s.ID)
		items, sig := in.iterate(s.E, lsc)
		if sig.kind != sigNone {
			return sig
		}
		for _, it := range items {
			if in.tick() {
				return unspec("ref-budget")
			}
			bsc := lsc
			if in.V.LoopPerIter {
				bsc = newScope(sc)
			}
			if len(s.Vars) == 1 {
				assignVar(bsc, s.Vars[0], it, in.V.LoopVarLocal)
			} else {
				l, ok := it.(*ListV)
				if !ok || l.Dead || len(l.Items) != len(s.Vars) {
					return unspec("loop-destructuring-shape")
				}
				for i, n := range s.Vars {
					assignVar(bsc, n, l.Items[i], in.V.LoopVarLocal)
				}
			}
			sig := in.block(s.Body, bsc, nil)
			switch sig.kind {
			case sigBreak:
				return none
			case sigContinue, sigNone:
			default:
				return sig
			}
		}
		return none

	case "break":
		return signal{kind: sigBreak}
	case "continue":
		return signal{kind: sigContinue}
	case "return":
		var v Value
		if s.E != nil {
			var sig signal
			if v, sig = in.eval(s.E, sc); sig.kind != sigNone {
				return sig
			}
		}
		return signal{kind: sigReturn, val: v}

	case "func":
		f := &FuncV{Fn: s.Fn, Env: sc}
		if s.Fn.Name != "" {
			assignVar(sc, s.Fn.Name, f, in.V.FuncStmtLocal)
		}
		return none

	case "try":
		return in.try(s, sc)

	case "mutex":
		return in.block(s.Body, in.child(sc, s.ID), nil)

	case "rw":
		v, sig := in.eval(s.E, sc)
		if sig.kind != sigNone {
			return sig
		}
		if s.L.K != "idx" && s.L.K != "dot" {
			return unspec("rw-target")
		}
		cv, sig := in.eval(s.L.A[0], sc)
		if sig.kind != sigNone {
			return sig
		}
		var key Value = s.L.S
		if s.L.K == "idx" {
			if key, sig = in.eval(s.L.A[1], sc); sig.kind != sigNone {
				return sig
			}
		}
		normal := false
		switch c := cv.(type) {
		case *ListV:
			if c.Dead {
				return unspec("use-after-add-del")
			}
			if i, ok := listIndex(key, len(c.Items)); ok {
				c.Items[i] = v
				normal = true
			} else {
				c.Dead = true // what an unusual index touches is not documented
			}
		case *MapV:
			if c.Dead {
				return unspec("use-after-add-del")
			}
			if _, ok := mapKey(c, key); ok {
				if sg := in.assign(s.L, v, sc, false); sg.kind != sigNone {
					return sg
				}
				normal = true
			} else {
				c.Dead = true
			}
		}
		if normal {
			in.trace = append(in.trace, TraceItem{Val: &ListV{Items: []Value{s.Name, Snapshot(v)}}})
		} else {
			// the write may fail (then nothing is claimed) or succeed (then the same expression must read the value back)
			in.trace = append(in.trace, TraceItem{Alt: []Value{&ListV{Items: []Value{s.Name, Snapshot(v)}}, &ListV{Items: []Value{s.Name, "ERR"}}}})
		}
		return none

	case "probe":
		lab := s.Name
		if d := sc.find(s.L.S); d != nil {
			in.trace = append(in.trace, TraceItem{Val: &ListV{Items: []Value{lab, Snapshot(d.vars[s.L.S])}}})
		} else {
			in.trace = append(in.trace, TraceItem{Alt: []Value{
				&ListV{Items: []Value{lab, nil}}, &ListV{Items: []Value{lab, "ERR"}}}})
		}
		return none
	}
	return unspec("unknown-statement-" + s.K)
}

func (in *Interp) try(s *S, sc *Scope) signal {
	sig := in.block(s.Body, in.child(sc, s.ID), nil)
	res := sig
	switch sig.kind {
	case sigUnspec:
		return sig
	case sigError:
		for i, x := range s.Ex {
			match := len(x.Types) == 0
			for _, t := range x.Types {
				if t == sig.err.Type {
					match = true
				}
			}
			if !match {
				continue
			}
			xsc := in.child(sc, s.ID*1000+i+1)
			if x.As != "" {
				assignVar(xsc, x.As, in.errObject(sig.err), in.V.ExceptVarLocal)
			}
			res = in.block(x.Body, xsc, nil)
			break
		}
	case sigNone:
		if s.Oth != nil {
			res = in.block(s.Oth.Body, in.child(sc, s.ID*1000+900), nil)
		}
	default: // break / continue / return leave the block without an error
		if s.Oth != nil && in.V.OtherwiseOnExit {
			osig := in.block(s.Oth.Body, in.child(sc, s.ID*1000+900), nil)
			if osig.kind == sigUnspec {
				return osig
			}
			if osig.kind != sigNone {
				return unspec("otherwise-after-control-exit-does-not-fall-through")
			}
		}
	}
	if res.kind == sigUnspec {
		return res
	}
	if s.Fin != nil {
		fsig := in.block(s.Fin.Body, in.child(sc, s.ID*1000+901), nil)
		if fsig.kind == sigUnspec {
			return fsig
		}
		if fsig.kind != sigNone {
			// A break / continue / return executed inside finally while an error, a return, a break or a continue is
			// leaving the try statement does not replace that way out: the statement lets an unhandled error propagate
			// unchanged and return leave the function with its value (finally only runs). Everything else about
			// leaving finally early (an error raised there; a control statement there after a normal end) stays open.
			if fsig.kind == sigError || res.kind == sigNone {
				return unspec("non-fallthrough-exit-from-finally")
			}
		}
	}
	return res
}

// errObject builds the map bound by `as e`. Only the documented fields which
// are determined by the program are present; the others read as unspecified.
func (in *Interp) errObject(e *ErrV) *MapV {
	m := &MapV{M: map[interface{}]Value{"type": e.Type}}
	if e.Raised {
		m.M["detail"] = e.Detail
		m.M["data"] = e.Data
	}
	m.M["\x00errobj"] = true // marker: reads of other keys are unspecified
	return m
}

func (in *Interp) assign(l *E, v Value, sc *Scope, local bool) signal {
	switch l.K {
	case "var":
		assignVar(sc, l.S, v, local)
		return none
	case "idx", "dot":
		cv, sig := in.eval(l.A[0], sc)
		if sig.kind != sigNone {
			return sig
		}
		var key Value
		if l.K == "dot" {
			key = l.S
		} else if key, sig = in.eval(l.A[1], sc); sig.kind != sigNone {
			return sig
		}
		switch c := cv.(type) {
		case *ListV:
			if c.Dead {
				return unspec("use-after-add-del")
			}
			i, ok := listIndex(key, len(c.Items))
			if !ok {
				return unspec("list-index-not-in-range")
			}
			c.Items[i] = v
			return none
		case *MapV:
			if c.Dead {
				return unspec("use-after-add-del")
			}
			k, ok := mapKey(c, key)
			if !ok {
				return unspec("map-key-kind")
			}
			if _, isNum := k.(float64); isNum {
				if _, present := c.M[k]; !present {
					if c.Loose == nil {
						c.Loose = map[interface{}]bool{}
					}
					c.Loose[k] = true
				}
			}
			c.M[k] = v
			return none
		}
		return unspec("assign-into-non-container")
	}
	return unspec("assign-target")
}

// listIndex accepts only integral in-range non-negative indices.
func listIndex(key Value, n int) (int, bool) {
	f, ok := key.(float64)
	if !ok || f != math.Trunc(f) || f < 0 || f >= float64(n) {
		return 0, false
	}
	return int(f), true
}

// mapKey accepts number (integral, printable without exponent) and string
// keys (no dot); a map never mixes the number n and the string "n".
func mapKey(m *MapV, key Value) (interface{}, bool) {
	switch k := key.(type) {
	case float64:
		if k != math.Trunc(k) || math.Abs(k) > 1e15 {
			return nil, false
		}
		if _, clash := m.M[strconv.FormatFloat(k, 'f', -1, 64)]; clash {
			return nil, false
		}
		return k, true
	case string:
		if strings.Contains(k, ".") || k == "" {
			return nil, false
		}
		if f, err := strconv.ParseFloat(k, 64); err == nil {
			if _, clash := m.M[f]; clash {
				return nil, false
			}
			// a numeric-looking string key: reads cannot tell it from the number
			return nil, false
		}
		return k, true
	}
	return nil, false
}

func (in *Interp) iterate(e *E, sc *Scope) ([]Value, signal) {
	if e.K == "call" && e.A[0].K == "var" && e.A[0].S == "range" {
		var nums []float64
		for _, a := range e.A[1:] {
			v, sig := in.eval(a, sc)
			if sig.kind != sigNone {
				return nil, sig
			}
			f, ok := v.(float64)
			if !ok {
				return nil, unspec("range-non-number")
			}
			nums = append(nums, f)
		}
		from, to, step := 0., 0., 1.
		switch len(nums) {
		case 1:
			to = nums[0]
		case 2:
			from, to = nums[0], nums[1]
		case 3:
			from, to, step = nums[0], nums[1], nums[2]
		default:
			return nil, unspec("range-arity")
		}
		if step == 0 || (from < to && step < 0) || (from > to && step > 0) {
			return nil, unspec("range-step-direction")
		}
		var out []Value
		for v := from; (step > 0 && v <= to) || (step < 0 && v >= to); v += step {
			out = append(out, v)
			if len(out) > 10000 {
				return nil, unspec("range-too-long")
			}
		}
		return out, none
	}
	v, sig := in.eval(e, sc)
	if sig.kind != sigNone {
		return nil, sig
	}
	switch c := v.(type) {
	case *ListV:
		if c.Dead {
			return nil, unspec("use-after-add-del")
		}
		return append([]Value(nil), c.Items...), none
	case *MapV:
		if c.Dead {
			return nil, unspec("use-after-add-del")
		}
		type kv struct {
			s string
			k interface{}
		}
		var ks []kv
		for k := range c.M {
			if k == "\x00errobj" {
				return nil, unspec("iterate-error-object")
			}
			if c.Loose[k] {
				return nil, unspec("iteration-key-kind-of-assigned-number-key")
			}
			ks = append(ks, kv{keyString(k), k})
		}
		sort.Slice(ks, func(i, j int) bool { return ks[i].s < ks[j].s })
		var out []Value
		for _, k := range ks {
			out = append(out, &ListV{Items: []Value{k.k, c.M[k.k]}})
		}
		return out, none
	}
	return nil, unspec("iterate-non-container")
}

func keyString(k interface{}) string {
	if f, ok := k.(float64); ok {
		return strconv.FormatFloat(f, 'f', -1, 64)
	}
	return fmt.Sprint(k)
}

// Snapshot deep-copies a value for the trace.
func Snapshot(v Value) Value {
	switch c := v.(type) {
	case *ListV:
		o := &ListV{Dead: c.Dead}
		for _, i := range c.Items {
			o.Items = append(o.Items, Snapshot(i))
		}
		return o
	case *MapV:
		o := &MapV{M: map[interface{}]Value{}, Dead: c.Dead}
		for k, i := range c.M {
			o.M[k] = Snapshot(i)
		}
		return o
	case *FuncV:
		return "<function>"
	}
	return v
}

func kindOf(v Value) string {
	switch v.(type) {
	case nil:
		return "null"
	case bool:
		return "bool"
	case float64:
		return "num"
	case string:
		return "str"
	case *ListV:
		return "list"
	case *MapV:
		return "map"
	case *FuncV:
		return "func"
	}
	return "?"
}

// operandName says how an error must name an operand ("" = no requirement).
func operandName(e *E) string {
	if e.P > 0 {
		return ""
	}
	switch e.K {
	case "var":
		return e.S
	case "str", "num":
		return e.S
	case "true", "false", "null":
		return e.K
	}
	return ""
}

func kindErr(t string, ops ...*E) signal {
	var names []string
	for _, o := range ops {
		names = append(names, operandName(o))
	}
	return errSig(&ErrV{Type: t, Operand: names})
}

func (in *Interp) eval(e *E, sc *Scope) (Value, signal) {
	v, sig := in.eval1(e, sc)
	if _, ok := v.(*noReturn); ok && sig.kind == sigNone {
		return nil, unspec("use-of-missing-return-value")
	}
	return v, sig
}

func (in *Interp) eval1(e *E, sc *Scope) (Value, signal) {
	if in.tick() {
		return nil, unspec("ref-budget")
	}
	switch e.K {
	case "num":
		f, err := strconv.ParseFloat(e.S, 64)
		if err != nil {
			return nil, unspec("number-literal")
		}
		return f, none
	case "str":
		if !strings.HasPrefix(e.Q, "r") && strings.Contains(e.S, "{{") {
			return nil, unspec("interpolation")
		}
		return e.S, none
	case "true":
		return true, none
	case "false":
		return false, none
	case "null":
		return nil, none
	case "var":
		if d := sc.find(e.S); d != nil {
			return d.vars[e.S], none
		}
		return nil, unspec("undefined-read:" + e.S)
	case "list":
		l := &ListV{}
		for _, a := range e.A {
			v, sig := in.eval(a, sc)
			if sig.kind != sigNone {
				return nil, sig
			}
			l.Items = append(l.Items, v)
		}
		return l, none
	case "map":
		m := &MapV{M: map[interface{}]Value{}}
		for i := 0; i+1 < len(e.A); i += 2 {
			kv, sig := in.eval(e.A[i], sc)
			if sig.kind != sigNone {
				return nil, sig
			}
			v, sig := in.eval(e.A[i+1], sc)
			if sig.kind != sigNone {
				return nil, sig
			}
			k, ok := mapKey(m, kv)
			if !ok {
				return nil, unspec("map-key-kind")
			}
			if _, dup := m.M[k]; dup {
				return nil, unspec("duplicate-literal-key")
			}
			m.M[k] = v
		}
		return m, none
	case "func":
		return &FuncV{Fn: e.Fn, Env: sc}, none
	case "idx", "dot":
		return in.access(e, sc)
	case "call":
		return in.call(e, sc)
	}
	if e.IsPrefix() {
		v, sig := in.eval(e.A[0], sc)
		if sig.kind != sigNone {
			return nil, sig
		}
		switch e.K {
		case "not":
			b, ok := v.(bool)
			if !ok {
				return nil, kindErr(TNotABoolean, e.A[0])
			}
			return !b, none
		default:
			f, ok := v.(float64)
			if !ok {
				return nil, kindErr(TNotANumber, e.A[0])
			}
			if e.K == "minus" {
				return -f, none
			}
			return f, none
		}
	}
	if e.IsBinary() {
		return in.binary(e, sc)
	}
	return nil, unspec("unknown-expression-" + e.K)
}

func (in *Interp) binary(e *E, sc *Scope) (Value, signal) {
	op := binByName[e.K]
	lv, lsig := in.eval(e.A[0], sc)
	if lsig.kind == sigUnspec {
		return nil, lsig
	}
	rv, rsig := in.eval(e.A[1], sc)
	if rsig.kind == sigUnspec {
		return nil, rsig
	}
	if lsig.kind != sigNone || rsig.kind != sigNone {
		// one or both operands fail. Which error surfaces (and whether the other
		// operand is evaluated at all) is not documented: merge.
		if op.Class == "bool" && lsig.kind == sigNone {
			if b, ok := lv.(bool); ok && ((e.K == "and" && !b) || (e.K == "or" && b)) {
				return nil, unspec("short-circuit-over-error")
			}
		}
		return nil, mergeErr(lsig, rsig)
	}
	switch op.Class {
	case "arith":
		lf, lok := lv.(float64)
		rf, rok := rv.(float64)
		if !lok || !rok {
			var bad []*E
			if !lok {
				bad = append(bad, e.A[0])
			}
			if !rok {
				bad = append(bad, e.A[1])
			}
			return nil, kindErr(TNotANumber, bad...)
		}
		switch e.K {
		case "plus":
			return lf + rf, none
		case "minus":
			return lf - rf, none
		case "times":
			return lf * rf, none
		case "div":
			if rf == 0 {
				return nil, unspec("division-by-zero")
			}
			return lf / rf, none
		case "divint":
			if rf == 0 {
				return nil, unspec("division-by-zero")
			}
			return math.Floor(lf / rf), none
		case "modint":
			// "integer remainder": both operands are taken as integers (fraction dropped). Specified here for
			// non-negative operands below 2^53 whose divisor has an integer part >= 1 (sign rules for negative
			// operands, and what a divisor below 1 means, are not documented).
			if lf != lf || rf != rf || math.Signbit(lf) || lf < 0 || rf < 1 || lf >= 1<<53 || rf >= 1<<53 {
				return nil, unspec("modulo-outside-non-negative-integers")
			}
			return math.Mod(math.Trunc(lf), math.Trunc(rf)), none
		}
	case "cmp":
		if lf, ok := lv.(float64); ok {
			if rf, ok := rv.(float64); ok {
				if lf != lf || rf != rf {
					return false, none // float arithmetic: every ordered comparison with NaN is false
				}
				return cmpRes(e.K, lf < rf, lf == rf), none
			}
		}
		if ls, ok := lv.(string); ok {
			if rs, ok := rv.(string); ok {
				return cmpRes(e.K, ls < rs, ls == rs), none
			}
		}
		return nil, unspec("ordering-across-kinds")
	case "eq":
		eq, ok := scalarEq(lv, rv)
		if !ok {
			return nil, unspec("equality-across-kinds-or-containers")
		}
		if e.K == "!=" {
			eq = !eq
		}
		return eq, none
	case "str":
		ls, lok := lv.(string)
		rs, rok := rv.(string)
		if !lok || !rok {
			return nil, unspec("string-operator-on-non-strings")
		}
		switch e.K {
		case "hasprefix":
			return strings.HasPrefix(ls, rs), none
		case "hassuffix":
			return strings.HasSuffix(ls, rs), none
		default:
			re, err := regexp.Compile(rs)
			if err != nil {
				return nil, unspec("invalid-regular-expression")
			}
			return re.MatchString(ls), none
		}
	case "list":
		l, ok := rv.(*ListV)
		if !ok {
			return nil, unspec("membership-in-non-list")
		}
		if l.Dead {
			return nil, unspec("use-after-add-del")
		}
		found, unknown := false, false
		for _, it := range l.Items {
			if eq, ok := scalarEq(lv, it); ok && eq {
				found = true
			} else if !ok {
				unknown = true
			}
		}
		if !found && unknown {
			return nil, unspec("membership-across-kinds")
		}
		if e.K == "notin" {
			return !found, none
		}
		return found, none
	case "bool":
		lb, lok := lv.(bool)
		rb, rok := rv.(bool)
		if !lok || !rok {
			if lok && ((e.K == "and" && !lb) || (e.K == "or" && lb)) {
				return nil, unspec("short-circuit-over-wrong-kind")
			}
			var bad []*E
			if !lok {
				bad = append(bad, e.A[0])
			}
			if !rok {
				bad = append(bad, e.A[1])
			}
			return nil, kindErr(TNotABoolean, bad...)
		}
		if e.K == "and" {
			return lb && rb, none
		}
		return lb || rb, none
	}
	return nil, unspec("unknown-operator")
}

// mergeErr: one of two failing operand evaluations surfaces; a runtime kind
// error from either side is acceptable. Raised errors are only merged with
// themselves (left wins when both raise: evaluation order of operands is
// left to right in every documented example, but we do not rely on it).
func mergeErr(a, b signal) signal {
	if a.kind == sigNone {
		return b
	}
	if b.kind == sigNone {
		return a
	}
	if a.kind == sigError && b.kind == sigError && !a.err.Raised && !b.err.Raised && a.err.Type == b.err.Type {
		return errSig(&ErrV{Type: a.err.Type, Operand: append(append([]string{}, a.err.Operand...), b.err.Operand...)})
	}
	if a.kind == sigError && b.kind == sigError {
		return unspec("two-failing-operands")
	}
	return unspec("control-signal-in-operand")
}

func cmpRes(op string, lt, eq bool) bool {
	switch op {
	case "<":
		return lt
	case "<=":
		return lt || eq
	case ">":
		return !lt && !eq
	default:
		return !lt
	}
}

// scalarEq: equality is specified for two scalars of the same kind (and null with null).
func scalarEq(a, b Value) (bool, bool) {
	ka, kb := kindOf(a), kindOf(b)
	if ka != kb {
		return false, false
	}
	switch ka {
	case "null":
		return true, true
	case "bool":
		return a.(bool) == b.(bool), true
	case "num":
		return a.(float64) == b.(float64), true
	case "str":
		return a.(string) == b.(string), true
	}
	return false, false
}

func (in *Interp) access(e *E, sc *Scope) (Value, signal) {
	cv, sig := in.eval(e.A[0], sc)
	if sig.kind != sigNone {
		return nil, sig
	}
	var key Value
	if e.K == "dot" {
		key = e.S
	} else if key, sig = in.eval(e.A[1], sc); sig.kind != sigNone {
		return nil, sig
	}
	switch c := cv.(type) {
	case *ListV:
		if c.Dead {
			return nil, unspec("use-after-add-del")
		}
		i, ok := listIndex(key, len(c.Items))
		if !ok {
			return nil, unspec("list-index-not-in-range")
		}
		return c.Items[i], none
	case *MapV:
		if c.Dead {
			return nil, unspec("use-after-add-del")
		}
		k, ok := mapKey(c, key)
		if !ok {
			return nil, unspec("map-key-kind")
		}
		v, present := c.M[k]
		if !present {
			return nil, unspec("read-of-missing-key")
		}
		return v, none
	}
	return nil, unspec("access-into-non-container")
}

func (in *Interp) call(e *E, sc *Scope) (Value, signal) {
	callee := e.A[0]
	// t.rec(x): observation
	if callee.K == "dot" && callee.S == "rec" && callee.A[0].K == "var" && callee.A[0].S == "t" {
		if len(e.A) != 2 {
			return nil, unspec("rec-arity")
		}
		v, sig := in.eval(e.A[1], sc)
		if sig.kind != sigNone {
			return nil, sig
		}
		if bad := deadInside(v); bad {
			return nil, unspec("record-of-consumed-or-error-object")
		}
		in.trace = append(in.trace, TraceItem{Val: Snapshot(v)})
		return nil, none
	}
	var args []Value
	evalArgs := func() signal {
		for _, a := range e.A[1:] {
			v, sig := in.eval(a, sc)
			if sig.kind != sigNone {
				return sig
			}
			args = append(args, v)
		}
		return none
	}
	if callee.K == "var" && sc.find(callee.S) == nil {
		if sig := evalArgs(); sig.kind != sigNone {
			return nil, sig
		}
		return in.builtin(callee.S, args, sc)
	}
	var fv Value
	var sig signal
	if callee.K == "dot" || callee.K == "idx" {
		// call of a function stored in a container (method call, super[i](), list of functions)
		if fv, sig = in.access(callee, sc); sig.kind != sigNone {
			return nil, sig
		}
	} else if fv, sig = in.eval(callee, sc); sig.kind != sigNone {
		return nil, sig
	}
	f, ok := fv.(*FuncV)
	if !ok {
		return nil, unspec("call-of-non-function")
	}
	if sig := evalArgs(); sig.kind != sigNone {
		return nil, sig
	}
	return in.apply(f, args)
}

func deadInside(v Value) bool {
	switch c := v.(type) {
	case *ListV:
		if c.Dead {
			return true
		}
		for _, i := range c.Items {
			if deadInside(i) {
				return true
			}
		}
	case *MapV:
		if c.Dead {
			return true
		}
		if _, ok := c.M["\x00errobj"]; ok {
			return true // an error object as a whole has undocumented fields
		}
		for _, i := range c.M {
			if deadInside(i) {
				return true
			}
		}
	}
	return false
}

func (in *Interp) apply(f *FuncV, args []Value) (Value, signal) {
	if len(args) > len(f.Fn.Params) {
		return nil, unspec("more-arguments-than-parameters")
	}
	fsc := newScope(f.Env)
	if f.This != nil {
		fsc.vars["this"] = f.This
	}
	if f.HasSu {
		fsc.vars["super"] = &ListV{Items: f.Super}
	}
	for i, p := range f.Fn.Params {
		var v Value
		if i < len(args) {
			v = args[i]
		} else if i < len(f.Fn.Defs) && f.Fn.Defs[i] != nil {
			var sig signal
			if v, sig = in.eval(f.Fn.Defs[i], newScope(nil)); sig.kind != sigNone {
				return nil, unspec("non-literal-default")
			}
		}
		fsc.vars[p] = v
	}
	sig := in.block(f.Fn.Body, fsc, nil)
	switch sig.kind {
	case sigReturn:
		return sig.val, none
	case sigNone:
		return &noReturn{}, none
	case sigBreak, sigContinue:
		return nil, unspec("loop-control-leaves-function")
	}
	return nil, sig
}

// noReturn is the "value" of a call that fell off the end of the function:
// not documented; any use of it is unspecified, discarding it is fine.
type noReturn struct{}

func (in *Interp) builtin(name string, args []Value, sc *Scope) (Value, signal) {
	for _, a := range args {
		if _, ok := a.(*noReturn); ok {
			return nil, unspec("use-of-missing-return-value")
		}
	}
	switch name {
	case "raise":
		e := &ErrV{Raised: true}
		if len(args) == 0 {
			return nil, unspec("raise-without-type")
		}
		t, ok := args[0].(string)
		if !ok {
			return nil, unspec("raise-type-not-a-string")
		}
		e.Type = t
		if len(args) > 1 {
			d, ok := args[1].(string)
			if !ok {
				return nil, unspec("raise-detail-not-a-string")
			}
			e.Detail = d
		}
		if len(args) > 2 {
			e.Data = Snapshot(args[2])
		}
		if len(args) > 3 {
			return nil, unspec("raise-arity")
		}
		return nil, errSig(e)
	case "len":
		if len(args) != 1 {
			return nil, unspec("len-arity")
		}
		switch c := args[0].(type) {
		case *ListV:
			if c.Dead {
				return nil, unspec("use-after-add-del")
			}
			return float64(len(c.Items)), none
		case *MapV:
			if c.Dead {
				return nil, unspec("use-after-add-del")
			}
			if _, ok := c.M["\x00errobj"]; ok {
				return nil, unspec("len-of-error-object")
			}
			return float64(len(c.M)), none
		}
		return nil, unspec("len-of-non-container")
	case "add":
		if len(args) < 2 || len(args) > 3 {
			return nil, unspec("add-arity")
		}
		l, ok := args[0].(*ListV)
		if !ok || l.Dead {
			return nil, unspec("add-to-non-list")
		}
		idx := len(l.Items)
		if len(args) == 3 {
			f, ok := args[2].(float64)
			if !ok || f != math.Trunc(f) || f < 0 || f > float64(len(l.Items)) {
				return nil, unspec("add-index")
			}
			idx = int(f)
		}
		n := &ListV{}
		n.Items = append(n.Items, l.Items[:idx]...)
		n.Items = append(n.Items, args[1])
		n.Items = append(n.Items, l.Items[idx:]...)
		l.Dead = true
		return n, none
	case "del":
		if len(args) != 2 {
			return nil, unspec("del-arity")
		}
		switch c := args[0].(type) {
		case *ListV:
			if c.Dead {
				return nil, unspec("use-after-add-del")
			}
			i, ok := listIndex(args[1], len(c.Items))
			if !ok {
				return nil, unspec("list-index-not-in-range")
			}
			n := &ListV{}
			n.Items = append(n.Items, c.Items[:i]...)
			n.Items = append(n.Items, c.Items[i+1:]...)
			c.Dead = true
			return n, none
		case *MapV:
			if c.Dead {
				return nil, unspec("use-after-add-del")
			}
			k, ok := mapKey(c, args[1])
			if !ok {
				return nil, unspec("map-key-kind")
			}
			n := &MapV{M: map[interface{}]Value{}, Loose: map[interface{}]bool{}}
			for kk, v := range c.M {
				if kk != k {
					n.M[kk] = v
					if c.Loose[kk] {
						n.Loose[kk] = true
					}
				}
			}
			c.Dead = true
			return n, none
		}
		return nil, unspec("del-on-non-container")
	case "concat":
		if len(args) < 2 {
			return nil, unspec("concat-arity")
		}
		n := &ListV{}
		for _, a := range args {
			l, ok := a.(*ListV)
			if !ok || l.Dead {
				return nil, unspec("concat-non-list")
			}
			n.Items = append(n.Items, l.Items...)
		}
		return n, none
	case "new":
		return in.newObject(args)
	}
	return nil, unspec("builtin-" + name)
}

// newObject implements `new(template, args...)` as the property states it:
// properties of the template and of all super templates, methods bound to the
// object, init run once with the constructor arguments and access to the
// super constructors. Conflicts between two super templates are unspecified.
func (in *Interp) newObject(args []Value) (Value, signal) {
	if len(args) == 0 {
		return nil, unspec("new-arity")
	}
	tmpl, ok := args[0].(*MapV)
	if !ok || tmpl.Dead {
		return nil, unspec("new-on-non-map")
	}
	obj := &MapV{M: map[interface{}]Value{}}
	why := ""
	var collect func(t *MapV, depth int) *FuncV
	collect = func(t *MapV, depth int) *FuncV {
		if depth > 8 {
			why = "template-depth"
			return nil
		}
		var superInits []Value
		fromSupers := map[interface{}]int{}
		if sv, ok := t.M["super"]; ok {
			sl, ok := sv.(*ListV)
			if !ok || sl.Dead {
				why = "super-not-a-list"
				return nil
			}
			for _, s := range sl.Items {
				sm, ok := s.(*MapV)
				if !ok || sm.Dead {
					why = "super-entry-not-a-map"
					return nil
				}
				before := map[interface{}]Value{}
				for k, v := range obj.M {
					before[k] = v
				}
				si := collect(sm, depth+1)
				if si == nil {
					superInits = append(superInits, nil)
				} else {
					superInits = append(superInits, si)
				}
				for k, v := range obj.M {
					if k == "super" {
						continue
					}
					if bv, had := before[k]; !had || bv != v {
						fromSupers[k]++
					}
				}
			}
		}
		for k, n := range fromSupers {
			if _, own := t.M[k]; n > 1 && !own {
				why = "property-defined-by-several-super-templates"
			}
		}
		var own *FuncV
		for k, v := range t.M {
			if f, ok := v.(*FuncV); ok {
				nf := &FuncV{Fn: f.Fn, Env: f.Env, This: obj}
				if k == "init" {
					nf.Super, nf.HasSu = superInits, true
					own = nf
				}
				obj.M[k] = nf
			} else {
				obj.M[k] = v
			}
		}
		return own
	}
	collect(tmpl, 0)
	if why != "" {
		return nil, unspec(why)
	}
	if iv, ok := obj.M["init"]; ok {
		f, ok := iv.(*FuncV)
		if !ok {
			return nil, unspec("init-not-a-function")
		}
		if _, sig := in.apply(f, args[1:]); sig.kind != sigNone {
			return nil, sig
		}
	} else if len(args) > 1 {
		return nil, unspec("constructor-arguments-without-init")
	}
	return obj, none
}
