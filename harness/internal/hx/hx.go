// Package hx is the glue every property package uses: tier/shard/seed
// configuration, rapid driving, replay files, known-finding matching,
// panic containment with call-site signatures.
package hx

import (
	"encoding/json"
	"fmt"
	"os"
	"path/filepath"
	"regexp"
	"runtime"
	"sort"
	"strconv"
	"strings"
	"sync"
	"testing"

	"pgregory.net/rapid"

	"verif/internal/ev"
)

// Failure describes a violation found by runCase.
type Failure struct {
	Sig string `json:"sig"` // stable signature: used to match known findings
	Msg string `json:"msg"` // human readable
}

func (f *Failure) String() string { return f.Sig + ": " + f.Msg }

// Failf builds a failure.
func Failf(sig, format string, a ...interface{}) *Failure {
	return &Failure{Sig: sig, Msg: fmt.Sprintf(format, a...)}
}

// E is the evidence collector of the running package.
var E *ev.Collector

type knownFinding struct {
	Property string `json:"property"`
	Status   string `json:"status"`
	ID       string `json:"id"`
	Match    struct {
		SigRegex string `json:"sig_regex"`
	} `json:"match"`
	re *regexp.Regexp
}

var (
	known        []*knownFinding
	prop         string
	replayMu     sync.Mutex
	violation    bool
	inconclusive bool
)

// Inconclusive records that a case could not be decided (a bound passed
// while the observable state was not provably final). Never a violation:
// the process exits with status 4 and the driver reports exit 2.
func Inconclusive(reason string) {
	E.Exclude("inconclusive." + reason)
	replayMu.Lock()
	inconclusive = true
	replayMu.Unlock()
	fmt.Fprintln(os.Stderr, "verif: INCONCLUSIVE:", reason)
}

func envInt(k string, d int) int {
	if v, err := strconv.Atoi(os.Getenv(k)); err == nil {
		return v
	}
	return d
}

// Tier returns "quick" or "thorough".
func Tier() string {
	if os.Getenv("VERIF_TIER") == "thorough" {
		return "thorough"
	}
	return "quick"
}

// Thorough is true in the thorough tier.
func Thorough() bool { return Tier() == "thorough" }

// Shard returns this process' shard index and the number of shards.
func Shard() (int, int) {
	n := envInt("VERIF_SHARDS", 1)
	if n < 1 {
		n = 1
	}
	return envInt("VERIF_SHARD", 0), n
}

// Seed returns VERIF_SEED (default 1).
func Seed() int { return envInt("VERIF_SEED", 1) }

// Root returns the /verif directory.
func Root() string {
	if r := os.Getenv("VERIF_ROOT"); r != "" {
		return r
	}
	return "/verif"
}

// Main is called from TestMain of every property package.
func Main(m *testing.M, property, rule string) {
	prop = property
	E = ev.New(property, rule)
	loadKnown()
	code := m.Run()
	if code == 0 && inconclusive && !violation {
		code = 4
	}
	sh, _ := Shard()
	if err := E.Flush(os.Getenv("VERIF_STATS_DIR"), sh); err != nil {
		fmt.Fprintln(os.Stderr, "verif: cannot flush stats:", err)
		if code == 0 {
			code = 3
		}
	}
	os.Exit(code)
}

func loadKnown() {
	b, err := os.ReadFile(filepath.Join(Root(), "known_findings.json"))
	if err != nil {
		return
	}
	var all struct {
		Findings []*knownFinding `json:"findings"`
	}
	if json.Unmarshal(b, &all) != nil {
		return
	}
	for _, k := range all.Findings {
		if k.Property == prop && k.Status == "open" && k.Match.SigRegex != "" {
			if re, err := regexp.Compile(k.Match.SigRegex); err == nil {
				k.re = re
				known = append(known, k)
			}
		}
	}
}

// KnownOpen reports whether an open known finding with this id is listed;
// generators use it to exclude the matching shape by construction.
func KnownOpen(id string) bool {
	for _, k := range known {
		if k.ID == id {
			return true
		}
	}
	return false
}

// Tolerated reports whether a failure matches an open known finding (and counts it).
func Tolerated(f *Failure) bool {
	if f == nil {
		return true
	}
	for _, k := range known {
		if k.re.MatchString(f.Sig) {
			E.Known(k.ID)
			return true
		}
	}
	return false
}

type replayFile struct {
	Property string          `json:"property"`
	Sig      string          `json:"sig"`
	Msg      string          `json:"msg"`
	Case     json.RawMessage `json:"case"`
}

// WriteReplay stores the failing case where the driver expects it.
func WriteReplay(c interface{}, f *Failure) string {
	replayMu.Lock()
	defer replayMu.Unlock()
	path := os.Getenv("VERIF_REPLAY")
	if path == "" {
		path = filepath.Join(os.TempDir(), fmt.Sprintf("verif-replay-%s-%d.json", prop, os.Getpid()))
	}
	cb, err := json.Marshal(c)
	if err != nil {
		cb, _ = json.Marshal(fmt.Sprintf("%#v", c))
	}
	b, _ := json.MarshalIndent(replayFile{prop, f.Sig, f.Msg, cb}, "", " ")
	os.MkdirAll(filepath.Dir(path), 0755)
	os.WriteFile(path, b, 0644)
	violation = true
	return path
}

// WriteInflight stores a case before it is executed on a path which can kill
// the process (worker goroutines). Removed again by ClearInflight.
func WriteInflight(c interface{}) {
	path := os.Getenv("VERIF_INFLIGHT")
	if path == "" {
		return
	}
	cb, _ := json.Marshal(c)
	b, _ := json.Marshal(replayFile{prop, "crash:inflight", "process died while this case was executing", cb})
	os.WriteFile(path, b, 0644)
}

// ClearInflight removes the write-ahead case.
func ClearInflight() {
	if path := os.Getenv("VERIF_INFLIGHT"); path != "" {
		os.Remove(path)
	}
}

// Handle applies the known-finding filter to the outcome of one case and
// records a replay file for a genuine failure. Returns the failure if it is
// a violation, nil otherwise.
func Handle(c interface{}, f *Failure) *Failure {
	if f == nil || Tolerated(f) {
		return nil
	}
	WriteReplay(c, f)
	return f
}

// Check drives a rapid property: draw builds a serialisable case, run executes it.
func Check[C any](t *testing.T, draw func(*rapid.T) C, run func(C) *Failure) {
	t.Helper()
	os.RemoveAll("testdata/rapid")
	rapid.Check(t, func(rt *rapid.T) {
		c := draw(rt)
		if f := Handle(c, run(c)); f != nil {
			rt.Fatalf("VIOLATION %s: %s", prop, f)
		}
	})
}

// Enumerate runs an exhaustive enumeration, sharded by case index.
// It stops at the first violation.
func Enumerate[C any](t *testing.T, name string, seq func(yield func(C) bool), run func(C) *Failure) int {
	t.Helper()
	sh, n := Shard()
	idx, total := 0, 0
	var failed *Failure
	seq(func(c C) bool {
		mine := idx%n == sh
		idx++
		if !mine {
			return true
		}
		total++
		if f := Handle(c, run(c)); f != nil {
			failed = f
			return false
		}
		return true
	})
	E.Class("enum."+name, int64(total))
	if failed != nil {
		t.Fatalf("VIOLATION %s (enumeration %s, case %d): %s", prop, name, idx-1, failed)
	}
	return total
}

// Regress replays committed regression cases and VERIF_REPLAY_FILE through run (no rapid).
func Regress[C any](t *testing.T, run func(C) *Failure) {
	t.Helper()
	var files []string
	if f := os.Getenv("VERIF_REPLAY_FILE"); f != "" {
		files = append(files, f)
	} else {
		if sh, _ := Shard(); sh != 0 {
			return
		}
		files, _ = filepath.Glob(filepath.Join(Root(), "regress", prop, "*.json"))
		sort.Strings(files)
	}
	for _, fn := range files {
		b, err := os.ReadFile(fn)
		if err != nil {
			t.Fatalf("cannot read %s: %v", fn, err)
		}
		var rf replayFile
		if err := json.Unmarshal(b, &rf); err != nil {
			t.Fatalf("cannot decode %s: %v", fn, err)
		}
		var c C
		if err := json.Unmarshal(rf.Case, &c); err != nil {
			// Case of another test function in this package
			continue
		}
		E.Class("regress", 1)
		if f := run(c); f != nil && !Tolerated(f) {
			if os.Getenv("VERIF_REPLAY_FILE") == "" {
				WriteReplay(c, f)
			}
			t.Fatalf("VIOLATION %s (replay of %s): %s", prop, fn, f)
		}
	}
}

// Guard runs f and converts a panic into a failure whose signature names the
// innermost frame inside the code under test.
func Guard(f func()) (fail *Failure) {
	defer func() {
		if r := recover(); r != nil {
			fail = PanicFailure(r, 3)
		}
	}()
	f()
	return nil
}

// PanicFailure builds the failure for a recovered panic value. It must be
// called from the deferred function (the panicking stack is still present).
func PanicFailure(r interface{}, skip int) *Failure {
	pcs := make([]uintptr, 64)
	n := runtime.Callers(skip, pcs)
	frames := runtime.CallersFrames(pcs[:n])
	site := "unknown"
	var trace []string
	for {
		fr, more := frames.Next()
		if strings.Contains(fr.Function, "github.com/krotik/") {
			fn := fr.Function[strings.LastIndex(fr.Function, "/")+1:]
			file := fr.File
			if i := strings.Index(file, "/repo/"); i >= 0 {
				file = file[i+6:]
			} else if i := strings.Index(file, "krotik/"); i >= 0 {
				file = file[i:]
			}
			if site == "unknown" {
				site = file + ":" + fn
			}
			if len(trace) < 6 {
				trace = append(trace, fmt.Sprintf("%s:%d %s", file, fr.Line, fn))
			}
		}
		if !more {
			break
		}
	}
	msg := fmt.Sprint(r)
	return &Failure{Sig: "panic@" + site + ":" + panicClass(msg), Msg: fmt.Sprintf("panic: %s\n  %s", msg, strings.Join(trace, "\n  "))}
}

var digits = regexp.MustCompile(`[0-9]+`)

func panicClass(msg string) string {
	if len(msg) > 80 {
		msg = msg[:80]
	}
	return digits.ReplaceAllString(msg, "N")
}
