// C05 — lexical scoping, functions, containers and objects behave as specified.
//
// Domain: generated programs mixing global/block/function scopes, let,
// shadowing, nested and returned closures, recursion, parameter defaults,
// argument counts below/equal the parameter count, list/map literals with
// number and string keys, nested container paths, aliasing, len/add/del/concat,
// templates with single / multiple inheritance and init/super.
// Oracle: observation trace and escaping error equal the reference
// interpreter's prediction under every undocumented variant (else discarded).
package c05

import (
	"fmt"
	"testing"

	"pgregory.net/rapid"

	"verif/internal/erun"
	"verif/internal/hx"
	"verif/internal/lang"
	"verif/internal/progcheck"
)

const rule = "case = generated program with scoping, closure, container and object sections over a bounded name set; non-trivial = at least one of: a closure called after its defining call returned; a name shadowed (let / parameter) and read on both sides; a function called with every argument count up to its parameter count (missing parameters echo their default or null); a container written through one path and read through another (alias, parameter, nested path); a numeric-key write or delete on a map; a read-after-write check through an unusual index/key (negative, out of range, fractional, numeric-looking text, dotted, null); an object with >= 1 super template; distinct by source text"

// Case is one program.
type Case struct {
	Prog *lang.Prog `json:"prog"`
	Tags []string   `json:"tags,omitempty"` // non-triviality witnesses recorded by the generator
}

func TestMain(m *testing.M) { hx.Main(m, "C05", rule) }

var variants = lang.AllVariants()

func runCase(c Case) *hx.Failure {
	p := c.Prog
	p.Number()
	src := p.Src()
	classes := []string{}
	for _, t := range c.Tags {
		classes = append(classes, "tag."+t)
	}
	nt := len(c.Tags) > 0
	want, unspec := progcheck.Predict(p, nil, variants)
	if unspec != "" {
		hx.E.Case(false, src, append(classes, "outcome.unspecified")...)
		hx.E.Exclude("unspecified." + unspec)
		return nil
	}
	if want[0].Err != nil {
		classes = append(classes, "outcome.error-escapes")
	} else {
		classes = append(classes, "outcome.completes")
	}
	if len(want) > 1 {
		classes = append(classes, "outcome.several-acceptable")
	}
	hx.E.Case(nt, src, classes...)
	if nt {
		hx.E.Sample(src, map[string]interface{}{"src": src, "tags": c.Tags, "expect_trace": progcheck.Key(want[0])})
	}
	res := erun.Run(src, erun.Options{})
	return progcheck.Compare(src, want, res)
}

func TestRegress(t *testing.T) { hx.Regress(t, runCase) }

// ---------------------------------------------------------------------------
// generator

type gen struct {
	rt    *rapid.T
	n     int // unique-name counter
	tags  map[string]bool
	stmts int
}

func (g *gen) pick(n int, l string) int { return rapid.IntRange(0, n-1).Draw(g.rt, l) }
func (g *gen) flip(l string) bool       { return rapid.Bool().Draw(g.rt, l) }
func (g *gen) tag(t string)             { g.tags[t] = true }
func (g *gen) uniq(p string) string     { g.n++; return fmt.Sprintf("%s%d", p, g.n) }

func num(n int) *lang.E { return lang.Num(fmt.Sprint(n)) }

// env is the generator's conservative view of what is definitely defined.
type env struct {
	parent *env
	nums   map[string]bool // numeric variables defined in this scope
	fn     bool            // function boundary
}

func newEnv(p *env) *env { return &env{parent: p, nums: map[string]bool{}} }

func (e *env) visibleNums() []string {
	seen := map[string]bool{}
	var out []string
	for c := e; c != nil; c = c.parent {
		for _, n := range []string{"a", "b", "c", "d", "p", "q"} {
			if c.nums[n] && !seen[n] {
				seen[n] = true
				out = append(out, n)
			}
		}
	}
	return out
}

func (e *env) defined(n string) bool {
	for c := e; c != nil; c = c.parent {
		if c.nums[n] {
			return true
		}
	}
	return false
}

func (g *gen) numExpr(e *env) *lang.E {
	vs := e.visibleNums()
	if len(vs) > 0 && g.pick(3, "ne") != 0 {
		v := lang.Var(vs[g.pick(len(vs), "nev")])
		switch g.pick(4, "neop") {
		case 0:
			return lang.Op("plus", v, num(1+g.pick(3, "nel")))
		case 1:
			return lang.Op("times", v, num(2))
		}
		return v
	}
	return num(g.pick(10, "nl"))
}

var scopeNames = []string{"a", "b", "c", "d"}

// scopingBlock generates statements exercising definition / assignment / let / probes.
func (g *gen) scopingBlock(e *env, depth int) []*lang.S {
	var out []*lang.S
	n := 1 + g.pick(5, "sn")
	for i := 0; i < n && g.stmts < 60; i++ {
		g.stmts++
		switch k := g.pick(16, "sk"); {
		case k <= 2: // plain assignment
			x := scopeNames[g.pick(4, "sx")]
			out = append(out, lang.Assign(lang.Var(x), g.numExpr(e)))
			if !e.defined(x) {
				e.nums[x] = true
			}
		case k == 3: // let
			x := scopeNames[g.pick(4, "lx")]
			if e.defined(x) && !e.nums[x] {
				g.tag("shadow-let")
			}
			init := g.numExpr(e)
			out = append(out, lang.LetS(x, init))
			e.nums[x] = true
		case k <= 5:
			if vs := e.visibleNums(); len(vs) > 0 {
				out = append(out, lang.Rec(lang.Var(vs[g.pick(len(vs), "rv")])))
			}
		case k == 6:
			out = append(out, lang.Probe(g.uniq("pr"), scopeNames[g.pick(4, "px")]))
		case k <= 10 && depth < 3: // nested block
			inner := newEnv(e)
			var s *lang.S
			switch g.pick(6, "bk") {
			case 0:
				s = &lang.S{K: "if", Br: []*lang.Branch{{Cond: lang.Bool(true), Body: g.scopingBlock(inner, depth+1)}}}
			case 1:
				s = &lang.S{K: "if", Br: []*lang.Branch{{Cond: lang.Op("<", g.numExpr(e), num(5)), Body: g.scopingBlock(inner, depth+1)},
					{Body: g.scopingBlock(newEnv(e), depth+1)}}}
			case 2:
				iv := g.uniq("i")
				body := g.scopingBlock(inner, depth+1)
				s = &lang.S{K: "for", Vars: []string{iv}, E: lang.Call(lang.Var("range"), num(1), num(1+g.pick(3, "rn"))),
					Body: append([]*lang.S{lang.Rec(lang.Var(iv))}, body...)}
			case 3:
				s = &lang.S{K: "try", Body: g.scopingBlock(inner, depth+1), Fin: &lang.Block{Body: g.scopingBlock(newEnv(e), depth+1)}}
			case 4:
				s = &lang.S{K: "mutex", Name: "mx", Body: g.scopingBlock(inner, depth+1)}
			default:
				s = &lang.S{K: "try", Body: append(g.scopingBlock(inner, depth+1), lang.ExprS(lang.Call(lang.Var("raise"), lang.Str("E")))),
					Ex: []*lang.Except{{As: "ex", Body: append([]*lang.S{lang.Rec(lang.Dot(lang.Var("ex"), "type"))}, g.scopingBlock(newEnv(e), depth+1)...)}}}
			}
			out = append(out, s)
		case k <= 13 && depth < 3: // function definition and calls
			out = append(out, g.function(e, depth)...)
		default:
			out = append(out, lang.Probe(g.uniq("pr"), scopeNames[g.pick(4, "px2")]))
		}
	}
	return out
}

// function generates a function (named or anonymous), then calls.
func (g *gen) function(e *env, depth int) []*lang.S {
	var out []*lang.S
	name := g.uniq("f")
	fe := newEnv(e)
	fe.fn = true
	f := &lang.Func{}
	np := g.pick(3, "fnp")
	params := []string{"p", "q"}[:np]
	for i, p := range params {
		f.Params = append(f.Params, p)
		var d *lang.E
		if g.pick(3, "fdef") == 0 {
			d = num(40 + i)
		}
		f.Defs = append(f.Defs, d)
		if e.defined(p) {
			g.tag("shadow-param")
		}
		fe.nums[p] = true
	}
	kind := g.pick(7, "fkind")
	switch kind {
	case 6:
		// closures created inside a block which is executed again: a loop runs a block statement (if / try / inner loop /
		// mutex) several times; in some passes the block defines a variable of its own and stores a closure reading (and
		// counting up) that variable; the closures are called after the loop. What a closure captured must still be there
		// when the same block statement has been entered again (with the guard false, or true).
		fs, bv, iv := g.uniq("fs"), g.uniq("bv"), g.uniq("i")
		mk := &lang.Func{Body: []*lang.S{
			lang.Assign(lang.Var(bv), lang.Op("plus", lang.Var(bv), num(1))),
			lang.Return(lang.Var(bv)),
		}}
		def := lang.LetS(bv, lang.Op("times", lang.Var(iv), num(10)))
		if g.flip("bplain") {
			def = lang.Assign(lang.Var(bv), lang.Op("times", lang.Var(iv), num(10)))
		}
		store := []*lang.S{def, lang.Assign(lang.Var(fs), lang.Call(lang.Var("add"), lang.Var(fs), &lang.E{K: "func", Fn: mk}))}
		var guard *lang.E
		if which := g.pick(4, "bguard"); which < 3 {
			guard = lang.Op("==", lang.Var(iv), num(1+which)) // one pass only defines and captures
		} else {
			guard = lang.Op("<=", lang.Var(iv), num(2))
		}
		inner := &lang.S{K: "if", Br: []*lang.Branch{{Cond: guard, Body: store}}}
		var block *lang.S
		switch g.pick(4, "bkind") {
		case 0:
			block = inner
		case 1:
			block = &lang.S{K: "try", Body: []*lang.S{inner}, Ex: []*lang.Except{{Body: []*lang.S{lang.Mark("never")}}}}
		case 2:
			block = &lang.S{K: "for", Vars: []string{g.uniq("j")}, E: lang.List(num(1)), Body: []*lang.S{inner}}
		default:
			block = &lang.S{K: "mutex", Name: "bm", Body: []*lang.S{inner}}
		}
		if g.flip("bdirect") && block != inner {
			// the variable lives in the scope of the try / loop / mutex block itself
			block.Body = []*lang.S{{K: "if", Br: []*lang.Branch{{Cond: guard, Body: []*lang.S{lang.Mark("pass")}}}}, def, store[1]}
			if guard.K == "==" {
				// define and capture in ONE pass only: leave the block early in the others
				block.Body = append([]*lang.S{}, store...)
				block = &lang.S{K: "if", Br: []*lang.Branch{{Cond: lang.Bool(true), Body: []*lang.S{{K: "if", Br: []*lang.Branch{{Cond: guard, Body: []*lang.S{block}}}}}}}}
			}
		}
		out = append(out, lang.Assign(lang.Var(fs), lang.List()),
			&lang.S{K: "for", Vars: []string{iv}, E: lang.List(num(1), num(2), num(3)), Body: []*lang.S{block, lang.Rec(lang.Call(lang.Var("len"), lang.Var(fs)))}})
		ncl := 1
		if guard.K != "==" {
			ncl = 2
		}
		for i, n := 0, 1+g.pick(3, "bcalls"); i < n; i++ {
			out = append(out, lang.Rec(lang.Call(lang.Idx(lang.Var(fs), num(g.pick(ncl, "bwhich"))))))
		}
		g.tag("closure-from-a-block-entered-again")
		return out
	case 5: // parameter binding: every count of arguments from 0 to the parameter count; missing ones read as their default or null
		pf := &lang.Func{Name: name}
		npar := 1 + g.pick(4, "pbn")
		var echo []*lang.E
		for i := 0; i < npar; i++ {
			p := fmt.Sprintf("x%d", i+1)
			pf.Params = append(pf.Params, p)
			var d *lang.E
			if g.pick(3, "pbdef") == 0 {
				d = []*lang.E{num(70 + i), lang.Str("dflt"), lang.Bool(true), lang.Null()}[g.pick(4, "pbdv")]
			}
			pf.Defs = append(pf.Defs, d)
			echo = append(echo, lang.Var(p))
		}
		pf.Body = []*lang.S{lang.Rec(lang.List(echo...)), lang.Return(num(0))}
		if g.pick(3, "pbmut") == 0 {
			// container literals as defaults, changed in place by the body: every call without that argument
			// starts from the literal again
			pf.Params = append(pf.Params, "dl", "dm")
			pf.Defs = append(pf.Defs, lang.List(num(1), num(2)), lang.MapLit(lang.Str("k"), num(1)))
			npar += 2
			pf.Body = []*lang.S{lang.Rec(lang.List(append(echo, lang.Var("dl"), lang.Var("dm"))...)),
				lang.Assign(lang.Idx(lang.Var("dl"), num(0)), lang.Op("plus", lang.Idx(lang.Var("dl"), num(0)), num(1))),
				lang.Assign(lang.Dot(lang.Var("dm"), "k"), lang.Op("plus", lang.Dot(lang.Var("dm"), "k"), num(1))),
				lang.Rec(lang.List(lang.Var("dl"), lang.Var("dm"))), lang.Return(num(0))}
			g.tag("container-default-changed-in-place")
			out = append(out, &lang.S{K: "func", Fn: pf})
			for i, n := 0, 2+g.pick(3, "pbcalls2"); i < n; i++ {
				var args []*lang.E
				for k, na := 0, g.pick(npar-1, "pbargs2"); k < na; k++ {
					args = append(args, num(k))
				}
				out = append(out, lang.Rec(lang.Call(lang.Var(name), args...)))
			}
			return out
		}
		out = append(out, &lang.S{K: "func", Fn: pf})
		for i, n := 0, 1+g.pick(3, "pbcalls"); i < n; i++ {
			var args []*lang.E
			for k, na := 0, g.pick(npar+1, "pbargs"); k < na; k++ {
				args = append(args, []*lang.E{g.numExpr(e), lang.Str("arg"), lang.List(num(k)), lang.Null()}[g.pick(4, "pbav")])
			}
			out = append(out, lang.Rec(lang.Call(lang.Var(name), args...)))
		}
		g.tag("fewer-arguments-than-parameters")
		return out
	case 0: // recursion with a depth argument
		if np == 0 {
			f.Params, f.Defs = []string{"p"}, []*lang.E{nil}
			fe.nums["p"] = true
			np = 1
		}
		f.Body = []*lang.S{
			lang.Rec(lang.Var("p")),
			{K: "if", Br: []*lang.Branch{{Cond: lang.Op("<=", lang.Var("p"), num(0)), Body: []*lang.S{lang.Return(num(0))}}}},
			lang.LetS("r", lang.Call(lang.Var(name), lang.Op("minus", lang.Var("p"), num(1)))),
			lang.Return(lang.Op("plus", lang.Var("r"), lang.Var("p"))),
		}
		f.Name = name
		out = append(out, &lang.S{K: "func", Fn: f})
		args := []*lang.E{num(g.pick(4, "rec"))}
		for i := 1; i < np; i++ {
			args = append(args, num(1))
		}
		out = append(out, lang.Rec(lang.Call(lang.Var(name), args...)))
		return out
	case 1: // counter factory: closure outliving its defining call
		f.Name = name
		inner := &lang.Func{Body: []*lang.S{
			lang.Assign(lang.Var("n"), lang.Op("plus", lang.Var("n"), num(1))),
			lang.Return(lang.Var("n")),
		}}
		start := g.numExpr(fe)
		f.Body = []*lang.S{lang.LetS("n", start), lang.Return(&lang.E{K: "func", Fn: inner})}
		out = append(out, &lang.S{K: "func", Fn: f})
		c1, c2 := g.uniq("k"), g.uniq("k")
		args := g.args(e, np, f)
		out = append(out, lang.Assign(lang.Var(c1), lang.Call(lang.Var(name), args...)))
		out = append(out, lang.Assign(lang.Var(c2), lang.Call(lang.Var(name), g.args(e, np, f)...)))
		for i, n := 0, 1+g.pick(3, "ncalls"); i < n; i++ {
			out = append(out, lang.Rec(lang.Call(lang.Var([]string{c1, c2}[g.pick(2, "which")]))))
		}
		g.tag("closure-after-return")
		return out
	default:
		body := g.scopingBlock(fe, depth+1)
		body = append(body, lang.Return(g.numExpr(fe)))
		f.Body = body
		if kind == 2 { // anonymous function bound to a variable
			out = append(out, lang.Assign(lang.Var(name), &lang.E{K: "func", Fn: f}))
		} else {
			f.Name = name
			out = append(out, &lang.S{K: "func", Fn: f})
		}
		for i, n := 0, 1+g.pick(2, "fc"); i < n; i++ {
			out = append(out, lang.Rec(lang.Call(lang.Var(name), g.args(e, np, f)...)))
		}
		return out
	}
}

// args: argument counts below or equal to the parameter count (missing ones read as null or the default).
func (g *gen) args(e *env, np int, f *lang.Func) []*lang.E {
	n := np
	// drop trailing arguments only where a default exists (a null parameter would be used in arithmetic otherwise)
	for n > 0 && n-1 < len(f.Defs) && f.Defs[n-1] != nil && g.flip("dropArg") {
		n--
	}
	var out []*lang.E
	for i := 0; i < n; i++ {
		out = append(out, g.numExpr(e))
	}
	return out
}

// ---------------------------------------------------------------------------
// containers

type cvar struct {
	name string
	kind string // list | map
	n    int    // list length (exact)
	keys []*lang.E
}

func (g *gen) scalar() *lang.E {
	switch g.pick(5, "sc") {
	case 0:
		return lang.Str([]string{"x", "y", "zed", ""}[g.pick(4, "scs")])
	case 1:
		return lang.Bool(g.flip("scb"))
	case 2:
		return lang.Null()
	}
	return num(g.pick(20, "scn"))
}

func (g *gen) containers() []*lang.S {
	var out []*lang.S
	var vars []*cvar
	newList := func() *cvar {
		c := &cvar{name: g.uniq("l"), kind: "list", n: g.pick(5, "ll")}
		l := lang.List()
		for i := 0; i < c.n; i++ {
			l.A = append(l.A, g.scalar())
		}
		out = append(out, lang.Assign(lang.Var(c.name), l))
		vars = append(vars, c)
		return c
	}
	newMap := func() *cvar {
		c := &cvar{name: g.uniq("m"), kind: "map"}
		m := lang.MapLit()
		used := map[string]bool{}
		for i, n := 0, g.pick(4, "mk"); i < n; i++ {
			var k *lang.E
			if g.pick(3, "mkk") == 0 {
				k = num(1 + g.pick(4, "mkn"))
			} else {
				k = lang.Str([]string{"k", "key", "x", "abc"}[g.pick(4, "mks")])
			}
			if used[k.S] {
				continue
			}
			used[k.S] = true
			c.keys = append(c.keys, k)
			m.A = append(m.A, k, g.scalar())
		}
		out = append(out, lang.Assign(lang.Var(c.name), m))
		vars = append(vars, c)
		return c
	}
	newList()
	newMap()
	pickVar := func(kind string) *cvar {
		var c []*cvar
		for _, v := range vars {
			if v.kind == kind {
				c = append(c, v)
			}
		}
		if len(c) == 0 {
			return nil
		}
		return c[g.pick(len(c), "cv")]
	}
	acc := func(c *cvar, k *lang.E) *lang.E {
		if k.K == "str" && g.flip("dot") && k.S != "" {
			return lang.Dot(lang.Var(c.name), k.S)
		}
		return lang.Idx(lang.Var(c.name), k)
	}
	n := 3 + g.pick(10, "cn")
	for i := 0; i < n; i++ {
		switch g.pick(16, "ck") {
		case 0:
			newList()
		case 1:
			newMap()
		case 2: // list element write + read
			if c := pickVar("list"); c != nil && c.n > 0 {
				idx := num(g.pick(c.n, "li"))
				out = append(out, lang.Assign(lang.Idx(lang.Var(c.name), idx), g.scalar()), lang.Rec(lang.Idx(lang.Var(c.name), idx)), lang.Rec(lang.Var(c.name)))
			}
		case 3, 4: // map write + read (string or numeric key, existing or new)
			if c := pickVar("map"); c != nil {
				var k *lang.E
				if len(c.keys) > 0 && g.flip("existing") {
					k = c.keys[g.pick(len(c.keys), "mki")]
				} else if g.pick(3, "newnum") == 0 {
					k = num(5 + g.pick(3, "nk"))
					c.keys = append(c.keys, k)
				} else {
					k = lang.Str([]string{"n1", "n2", "other"}[g.pick(3, "nks")])
					c.keys = append(c.keys, k)
				}
				if k.K == "num" {
					g.tag("numeric-map-key")
				}
				out = append(out, lang.Assign(acc(c, k), g.scalar()), lang.Rec(acc(c, k)), lang.Rec(lang.Call(lang.Var("len"), lang.Var(c.name))), lang.Rec(lang.Var(c.name)))
			}
		case 5: // alias through a second name
			if c := pickVar([]string{"list", "map"}[g.pick(2, "ak")]); c != nil {
				al := &cvar{name: g.uniq("al"), kind: c.kind, n: c.n, keys: c.keys}
				out = append(out, lang.Assign(lang.Var(al.name), lang.Var(c.name)))
				if c.kind == "list" && c.n > 0 {
					idx := num(g.pick(c.n, "ali"))
					out = append(out, lang.Assign(lang.Idx(lang.Var(al.name), idx), g.scalar()), lang.Rec(lang.Idx(lang.Var(c.name), idx)))
					g.tag("alias")
				} else if c.kind == "map" {
					k := lang.Str("viaAlias")
					out = append(out, lang.Assign(lang.Idx(lang.Var(al.name), k), g.scalar()), lang.Rec(lang.Dot(lang.Var(c.name), "viaAlias")))
					c.keys = append(c.keys, k)
					g.tag("alias")
				}
				vars = append(vars, al)
			}
		case 6: // mutation through a parameter; scalars by value
			if c := pickVar("list"); c != nil && c.n > 0 {
				fn := g.uniq("mut")
				idx := num(g.pick(c.n, "pi"))
				f := &lang.Func{Name: fn, Params: []string{"x", "s"}, Body: []*lang.S{
					lang.Assign(lang.Idx(lang.Var("x"), idx), g.scalar()),
					lang.Assign(lang.Var("s"), num(99)),
					lang.Return(lang.Var("s")),
				}}
				sv := g.uniq("sv")
				out = append(out, &lang.S{K: "func", Fn: f}, lang.Assign(lang.Var(sv), num(g.pick(9, "svv"))),
					lang.Rec(lang.Call(lang.Var(fn), lang.Var(c.name), lang.Var(sv))), lang.Rec(lang.Var(c.name)), lang.Rec(lang.Var(sv)))
				g.tag("param-reference")
			}
		case 7: // add
			if c := pickVar("list"); c != nil {
				args := []*lang.E{lang.Var(c.name), g.scalar()}
				if g.flip("addidx") {
					args = append(args, num(g.pick(c.n+1, "ai")))
				}
				out = append(out, lang.Assign(lang.Var(c.name), lang.Call(lang.Var("add"), args...)), lang.Rec(lang.Var(c.name)), lang.Rec(lang.Call(lang.Var("len"), lang.Var(c.name))))
				c.n++
				g.dropAliases(&vars, c)
			}
		case 8: // del on a list
			if c := pickVar("list"); c != nil && c.n > 0 {
				out = append(out, lang.Assign(lang.Var(c.name), lang.Call(lang.Var("del"), lang.Var(c.name), num(g.pick(c.n, "di")))), lang.Rec(lang.Var(c.name)))
				c.n--
				g.dropAliases(&vars, c)
			}
		case 9: // del on a map
			if c := pickVar("map"); c != nil && len(c.keys) > 0 {
				ki := g.pick(len(c.keys), "dk")
				k := c.keys[ki]
				if k.K == "num" {
					g.tag("numeric-map-key")
				}
				out = append(out, lang.Assign(lang.Var(c.name), lang.Call(lang.Var("del"), lang.Var(c.name), k)), lang.Rec(lang.Call(lang.Var("len"), lang.Var(c.name))), lang.Rec(lang.Var(c.name)))
				c.keys = append(append([]*lang.E{}, c.keys[:ki]...), c.keys[ki+1:]...)
				g.dropAliases(&vars, c)
			}
		case 10: // concat
			a, b := pickVar("list"), pickVar("list")
			if a != nil && b != nil {
				c := &cvar{name: g.uniq("cc"), kind: "list", n: a.n + b.n}
				out = append(out, lang.Assign(lang.Var(c.name), lang.Call(lang.Var("concat"), lang.Var(a.name), lang.Var(b.name))), lang.Rec(lang.Var(c.name)))
				if c.n > 0 { // the result is a new list: writing to it must not change the operands
					out = append(out, lang.Assign(lang.Idx(lang.Var(c.name), num(0)), lang.Str("w")), lang.Rec(lang.Var(a.name)), lang.Rec(lang.Var(b.name)))
				}
				vars = append(vars, c)
			}
		case 11: // nested path
			nm := g.uniq("nst")
			lit := lang.MapLit(lang.Str("k"), lang.MapLit(lang.Str("n"), lang.List(num(1), num(2), num(3))), lang.Str("l"), lang.List(lang.MapLit(lang.Str("z"), num(0))))
			out = append(out, lang.Assign(lang.Var(nm), lit))
			switch g.pick(3, "np") {
			case 0:
				p := lang.Idx(lang.Dot(lang.Dot(lang.Var(nm), "k"), "n"), num(g.pick(3, "npi")))
				out = append(out, lang.Assign(p, g.scalar()), lang.Rec(p))
			case 1:
				p := lang.Dot(lang.Idx(lang.Dot(lang.Var(nm), "l"), num(0)), "z")
				out = append(out, lang.Assign(p, g.scalar()), lang.Rec(p))
			default:
				inner := g.uniq("in")
				out = append(out, lang.Assign(lang.Var(inner), lang.Dot(lang.Dot(lang.Var(nm), "k"), "n")),
					lang.Assign(lang.Idx(lang.Var(inner), num(1)), g.scalar()))
			}
			out = append(out, lang.Rec(lang.Var(nm)))
			g.tag("nested-path")
		case 12: // iterate
			if c := pickVar([]string{"list", "map"}[g.pick(2, "ik")]); c != nil {
				if c.kind == "list" {
					iv := g.uniq("it")
					out = append(out, &lang.S{K: "for", Vars: []string{iv}, E: lang.Var(c.name), Body: []*lang.S{lang.Rec(lang.Var(iv))}})
				} else {
					kv, vv := g.uniq("ik"), g.uniq("iv")
					out = append(out, &lang.S{K: "for", Vars: []string{kv, vv}, E: lang.Var(c.name), Body: []*lang.S{lang.Rec(lang.Var(kv)), lang.Rec(lang.Var(vv))}})
				}
			}
		case 13: // read-after-write through unusual indices / keys on a fresh container (the write may fail; if it succeeds the same expression reads the value back)
			nm := g.uniq("rw")
			if g.flip("rwlist") {
				n := 1 + g.pick(4, "rwn")
				l := lang.List()
				for i := 0; i < n; i++ {
					l.A = append(l.A, num(i))
				}
				idx := []*lang.E{lang.Op("minus", num(1+g.pick(n+2, "neg"))), num(n + g.pick(2, "past")), lang.Num("0.5"), lang.Str("1"), lang.Str("x"), lang.Null(), num(g.pick(n, "ok")), lang.Num("1e+30")}[g.pick(8, "rwidx")]
				out = append(out, lang.Assign(lang.Var(nm), l), lang.RW(g.uniq("rwl"), lang.Idx(lang.Var(nm), idx), g.scalar()))
			} else {
				m := lang.MapLit(num(1), lang.Str("one"), lang.Str("k"), num(2))
				key := []*lang.E{lang.Str("1"), num(1), lang.Str("a.b"), lang.Num("1.5"), lang.Op("minus", num(1)), lang.Str(""), lang.Str("2"), num(2), lang.Bool(true), lang.Null(), lang.Str("k")}[g.pick(11, "rwkey")]
				out = append(out, lang.Assign(lang.Var(nm), m), lang.RW(g.uniq("rwm"), lang.Idx(lang.Var(nm), key), g.scalar()))
			}
			g.tag("read-after-write-unusual-key")
		case 14: // the SAME assignment statement is executed several times with another index / key each time (loop, function
			// called twice), the target being a container inside a container: every write must land where its own index says
			o := g.uniq("o")
			n := 2 + g.pick(3, "nw")
			items := lang.List()
			for i := 0; i < n; i++ {
				items.A = append(items.A, num(0))
			}
			iv := g.uniq("i")
			fn := g.uniq("put")
			out = append(out,
				lang.Assign(lang.Var(o), lang.MapLit(lang.Str("items"), items, lang.Str("m"), lang.MapLit())),
				&lang.S{K: "for", Vars: []string{iv}, E: lang.Call(lang.Var("range"), num(0), num(n-1)), Body: []*lang.S{
					lang.Assign(lang.Idx(lang.Dot(lang.Var(o), "items"), lang.Var(iv)), lang.Op("plus", lang.Var(iv), num(10))),
					lang.Rec(lang.Idx(lang.Dot(lang.Var(o), "items"), lang.Var(iv)))}},
				lang.Rec(lang.Dot(lang.Var(o), "items")),
				&lang.S{K: "func", Fn: &lang.Func{Name: fn, Params: []string{"k", "v"}, Defs: []*lang.E{nil, nil}, Body: []*lang.S{
					lang.Assign(lang.Idx(lang.Dot(lang.Var(o), "m"), lang.Var("k")), lang.Var("v")),
					lang.Return(lang.Call(lang.Var("len"), lang.Dot(lang.Var(o), "m")))}}},
				lang.Rec(lang.Call(lang.Var(fn), lang.Str("a"), num(1))),
				lang.Rec(lang.Call(lang.Var(fn), lang.Str("b"), num(2))),
				lang.Rec(lang.Call(lang.Var(fn), lang.Str("a"), num(3))),
				lang.Rec(lang.Dot(lang.Var(o), "m")))
			g.tag("same-assignment-other-index")
		default:
			if c := pickVar([]string{"list", "map"}[g.pick(2, "lk")]); c != nil {
				out = append(out, lang.Rec(lang.Call(lang.Var("len"), lang.Var(c.name))))
			}
		}
	}
	return out
}

// after add/del only the returned value may be used: forget other names of the old value.
func (g *gen) dropAliases(vars *[]*cvar, keep *cvar) {
	var out []*cvar
	for _, v := range *vars {
		if v == keep || !hasPrefix(v.name, "al") {
			out = append(out, v)
		}
	}
	*vars = out
}

func hasPrefix(s, p string) bool { return len(s) >= len(p) && s[:len(p)] == p }

// ---------------------------------------------------------------------------
// objects

func fn(params []string, body ...*lang.S) *lang.E {
	return &lang.E{K: "func", Fn: &lang.Func{Params: params, Body: body}}
}

func (g *gen) objects() []*lang.S {
	var out []*lang.S
	this := func(f string) *lang.E { return lang.Dot(lang.Var("this"), f) }
	// Base templates: each with its own property, method and optionally init
	nb := 1 + g.pick(2, "nbase")
	var bases []string
	for i := 0; i < nb; i++ {
		name := g.uniq("Base")
		prop := fmt.Sprintf("bp%d", i)
		t := lang.MapLit(
			lang.Str(prop), num(10*(i+1)),
			lang.Str(fmt.Sprintf("getB%d", i)), fn(nil, lang.Return(this(prop))),
			lang.Str(fmt.Sprintf("setB%d", i)), fn([]string{"v"}, lang.Assign(this(prop), lang.Var("v"))),
		)
		if g.pick(4, "binit") != 0 {
			t.A = append(t.A, lang.Str("init"), fn([]string{"x"}, lang.Rec(lang.List(lang.Str("init-"+name), lang.Var("x"))), lang.Assign(this(prop), lang.Var("x"))))
		}
		out = append(out, lang.Assign(lang.Var(name), t))
		bases = append(bases, name)
	}
	// Derived template
	der := g.uniq("Der")
	nsup := g.pick(nb+1, "nsup")
	t := lang.MapLit(lang.Str("dp"), num(7), lang.Str("sum"), fn([]string{"k"}, lang.Return(lang.Op("plus", this("dp"), lang.Var("k")))))
	if nsup > 0 {
		sl := lang.List()
		for i := 0; i < nsup; i++ {
			sl.A = append(sl.A, lang.Var(bases[i]))
		}
		t.A = append(t.A, lang.Str("super"), sl)
		g.tag("object-with-super")
	}
	ownInit := g.pick(3, "dinit") != 0
	if ownInit {
		body := []*lang.S{lang.Rec(lang.List(lang.Str("init-"+der), lang.Var("a1"), lang.Var("a2")))}
		// call the super constructors that exist (the generator knows which bases have init)
		for i := 0; i < nsup; i++ {
			if g.hasInit(out, bases[i]) && g.flip("callsuper") {
				body = append(body, lang.ExprS(lang.Call(lang.Idx(lang.Var("super"), num(i)), lang.Op("plus", lang.Var("a1"), num(i)))))
			}
		}
		body = append(body, lang.Assign(this("dp"), lang.Var("a2")))
		t.A = append(t.A, lang.Str("init"), fn([]string{"a1", "a2"}, body...))
	}
	out = append(out, lang.Assign(lang.Var(der), t))
	// instances
	ni := 1 + g.pick(2, "ninst")
	for k := 0; k < ni; k++ {
		o := g.uniq("o")
		args := []*lang.E{lang.Var(der)}
		inheritsInit := false
		for i := 0; i < nsup; i++ {
			if g.hasInit(out, bases[i]) {
				inheritsInit = true
			}
		}
		if ownInit {
			args = append(args, num(1+g.pick(5, "ia1")), num(20+g.pick(5, "ia2")))
		} else if inheritsInit {
			args = append(args, num(30+g.pick(5, "ia3")))
		}
		out = append(out, lang.Assign(lang.Var(o), lang.Call(lang.Var("new"), args...)))
		out = append(out, lang.Rec(lang.Dot(lang.Var(o), "dp")), lang.Rec(lang.Call(lang.Dot(lang.Var(o), "sum"), num(g.pick(5, "sk")))))
		for i := 0; i < nsup; i++ {
			out = append(out, lang.Rec(lang.Dot(lang.Var(o), fmt.Sprintf("bp%d", i))), lang.Rec(lang.Call(lang.Dot(lang.Var(o), fmt.Sprintf("getB%d", i)))))
			if g.flip("setb") {
				out = append(out, lang.ExprS(lang.Call(lang.Dot(lang.Var(o), fmt.Sprintf("setB%d", i)), num(g.pick(50, "setv")))),
					lang.Rec(lang.Call(lang.Dot(lang.Var(o), fmt.Sprintf("getB%d", i)))))
			}
		}
		// the template itself is unchanged by what instances do
		out = append(out, lang.Rec(lang.Dot(lang.Var(der), "dp")))
		for i := 0; i < nsup; i++ {
			out = append(out, lang.Rec(lang.Dot(lang.Var(bases[i]), fmt.Sprintf("bp%d", i))))
		}
	}
	return out
}

func (g *gen) hasInit(stmts []*lang.S, name string) bool {
	for _, s := range stmts {
		if s.K == "assign" && s.L.K == "var" && s.L.S == name && s.E.K == "map" {
			for i := 0; i+1 < len(s.E.A); i += 2 {
				if s.E.A[i].S == "init" {
					return true
				}
			}
		}
	}
	return false
}

func genCase(rt *rapid.T) Case {
	g := &gen{rt: rt, tags: map[string]bool{}}
	p := &lang.Prog{}
	sections := 1 + g.pick(3, "sections")
	e := newEnv(nil)
	p.Body = append(p.Body, lang.Assign(lang.Var("a"), num(1)), lang.Assign(lang.Var("b"), num(2)))
	e.nums["a"], e.nums["b"] = true, true
	for i := 0; i < sections; i++ {
		switch g.pick(4, "section") {
		case 0, 1:
			p.Body = append(p.Body, g.scopingBlock(e, 0)...)
		case 2:
			p.Body = append(p.Body, g.containers()...)
		default:
			p.Body = append(p.Body, g.objects()...)
		}
	}
	for _, n := range scopeNames {
		p.Body = append(p.Body, lang.Probe("final-"+n, n))
	}
	var tags []string
	for _, t := range []string{"shadow-let", "shadow-param", "closure-after-return", "alias", "param-reference", "nested-path", "numeric-map-key", "object-with-super", "read-after-write-unusual-key", "fewer-arguments-than-parameters", "container-default-changed-in-place", "same-assignment-other-index", "closure-from-a-block-entered-again"} {
		if g.tags[t] {
			tags = append(tags, t)
		}
	}
	return Case{Prog: p, Tags: tags}
}

func TestProp(t *testing.T) { hx.Check(t, genCase, runCase) }
