package c05

import (
	"encoding/json"
	"os"
	"path/filepath"
	"testing"

	"verif/internal/hx"
	"verif/internal/lang"
)

// TestWriteRegress (re)creates the committed regression cases. Only runs with VERIF_WRITE_REGRESS=1.
func TestWriteRegress(t *testing.T) {
	if os.Getenv("VERIF_WRITE_REGRESS") == "" {
		t.Skip()
	}
	m := lang.Var("m")
	cases := map[string]struct {
		sig, msg string
		p        *lang.Prog
	}{
		"numeric-key-write": {"trace-mismatch", "m := {1:\"a\"}; m[1] := \"b\"; m[1] read \"a\"",
			&lang.Prog{Body: []*lang.S{lang.Assign(m, lang.MapLit(num(1), lang.Str("a"))), lang.Assign(lang.Idx(m, num(1)), lang.Str("b")),
				lang.Rec(lang.Idx(m, num(1))), lang.Rec(lang.Call(lang.Var("len"), m)), lang.Rec(m)}}},
		"del-numeric-key": {"trace-mismatch", "del(m, 1) left the number key in place",
			&lang.Prog{Body: []*lang.S{lang.Assign(m, lang.MapLit(num(1), lang.Str("x"))), lang.Assign(m, lang.Call(lang.Var("del"), m, num(1))),
				lang.Rec(lang.Call(lang.Var("len"), m)), lang.Rec(m)}}},
	}
	dir := filepath.Join(hx.Root(), "regress", "C05")
	os.MkdirAll(dir, 0755)
	for name, c := range cases {
		cb, _ := json.Marshal(Case{Prog: c.p})
		b, _ := json.MarshalIndent(map[string]interface{}{"property": "C05", "sig": c.sig, "msg": c.msg, "case": json.RawMessage(cb)}, "", " ")
		if err := os.WriteFile(filepath.Join(dir, name+".json"), b, 0644); err != nil {
			t.Fatal(err)
		}
	}
}
