package c04

import (
	"encoding/json"
	"os"
	"path/filepath"
	"testing"

	"verif/internal/hx"
	"verif/internal/lang"
)

// TestWriteRegress (re)creates the committed regression cases of the root
// causes found so far. Only runs with VERIF_WRITE_REGRESS=1.
func TestWriteRegress(t *testing.T) {
	if os.Getenv("VERIF_WRITE_REGRESS") == "" {
		t.Skip()
	}
	rng := func(args ...string) *lang.E {
		var a []*lang.E
		for _, x := range args {
			a = append(a, lang.Num(x))
		}
		return lang.Call(lang.Var("range"), a...)
	}
	cases := map[string]struct {
		sig, msg string
		p        *lang.Prog
	}{
		"range-equal-bounds": {"trace-mismatch", "range(0) / range(2,2) yielded nothing; the end is inclusive",
			&lang.Prog{Body: []*lang.S{{K: "for", Vars: []string{"i"}, E: rng("0"), Body: []*lang.S{lang.Rec(lang.Var("i"))}},
				{K: "for", Vars: []string{"j"}, E: rng("2", "2"), Body: []*lang.S{lang.Rec(lang.Var("j"))}}, lang.Mark("end")}}},
		"except-one-type-without-as": {"trace-mismatch", "except \"T\" { } handled every error",
			&lang.Prog{Body: []*lang.S{{K: "try", Body: []*lang.S{lang.ExprS(lang.Call(lang.Var("raise"), lang.Str("A")))},
				Ex: []*lang.Except{{Types: []string{"B"}, Body: []*lang.S{lang.Mark("wrong")}}}, Fin: &lang.Block{Body: []*lang.S{lang.Mark("fin")}}}}}},
		"break-in-condition-loop": {"unexpected-error", "break inside `for cond {}` escaped as error",
			&lang.Prog{Body: []*lang.S{lang.Assign(lang.Var("w"), lang.Num("0")),
				lang.While(lang.Op("<", lang.Var("w"), lang.Num("3")), lang.Assign(lang.Var("w"), lang.Op("plus", lang.Var("w"), lang.Num("1"))), lang.Break()), lang.Rec(lang.Var("w"))}}},
		"except-swallows-break": {"trace-mismatch", "try { break } except { } swallowed the break",
			&lang.Prog{Body: []*lang.S{{K: "for", Vars: []string{"i"}, E: rng("1", "3"), Body: []*lang.S{lang.Rec(lang.Var("i")),
				{K: "try", Body: []*lang.S{lang.Break()}, Ex: []*lang.Except{{Body: []*lang.S{lang.Mark("wrong")}}}}, lang.Mark("after")}}, lang.Mark("end")}}},
		"except-swallows-return": {"trace-mismatch", "try { return 1 } except { } swallowed the return",
			&lang.Prog{Body: []*lang.S{{K: "func", Fn: &lang.Func{Name: "f", Body: []*lang.S{
				{K: "try", Body: []*lang.S{lang.Return(lang.Num("1"))}, Ex: []*lang.Except{{As: "e", Body: []*lang.S{lang.Mark("wrong")}}}}, lang.Return(lang.Num("2"))}}},
				lang.Rec(lang.Call(lang.Var("f")))}}},
	}
	dir := filepath.Join(hx.Root(), "regress", "C04")
	os.MkdirAll(dir, 0755)
	for name, c := range cases {
		cb, _ := json.Marshal(Case{Prog: c.p})
		b, _ := json.MarshalIndent(map[string]interface{}{"property": "C04", "sig": c.sig, "msg": c.msg, "case": json.RawMessage(cb)}, "", " ")
		if err := os.WriteFile(filepath.Join(dir, name+".json"), b, 0644); err != nil {
			t.Fatal(err)
		}
	}
}
