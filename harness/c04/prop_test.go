// C04 — control flow and try/except/otherwise/finally follow the reference semantics.
//
// Domain: generated programs (nesting <= 4) over if/elif/else, the four loop
// forms, break/continue/return, functions, try with every clause shape and
// every exit kind from every block. Oracle: the ordered observation trace
// (t.rec), and the error escaping the program, must equal the prediction of
// the harness's reference interpreter (internal/lang).
package c04

import (
	"fmt"
	"strings"
	"testing"

	"pgregory.net/rapid"

	"verif/internal/erun"
	"verif/internal/hx"
	"verif/internal/lang"
	"verif/internal/pgen"
	"verif/internal/progcheck"
)

const rule = "case = generated program over if/elif/else, for-range/list/map/condition loops, break/continue/return, functions, try/except/otherwise/finally, raise and runtime errors, with a marker observation before/after every construct; non-trivial = contains a try with >= 1 except/finally clause whose body is left by a non-fallthrough exit (break, continue, return, raise, runtime error), or a loop left by break/continue from inside another construct; distinct by source text"

// Case is one program.
type Case struct {
	Prog *lang.Prog `json:"prog"`
}

func TestMain(m *testing.M) { hx.Main(m, "C04", rule) }

var variants = lang.AllVariants()

func runCase(c Case) *hx.Failure {
	p := c.Prog
	p.Number()
	src := p.Src()
	nt, classes := classify(p)
	want, unspec := progcheck.Predict(p, nil, variants)
	if unspec != "" {
		hx.E.Case(false, src, append(classes, "outcome.unspecified")...)
		hx.E.Exclude("unspecified." + unspec)
		// still must not crash the interpreter (C06 owns that verdict; here only counted)
		return nil
	}
	if want[0].Err != nil {
		classes = append(classes, "outcome.error-escapes")
	} else {
		classes = append(classes, "outcome.completes")
	}
	if len(want) > 1 {
		classes = append(classes, "outcome.several-acceptable")
	}
	hx.E.Case(nt, src, classes...)
	if nt {
		hx.E.Sample(src, map[string]interface{}{"src": src, "expect_trace": progcheck.Key(want[0])})
	}
	res := erun.Run(src, erun.Options{})
	return progcheck.Compare(src, want, res)
}

// classify computes the non-triviality rule and class labels.
func classify(p *lang.Prog) (bool, []string) {
	cls := map[string]bool{}
	nontrivial := false
	var walk func(ss []*lang.S, inTry bool, loopDepthInConstruct int)
	exits := func(ss []*lang.S) bool {
		for _, s := range ss {
			switch s.K {
			case "break", "continue", "return":
				return true
			case "expr", "assign":
				if isFailing(s) {
					return true
				}
			}
		}
		return false
	}
	walk = func(ss []*lang.S, inTry bool, nested int) {
		for _, s := range ss {
			cls["stmt."+s.K] = true
			switch s.K {
			case "break", "continue":
				if nested > 0 {
					nontrivial = true
					cls["loop-exit-through-construct"] = true
				}
			case "try":
				if (len(s.Ex) > 0 || s.Fin != nil) && exits(s.Body) {
					nontrivial = true
					cls["try-left-by-exit"] = true
				}
				for _, x := range s.Ex {
					if exits(x.Body) {
						cls["except-left-by-exit"] = true
					}
					switch {
					case len(x.Types) == 0 && x.As == "":
						cls["except.bare"] = true
					case len(x.Types) == 0:
						cls["except.var"] = true
					case len(x.Types) == 1 && x.As == "":
						cls["except.one-type"] = true
					case len(x.Types) == 1:
						cls["except.one-type-as"] = true
					case x.As == "":
						cls["except.types"] = true
					default:
						cls["except.types-as"] = true
					}
				}
				if s.Oth != nil {
					cls["try.otherwise"] = true
				}
				if s.Fin != nil {
					cls["try.finally"] = true
				}
				walk(s.Body, true, nested+1)
				for _, x := range s.Ex {
					walk(x.Body, true, nested+1)
				}
				if s.Oth != nil {
					walk(s.Oth.Body, true, nested+1)
				}
				if s.Fin != nil {
					walk(s.Fin.Body, true, nested+1)
				}
			case "if":
				for _, b := range s.Br {
					walk(b.Body, inTry, nested+1)
				}
			case "while", "for":
				walk(s.Body, inTry, 0)
			case "func":
				walk(s.Fn.Body, false, 0)
			}
		}
	}
	walk(p.Body, false, 0)
	var out []string
	for k := range cls {
		out = append(out, k)
	}
	return nontrivial, out
}

func isFailing(s *lang.S) bool {
	e := s.E
	if e == nil {
		return false
	}
	if e.K == "call" && e.A[0].K == "var" && e.A[0].S == "raise" {
		return true
	}
	bad := false
	e.Walk(func(x *lang.E) {
		if x.K == "plus" && len(x.A) == 2 && x.A[1].K == "str" {
			bad = true
		}
	})
	return bad
}

func TestRegress(t *testing.T) { hx.Regress(t, runCase) }

// exhaustive: exit kind x handler shape x otherwise x finally x enclosing construct
func tryMatrix(yield func(Case) bool) {
	// (raiseA-in-list / rterr-in-map: the error comes from an item of a list / map literal which is NOT the last one)
	exits := []string{"fall", "break", "continue", "return", "raiseA", "raiseZ", "rterr", "raiseA-in-list", "rterr-in-map"}
	mk := func(n *int) *lang.S { *n++; return lang.Mark(fmt.Sprintf("m%d", *n)) }
	for _, encl := range []string{"top", "loop", "func", "loopfunc"} {
		for _, ex := range exits {
			if (ex == "break" || ex == "continue") && (encl == "top" || encl == "func") {
				continue
			}
			if ex == "return" && (encl == "top" || encl == "loop") {
				continue
			}
			for shape := 0; shape < 9; shape++ {
				for _, oth := range []bool{false, true} {
					// finally: absent / runs to its end / leaves early by a control statement of its own (which must not
					// replace an error, return, break or continue that is leaving the try statement)
					for _, finKind := range []string{"", "mark", "break", "continue", "return"} {
						if (finKind == "break" || finKind == "continue") && (encl == "top" || encl == "func") {
							continue
						}
						if finKind == "return" && (encl == "top" || encl == "loop") {
							continue
						}
						fin := finKind != ""
						n := 0
						try := &lang.S{K: "try"}
						try.Body = []*lang.S{mk(&n)}
						switch ex {
						case "break":
							try.Body = append(try.Body, lang.Break())
						case "continue":
							try.Body = append(try.Body, lang.Continue())
						case "return":
							try.Body = append(try.Body, lang.Return(lang.Num("42")))
						case "raiseA":
							try.Body = append(try.Body, lang.ExprS(lang.Call(lang.Var("raise"), lang.Str("A"), lang.Str("det"), lang.List(lang.Num("1")))))
						case "raiseZ":
							try.Body = append(try.Body, lang.ExprS(lang.Call(lang.Var("raise"), lang.Str("Z"))))
						case "rterr":
							try.Body = append(try.Body, lang.ExprS(lang.Op("plus", lang.Num("1"), lang.Str("a"))))
						case "raiseA-in-list":
							try.Body = append(try.Body, lang.Assign(lang.Var("lit"), lang.List(lang.Num("1"), lang.Call(lang.Var("raise"), lang.Str("A"), lang.Str("det"), lang.List(lang.Num("1"))), lang.Num("3"))),
								lang.Rec(lang.Var("lit")))
						case "rterr-in-map":
							try.Body = append(try.Body, lang.Assign(lang.Var("lit"), lang.MapLit(lang.Str("a"), lang.Op("plus", lang.Num("1"), lang.Str("a")), lang.Str("b"), lang.Num("2"))),
								lang.Rec(lang.Var("lit")))
						}
						clause := func(types []string, as string) *lang.Except {
							x := &lang.Except{Types: types, As: as, Body: []*lang.S{mk(&n)}}
							if as != "" {
								x.Body = append(x.Body, lang.Rec(lang.Dot(lang.Var(as), "type")))
							}
							return x
						}
						switch shape {
						case 1:
							try.Ex = []*lang.Except{clause(nil, "")}
						case 2:
							try.Ex = []*lang.Except{clause(nil, "e")}
						case 3:
							try.Ex = []*lang.Except{clause([]string{"A"}, "")}
						case 4:
							try.Ex = []*lang.Except{clause([]string{"A"}, "e")}
						case 5:
							try.Ex = []*lang.Except{clause([]string{"B", "A"}, "")}
						case 6:
							try.Ex = []*lang.Except{clause([]string{"B", lang.TNotANumber}, "err")}
						case 7:
							try.Ex = []*lang.Except{clause([]string{"Q"}, ""), clause(nil, "")}
						case 8:
							try.Ex = []*lang.Except{clause([]string{"A"}, "e"), clause([]string{"A"}, ""), clause(nil, "x")}
						}
						if oth {
							try.Oth = &lang.Block{Body: []*lang.S{mk(&n)}}
						}
						if fin {
							try.Fin = &lang.Block{Body: []*lang.S{mk(&n)}}
							switch finKind {
							case "break":
								try.Fin.Body = append(try.Fin.Body, lang.Break(), mk(&n))
							case "continue":
								try.Fin.Body = append(try.Fin.Body, lang.Continue(), mk(&n))
							case "return":
								try.Fin.Body = append(try.Fin.Body, lang.Return(lang.Num("99")), mk(&n))
							}
						}
						inner := []*lang.S{mk(&n), try, mk(&n)}
						var body []*lang.S
						switch encl {
						case "top":
							body = inner
						case "loop":
							body = []*lang.S{{K: "for", Vars: []string{"i"}, E: lang.Call(lang.Var("range"), lang.Num("1"), lang.Num("2")),
								Body: append([]*lang.S{lang.Rec(lang.Var("i"))}, inner...)}}
						case "func":
							body = []*lang.S{{K: "func", Fn: &lang.Func{Name: "f", Body: append(inner, lang.Return(lang.Num("7")))}},
								lang.Rec(lang.Call(lang.Var("f")))}
						default:
							loop := &lang.S{K: "for", Vars: []string{"i"}, E: lang.Call(lang.Var("range"), lang.Num("1"), lang.Num("2")),
								Body: append([]*lang.S{lang.Rec(lang.Var("i"))}, inner...)}
							body = []*lang.S{{K: "func", Fn: &lang.Func{Name: "f", Body: []*lang.S{loop, mk(&n), lang.Return(lang.Num("7"))}}},
								lang.Rec(lang.Call(lang.Var("f")))}
						}
						body = append(body, mk(&n))
						if !yield(Case{Prog: &lang.Prog{Body: body}}) {
							return
						}
					}
				}
			}
		}
	}
}

// exhaustive: every construct with per-node run-time state (return signal, loop iterator, caught error, try
// bookkeeping) is left "in flight" while the SAME statements are entered again through a recursive call, at
// recursion depths 1..3: the outer activation must continue with its own state.
func reentryMatrix(yield func(Case) bool) {
	n, one, zero := lang.Var("n"), lang.Num("1"), lang.Num("0")
	callDown := func() *lang.E { return lang.Call(lang.Var("f"), lang.Op("minus", n, one)) }
	ifDeeper := func(body ...*lang.S) *lang.S {
		return &lang.S{K: "if", Br: []*lang.Branch{{Cond: lang.Op(">", n, zero), Body: body}}}
	}
	recurse := func(rec bool) *lang.S {
		if rec {
			return ifDeeper(lang.Rec(callDown()))
		}
		return ifDeeper(lang.ExprS(callDown()))
	}
	rng := func(a, b string) *lang.E { return lang.Call(lang.Var("range"), lang.Num(a), lang.Num(b)) }
	type shape struct {
		name string
		body func(rec bool) []*lang.S
	}
	shapes := []shape{
		{"return-in-try-finally-recurses", func(rec bool) []*lang.S {
			return []*lang.S{{K: "try", Body: []*lang.S{lang.Return(lang.Op("plus", n, lang.Num("100")))}, Fin: &lang.Block{Body: []*lang.S{lang.Mark("fin"), recurse(rec), lang.Rec(n)}}}}
		}},
		{"return-in-try-except-finally-recurses", func(rec bool) []*lang.S {
			return []*lang.S{{K: "try", Body: []*lang.S{lang.Return(n)}, Ex: []*lang.Except{{Body: []*lang.S{lang.Mark("never")}}}, Fin: &lang.Block{Body: []*lang.S{recurse(rec)}}}}
		}},
		{"range-loop-body-recurses", func(rec bool) []*lang.S {
			return []*lang.S{{K: "for", Vars: []string{"i"}, E: rng("1", "3"), Body: []*lang.S{lang.Rec(lang.Var("i")), recurse(rec), lang.Rec(lang.Var("i"))}}, lang.Return(lang.Op("times", n, lang.Num("10")))}
		}},
		{"list-loop-body-recurses", func(rec bool) []*lang.S {
			return []*lang.S{{K: "for", Vars: []string{"i"}, E: lang.List(lang.Str("a"), lang.Str("b")), Body: []*lang.S{recurse(rec), lang.Rec(lang.Var("i"))}}, lang.Return(n)}
		}},
		{"range-loop-break-after-recursion", func(rec bool) []*lang.S {
			return []*lang.S{{K: "for", Vars: []string{"i"}, E: rng("1", "4"), Body: []*lang.S{recurse(rec),
				{K: "if", Br: []*lang.Branch{{Cond: lang.Op("==", lang.Var("i"), lang.Num("2")), Body: []*lang.S{lang.Break()}}}}, lang.Rec(lang.Var("i"))}}, lang.Return(n)}
		}},
		{"condition-loop-body-recurses", func(rec bool) []*lang.S {
			return []*lang.S{lang.Assign(lang.Var("w"), zero), lang.While(lang.Op("<", lang.Var("w"), lang.Num("2")),
				lang.Assign(lang.Var("w"), lang.Op("plus", lang.Var("w"), one)), recurse(rec), lang.Rec(lang.Var("w"))), lang.Return(lang.Var("w"))}
		}},
		{"except-handler-recurses", func(rec bool) []*lang.S {
			return []*lang.S{{K: "try", Body: []*lang.S{lang.ExprS(lang.Call(lang.Var("raise"), lang.Str("A"), n))},
				Ex: []*lang.Except{{Types: []string{"A"}, As: "e", Body: []*lang.S{recurse(rec), lang.Rec(lang.Dot(lang.Var("e"), "detail"))}}}}, lang.Return(n)}
		}},
		{"otherwise-recurses", func(rec bool) []*lang.S {
			return []*lang.S{{K: "try", Body: []*lang.S{lang.Mark("body")}, Ex: []*lang.Except{{Body: []*lang.S{lang.Mark("never")}}},
				Oth: &lang.Block{Body: []*lang.S{recurse(rec), lang.Mark("oth")}}, Fin: &lang.Block{Body: []*lang.S{lang.Rec(n)}}}, lang.Return(n)}
		}},
		{"try-body-recurses-then-raises", func(rec bool) []*lang.S {
			return []*lang.S{{K: "try", Body: []*lang.S{recurse(rec), lang.ExprS(lang.Call(lang.Var("raise"), lang.Str("B"), n))},
				Ex: []*lang.Except{{Types: []string{"B"}, As: "e", Body: []*lang.S{lang.Rec(lang.Dot(lang.Var("e"), "detail"))}}}, Fin: &lang.Block{Body: []*lang.S{lang.Rec(n)}}}, lang.Return(n)}
		}},
		{"plain-recursion-in-return", func(rec bool) []*lang.S {
			return []*lang.S{ifDeeper(lang.Return(lang.Op("plus", callDown(), n))), lang.Return(zero)}
		}},
	}
	for _, sh := range shapes {
		for _, rec := range []bool{true, false} {
			for depth := 1; depth <= 3; depth++ {
				fn := &lang.S{K: "func", Fn: &lang.Func{Name: "f", Params: []string{"n"}, Body: append([]*lang.S{lang.Rec(n)}, sh.body(rec)...)}}
				body := []*lang.S{fn, lang.Rec(lang.Call(lang.Var("f"), lang.Num(fmt.Sprint(depth)))), lang.Rec(lang.Call(lang.Var("f"), lang.Num("1"))), lang.Mark("end")}
				if !yield(Case{Prog: &lang.Prog{Body: body}}) {
					return
				}
			}
		}
	}
}

func TestExhaustive(t *testing.T) {
	hx.Enumerate(t, "reentry-matrix", reentryMatrix, runCase)
	hx.E.Exhaustive("reentry-matrix", "10 constructs with per-node run-time state (return in try/finally, range / list / condition loops, except handler, otherwise, try body) whose body calls the enclosing function again x {result observed, not observed} x recursion depth 1..3")
	hx.Enumerate(t, "try-matrix", tryMatrix, runCase)
	hx.E.Exhaustive("try-matrix", "exit kind {fallthrough, break, continue, return, raise listed, raise unlisted, runtime error, raise inside a list literal (not the last item), runtime error inside a map literal (not the last entry)} x 9 except-clause shapes x {otherwise} x finally {absent, runs to its end, leaves early by break / continue / return} x enclosing construct {top level, loop, function, loop in function}")
}

func TestProp(t *testing.T) {
	hx.Check(t, func(rt *rapid.T) Case { return Case{Prog: pgen.ControlFlow(rt)} }, runCase)
}

var _ = strings.Contains
