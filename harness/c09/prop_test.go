// C09 — the thread pool runs every accepted task exactly once without outside help.
//
// Domain: generated operation sequences over one pool (add bursts, resize
// with/without wait, passive settle, WaitAll, JoinAll+restart) together with
// a generated perturbation plan over the pool's hook points (yield, sleep,
// hold a goroutine at a point until another point has been passed).
// Oracle: model = set of submitted tasks; per-task run counters <= 1 always;
// completion after WaitAll/JoinAll; worker count after resize; and the
// bounded-liveness (stuck state) rule for "without any further call".
package c09

import (
	"fmt"
	"os"
	"sort"
	"strconv"
	"sync/atomic"
	"testing"
	"time"

	"pgregory.net/rapid"

	"github.com/krotik/ecal/engine"
	"github.com/krotik/ecal/engine/pool"
	"github.com/krotik/ecal/verifhook"

	"verif/internal/hx"
	"verif/internal/sched"
)

const rule = "case = (operation sequence over one pool: add n tasks | set worker count (wait/no wait) | passive settle | WaitAll | JoinAll+restart, perturbation plan over the pool hook points); non-trivial = at least one task was added while a worker sat between its empty dequeue and its wait (hook counters: a hold at pool.gettask.empty or pool.idle.wait was released by pool.addtask.*), or a resize was issued with tasks queued or with a worker held before its wait; distinct by (operations, plan)"

// Op is one pool operation.
type Op struct {
	K    string `json:"k"` // add | adddep | workers | settle | waitall | joinall | regrow
	N    int    `json:"n,omitempty"`
	Wait bool   `json:"wait,omitempty"`
	Now  bool   `json:"now,omitempty"` // workers, wait=false: the next operation follows at once (the pool has not converged yet)
}

// Case is one history.
type Case struct {
	Ops   []Op       `json:"ops"`
	Plan  sched.Plan `json:"plan"`
	Yield int        `json:"yield"`          // tasks yield this many times
	Poll  bool       `json:"poll,omitempty"` // a goroutine keeps reading State()/WorkerCount() (read-only accessors) during the case: lock contention
	// Engine: the pool is the one engine.NewProcessor builds (engine.TaskQueue: one priority queue per root monitor, a
	// random non-empty one is popped; the queue-is-filling-up callback configured there); a task is submitted as an event
	// whose only rule runs it (Processor.AddEvent), a dependent burst as one cascade (first event under a root monitor, the
	// others under child monitors of it with priorities 0..2). A submission the processor refuses is not an accepted task.
	Engine bool `json:"engine,omitempty"`
}

func TestMain(m *testing.M) { hx.Main(m, "C09", rule) }

type task struct {
	id      int
	runs    int32
	done    int64 // stamp
	yield   int
	clock   *int64
	waitFor []*task       // a dependent task returns only when these have finished (or the case is torn down)
	release chan struct{} // closed at teardown
	gate    chan struct{} // not nil: the task returns when this channel is closed (or the case is torn down)
}

func (t *task) Run(tid uint64) error {
	atomic.AddInt32(&t.runs, 1)
	for i := 0; i < t.yield; i++ {
		time.Sleep(time.Microsecond)
	}
	if t.gate != nil {
		select {
		case <-t.gate:
		case <-t.release:
		}
	}
	for _, d := range t.waitFor {
		for atomic.LoadInt64(&d.done) == 0 {
			select {
			case <-t.release:
				atomic.StoreInt64(&t.done, atomic.AddInt64(t.clock, 1))
				return nil
			default:
				time.Sleep(20 * time.Microsecond)
			}
		}
	}
	atomic.StoreInt64(&t.done, atomic.AddInt64(t.clock, 1))
	return nil
}
func (t *task) HandleError(e error) {}

var stuckBound = 10 * time.Second // shortened after the first stuck verdict in a process

func init() {
	if v, err := strconv.Atoi(os.Getenv("VERIF_C09_STUCK_SECONDS")); err == nil && v > 0 {
		stuckBound = time.Duration(v) * time.Second
	}
}

type run struct {
	tp      *pool.ThreadPool
	proc    engine.Processor // not nil: engine route
	refused int
	s       *sched.Sched
	tasks   []*task
	clock   int64
	workers int // requested worker count (model)
	release chan struct{}
}

func (r *run) pending() int {
	n := 0
	for _, t := range r.tasks {
		if atomic.LoadInt64(&t.done) == 0 {
			n++
		}
	}
	return n
}

func (r *run) overrun() *hx.Failure {
	for _, t := range r.tasks {
		if n := atomic.LoadInt32(&t.runs); n > 1 {
			return hx.Failf("task-ran-twice", "task %d ran %d times", t.id, n)
		}
	}
	return nil
}

func (r *run) event(t *task) *engine.Event {
	return engine.NewEvent(fmt.Sprint("t", t.id), []string{"t"}, map[interface{}]interface{}{"task": t})
}

// submit hands a task to the pool (directly, or as an event of the processor which owns the pool); false = not accepted
func (r *run) submit(t *task, m engine.Monitor) bool {
	if r.proc == nil {
		r.tasks = append(r.tasks, t)
		r.tp.AddTask(t)
		return true
	}
	if got, err := r.proc.AddEvent(r.event(t), m); err != nil || got == nil {
		r.refused++
		return false
	}
	r.tasks = append(r.tasks, t)
	return true
}

type snapshot struct {
	queue, idle, total, pending, workers int
	clock                                int64
}

func (r *run) snap() snapshot {
	st := r.tp.State()
	return snapshot{st["TaskQueueSize"].(int), len(st["IdleWorkerThreads"].([]uint64)), len(st["TotalWorkerThreads"].([]uint64)),
		r.pending(), r.tp.WorkerCount(), atomic.LoadInt64(&r.clock)}
}

// passive waits for cond without calling anything on the pool which could
// signal or broadcast. Returns nil when cond holds; a failure if the state is
// provably final (stuck) and stuck(snapshot) says it is a violation;
// otherwise records an inconclusive case.
func (r *run) passive(what string, cond func() bool, stuck func(snapshot) string) *hx.Failure {
	start := time.Now()
	for i := 0; ; i++ {
		if cond() {
			return nil
		}
		if i < 2000 {
			time.Sleep(20 * time.Microsecond)
		} else {
			time.Sleep(time.Millisecond)
		}
		if time.Since(start) > 1500*time.Millisecond {
			break
		}
	}
	// not there after 1.5 s where microseconds are expected: look for a final state
	for time.Since(start) < stuckBound+5*time.Second {
		if cond() {
			return nil
		}
		if r.s.ActiveHolds() != 0 {
			time.Sleep(50 * time.Millisecond)
			continue
		}
		a := r.snap()
		time.Sleep(500 * time.Millisecond)
		b := r.snap()
		time.Sleep(500 * time.Millisecond)
		c := r.snap()
		if cond() {
			return nil
		}
		if a == b && b == c && r.s.ActiveHolds() == 0 && time.Since(start) >= stuckBound/2 {
			if why := stuck(c); why != "" {
				if stuckBound > 3*time.Second {
					stuckBound = 3 * time.Second // keep shrinking affordable
				}
				return hx.Failf(why, "%s: stuck for %v with no further call: queue=%d idle=%d total=%d pending tasks=%d worker count=%d (requested %d); hook counters %v",
					what, time.Since(start).Round(time.Millisecond), c.queue, c.idle, c.total, c.pending, c.workers, r.workers, r.s.Counts())
			}
		}
	}
	hx.Inconclusive("c09." + what)
	return nil
}

// blocking runs a pool call that must return; a call still blocked after the
// bound while nothing is left to wait for is a violation.
func (r *run) blocking(what string, f func()) *hx.Failure {
	done := make(chan struct{})
	go func() { f(); close(done) }()
	select {
	case <-done:
		return nil
	case <-time.After(stuckBound + 10*time.Second):
	}
	a := r.snap()
	time.Sleep(500 * time.Millisecond)
	b := r.snap()
	select {
	case <-done:
		return nil
	default:
	}
	if a == b && r.s.ActiveHolds() == 0 {
		return hx.Failf(what+"-does-not-return", "%s still blocked after %v: queue=%d idle=%d total=%d pending=%d workers=%d (requested %d); hook counters %v",
			what, stuckBound+10*time.Second, b.queue, b.idle, b.total, b.pending, b.workers, r.workers, r.s.Counts())
	}
	hx.Inconclusive("c09." + what + "-blocked")
	return nil
}

func runCase(c Case) (fail *hx.Failure) {
	r := &run{release: make(chan struct{})}
	if c.Engine {
		r.proc = engine.NewProcessor(1)
		if err := r.proc.AddRule(&engine.Rule{Name: "run", KindMatch: []string{"t"}, ScopeMatch: []string{},
			Action: func(p engine.Processor, m engine.Monitor, e *engine.Event, tid uint64) error {
				return e.State()["task"].(*task).Run(tid)
			}}); err != nil {
			panic(err)
		}
		r.tp = r.proc.ThreadPool()
	} else {
		r.tp = pool.NewThreadPool()
	}
	r.s = sched.Install(c.Plan)
	stopPoll := make(chan struct{})
	if c.Poll {
		go func() {
			for {
				select {
				case <-stopPoll:
					return
				default:
					r.tp.State()
					r.tp.WorkerCount()
				}
			}
		}()
	}
	defer func() {
		// tear down: everything that could still be stuck is repaired by these broadcasting calls
		close(stopPoll)
		close(r.release)
		r.s.Uninstall()
		if r.tp.WorkerCount() == 0 {
			r.tp.SetWorkerCount(1, false)
		}
		fin := make(chan struct{})
		go func() { r.tp.JoinAll(); close(fin) }()
		select {
		case <-fin:
		case <-time.After(30 * time.Second):
			if fail == nil {
				hx.Inconclusive("c09.teardown")
			}
		}
	}()

	queuedAtResize, heldAtResize, regrown, unsettled := false, false, false, false
	for i, op := range c.Ops {
		verifhook.At("h.op", i)
		switch op.K {
		case "add":
			if r.proc != nil && r.workers == 0 {
				continue // a stopped processor refuses events
			}
			for k := 0; k < op.N; k++ {
				r.submit(&task{id: len(r.tasks), yield: c.Yield, clock: &r.clock}, nil)
			}
		case "adddep":
			// a burst whose FIRST task returns only when the others have finished: needs a second worker to be woken
			if r.workers < 2 {
				continue
			}
			if r.proc != nil {
				// one cascade: the first event runs under a new root monitor and returns only when the others, added
				// under child monitors of that root while it runs, have finished
				rm := r.proc.NewRootMonitor(nil, nil)
				gate := make(chan struct{})
				first := &task{id: len(r.tasks), yield: c.Yield, clock: &r.clock, release: r.release, gate: gate}
				if !r.submit(first, rm) {
					close(gate)
					continue
				}
				for k := 0; k < op.N; k++ {
					t := &task{id: len(r.tasks), yield: c.Yield, clock: &r.clock}
					if r.submit(t, rm.NewChildMonitor(k%3)) {
						first.waitFor = append(first.waitFor, t)
					}
				}
				close(gate)
				continue
			}
			first := &task{id: len(r.tasks), yield: c.Yield, clock: &r.clock, release: r.release}
			r.tasks = append(r.tasks, first)
			var rest []*task
			for k := 0; k < op.N; k++ {
				t := &task{id: len(r.tasks), yield: c.Yield, clock: &r.clock}
				r.tasks = append(r.tasks, t)
				rest = append(rest, t)
			}
			first.waitFor = rest
			r.tp.AddTask(first)
			for _, t := range rest {
				r.tp.AddTask(t)
			}
		case "workers":
			if r.pending() > 0 {
				queuedAtResize = true
			}
			if r.s.ActiveHolds() > 0 {
				heldAtResize = true
			}
			n := op.N
			if f := r.blocking("setworkercount", func() { r.tp.SetWorkerCount(n, op.Wait) }); f != nil {
				return f
			}
			r.workers = n
			verifhook.At("h.workers.returned")
			if op.Wait {
				if got := r.tp.WorkerCount(); got != n {
					return hx.Failf("worker-count-after-wait", "SetWorkerCount(%d, true) returned with %d workers", n, got)
				}
			} else if op.Now {
				// no convergence is awaited: the next operation meets a pool whose stop requests are still being taken
				unsettled = true
				continue
			} else if f := r.passive("worker-count", func() bool { return r.tp.WorkerCount() == n }, func(s snapshot) string {
				if s.workers != n && s.idle == s.total {
					return "worker-count-not-converging"
				}
				return ""
			}); f != nil {
				return f
			}
			// the count must also STAY at the request (too many workers taking the same stop request overshoot a little later)
			for k := 0; k < 20; k++ {
				if got := r.tp.WorkerCount(); got != n && r.s.ActiveHolds() == 0 {
					time.Sleep(2 * time.Millisecond)
					if got2 := r.tp.WorkerCount(); got2 != n && got2 <= got {
						return hx.Failf("worker-count-overshoot", "SetWorkerCount(%d, %v): the pool reached %d workers and then went to %d", n, op.Wait, n, got2)
					}
				}
				time.Sleep(50 * time.Microsecond)
			}
		case "regrow":
			// two workers are busy, the others idle; one goroutine of the host lowers the count to 1 without waiting (the
			// idle workers go, one stop request stays pending, the call waits for an idle worker), another one raises it
			// to 3; then the tasks end. The pool has to end up with the number of workers of the LAST request.
			if r.workers < 3 || r.pending() > 0 || r.s.ActiveHolds() > 0 {
				continue
			}
			w := r.workers
			gate := make(chan struct{})
			var busy []*task
			for k := 0; k < 2; k++ {
				t := &task{id: len(r.tasks), clock: &r.clock, release: r.release, gate: gate}
				if r.submit(t, nil) {
					busy = append(busy, t)
				}
			}
			if len(busy) != 2 {
				close(gate) // the processor refused an event (counted); whether it may is not C09's question
				continue
			}
			if f := r.passive("regrow-tasks-start", func() bool {
				return atomic.LoadInt32(&busy[0].runs) == 1 && atomic.LoadInt32(&busy[1].runs) == 1
			}, func(s snapshot) string { return "" }); f != nil {
				close(gate)
				return f
			}
			const up = 3
			done1, done2 := make(chan struct{}), make(chan struct{})
			go func() { r.tp.SetWorkerCount(1, false); close(done1) }()
			if f := r.passive("regrow-idle-workers-go", func() bool { return r.tp.WorkerCount() == 2 }, func(s snapshot) string { return "" }); f != nil {
				close(gate)
				return f
			}
			go func() { r.tp.SetWorkerCount(up, false); close(done2) }()
			time.Sleep(time.Duration(1+op.N) * 200 * time.Microsecond)
			close(gate)
			for _, ch := range []chan struct{}{done1, done2} {
				select {
				case <-ch:
				case <-time.After(stuckBound):
					return hx.Failf("setworkercount-does-not-return", "%d workers, 2 of them busy: SetWorkerCount(1, false) and, once the idle workers were gone, SetWorkerCount(%d, false) from another goroutine; the tasks ended %v ago and one of the calls has not returned", w, up, stuckBound)
				}
			}
			r.workers = up
			if f := r.passive("worker-count", func() bool { return r.tp.WorkerCount() == up && r.pending() == 0 }, func(s snapshot) string {
				if s.workers != up && s.idle == s.total {
					return "worker-count-not-converging"
				}
				return ""
			}); f != nil {
				f.Msg = fmt.Sprintf("%d workers, 2 of them busy, SetWorkerCount(1, false), SetWorkerCount(%d, false) from another goroutine, then the tasks end: %s", w, up, f.Msg)
				return f
			}
			for k := 0; k < 20; k++ {
				time.Sleep(100 * time.Microsecond)
				if got := r.tp.WorkerCount(); got != up {
					return hx.Failf("worker-count-overshoot", "%d workers, 2 of them busy, SetWorkerCount(1, false), SetWorkerCount(%d, false) from another goroutine, then the tasks end: the pool reached %d workers and then went to %d", w, up, up, got)
				}
			}
			regrown = true
		case "settle":
			if r.workers >= 1 {
				if f := r.passive("settle", func() bool { return r.pending() == 0 }, func(s snapshot) string {
					if s.queue > 0 && s.idle >= 1 {
						return "task-not-started" // a queued task and an idle worker cannot persist in a correct pool
					}
					if s.pending > 0 && s.total >= 1 && s.idle == s.total {
						return "task-dropped"
					}
					return ""
				}); f != nil {
					return f
				}
			}
		case "waitall":
			before := len(r.tasks)
			if f := r.blocking("waitall", func() { r.tp.WaitAll() }); f != nil {
				return f
			}
			stamp := atomic.AddInt64(&r.clock, 1)
			if r.workers >= 1 {
				for _, t := range r.tasks[:before] {
					if d := atomic.LoadInt64(&t.done); d == 0 || d > stamp {
						return hx.Failf("waitall-returned-early", "WaitAll returned while task %d had not finished", t.id)
					}
				}
			}
		case "joinall":
			if r.workers == 0 && r.pending() > 0 {
				continue // joining a pool without workers cannot process anything: outside the statement
			}
			if f := r.blocking("joinall", func() { r.tp.JoinAll() }); f != nil {
				return f
			}
			if r.workers >= 1 {
				if p := r.pending(); p != 0 {
					return hx.Failf("joinall-left-tasks", "JoinAll returned with %d tasks not run", p)
				}
			}
			if n := r.tp.WorkerCount(); n != 0 {
				return hx.Failf("joinall-left-workers", "JoinAll returned with %d workers", n)
			}
			r.workers = 0
		}
		if f := r.overrun(); f != nil {
			return f
		}
	}
	// final: everything submitted while workers exist has run exactly once
	if r.workers >= 1 {
		if f := r.passive("final-settle", func() bool { return r.pending() == 0 }, func(s snapshot) string {
			if s.queue > 0 && s.idle >= 1 {
				return "task-not-started"
			}
			if s.pending > 0 && s.total >= 1 && s.idle == s.total {
				return "task-dropped"
			}
			return ""
		}); f != nil {
			return f
		}
	}
	if f := r.overrun(); f != nil {
		return f
	}
	if unsettled {
		// resize requests followed each other without waiting: the pool has to end up with the number of the LAST one
		want := r.workers
		if f := r.passive("worker-count", func() bool { return r.tp.WorkerCount() == want }, func(s snapshot) string {
			if s.workers != want && s.idle == s.total {
				return "worker-count-not-converging"
			}
			return ""
		}); f != nil {
			f.Msg = "after resize requests which followed each other without waiting for the pool to converge: " + f.Msg
			return f
		}
	}

	rel, _ := r.s.HoldStats()
	nt := rel > 0 || queuedAtResize || heldAtResize || unsettled
	key := fmt.Sprint(c.Ops, c.Plan, c.Yield, c.Engine)
	classes := []string{fmt.Sprintf("ops.%d", len(c.Ops)/4*4)}
	if c.Engine {
		classes = append(classes, "route.processor-pool-with-engine-task-queue")
		hx.E.Class("engine.events-refused", int64(r.refused))
	} else {
		classes = append(classes, "route.plain-pool-default-queue")
	}
	if rel > 0 {
		classes = append(classes, "window.hold-released-by-addtask-or-op")
	}
	if queuedAtResize {
		classes = append(classes, "resize.with-tasks-pending")
	}
	if heldAtResize {
		classes = append(classes, "resize.with-worker-held")
	}
	if unsettled {
		classes = append(classes, "resize.next-operation-before-convergence")
	}
	if regrown {
		classes = append(classes, "resize.down-then-up-while-workers-busy")
	}
	seen := map[string]bool{}
	for _, op := range c.Ops {
		if !seen[op.K] {
			seen[op.K] = true
			classes = append(classes, "op."+op.K)
		}
	}
	hx.E.Case(nt, key, classes...)
	hx.E.Class("tasks.submitted", int64(len(r.tasks)))
	if nt {
		hx.E.Sample(key, map[string]interface{}{"ops": c.Ops, "plan": planStrings(c.Plan), "tasks": len(r.tasks), "hook_counters": r.s.Counts()})
	}
	for k, v := range r.s.Counts() {
		hx.E.Class("hook."+k, v)
	}
	return nil
}

func planStrings(p sched.Plan) []string {
	var out []string
	for _, r := range p {
		out = append(out, r.String())
	}
	sort.Strings(out)
	return out
}

func TestRegress(t *testing.T) { hx.Regress(t, runCase) }

var points = []string{"pool.addtask.pushed", "pool.addtask.signalled", "pool.gettask.empty", "pool.gettask.kill", "pool.idle.wait",
	"pool.idle.woke", "pool.worker.loop", "pool.worker.run", "pool.worker.done", "pool.worker.exit"}

func genCase(rt *rapid.T) Case {
	pick := func(n int, l string) int { return rapid.IntRange(0, n-1).Draw(rt, l) }
	c := Case{Yield: pick(3, "yield")}
	c.Ops = append(c.Ops, Op{K: "workers", N: 1 + pick(4, "w0"), Wait: pick(2, "w0w") == 0})
	n := 2 + pick(12, "nops")
	for i := 0; i < n; i++ {
		switch k := pick(13, "op"); {
		case k <= 4:
			c.Ops = append(c.Ops, Op{K: "add", N: 1 + pick(3, "addn")*pick(7, "addm")})
		case k <= 6:
			c.Ops = append(c.Ops, Op{K: "settle"})
		case k <= 8:
			o := Op{K: "workers", N: pick(9, "wn"), Wait: pick(2, "ww") == 0}
			if !o.Wait && pick(2, "wnow") == 0 {
				// followed at once by another resize (the sequence the command line's reload produces: stop, start)
				o.Now = true
				c.Ops = append(c.Ops, o, Op{K: "workers", N: 1 + pick(8, "wn2"), Wait: pick(2, "ww2") == 0})
			} else {
				c.Ops = append(c.Ops, o)
			}
		case k == 9:
			c.Ops = append(c.Ops, Op{K: "waitall"})
		case k == 10:
			c.Ops = append(c.Ops, Op{K: "joinall"}, Op{K: "workers", N: 1 + pick(4, "rw"), Wait: pick(2, "rww") == 0})
		case k == 11 && pick(2, "regrow") == 0:
			c.Ops = append(c.Ops, Op{K: "settle"}, Op{K: "regrow", N: pick(4, "regn")})
		case k == 11:
			c.Ops = append(c.Ops, Op{K: "adddep", N: 1 + pick(4, "depn")}, Op{K: "settle"})
		default:
			c.Ops = append(c.Ops, Op{K: "add", N: 1}, Op{K: "settle"})
		}
	}
	c.Poll = pick(3, "poll") == 0
	// perturbation plan: directed windows + random rules
	switch pick(6, "directed") {
	case 0, 1: // hold a worker between its empty dequeue and its wait until a task has been signalled
		c.Plan = append(c.Plan, sched.Rule{Point: "pool.gettask.empty", Nth: 1 + pick(8, "dn"), Action: "hold", Until: "pool.addtask.signalled", Plus: 1, Timeout: 300})
	case 2: // the same window, but after the worker registered as idle (it holds the condition's lock there)
		c.Plan = append(c.Plan, sched.Rule{Point: "pool.idle.wait", Nth: 1 + pick(8, "dn2"), Action: "hold", Until: "pool.addtask.pushed", Plus: 1, Timeout: 300})
	case 3: // hold a worker before its wait until a resize returned
		c.Plan = append(c.Plan, sched.Rule{Point: "pool.gettask.empty", Nth: 1 + pick(8, "dn3"), Action: "hold", Until: "h.workers.returned", Plus: 1, Timeout: 300})
	}
	for i, m := 0, pick(4, "nrules"); i < m; i++ {
		r := sched.Rule{Point: points[pick(len(points), "pt")], Nth: pick(6, "nth")}
		switch pick(3, "act") {
		case 0:
			r.Action, r.N = "yield", pick(4, "yn")
		case 1:
			r.Action, r.N = "sleep", 1+pick(200, "sn")
		default:
			r.Action, r.Until, r.Plus, r.Timeout = "hold", append(points, "h.op", "h.workers.returned")[pick(len(points)+2, "until")], 1+pick(2, "plus"), 20+pick(200, "to")
			if r.Nth == 0 {
				r.Nth = 1 + pick(5, "nth2") // an every-passage hold would only slow the case down
			}
		}
		c.Plan = append(c.Plan, r)
	}
	c.Engine = pick(3, "engine") == 0
	return c
}

func TestProp(t *testing.T) { hx.Check(t, genCase, runCase) }

// directed cases: the windows named in the property's anchors, reached deterministically
func directed(yield func(Case) bool) {
	for nth := 1; nth <= 4; nth++ {
		for workers := 1; workers <= 3; workers++ {
			for _, point := range []string{"pool.gettask.empty", "pool.idle.wait"} {
				until := "pool.addtask.signalled"
				if point == "pool.idle.wait" {
					until = "pool.addtask.pushed"
				}
				ops := []Op{{K: "workers", N: workers, Wait: true}}
				for i := 0; i < nth+workers+1; i++ {
					ops = append(ops, Op{K: "add", N: 1}, Op{K: "settle"})
				}
				if !yield(Case{Ops: ops, Plan: sched.Plan{{Point: point, Nth: nth, Action: "hold", Until: until, Plus: 1, Timeout: 400}}}) {
					return
				}
			}
			// resize down without wait while a worker is between kill check and wait
			ops := []Op{{K: "workers", N: workers + 1, Wait: true}, {K: "add", N: workers + 1}, {K: "settle"}, {K: "workers", N: workers, Wait: false}, {K: "add", N: 2}, {K: "settle"}}
			if !yield(Case{Ops: ops, Plan: sched.Plan{{Point: "pool.gettask.empty", Nth: nth + workers, Action: "hold", Until: "h.workers.returned", Plus: 1, Timeout: 400}}}) {
				return
			}
		}
	}
}

func directed2(yield func(Case) bool) {
	for workers := 2; workers <= 4; workers++ {
		for n := 1; n <= 3; n++ {
			ops := []Op{{K: "workers", N: workers, Wait: true}, {K: "settle"}}
			for i := 0; i < 3; i++ {
				ops = append(ops, Op{K: "adddep", N: n}, Op{K: "settle"})
			}
			if !yield(Case{Ops: ops}) {
				return
			}
		}
	}
	// shrinks while several workers pass through getTask together, with a reader contending for the worker-map lock
	for from := 4; from <= 8; from += 2 {
		for to := 1; to < from; to += 2 {
			for _, wait := range []bool{false, true} {
				ops := []Op{{K: "workers", N: from, Wait: true}}
				for i := 0; i < 6; i++ {
					ops = append(ops, Op{K: "add", N: from * 2}, Op{K: "workers", N: to, Wait: wait}, Op{K: "settle"}, Op{K: "workers", N: from, Wait: true})
				}
				if !yield(Case{Ops: ops, Poll: true, Yield: 1}) {
					return
				}
			}
		}
	}
}

// both routes runs every case of gen through the plain pool and through the processor's pool
func bothRoutes(gen func(func(Case) bool)) func(func(Case) bool) {
	return func(yield func(Case) bool) {
		gen(func(c Case) bool {
			if !yield(c) {
				return false
			}
			c.Engine = true
			return yield(c)
		})
	}
}

func TestExhaustive(t *testing.T) {
	hx.Enumerate(t, "directed-windows", bothRoutes(directed), runCase)
	hx.Enumerate(t, "directed-dependent-and-shrink", bothRoutes(directed2), runCase)
}
