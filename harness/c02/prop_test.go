// C02 — waiting on an event returns after its whole cascade, with exactly its errors.
//
// Domain: cascade trees (<= 25 nodes, depth <= 4, fan-out <= 4) whose rule
// actions are Go closures built from the case (record start/finish stamps,
// add child events under child monitors — some of non-triggering kinds —
// and fail or not), 1-6 cascades in flight from separate goroutines, 1-16
// workers, both failOnFirstError settings, and a perturbation plan over the
// monitor / task / pool hook points.
// Oracle: invariants over the recorded history (see runCase).
package c02

import (
	"errors"
	"fmt"
	"os"
	"runtime"
	"sort"
	"strconv"
	"strings"
	"sync"
	"sync/atomic"
	"testing"
	"time"

	"pgregory.net/rapid"

	"github.com/krotik/ecal/engine"

	"verif/internal/erun"
	"verif/internal/hx"
	"verif/internal/sched"
)

const rule = "case = (1-6 cascade trees of events with 1-3 rules per event kind, failing rules and skipped (non-triggering) children at generated positions, worker count 1-16, failOnFirstError setting, perturbation plan over monitor/task/pool hook points); non-trivial = depth >= 2 and workers >= 2 and at least one of {failing rule, skipped child, fan-out >= 2}; distinct by (shapes, workers, setting, plan)"

// RuleSpec is one rule on a node's event kind.
type RuleSpec struct {
	Fail     bool  `json:"fail,omitempty"`
	Yield    int   `json:"yield,omitempty"`
	Children []int `json:"children,omitempty"` // indices of child nodes (always larger than the own index)
	Prio     []int `json:"prio,omitempty"`     // child monitor priorities
}

// Node is an event of the cascade.
type Node struct {
	Rules []RuleSpec `json:"rules,omitempty"` // no rules: a non-triggering kind (the child is skipped)
}

// Cascade is a tree; node 0 is the root event.
type Cascade struct {
	Nodes []Node `json:"nodes"`
}

// Case is one history.
type Case struct {
	Cascades  []Cascade  `json:"cascades"`
	Workers   int        `json:"workers"`
	FailFirst bool       `json:"fail_first"`
	Plan      sched.Plan `json:"plan"`
	Waiter    bool       `json:"waiter,omitempty"` // another goroutine of the host keeps calling ThreadPool().WaitAll() while the cascades run (Go route)
	Dep       bool       `json:"dep,omitempty"`    // the first root action of cascade 0 returns only after the first root action of cascade 1 has started (needs >= 2 cascades, >= 2 workers; Go route)
	ECAL      bool       `json:"ecal,omitempty"`   // route: the first cascade as ECAL sinks, waited for with addEventAndWait (fail-on-first-error is always on there)
	// Resize: worker counts (all >= 1) which another goroutine of the host requests one after the other, without waiting,
	// from the moment the ResizeAt-th task starts to run (Go route): the cascades run on a pool which is being shrunk and
	// grown; a worker stays available all the time, so every wait still has to return with the complete report
	Resize   []int `json:"resize,omitempty"`
	ResizeAt int   `json:"resize_at,omitempty"`
}

func TestMain(m *testing.M) { hx.Main(m, "C02", rule) }

var stuckBound = 10 * time.Second

func init() {
	if v, err := strconv.Atoi(os.Getenv("VERIF_C02_STUCK_SECONDS")); err == nil && v > 0 {
		stuckBound = time.Duration(v) * time.Second
	}
}

type actionRec struct {
	start, finish int64
	runs          int32
	err           error
}

type cascadeRun struct {
	idx      int
	spec     Cascade
	events   []*engine.Event // per node (created when the parent rule adds it; root up front)
	monitors []engine.Monitor
	mu       sync.Mutex
	recs     map[string]*actionRec // rule name -> record
	rm       *engine.RootMonitor
	finished int32 // finish handler calls
	returned int64 // stamp of the return of AddEventAndWait
	retMon   engine.Monitor
	retErr   error
	done     chan struct{}
}

func ruleName(c, n, r int) string { return fmt.Sprintf("c%dn%dr%d", c, n, r) }
func kind(c, n int) []string      { return []string{fmt.Sprintf("c%d", c), fmt.Sprintf("n%d", n)} }

// expected computes which (node, rule) pairs must run and which fail.
func expected(c Cascade, failFirst bool) (run map[[2]int]bool, fail map[[2]int]bool, reached map[int]bool) {
	run, fail, reached = map[[2]int]bool{}, map[[2]int]bool{}, map[int]bool{}
	var visit func(n int)
	visit = func(n int) {
		reached[n] = true
		for r, rs := range c.Nodes[n].Rules {
			run[[2]int{n, r}] = true
			for _, ch := range rs.Children {
				visit(ch)
			}
			if rs.Fail {
				fail[[2]int{n, r}] = true
				if failFirst {
					break
				}
			}
		}
	}
	visit(0)
	return
}

func runCase(c Case) (fail *hx.Failure) {
	// rule actions run on pool workers: a panic or a fatal runtime abort there kills the process - leave the case behind for the driver
	hx.WriteInflight(c)
	defer hx.ClearInflight()
	if c.ECAL {
		return runECAL(c)
	}
	var clock int64
	proc := engine.NewProcessor(c.Workers)
	proc.SetFailOnFirstErrorInTriggerSequence(c.FailFirst)
	runs := make([]*cascadeRun, len(c.Cascades))
	for ci := range c.Cascades {
		cr := &cascadeRun{idx: ci, spec: c.Cascades[ci], recs: map[string]*actionRec{}, done: make(chan struct{})}
		cr.events = make([]*engine.Event, len(cr.spec.Nodes))
		cr.monitors = make([]engine.Monitor, len(cr.spec.Nodes))
		runs[ci] = cr
		for ni, node := range cr.spec.Nodes {
			for ri, rs := range node.Rules {
				name := ruleName(ci, ni, ri)
				rec := &actionRec{}
				if rs.Fail {
					rec.err = errors.New("error of " + name)
				}
				cr.recs[name] = rec
				rs, ni := rs, ni
				waitsFor := c.Dep && ci == 0 && ni == 0 && ri == 0 && len(c.Cascades) >= 2 && c.Workers >= 2
				err := proc.AddRule(&engine.Rule{
					Name: name, KindMatch: []string{strings.Join(kind(ci, ni), ".")}, ScopeMatch: []string{}, Priority: ri,
					Action: func(p engine.Processor, m engine.Monitor, e *engine.Event, tid uint64) error {
						atomic.AddInt32(&rec.runs, 1)
						atomic.StoreInt64(&rec.start, atomic.AddInt64(&clock, 1))
						for i := 0; i < rs.Yield; i++ {
							time.Sleep(time.Microsecond)
						}
						if waitsFor {
							// terminates as soon as a worker picks up the other cascade's root event
							// (a worker is available: this action occupies one of >= 2); bounded anyway
							other := runs[1].recs[ruleName(1, 0, 0)]
							for dl := time.Now().Add(depBound); atomic.LoadInt64(&other.start) == 0 && time.Now().Before(dl); {
								time.Sleep(50 * time.Microsecond)
							}
						}
						for k, ch := range rs.Children {
							prio := 0
							if k < len(rs.Prio) {
								prio = rs.Prio[k]
							}
							ev := engine.NewEvent(fmt.Sprintf("e%d.%d", ci, ch), kind(ci, ch), map[interface{}]interface{}{"node": ch})
							cm := m.NewChildMonitor(prio)
							cr.mu.Lock()
							cr.events[ch] = ev
							cr.monitors[ch] = cm
							cr.mu.Unlock()
							if _, err := p.AddEvent(ev, cm); err != nil {
								return fmt.Errorf("AddEvent failed: %v", err)
							}
						}
						atomic.StoreInt64(&rec.finish, atomic.AddInt64(&clock, 1))
						return rec.err
					}})
				if err != nil {
					return hx.Failf("harness:addrule", "%v", err)
				}
			}
		}
	}
	s := sched.Install(c.Plan)
	resizeGo, resized := make(chan struct{}, 1), make(chan struct{})
	if len(c.Resize) > 0 {
		var begun int32
		s.Observer = func(point string, args []interface{}) {
			if point == "task.run.begin" && int(atomic.AddInt32(&begun, 1)) == c.ResizeAt {
				select {
				case resizeGo <- struct{}{}:
				default:
				}
			}
		}
	}
	proc.Start()
	if len(c.Resize) > 0 {
		go func() {
			defer close(resized)
			select {
			case <-resizeGo:
			case <-time.After(20 * time.Millisecond):
			}
			for _, n := range c.Resize {
				if n < 1 {
					n = 1
				}
				if c.Dep && n < 2 {
					n = 2 // an action waiting for another cascade occupies a worker: "a worker is available" needs two
				}
				proc.ThreadPool().SetWorkerCount(n, false)
				time.Sleep(150 * time.Microsecond)
			}
		}()
	} else {
		close(resized)
	}
	defer func() {
		select {
		case <-resized: // (a resize request must not overlap the teardown's JoinAll)
		case <-time.After(20 * time.Second):
			if fail == nil {
				hx.Inconclusive("c02.resize-request-pending")
			}
		}
		s.Uninstall()
		fin := make(chan struct{})
		go func() { proc.Finish(); close(fin) }()
		select {
		case <-fin:
		case <-time.After(30 * time.Second):
			if fail == nil {
				hx.Inconclusive("c02.teardown")
			}
		}
	}()

	if c.Waiter {
		stopWaiter := make(chan struct{})
		var wwg sync.WaitGroup
		wwg.Add(1)
		go func() {
			defer wwg.Done()
			for {
				select {
				case <-stopWaiter:
					return
				default:
				}
				proc.ThreadPool().WaitAll()
				runtime.Gosched()
			}
		}()
		defer func() {
			close(stopWaiter)
			fin := make(chan struct{})
			go func() { wwg.Wait(); close(fin) }()
			select {
			case <-fin:
			case <-time.After(10 * time.Second):
				// (still inside WaitAll: a pool which is locked up was reported by waitReturn)
			}
		}()
	}
	for _, cr := range runs {
		cr := cr
		cr.rm = proc.NewRootMonitor(nil, nil)
		cr.rm.SetFinishHandler(func(engine.Processor) { atomic.AddInt32(&cr.finished, 1) })
		cr.events[0] = engine.NewEvent(fmt.Sprintf("e%d.0", cr.idx), kind(cr.idx, 0), map[interface{}]interface{}{"node": 0})
		cr.monitors[0] = cr.rm
		go func() {
			cr.retMon, cr.retErr = proc.AddEventAndWait(cr.events[0], cr.rm)
			atomic.StoreInt64(&cr.returned, atomic.AddInt64(&clock, 1))
			close(cr.done)
		}()
	}

	// wait for all cascades (bounded liveness: stuck-state rule)
	for _, cr := range runs {
		if f := waitReturn(c, cr, proc, s, &clock); f != nil {
			return f
		}
	}
	// at return: everything of the cascade has finished
	for _, cr := range runs {
		if f := checkAtReturn(c, cr); f != nil {
			return f
		}
	}
	// global quiescence: let the pool drain, then re-check "exactly once" facts
	proc.ThreadPool().WaitAll()
	time.Sleep(200 * time.Microsecond)
	for _, cr := range runs {
		if n := atomic.LoadInt32(&cr.finished); n != 1 {
			// the finish handler runs after the waiter's observer; give it a moment before judging "never"
			deadline := time.Now().Add(2 * time.Second)
			for n == 0 && time.Now().Before(deadline) {
				time.Sleep(100 * time.Microsecond)
				n = atomic.LoadInt32(&cr.finished)
			}
			if n != 1 {
				return hx.Failf("finish-handler-count", "cascade %d: finish handler ran %d times", cr.idx, n)
			}
		}
		for name, rec := range cr.recs {
			if st := atomic.LoadInt64(&rec.start); st > cr.returned {
				return hx.Failf("action-after-return", "cascade %d: action %s started (stamp %d) after AddEventAndWait had returned (stamp %d)", cr.idx, name, st, cr.returned)
			}
			if n := atomic.LoadInt32(&rec.runs); n > 1 {
				return hx.Failf("action-ran-twice", "cascade %d: action %s ran %d times", cr.idx, name, n)
			}
		}
	}

	record(c, s)
	return nil
}

// depBound bounds the wait of a dependent action (it outlasts every stuck verdict).
const depBound = 40 * time.Second

func waitReturn(c Case, cr *cascadeRun, proc engine.Processor, s *sched.Sched, clock *int64) *hx.Failure {
	select {
	case <-cr.done:
		return nil
	case <-time.After(1500 * time.Millisecond):
	}
	start := time.Now()
	type snap struct {
		queue, idle, total int
		clock              int64
	}
	lockedUp := false
	take := func() snap {
		// State() takes the pool's locks: if it does not answer either, the pool is locked up for good
		ch := make(chan map[string]interface{}, 1)
		go func() { ch <- proc.ThreadPool().State() }()
		select {
		case st := <-ch:
			return snap{st["TaskQueueSize"].(int), len(st["IdleWorkerThreads"].([]uint64)), len(st["TotalWorkerThreads"].([]uint64)), atomic.LoadInt64(clock)}
		case <-time.After(stuckBound):
			lockedUp = true
			return snap{-1, -1, -1, atomic.LoadInt64(clock)}
		}
	}
	for time.Since(start) < stuckBound+5*time.Second {
		select {
		case <-cr.done:
			return nil
		default:
		}
		if s.ActiveHolds() != 0 {
			time.Sleep(50 * time.Millisecond)
			continue
		}
		a := take()
		if lockedUp && s.ActiveHolds() == 0 {
			select {
			case <-cr.done:
				return nil
			default:
			}
			if stuckBound > 3*time.Second {
				stuckBound = 3 * time.Second
			}
			return hx.Failf("pool-locked-up", "cascade %d: AddEventAndWait still blocked after %v and ThreadPool().State() does not answer within the bound either (no hold active): the pool's locks are held for good; hook counters %v",
				cr.idx, time.Since(start).Round(time.Millisecond), s.Counts())
		}
		time.Sleep(500 * time.Millisecond)
		b := take()
		time.Sleep(500 * time.Millisecond)
		d := take()
		select {
		case <-cr.done:
			return nil
		default:
		}
		if a == b && b == d && s.ActiveHolds() == 0 && d.queue > 0 && d.idle >= 1 && d.idle < d.total && time.Since(start) >= stuckBound/2 {
			// a task is queued and a worker is idle, nothing moves and nothing is held: the task is never picked
			// up (the busy workers are actions waiting for exactly that task)
			if stuckBound > 3*time.Second {
				stuckBound = 3 * time.Second
			}
			return hx.Failf("queued-task-not-picked-up", "cascade %d: AddEventAndWait still blocked after %v; queue=%d with %d of %d workers idle in three samples 500 ms apart, no hold active; hook counters %v",
				cr.idx, time.Since(start).Round(time.Millisecond), d.queue, d.idle, d.total, s.Counts())
		}
		if a == b && b == d && s.ActiveHolds() == 0 && d.idle == d.total && d.total >= 1 && time.Since(start) >= stuckBound/2 {
			if stuckBound > 3*time.Second {
				stuckBound = 3 * time.Second
			}
			run, _, _ := expected(cr.spec, c.FailFirst)
			missing := 0
			for k := range run {
				if atomic.LoadInt64(&cr.recs[ruleName(cr.idx, k[0], k[1])].finish) == 0 {
					missing++
				}
			}
			sig := "wait-never-returns"
			if missing > 0 {
				sig = "cascade-stalled"
			}
			return hx.Failf(sig, "cascade %d: AddEventAndWait still blocked after %v; all %d workers idle, queue=%d, %d expected actions unfinished; hook counters %v",
				cr.idx, time.Since(start).Round(time.Millisecond), d.total, d.queue, missing, s.Counts())
		}
	}
	hx.Inconclusive("c02.wait")
	<-cr.done // the deferred teardown broadcasts; do not leak the goroutine into the next case
	return nil
}

func checkAtReturn(c Case, cr *cascadeRun) *hx.Failure {
	if cr.retErr != nil || cr.retMon == nil {
		return hx.Failf("root-event-not-accepted", "cascade %d: AddEventAndWait returned monitor=%v err=%v for a triggering event", cr.idx, cr.retMon, cr.retErr)
	}
	run, failing, reached := expected(cr.spec, c.FailFirst)
	for k := range run {
		name := ruleName(cr.idx, k[0], k[1])
		rec := cr.recs[name]
		fin := atomic.LoadInt64(&rec.finish)
		if fin == 0 || fin > cr.returned {
			return hx.Failf("returned-before-cascade-finished", "cascade %d: AddEventAndWait returned (stamp %d) before action %s had finished (stamp %d)", cr.idx, cr.returned, name, fin)
		}
	}
	for name, rec := range cr.recs {
		var n, r int
		fmt.Sscanf(name[strings.Index(name, "n")+1:], "%dr%d", &n, &r)
		if !run[[2]int{n, r}] && atomic.LoadInt32(&rec.runs) > 0 {
			return hx.Failf("unexpected-action", "cascade %d: action %s ran although its event was never added / an earlier rule had failed", cr.idx, name)
		}
	}
	// monitors
	cr.mu.Lock()
	for n := range cr.spec.Nodes {
		if reached[n] {
			if cr.monitors[n] == nil {
				cr.mu.Unlock()
				return hx.Failf("harness:monitor-missing", "cascade %d node %d", cr.idx, n)
			}
			if f, ok := cr.monitors[n].(interface{ IsFinished() bool }); ok && !f.IsFinished() {
				cr.mu.Unlock()
				return hx.Failf("monitor-not-finished", "cascade %d: the monitor handed out with event n%d is not finished when AddEventAndWait returns", cr.idx, n)
			}
		}
	}
	cr.mu.Unlock()
	// errors: exactly one entry per (event, rule) whose action returned an error
	wantErr := map[string]error{}
	for k := range failing {
		name := ruleName(cr.idx, k[0], k[1])
		wantErr[name] = cr.recs[name].err
	}
	gotErr := map[string]error{}
	for _, te := range cr.rm.AllErrors() {
		if te == nil {
			return hx.Failf("nil-task-error", "cascade %d: AllErrors contains nil", cr.idx)
		}
		for name, e := range te.ErrorMap {
			if _, dup := gotErr[name]; dup {
				return hx.Failf("error-duplicated", "cascade %d: error of %s reported twice", cr.idx, name)
			}
			gotErr[name] = e
			var n, r int
			if _, err := fmt.Sscanf(name, fmt.Sprintf("c%dn%%dr%%d", cr.idx), &n, &r); err != nil {
				return hx.Failf("error-of-another-cascade", "cascade %d: AllErrors holds an entry for rule %s", cr.idx, name)
			}
			cr.mu.Lock()
			ev := cr.events[n]
			cr.mu.Unlock()
			if te.Event != ev {
				return hx.Failf("error-wrong-event", "cascade %d: error of %s is attributed to event %v, not to %v", cr.idx, name, te.Event, ev)
			}
		}
	}
	var missing, extra, wrong []string
	for name, e := range wantErr {
		g, ok := gotErr[name]
		if !ok {
			missing = append(missing, name)
		} else if g != e {
			wrong = append(wrong, name)
		}
	}
	for name := range gotErr {
		if _, ok := wantErr[name]; !ok {
			extra = append(extra, name)
		}
	}
	sort.Strings(missing)
	sort.Strings(extra)
	if len(missing) > 0 {
		return hx.Failf("error-lost", "cascade %d: errors of %v are missing from AllErrors (got %d entries)", cr.idx, missing, len(gotErr))
	}
	if len(extra) > 0 {
		return hx.Failf("error-unexpected", "cascade %d: AllErrors holds entries for %v whose actions did not fail", cr.idx, extra)
	}
	if len(wrong) > 0 {
		return hx.Failf("error-wrong-value", "cascade %d: %v carry another action's error value", cr.idx, wrong)
	}
	return nil
}

// runECAL drives the first cascade through the interpreter: sinks that
// addEvent, a main program that waits with addEventAndWait.
func runECAL(c Case) *hx.Failure {
	cs := c.Cascades[0]
	var b strings.Builder
	for ni, node := range cs.Nodes {
		for ri, rs := range node.Rules {
			name := ruleName(0, ni, ri)
			fmt.Fprintf(&b, "sink %s\n    kindmatch [ \"%s\" ],\n    priority %d\n{\n", name, strings.Join(kind(0, ni), "."), ri)
			fmt.Fprintf(&b, "    t.rec(\"s:%s\")\n", name)
			for _, ch := range rs.Children {
				fmt.Fprintf(&b, "    addEvent(\"e0.%d\", \"%s\", {\"node\" : %d})\n", ch, strings.Join(kind(0, ch), "."), ch)
			}
			fmt.Fprintf(&b, "    t.rec(\"f:%s\")\n", name)
			if rs.Fail {
				fmt.Fprintf(&b, "    raise(\"T-%s\", \"%s\", [\"%s\"])\n", name, name, name)
			}
			b.WriteString("}\n")
		}
	}
	b.WriteString("res := addEventAndWait(\"e0.0\", \"c0.n0\", {\"node\" : 0})\nt.rec(\"returned\")\nt.rec(res)\n")
	src := b.String()

	s := sched.Install(c.Plan)
	defer s.Uninstall()
	var res *erun.Result
	done := make(chan struct{})
	go func() { res = erun.Run(src, erun.Options{Workers: c.Workers}); close(done) }()
	select {
	case <-done:
	case <-time.After(stuckBound + 50*time.Second):
		hx.Inconclusive("c02.ecal-wait")
		return nil
	}
	if res.Panic != nil {
		return &hx.Failure{Sig: res.Panic.Sig, Msg: src + "\n" + res.Panic.Msg}
	}
	if res.ParseErr != nil || res.ValidateErr != nil || res.Err != nil {
		return hx.Failf("ecal-route-error", "parse=%v validate=%v eval=%v\n%s", res.ParseErr, res.ValidateErr, res.Err, src)
	}
	run, failing, _ := expected(cs, true)
	seenF, seenS := map[string]int{}, map[string]int{}
	returned := -1
	var report interface{}
	for i, it := range res.Trace {
		if str, ok := it.(string); ok {
			switch {
			case str == "returned":
				returned = i
			case strings.HasPrefix(str, "f:"):
				seenF[str[2:]]++
				if returned >= 0 {
					return hx.Failf("ecal:action-after-return", "sink %s finished after addEventAndWait had returned\n%s", str[2:], src)
				}
			case strings.HasPrefix(str, "s:"):
				seenS[str[2:]]++
				if returned >= 0 {
					return hx.Failf("ecal:action-after-return", "sink %s started after addEventAndWait had returned\n%s", str[2:], src)
				}
			}
		} else if returned >= 0 {
			report = it
		}
	}
	if returned < 0 {
		return hx.Failf("ecal:no-return", "the program never recorded the return of addEventAndWait\n%s", src)
	}
	for k := range run {
		name := ruleName(0, k[0], k[1])
		if seenF[name] != 1 {
			return hx.Failf("ecal:returned-before-cascade-finished", "sink %s finished %d times before addEventAndWait returned (expected once)\n%s", name, seenF[name], src)
		}
	}
	for name := range seenS {
		var n, r int
		fmt.Sscanf(name, "c0n%dr%d", &n, &r)
		if !run[[2]int{n, r}] {
			return hx.Failf("ecal:unexpected-action", "sink %s ran although its event was never added / an earlier sink had failed\n%s", name, src)
		}
	}
	// error report
	got := map[string]map[interface{}]interface{}{}
	gotKind := map[string]string{}
	if report != nil {
		items, ok := report.([]interface{})
		if !ok {
			return hx.Failf("ecal:report-shape", "addEventAndWait returned %T\n%s", report, src)
		}
		for _, it := range items {
			m, _ := it.(map[interface{}]interface{})
			errs, _ := m["errors"].(map[interface{}]interface{})
			ev, _ := m["event"].(map[interface{}]interface{})
			for k, v := range errs {
				name := fmt.Sprint(k)
				if _, dup := got[name]; dup {
					return hx.Failf("ecal:error-duplicated", "error of %s reported twice\n%s", name, src)
				}
				em, _ := v.(map[interface{}]interface{})
				got[name] = em
				gotKind[name] = fmt.Sprint(ev["kind"])
			}
		}
	}
	for k := range failing {
		name := ruleName(0, k[0], k[1])
		em, ok := got[name]
		if !ok {
			return hx.Failf("ecal:error-lost", "error of %s is missing from the report %v\n%s", name, report, src)
		}
		data, _ := em["data"].([]interface{})
		if em["type"] != "T-"+name || em["detail"] != name || len(data) != 1 || data[0] != name {
			return hx.Failf("ecal:error-wrong-value", "error of %s is reported as %v\n%s", name, em, src)
		}
		if want := strings.Join(kind(0, k[0]), "."); gotKind[name] != want {
			return hx.Failf("ecal:error-wrong-event", "error of %s is attributed to an event of kind %s, not %s\n%s", name, gotKind[name], want, src)
		}
	}
	for name := range got {
		var n, r int
		fmt.Sscanf(name, "c0n%dr%d", &n, &r)
		if !failing[[2]int{n, r}] {
			return hx.Failf("ecal:error-unexpected", "the report holds an error for %s which did not fail\n%s", name, src)
		}
	}
	c.FailFirst = true
	c.Cascades = c.Cascades[:1]
	record(c, s)
	hx.E.Class("route.ecal", 1)
	return nil
}

func depthOf(c Cascade) (depth, fan int, fails, skips int) {
	var visit func(n, d int)
	visit = func(n, d int) {
		if d > depth {
			depth = d
		}
		if len(c.Nodes[n].Rules) == 0 {
			skips++
		}
		for _, r := range c.Nodes[n].Rules {
			if r.Fail {
				fails++
			}
			if len(r.Children) > fan {
				fan = len(r.Children)
			}
			for _, ch := range r.Children {
				visit(ch, d+1)
			}
		}
	}
	visit(0, 1)
	return
}

func record(c Case, s *sched.Sched) {
	nt := false
	classes := []string{fmt.Sprintf("workers.%d", c.Workers), fmt.Sprintf("cascades.%d", len(c.Cascades)), fmt.Sprintf("failfirst.%v", c.FailFirst)}
	if len(c.Resize) > 0 {
		classes = append(classes, "pool.resized-while-the-cascades-run")
		for _, n := range c.Resize {
			if n < c.Workers {
				classes = append(classes, "pool.shrunk-while-the-cascades-run")
				break
			}
		}
	}
	for _, cs := range c.Cascades {
		d, fan, fails, skips := depthOf(cs)
		if d >= 2 && c.Workers >= 2 && (fails > 0 || skips > 0 || fan >= 2) {
			nt = true
		}
		classes = append(classes, fmt.Sprintf("depth.%d", d))
		if fails > 0 {
			classes = append(classes, "has.failing-rule")
		}
		if skips > 0 {
			classes = append(classes, "has.skipped-child")
		}
	}
	rel, to := s.HoldStats()
	if rel > 0 {
		classes = append(classes, "plan.hold-released")
	}
	if to > 0 {
		classes = append(classes, "plan.hold-timed-out")
	}
	key := fmt.Sprint(c)
	if c.Dep && !c.ECAL && len(c.Cascades) >= 2 && c.Workers >= 2 {
		classes = append(classes, "dep.root-action-waits-for-other-cascade")
	}
	if c.Waiter && !c.ECAL {
		classes = append(classes, "host.waitall-caller-alongside")
	}
	hx.E.Case(nt, key, classes...)
	if nt {
		hx.E.Sample(key, c)
	}
	for k, v := range s.Counts() {
		hx.E.Class("hook."+k, v)
	}
}

func TestRegress(t *testing.T) { hx.Regress(t, runCase) }

var points = []string{"monitor.finished.locked", "monitor.finished.unlocked", "monitor.finished.posted", "task.run.begin", "task.run.processed",
	"task.error.set", "task.error.finished", "tq.push", "tq.pop", "pool.addtask.pushed", "pool.addtask.signalled", "pool.gettask.empty", "pool.idle.wait", "pool.worker.run", "pool.worker.done"}

func genCascade(rt *rapid.T, maxNodes int) Cascade {
	pick := func(n int, l string) int { return rapid.IntRange(0, n-1).Draw(rt, l) }
	var cs Cascade
	type pending struct{ node, depth int }
	cs.Nodes = append(cs.Nodes, Node{})
	queue := []pending{{0, 1}}
	for len(queue) > 0 {
		p := queue[0]
		queue = queue[1:]
		nr := 1 + pick(3, "nrules")
		if p.node != 0 && pick(6, "skip") == 0 {
			nr = 0 // non-triggering kind: this child is skipped
		}
		for r := 0; r < nr; r++ {
			rs := RuleSpec{Fail: pick(4, "fail") == 0, Yield: pick(3, "yield")}
			if p.depth < 4 {
				for k, nch := 0, pick(5, "nch")*pick(2, "chz"); k < nch && len(cs.Nodes) < maxNodes; k++ {
					cs.Nodes = append(cs.Nodes, Node{})
					ch := len(cs.Nodes) - 1
					rs.Children = append(rs.Children, ch)
					rs.Prio = append(rs.Prio, pick(4, "prio"))
					queue = append(queue, pending{ch, p.depth + 1})
				}
			}
			cs.Nodes[p.node].Rules = append(cs.Nodes[p.node].Rules, rs)
		}
	}
	return cs
}

func genCase(rt *rapid.T) Case {
	pick := func(n int, l string) int { return rapid.IntRange(0, n-1).Draw(rt, l) }
	c := Case{Workers: []int{1, 2, 2, 3, 4, 8, 16}[pick(7, "workers")], FailFirst: pick(2, "ff") == 0}
	nc := 1 + pick(3, "ncasc")*pick(3, "ncz")
	if nc > 6 {
		nc = 6
	}
	for i := 0; i < nc; i++ {
		c.Cascades = append(c.Cascades, genCascade(rt, 25))
	}
	switch pick(8, "directed") {
	case 0: // between the decrement and the notification: let another monitor finish meanwhile
		c.Plan = append(c.Plan, sched.Rule{Point: "monitor.finished.unlocked", Nth: 1 + pick(6, "dn"), Action: "hold", Until: "monitor.finished.locked", Plus: 1, Timeout: 50})
	case 1: // between attaching errors and finishing the monitor
		c.Plan = append(c.Plan, sched.Rule{Point: "task.error.set", Nth: 1 + pick(4, "dn1"), Action: "hold", Until: "monitor.finished.locked", Plus: 1, Timeout: 50})
	case 2: // between push and signal
		c.Plan = append(c.Plan, sched.Rule{Point: "pool.addtask.pushed", Nth: 1 + pick(6, "dn2"), Action: "hold", Until: "pool.gettask.empty", Plus: 1, Timeout: 50})
	case 3: // a worker between empty dequeue and wait while events are added
		c.Plan = append(c.Plan, sched.Rule{Point: "pool.gettask.empty", Nth: 1 + pick(8, "dn3"), Action: "hold", Until: "pool.addtask.signalled", Plus: 1, Timeout: 100})
	case 5: // a woken worker is kept from its dequeue until the next task has been pushed behind the first one
		c.Plan = append(c.Plan, sched.Rule{Point: "pool.idle.woke", Nth: 1 + pick(3, "dn5"), Action: "hold", Until: "pool.addtask.pushed", Plus: 1, Timeout: 100})
		c.Dep = true
	case 4: // after processing, before the monitor finishes
		c.Plan = append(c.Plan, sched.Rule{Point: "task.run.processed", Nth: 1 + pick(6, "dn4"), Action: "hold", Until: "tq.pop", Plus: 1 + pick(2, "dp4"), Timeout: 50})
	}
	for i, m := 0, pick(4, "nrules"); i < m; i++ {
		r := sched.Rule{Point: points[pick(len(points), "pt")], Nth: pick(8, "nth")}
		switch pick(3, "act") {
		case 0:
			r.Action, r.N = "yield", pick(4, "yn")
		case 1:
			r.Action, r.N = "sleep", 1+pick(100, "sn")
		default:
			r.Action, r.Until, r.Plus, r.Timeout = "hold", points[pick(len(points), "until")], 1+pick(2, "plus"), 5+pick(40, "to")
			if r.Nth == 0 {
				r.Nth = 1 + pick(6, "nth2")
			}
		}
		c.Plan = append(c.Plan, r)
	}
	c.ECAL = pick(5, "route") == 0
	if pick(4, "dep") == 0 {
		c.Dep = true
	}
	c.Waiter = pick(3, "waiter") == 0
	if c.Workers >= 2 && pick(5, "resize") == 0 {
		// the pool is resized while the cascades run; tasks are stretched so that departing workers are busy for a while
		for i, n := 0, 1+pick(3, "nresize"); i < n; i++ {
			c.Resize = append(c.Resize, 1+pick(c.Workers+1, "rsz"))
		}
		c.ResizeAt = 1 + pick(6, "rszat")
		c.Plan = append(c.Plan, sched.Rule{Point: "task.run.begin", Nth: 0, Action: "sleep", N: 50 + pick(200, "rszsleep")})
		c.ECAL = false
	}
	if c.Dep && (len(c.Cascades) < 2 || c.Workers < 2) {
		// make the dependency meaningful instead of dropping it
		if c.Workers < 2 {
			c.Workers = 2
		}
		for len(c.Cascades) < 2 {
			c.Cascades = append(c.Cascades, genCascade(rt, 25))
		}
	}
	if c.Dep {
		c.ECAL = false
	}
	return c
}

func TestProp(t *testing.T) { hx.Check(t, genCase, runCase) }
