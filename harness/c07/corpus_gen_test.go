package c07

// Development-time tool (not part of the check): rebuilds testdata/corpus.json and
// the native fuzz seeds from a checkout of the repository.
//
//   cd /verif/harness && C07_GEN_FROM=/repo go test -tags verif -count=1 -run '^TestGenCorpus$' ./c07
//
// corpus.json = every examples/**/*.ecal file plus every string literal of
// parser/*_test.go and interpreter/*_test.go that (a) is not an expected tree dump,
// (b) has at least 3 tokens and at most 6000 bytes and (c) parses without error
// (so it is a valid program that can serve as a mutation base).

import (
	"encoding/json"
	"fmt"
	"go/ast"
	goparser "go/parser"
	"go/token"
	"os"
	"path/filepath"
	"sort"
	"strconv"
	"strings"
	"testing"
	"unicode/utf8"

	"github.com/krotik/ecal/parser"

	"verif/internal/ev"
	"verif/internal/hx"
)

func looksLikeTreeDump(s string) bool {
	for _, m := range []string{"identifier: ", "number: ", "string: '", "\nstatements\n", "\n  statements\n", "funccall\n", "Parse error in"} {
		if strings.Contains(s, m) {
			return true
		}
	}
	return strings.HasPrefix(s, "statements\n")
}

func TestGenCorpus(t *testing.T) {
	repo := os.Getenv("C07_GEN_FROM")
	if repo == "" {
		t.Skip("C07_GEN_FROM not set")
	}
	seen := map[string]bool{}
	var out []string
	add := func(s string) {
		if !utf8.ValidString(s) || len(s) > 6000 || seen[s] {
			return
		}
		toks := parser.LexToList("corpus", s)
		if len(toks) < 4 { // 3 tokens + EOF
			return
		}
		func() {
			defer func() { recover() }()
			if n, err := parser.Parse("corpus", s); err == nil && n != nil {
				if wellFormed(n, false) == nil {
					seen[s] = true
					out = append(out, s)
				}
			}
		}()
	}
	filepath.Walk(filepath.Join(repo, "examples"), func(p string, fi os.FileInfo, err error) error {
		if err == nil && !fi.IsDir() && strings.HasSuffix(p, ".ecal") {
			b, _ := os.ReadFile(p)
			add(string(b))
		}
		return nil
	})
	nex := len(out)
	for _, dir := range []string{"parser", "interpreter"} {
		files, _ := filepath.Glob(filepath.Join(repo, dir, "*_test.go"))
		sort.Strings(files)
		for _, fn := range files {
			fset := token.NewFileSet()
			f, err := goparser.ParseFile(fset, fn, nil, 0)
			if err != nil {
				t.Fatal(err)
			}
			ast.Inspect(f, func(n ast.Node) bool {
				if bl, ok := n.(*ast.BasicLit); ok && bl.Kind == token.STRING {
					if s, err := strconv.Unquote(bl.Value); err == nil && !looksLikeTreeDump(s) {
						add(s)
					}
				}
				return true
			})
		}
	}
	sort.Strings(out[nex:])
	b, _ := json.MarshalIndent(out, "", " ")
	os.MkdirAll("testdata", 0755)
	if err := os.WriteFile("testdata/corpus.json", append(b, '\n'), 0644); err != nil {
		t.Fatal(err)
	}

	// native fuzz seeds: the corpus plus the directed malformed inputs
	dir := "testdata/fuzz/FuzzParse"
	os.RemoveAll(dir)
	os.MkdirAll(dir, 0755)
	seeds := append([]string{}, out...)
	seeds = append(seeds, directed...)
	for _, s := range seeds {
		name := fmt.Sprintf("seed-%016x", ev.Hash(s))
		body := "go test fuzz v1\n[]byte(" + strconv.Quote(s) + ")\n"
		if err := os.WriteFile(filepath.Join(dir, name), []byte(body), 0644); err != nil {
			t.Fatal(err)
		}
	}
	t.Logf("corpus: %d programs (%d example files), %d fuzz seeds", len(out), nex, len(seeds))
}

// TestMakeRegress (development-time tool): runs the named inputs through runCase against
// the repository the module currently points at and writes a regression file for each
// one that fails — run it against the UNFIXED tree, so every committed regression case is
// known to fail there.
//
//	cd /verif/harness && C07_MAKE_REGRESS=/verif/regress/C07 go test -tags verif -count=1 -run '^TestMakeRegress$' -v ./c07
func TestMakeRegress(t *testing.T) {
	dir := os.Getenv("C07_MAKE_REGRESS")
	if dir == "" {
		t.Skip("C07_MAKE_REGRESS not set")
	}
	for _, rc := range [][2]string{
		{"tree-and-error", "a; )"},
		{"nil-child-in-block", "if true { ) ; a }"},
		{"lexer-goroutine-leak", ") a b c d"},
		{"skiptoken-ignored-compaccess", `A["0000`},
		{"skiptoken-ignored-toplevel", `a;"`},
		{"skiptoken-ignored-block", `if a { b ;" }`},
		{"brace-operand-in-guard", "if a == { { b } {c}"},
		{"map-entry-not-kvp", "{a}"},
		{"prettyprint-empty-comment", "/**/a"},
	} {
		c := mkCase("directed", rc[1])
		f := runCase(c)
		if f == nil {
			t.Errorf("%s: %q does not fail on this tree", rc[0], rc[1])
			continue
		}
		os.Setenv("VERIF_REPLAY", filepath.Join(dir, rc[0]+".json"))
		hx.WriteReplay(c, f)
		t.Logf("%s: %s", rc[0], f.Sig)
	}
	os.Unsetenv("VERIF_REPLAY")
}
