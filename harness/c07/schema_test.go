package c07

// Tree schema of DESIGN Appendix A, verified against what interpreter/rt_*.go and
// parser/prettyprinter.go index without a test (file:line of the unchecked access in
// the comments). One correction against the appendix: `params` children are NOT
// restricted to identifier/preset — function.Run (rt_func.go:152-176) tests the child's
// Name and silently ignores every other kind, so nothing is dereferenced unchecked.

import (
	"fmt"
	"reflect"

	"github.com/krotik/ecal/parser"
)

// every Node* constant of parser/const.go
var knownNames = map[string]bool{}

func init() {
	for _, n := range []string{parser.NodeEOF, parser.NodeSTRING, parser.NodeNUMBER, parser.NodeIDENTIFIER,
		parser.NodeSTATEMENTS, parser.NodeFUNCCALL, parser.NodeCOMPACCESS, parser.NodeLIST, parser.NodeMAP,
		parser.NodePARAMS, parser.NodeGUARD, parser.NodeGEQ, parser.NodeLEQ, parser.NodeNEQ, parser.NodeEQ,
		parser.NodeGT, parser.NodeLT, parser.NodeKVP, parser.NodePRESET, parser.NodePLUS, parser.NodeMINUS,
		parser.NodeTIMES, parser.NodeDIV, parser.NodeMODINT, parser.NodeDIVINT, parser.NodeASSIGN, parser.NodeLET,
		parser.NodeIMPORT, parser.NodeSINK, parser.NodeKINDMATCH, parser.NodeSCOPEMATCH, parser.NodeSTATEMATCH,
		parser.NodePRIORITY, parser.NodeSUPPRESSES, parser.NodeFUNC, parser.NodeRETURN, parser.NodeAND,
		parser.NodeOR, parser.NodeNOT, parser.NodeLIKE, parser.NodeIN, parser.NodeHASPREFIX, parser.NodeHASSUFFIX,
		parser.NodeNOTIN, parser.NodeTRUE, parser.NodeFALSE, parser.NodeNULL, parser.NodeIF, parser.NodeLOOP,
		parser.NodeBREAK, parser.NodeCONTINUE, parser.NodeTRY, parser.NodeEXCEPT, parser.NodeAS,
		parser.NodeOTHERWISE, parser.NodeFINALLY, parser.NodeMUTEX} {
		knownNames[n] = true
	}
}

func set(names ...string) map[string]bool {
	m := map[string]bool{}
	for _, n := range names {
		m[n] = true
	}
	return m
}

var (
	// 0 children
	leafKinds = set(parser.NodeSTRING, parser.NodeNUMBER, parser.NodeTRUE, parser.NodeFALSE, parser.NodeNULL,
		parser.NodeBREAK, parser.NodeCONTINUE)
	// exactly 2: rt_general.go:304-433 / rt_boolean.go:338 assert len==2 (AssertTrue panics), rt_assign.go:89-92,
	// rt_value.go:163-164 (kvp below map), rt_func.go:166-171 (preset), rt_statements.go:178,358 (in)
	binaryKinds = set(parser.NodeTIMES, parser.NodeDIV, parser.NodeDIVINT, parser.NodeMODINT, parser.NodeGEQ,
		parser.NodeLEQ, parser.NodeNEQ, parser.NodeEQ, parser.NodeGT, parser.NodeLT, parser.NodeAND, parser.NodeOR,
		parser.NodeLIKE, parser.NodeIN, parser.NodeNOTIN, parser.NodeHASPREFIX, parser.NodeHASSUFFIX, parser.NodeKVP,
		parser.NodePRESET, parser.NodeASSIGN)
	// exactly 1: rt_general.go:244,276 (not, assert), rt_assign.go:156 (let), rt_sink.go:270 + makeStringList
	// (sink attributes), rt_statements.go:519,578 (finally/otherwise .Children[0]), :139 (guard), :630 (as),
	// rt_identifier.go:324 (compaccess .Children[0])
	unaryKinds = set(parser.NodeNOT, parser.NodeLET, parser.NodeKINDMATCH, parser.NodeSCOPEMATCH, parser.NodeSTATEMATCH,
		parser.NodePRIORITY, parser.NodeSUPPRESSES, parser.NodeOTHERWISE, parser.NodeFINALLY, parser.NodeGUARD,
		parser.NodeCOMPACCESS, parser.NodeAS)
	// nodes which the parser constructs without a lexer token
	tokenless = set(parser.NodeSTATEMENTS, parser.NodeFUNCCALL, parser.NodeCOMPACCESS, parser.NodePARAMS, parser.NodeGUARD)
)

type shapeErr struct {
	sig string // short stable signature
	msg string
}

func bad(sig, path, format string, a ...interface{}) *shapeErr {
	return &shapeErr{sig, "at " + path + ": " + fmt.Sprintf(format, a...)}
}

func names(ch []*parser.ASTNode) []string {
	var r []string
	for _, c := range ch {
		if c == nil {
			r = append(r, "<nil>")
		} else {
			r = append(r, c.Name)
		}
	}
	return r
}

// treeStats is filled by wellFormed (evidence only).
type treeStats struct {
	nodes, depth    int
	kinds           map[string]bool
	mapEntryNotPair bool
}

// wellFormed walks a returned tree with explicit structural checks and reports the first
// violation of the schema. validated = the tree has passed Runtime.Validate() without an
// error: the repository puts construct-specific structure checks into Validate (sink, loop,
// assignment) and its own parser tests pin `{ b }` as a parseable map (`if { b }` must fail
// with "Unexpected end" after the map), so the rule that Eval needs for map entries is
// demanded of validated trees only.
func wellFormed(root *parser.ASTNode, validated bool) *shapeErr {
	return wellFormedStats(root, nil, validated)
}

func wellFormedStats(root *parser.ASTNode, st *treeStats, validated bool) *shapeErr {
	if root == nil {
		return bad("nil-node", "root", "tree is nil")
	}
	type item struct {
		n      *parser.ASTNode
		parent *parser.ASTNode
		path   string
		depth  int
	}
	stack := []item{{root, nil, root.Name, 1}}
	for len(stack) > 0 {
		it := stack[len(stack)-1]
		stack = stack[:len(stack)-1]
		n, path := it.n, it.path
		if st != nil {
			st.nodes++
			if it.depth > st.depth {
				st.depth = it.depth
			}
			if st.kinds != nil {
				st.kinds[n.Name] = true
			}
		}
		if !knownNames[n.Name] {
			tok := "no token"
			if n.Token != nil {
				tok = fmt.Sprintf("token id %d %q line %d", n.Token.ID, n.Token.Val, n.Token.Lline)
			}
			return bad("unknown-node-kind", path, "node name %q is none of the parser.Node* constants (%s, %d children %v)", n.Name, tok, len(n.Children), names(n.Children))
		}
		for i, c := range n.Children {
			if c == nil {
				return bad("nil-node", path, "%s node has a nil child at index %d (children %v)", n.Name, i, names(n.Children))
			}
		}
		if n.Token == nil && !tokenless[n.Name] {
			// the synthetic guard of an else branch is `true` without token
			if !(n.Name == parser.NodeTRUE && it.parent != nil && it.parent.Name == parser.NodeGUARD) {
				return bad("nil-token:"+n.Name, path, "%s node has no token (walkers read Token.Val / Token.Lline unchecked)", n.Name)
			}
		}
		nc := len(n.Children)
		arity := func(ok bool, want string) *shapeErr {
			if ok {
				return nil
			}
			return bad("arity:"+n.Name, path, "%s node has %d children %v, the walkers need %s", n.Name, nc, names(n.Children), want)
		}
		kind := func(i int, want ...string) *shapeErr {
			for _, w := range want {
				if n.Children[i].Name == w {
					return nil
				}
			}
			return bad("child-kind:"+n.Name, path, "%s node child %d is %q, need one of %v (children %v)", n.Name, i, n.Children[i].Name, want, names(n.Children))
		}
		var e *shapeErr
		switch {
		case leafKinds[n.Name]:
			e = arity(nc == 0, "0")
		case binaryKinds[n.Name]:
			e = arity(nc == 2, "exactly 2")
		case unaryKinds[n.Name]:
			e = arity(nc == 1, "exactly 1")
			if e == nil && (n.Name == parser.NodeOTHERWISE || n.Name == parser.NodeFINALLY) {
				e = kind(0, parser.NodeSTATEMENTS)
			}
			if e == nil && n.Name == parser.NodeAS {
				e = kind(0, parser.NodeIDENTIFIER) // rt_statements.go:630 child.Children[0].Token.Val
			}
		case n.Name == parser.NodePLUS || n.Name == parser.NodeMINUS:
			e = arity(nc == 1 || nc == 2, "1 or 2") // rt_arithmetic.go:44,83 then assert 2
		case n.Name == parser.NodeRETURN:
			e = arity(nc <= 1, "0 or 1") // rt_func.go:54
		case n.Name == parser.NodeIMPORT:
			// rt_general.go:148,159: Children[0] evaluated, Children[1].Runtime.(*identifierRuntime)
			if e = arity(nc == 2, "[string, identifier]"); e == nil {
				if e = kind(0, parser.NodeSTRING); e == nil {
					e = kind(1, parser.NodeIDENTIFIER)
				}
			}
		case n.Name == parser.NodeIF:
			// rt_statements.go:88-100 steps by 2 and indexes offset+1; prettyprinter.go ppSpecialStatements Children[i].Children[0]
			if e = arity(nc >= 2 && nc%2 == 0, "an even number >= 2 (guard, statements)*"); e == nil {
				for i := 0; i < nc && e == nil; i += 2 {
					if e = kind(i, parser.NodeGUARD); e == nil {
						e = kind(i+1, parser.NodeSTATEMENTS)
					}
				}
			}
		case n.Name == parser.NodeLOOP:
			// rt_statements.go:176,225,235,255,309
			if e = arity(nc == 2, "[guard|in, statements]"); e == nil {
				if e = kind(0, parser.NodeGUARD, parser.NodeIN); e == nil {
					e = kind(1, parser.NodeSTATEMENTS)
				}
			}
		case n.Name == parser.NodeTRY:
			// rt_statements.go:517 Children[len-1], :527 Children[0], :562-578
			if e = arity(nc >= 1, "[statements, except*, otherwise?, finally?]"); e == nil {
				e = kind(0, parser.NodeSTATEMENTS)
				stage := 0 // 0 excepts, 1 after otherwise, 2 after finally
				for i := 1; i < nc && e == nil; i++ {
					switch n.Children[i].Name {
					case parser.NodeEXCEPT:
						if stage > 0 {
							e = kind(i, "nothing after otherwise/finally but finally")
						}
					case parser.NodeOTHERWISE:
						if stage > 0 {
							e = kind(i, "at most one otherwise, before finally")
						}
						stage = 1
					case parser.NodeFINALLY:
						if stage > 1 {
							e = kind(i, "at most one finally")
						}
						stage = 2
					default:
						e = kind(i, parser.NodeEXCEPT, parser.NodeOTHERWISE, parser.NodeFINALLY)
					}
				}
			}
		case n.Name == parser.NodeEXCEPT:
			// rt_statements.go:593-640: last child evaluated as the block, Children[0].Token.Val when there are two
			if e = arity(nc >= 1, "[string*, (as|identifier)?, statements]"); e == nil {
				e = kind(nc-1, parser.NodeSTATEMENTS)
				for i := 0; i < nc-1 && e == nil; i++ {
					if i == nc-2 {
						e = kind(i, parser.NodeSTRING, parser.NodeAS, parser.NodeIDENTIFIER)
					} else {
						e = kind(i, parser.NodeSTRING)
					}
				}
			}
		case n.Name == parser.NodeMUTEX:
			// rt_statements.go:676 Children[0].Token.Val, :731 Children[1]
			if e = arity(nc == 2, "[identifier, statements]"); e == nil {
				if e = kind(0, parser.NodeIDENTIFIER); e == nil {
					e = kind(1, parser.NodeSTATEMENTS)
				}
			}
		case n.Name == parser.NodeFUNC:
			// rt_func.go:101,135-139: Children[0].Name, Children[0+off].Children, Children[1+off]
			if e = arity(nc == 2 || nc == 3, "[identifier?, params, statements]"); e == nil {
				off := 0
				if nc == 3 {
					e = kind(0, parser.NodeIDENTIFIER)
					off = 1
				}
				if e == nil {
					if e = kind(off, parser.NodePARAMS); e == nil {
						e = kind(off+1, parser.NodeSTATEMENTS)
					}
				}
			}
		case n.Name == parser.NodeSINK:
			// rt_sink.go:48,171,175: Children[0].Token.Val, Children[1:]; body = last statements child
			if e = arity(nc >= 2, "[identifier, attributes..., statements]"); e == nil {
				if e = kind(0, parser.NodeIDENTIFIER); e == nil {
					e = kind(nc-1, parser.NodeSTATEMENTS)
				}
			}
		case n.Name == parser.NodeMAP:
			// rt_value.go:163-164: kvp.Children[0], kvp.Children[1] for EVERY child of a map
			for i, c := range n.Children {
				if len(c.Children) < 2 {
					if st != nil {
						st.mapEntryNotPair = true
					}
					if !validated {
						continue
					}
					e = bad("map-entry-shape", path, "map child %d is a %s node with %d children although Validate() accepted the tree; mapValueRuntime.Eval indexes Children[0] and Children[1] of every map child unchecked (children %v)", i, c.Name, len(c.Children), names(n.Children))
					break
				}
			}
		case n.Name == parser.NodeIDENTIFIER:
			// rt_identifier.go:320-340 / prettyprinter.go ppSpecialStatements
			for i := range n.Children {
				if e = kind(i, parser.NodeIDENTIFIER, parser.NodeFUNCCALL, parser.NodeCOMPACCESS); e != nil {
					break
				}
			}
		case n.Name == parser.NodeEOF:
			e = bad("eof-node-in-tree", path, "EOF node inside a returned tree")
		}
		if e != nil {
			return e
		}
		for i := nc - 1; i >= 0; i-- {
			c := n.Children[i]
			stack = append(stack, item{c, n, fmt.Sprintf("%s > %s[%d]", path, c.Name, i), it.depth + 1})
		}
	}
	return nil
}

// runtimesPresent checks that ParseWithRuntime decorated every node (Validate calls
// child.Runtime.Validate() unchecked, rt_general.go:46).
func runtimesPresent(root *parser.ASTNode) *shapeErr {
	stack := []*parser.ASTNode{root}
	for len(stack) > 0 {
		n := stack[len(stack)-1]
		stack = stack[:len(stack)-1]
		if n == nil {
			return bad("nil-node", "runtime tree", "nil node")
		}
		if n.Runtime == nil || (reflect.ValueOf(n.Runtime).Kind() == reflect.Ptr && reflect.ValueOf(n.Runtime).IsNil()) {
			return bad("nil-runtime:"+n.Name, n.Name, "node without runtime component in a tree returned by ParseWithRuntime")
		}
		stack = append(stack, n.Children...)
	}
	return nil
}
