package c07

import (
	"testing"

	"verif/internal/hx"
)

// FuzzParse is the coverage-guided campaign of the thorough tier. Seeds: the corpus and the
// directed inputs (testdata/fuzz/FuzzParse, written by TestGenCorpus). Each fuzz worker is a
// process of its own that runs one input at a time, so the goroutine accounting of runCase
// stays valid (the worker's own service goroutines are constant and never inside the parser).
func FuzzParse(f *testing.F) {
	f.Add([]byte("a := 1"))
	f.Fuzz(func(t *testing.T, b []byte) {
		if len(b) > maxInput {
			t.Skip()
		}
		c := ptr(mkCase("fuzz", string(b)))
		if fl := hx.Handle(c, runMin(c)); fl != nil {
			t.Fatal(fl)
		}
	})
}
