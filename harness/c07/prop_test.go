// C07 — parsing is total: an error or a well-formed tree, and nothing left running.
//
// Domain: (a) random byte strings, (b) token soup over the complete keyword / symbol
// vocabulary, (c) token-level mutations of valid programs (corpus lifted from the
// repository + a generator of nested programs), (d) native FuzzParse (fuzz_test.go).
// Oracle: see runCase. Everything random is in Case; runCase is a pure function of it.
package c07

import (
	_ "embed"
	"encoding/json"
	"fmt"
	"os"
	"runtime"
	"sort"
	"strings"
	"sync"
	"testing"
	"time"
	"unicode/utf8"

	"pgregory.net/rapid"

	"github.com/krotik/ecal/interpreter"
	"github.com/krotik/ecal/parser"

	"verif/internal/hx"
)

const rule = "case = one input string: random bytes | token soup over all keywords+symbols (+identifiers, numbers, strings, comments, lexically broken pieces) | generated nested program | token-level mutation (delete/duplicate/swap/replace token, unbalance brackets, stray ; ) } ] inside blocks, truncation at a token boundary, broken string/comment opener) of a valid program from the corpus (examples/**/*.ecal + snippets of parser/interpreter tests) or from the generator; exhaustive: every truncation of every corpus program, every stray-terminator insertion into the smaller ones, all token sequences up to the tier's length; non-trivial = at least 3 tokens AND (mutation of a valid program OR contains a block keyword together with '{'); distinct by input"

// Case is one parser input.
type Case struct {
	Kind string   `json:"kind"`           // bytes | soup | gen | mut | directed | fuzz
	Src  string   `json:"src,omitempty"`  // the input when it is valid UTF-8
	Raw  []byte   `json:"raw,omitempty"`  // the input otherwise (base64 in JSON)
	Base string   `json:"base,omitempty"` // informational: which valid program was mutated
	Ops  []string `json:"ops,omitempty"`  // informational: the mutations applied
}

func (c Case) input() string {
	if c.Raw != nil {
		return string(c.Raw)
	}
	return c.Src
}

func mkCase(kind, in string) Case {
	if utf8.ValidString(in) {
		return Case{Kind: kind, Src: in}
	}
	return Case{Kind: kind, Raw: []byte(in)}
}

const (
	maxInput  = 16 << 10 // size bound of the domain (bytes)
	srcName   = "c07"
	hangTicks = 20 // watchdog ticks (1 s each, counted by the watchdog itself) before a call is declared hanging
)

//go:embed testdata/corpus.json
var corpusJSON []byte

var (
	corpus []string // valid programs, shortest first
	erp    *interpreter.ECALRuntimeProvider
)

func TestMain(m *testing.M) {
	if err := json.Unmarshal(corpusJSON, &corpus); err != nil {
		panic(err)
	}
	sort.SliceStable(corpus, func(i, j int) bool {
		if len(corpus[i]) != len(corpus[j]) {
			return len(corpus[i]) < len(corpus[j])
		}
		return corpus[i] < corpus[j]
	})
	// One runtime provider per process: ParseWithRuntime and Validate only build and check
	// runtime components, they do not touch the provider's state. Its cron thread is stopped
	// right away so that the process runs nothing but the test goroutine and the watchdog.
	erp = interpreter.NewECALRuntimeProvider(srcName, nil, nil)
	go erp.Cron.Stop() // detached: never wait for it
	go watchdog()
	hx.Main(m, "C07", rule)
}

// ---------------------------------------------------------------------------------------
// hang detector: the case in flight is published; a single long-lived goroutine counts its
// own 1 s ticks while the same case stays in flight. Counting ticks (not wall clock
// differences) means a stopped or starved process does not produce a verdict.

var wd struct {
	sync.Mutex
	seq  uint64
	cur  *Case
	what string
}

func wdBegin(c *Case, what string) {
	wd.Lock()
	wd.seq++
	wd.cur = c
	wd.what = what
	wd.Unlock()
}

func wdEnd() {
	wd.Lock()
	wd.seq++
	wd.cur = nil
	wd.Unlock()
}

func watchdog() {
	tk := time.NewTicker(time.Second)
	var last uint64
	ticks := 0
	for range tk.C {
		wd.Lock()
		seq, cur, what := wd.seq, wd.cur, wd.what
		wd.Unlock()
		if cur == nil || seq != last {
			last, ticks = seq, 0
			continue
		}
		ticks++
		if ticks < hangTicks {
			continue
		}
		buf := make([]byte, 1<<20)
		buf = buf[:runtime.Stack(buf, true)]
		f := hx.Failf("hang:"+what, "%s did not return within %d s on a %d byte input %q\n%s", what, hangTicks, len(cur.input()), clip(cur.input(), 300), parserGoroutines(string(buf), true))
		if hx.Handle(*cur, f) != nil {
			fmt.Printf("VIOLATION C07: %s\n", f)
		} else {
			fmt.Printf("C07: known finding, cannot continue: %s\n", f)
		}
		os.Exit(1)
	}
}

// ---------------------------------------------------------------------------------------
// goroutine accounting

// settle returns the goroutine count once two consecutive reads agree.
func settle() int {
	n := runtime.NumGoroutine()
	for i := 0; i < 200; i++ {
		if i < 20 {
			runtime.Gosched()
		} else {
			time.Sleep(200 * time.Microsecond)
		}
		m := runtime.NumGoroutine()
		if m == n {
			return n
		}
		n = m
	}
	return n
}

// waitDown polls (<= 100 ms) until the goroutine count is back at or below limit.
func waitDown(limit int) bool {
	t0 := time.Now()
	for i := 0; runtime.NumGoroutine() > limit; i++ {
		if time.Since(t0) > 100*time.Millisecond {
			return false
		}
		if i < 50 {
			runtime.Gosched()
		} else {
			time.Sleep(500 * time.Microsecond)
		}
	}
	return true
}

// parserGoroutines extracts from a runtime.Stack(all) dump the goroutines which are inside
// the parser package. With all=false only those blocked in a channel send are returned:
// after Parse has returned nobody holds the receiving end any more, so that state is final
// (a goroutine which is merely slow to exit is runnable/running instead) — the bound of
// waitDown alone never makes a verdict.
func parserGoroutines(dump string, all bool) string {
	var out []string
	for _, g := range strings.Split(dump, "\n\n") {
		if !strings.Contains(g, "github.com/krotik/ecal/parser.") {
			continue
		}
		lines := strings.Split(g, "\n")
		if len(lines) < 3 {
			continue
		}
		if !all && !strings.Contains(lines[0], "[chan send") {
			continue
		}
		// header, top function, its file:line, and who created it
		desc := lines[0]
		top := ""
		for i := 1; i+1 < len(lines); i += 2 {
			if strings.Contains(lines[i], "github.com/krotik/ecal/") {
				top = strings.TrimSpace(lines[i]) + " @ " + strings.TrimSpace(lines[i+1])
				break
			}
		}
		created := ""
		for i, l := range lines {
			if strings.HasPrefix(l, "created by ") && i+1 < len(lines) {
				created = " (" + l + ")"
			}
		}
		out = append(out, desc+" "+top+created)
	}
	if len(out) > 4 {
		out = append(out[:4], fmt.Sprintf("... %d more", len(out)-4))
	}
	return strings.Join(out, "\n")
}

// ---------------------------------------------------------------------------------------
// oracle

var errTypes = map[error]string{
	parser.ErrUnexpectedEnd:            "unexpected_end",
	parser.ErrLexicalError:             "lexical",
	parser.ErrUnknownToken:             "unknown_term",
	parser.ErrImpossibleNullDenotation: "cannot_start",
	parser.ErrImpossibleLeftDenotation: "can_only_start",
	parser.ErrUnexpectedToken:          "unexpected_term",
}

var blockKeywords = map[parser.LexTokenID]bool{parser.TokenIF: true, parser.TokenFOR: true, parser.TokenTRY: true,
	parser.TokenFUNC: true, parser.TokenSINK: true, parser.TokenMUTEX: true}

func clip(s string, n int) string {
	if len(s) > n {
		return s[:n] + fmt.Sprintf("...(%d bytes)", len(s))
	}
	return s
}

func bucket(n int) string {
	switch {
	case n < 3:
		return "0-2"
	case n < 10:
		return "3-9"
	case n < 40:
		return "10-39"
	case n < 200:
		return "40-199"
	}
	return "200+"
}

// quiet: runCase is being re-executed by the minimiser; nothing is recorded as evidence.
var quiet bool

func evClass(name string) {
	if !quiet {
		hx.E.Class(name, 1)
	}
}

func evExclude(reason string) {
	if !quiet {
		hx.E.Exclude(reason)
	}
}

func runCase(c Case) *hx.Failure {
	in := c.input()
	if len(in) > maxInput {
		evExclude("beyond-size-bound")
		return nil
	}
	defer wdEnd()

	// --- the call under test, on this goroutine, with goroutine accounting around it
	before := settle()
	var tree *parser.ASTNode
	var err error
	wdBegin(&c, "parser.Parse")
	pfail := hx.Guard(func() { tree, err = parser.Parse(srcName, in) })
	leak := ""
	if !waitDown(before) {
		buf := make([]byte, 1<<20)
		buf = buf[:runtime.Stack(buf, true)]
		if leak = parserGoroutines(string(buf), false); leak == "" {
			// something else appeared (not a goroutine of the parser blocked for good): not a verdict
			evClass("goroutines.foreign_or_transient_increase")
		}
	}

	// --- classification (evidence), after the measurement so the harness' own lexer run does not disturb it
	wdBegin(&c, "parser.LexToList")
	var toks []parser.LexToken
	lfail := hx.Guard(func() { toks = parser.LexToList(srcName, in) })
	ntok, hasKw, hasBrace, lexErr := 0, false, false, false
	for _, t := range toks {
		switch {
		case t.ID == parser.TokenEOF:
		case t.ID == parser.TokenError:
			lexErr = true
		default:
			ntok++
			if blockKeywords[t.ID] {
				hasKw = true
			}
			if t.ID == parser.TokenLBRACE {
				hasBrace = true
			}
		}
	}
	hasBlock := hasKw && hasBrace
	nontrivial := ntok >= 3 && (c.Kind == "mut" || hasBlock)
	classes := []string{"kind." + c.Kind, "tokens." + bucket(ntok)}
	if hasBlock {
		classes = append(classes, "has_block")
	}
	if lexErr {
		classes = append(classes, "lexer_error_token")
	}
	if !utf8.ValidString(in) {
		classes = append(classes, "invalid_utf8")
	}
	outcome := "panic"
	var pe *parser.Error
	if pfail == nil {
		switch {
		case tree != nil && err != nil:
			outcome = "tree_and_error"
		case tree == nil && err == nil:
			outcome = "neither"
		case err != nil:
			outcome = "error.other"
			if e, ok := err.(*parser.Error); ok && e != nil {
				pe = e
				if n, ok := errTypes[e.Type]; ok {
					outcome = "error." + n
				}
			}
		default:
			outcome = "tree"
		}
	}
	classes = append(classes, "outcome."+outcome)
	if c.Kind == "mut" || c.Kind == "gen" {
		classes = append(classes, "outcome_of."+c.Kind+"."+strings.SplitN(outcome, ".", 2)[0])
	}
	var ts treeStats
	var shape *shapeErr
	if pfail == nil && tree != nil {
		ts.kinds = map[string]bool{}
		shape = wellFormedStats(tree, &ts, false)
		classes = append(classes, "tree.depth."+bucket(ts.depth))
		if ts.mapEntryNotPair {
			classes = append(classes, "tree.map_entry_not_a_pair")
		}
		for _, k := range []string{parser.NodeIF, parser.NodeLOOP, parser.NodeTRY, parser.NodeFUNC, parser.NodeSINK, parser.NodeMUTEX, parser.NodeIMPORT, parser.NodeMAP, parser.NodeLIST} {
			if ts.kinds[k] {
				classes = append(classes, "tree.has."+k)
			}
		}
	}
	if !quiet {
		hx.E.Case(nontrivial, in, classes...)
	}
	if nontrivial && !quiet {
		hx.E.Sample(in, map[string]interface{}{"kind": c.Kind, "input": clip(in, 240), "tokens": ntok, "outcome": outcome, "ops": c.Ops})
	}

	// --- verdicts
	if pfail != nil {
		pfail.Msg = fmt.Sprintf("parser.Parse(%q): %s", clip(in, 300), pfail.Msg)
		return pfail
	}
	if lfail != nil {
		lfail.Msg = fmt.Sprintf("parser.LexToList(%q): %s", clip(in, 300), lfail.Msg)
		return lfail
	}
	switch outcome {
	case "tree_and_error":
		return hx.Failf("tree-and-error", "Parse(%q) returned an error AND a tree: err=%v; tree=%s", clip(in, 300), err, describe(tree))
	case "neither":
		return hx.Failf("no-tree-no-error", "Parse(%q) returned neither a tree nor an error", clip(in, 300))
	}
	if err != nil {
		if f := checkError(in, err, pe); f != nil {
			return f
		}
		// the same input once more: nothing of the failed parse may be left behind (same error again)
		wdBegin(&c, "parser.Parse (again)")
		var tree2 *parser.ASTNode
		var err2 error
		if f := hx.Guard(func() { tree2, err2 = parser.Parse(srcName, in) }); f != nil {
			f.Msg = fmt.Sprintf("second parser.Parse(%q): %s", clip(in, 300), f.Msg)
			f.Sig = "again:" + f.Sig
			return f
		}
		if tree2 != nil || err2 == nil || err2.Error() != err.Error() {
			return hx.Failf("again:different-outcome", "Parse(%q) failed with %q; parsing the same text again gives tree=%v err=%v", clip(in, 300), err, tree2 != nil, err2)
		}
	} else {
		if shape != nil {
			return hx.Failf(shape.sig, "Parse(%q) returned no error and a malformed tree: %s", clip(in, 300), shape.msg)
		}
		// the operational form: the walkers do not panic on a returned tree
		wdBegin(&c, "parser.PrettyPrint")
		if f := hx.Guard(func() { parser.PrettyPrint(tree) }); f != nil {
			f.Msg = fmt.Sprintf("PrettyPrint of the tree returned by Parse(%q): %s", clip(in, 300), f.Msg)
			return f
		}
		wdBegin(&c, "parser.ParseWithRuntime")
		var rtree *parser.ASTNode
		var rerr error
		if f := hx.Guard(func() { rtree, rerr = parser.ParseWithRuntime(srcName, in, erp) }); f != nil {
			f.Msg = fmt.Sprintf("ParseWithRuntime(%q): %s", clip(in, 300), f.Msg)
			return f
		}
		if rerr != nil || rtree == nil || rtree.String() != tree.String() {
			return hx.Failf("again:different-outcome", "Parse(%q) returned a tree; parsing the same text again (with a runtime provider) gives err=%v and %s", clip(in, 300), rerr, map[bool]string{true: "another tree", false: "no tree"}[rtree != nil])
		}
		if rerr == nil && rtree != nil {
			if s := wellFormed(rtree, false); s != nil {
				return hx.Failf(s.sig, "ParseWithRuntime(%q) returned no error and a malformed tree: %s", clip(in, 300), s.msg)
			}
			if s := runtimesPresent(rtree); s != nil {
				return hx.Failf(s.sig, "ParseWithRuntime(%q): %s", clip(in, 300), s.msg)
			}
			wdBegin(&c, "Runtime.Validate")
			var verr error
			if f := hx.Guard(func() { verr = rtree.Runtime.Validate() }); f != nil {
				f.Msg = fmt.Sprintf("Validate() of the tree returned by ParseWithRuntime(%q): %s", clip(in, 300), f.Msg)
				return f
			}
			if verr != nil {
				evClass("validate.error")
			} else {
				evClass("validate.ok")
				if s := wellFormed(rtree, true); s != nil {
					return hx.Failf(s.sig, "ParseWithRuntime(%q) + Validate() returned no error for a tree which evaluation cannot walk: %s", clip(in, 300), s.msg)
				}
			}
		} else {
			// same input, different verdict: purity is C13's subject, only counted here
			evClass("parse_with_runtime_differs")
		}
	}
	if leak != "" {
		return hx.Failf("goroutine-leak", "after Parse(%q) returned (%s) a goroutine of the parser is still blocked: %d goroutines before the call, %d after polling 100 ms\n%s",
			clip(in, 300), outcome, before, runtime.NumGoroutine(), leak)
	}
	// let the goroutines of the harness' own lexer / parser runs finish before the next case measures
	waitDown(before)
	return nil
}

func describe(n *parser.ASTNode) string {
	s := ""
	if f := hx.Guard(func() { s = n.String() }); f != nil {
		return "(tree with a nil node: String() panics)"
	}
	return clip(strings.ReplaceAll(s, "\n", "|"), 200)
}

// checkError: a *parser.Error of a documented type, positioned inside the input.
// Exact positions are C18's subject; here only "inside the input": 1 <= line <= number of
// lines, 1 <= column <= input length + 1. "Unexpected end" may be unpositioned (line 0);
// when it carries the position of the EOF token only the line is checked (the column of
// the EOF token is derived from the previous token's start, see C18).
func checkError(in string, err error, pe *parser.Error) *hx.Failure {
	if pe == nil {
		return hx.Failf("error-not-parser-error", "Parse(%q) returned an error of type %T: %v", clip(in, 300), err, err)
	}
	tn, ok := errTypes[pe.Type]
	if !ok {
		return hx.Failf("error-undocumented-type", "Parse(%q) returned a parser.Error with undocumented type %v", clip(in, 300), pe.Type)
	}
	if pe.Source != srcName {
		return hx.Failf("error-wrong-source", "Parse(%q) error names source %q instead of %q", clip(in, 300), pe.Source, srcName)
	}
	lines := strings.Count(in, "\n") + 1
	if pe.Line == 0 {
		if pe.Type != parser.ErrUnexpectedEnd {
			return hx.Failf("error-unpositioned:"+tn, "Parse(%q) returned an unpositioned error: %v", clip(in, 300), err)
		}
		evClass("error.unpositioned_unexpected_end")
		return nil
	}
	if pe.Line < 1 || pe.Line > lines {
		return hx.Failf("error-line-outside-input:"+tn, "Parse(%q): error line %d, input has %d line(s): %v", clip(in, 300), pe.Line, lines, err)
	}
	if pe.Type == parser.ErrUnexpectedEnd && pe.Detail == "" {
		if pe.Pos < 1 {
			evClass("error.eof_token_column_below_1(C18)")
		}
		return nil
	}
	if pe.Pos < 1 || pe.Pos > len(in)+1 {
		return hx.Failf("error-column-outside-input:"+tn, "Parse(%q): error column %d (line %d), input has %d bytes: %v", clip(in, 300), pe.Pos, pe.Line, len(in), err)
	}
	return nil
}

// ---------------------------------------------------------------------------------------
// vocabulary

var (
	vocabFixed []string // every keyword and every symbol
	vocabVals  = []string{"a", "b", "foo", "x1", "Ab", "0", "1", "42", "1.5", "1e+3", "007", `"s"`, `'q'`, `r"raw"`, `"{{a}}"`, "\"two\nlines\"", `""`}
	vocabTriv  = []string{"# c\n", "/* c */", "/* m\nl */"}
	vocabBad   = []string{`"`, `'`, `r"`, "/*", "1a", "_", "@", "\xff", `"\x"`, "a_b", "1.2.3", "\x00", "\x7f", "é"}
	seps       = []string{" ", " ", " ", " ", "", "\n", "\n", "\t", " \n  ", "\r\n"}
	strays     = []string{";", ")", "}", "]"}
	brackets   = []string{"(", ")", "[", "]", "{", "}"}
)

func init() {
	for k := range parser.KeywordMap {
		vocabFixed = append(vocabFixed, k)
	}
	for k := range parser.SymbolMap {
		vocabFixed = append(vocabFixed, k)
	}
	sort.Strings(vocabFixed)
}

// ---------------------------------------------------------------------------------------
// tokenisation for mutation (generator side)

type tokenised struct {
	prefix string
	segs   []string // lexeme + the white space that follows it
	ids    []parser.LexTokenID
}

var tokCache = map[string]*tokenised{}

// tokenise splits src at token boundaries using the lexer's byte offsets. Returns nil if
// the offsets are unusable (then the caller mutates bytes instead).
func tokenise(src string) (res *tokenised) {
	if t, ok := tokCache[src]; ok {
		return t
	}
	defer func() {
		if r := recover(); r != nil {
			res = nil
		}
		if len(src) < 8192 && len(tokCache) < 4096 {
			tokCache[src] = res
		}
	}()
	toks := parser.LexToList(srcName, src)
	var starts []int
	var ids []parser.LexTokenID
	for _, t := range toks {
		if t.ID == parser.TokenEOF {
			continue
		}
		s := t.Pos
		switch t.ID { // the lexer starts comment tokens after the opener
		case parser.TokenPRECOMMENT:
			s -= 2
		case parser.TokenPOSTCOMMENT:
			s--
		}
		if s < 0 || s >= len(src) || (len(starts) > 0 && s <= starts[len(starts)-1]) {
			return nil
		}
		starts = append(starts, s)
		ids = append(ids, t.ID)
	}
	if len(starts) == 0 {
		return nil
	}
	res = &tokenised{prefix: src[:starts[0]], ids: ids}
	for i, s := range starts {
		e := len(src)
		if i+1 < len(starts) {
			e = starts[i+1]
		}
		res.segs = append(res.segs, src[s:e])
	}
	return res
}

func (t *tokenised) join(segs []string) string {
	return t.prefix + strings.Join(segs, "")
}

// isValid: the base of a mutation must be a valid program (generator side, never a verdict).
func isValid(src string) (ok bool) {
	defer func() {
		if recover() != nil {
			ok = false
		}
	}()
	n, err := parser.Parse(srcName, src)
	return err == nil && n != nil && wellFormed(n, false) == nil
}

// ---------------------------------------------------------------------------------------
// generators

func drawBytes(rt *rapid.T) Case {
	n := rapid.IntRange(0, 48).Draw(rt, "n")
	var sb strings.Builder
	for i := 0; i < n; i++ {
		switch rapid.IntRange(0, 9).Draw(rt, "bk") {
		case 0, 1, 2:
			sb.WriteByte(rapid.Byte().Draw(rt, "byte"))
		case 3, 4, 5:
			sb.WriteString(rapid.SampledFrom([]string{"(", ")", "[", "]", "{", "}", ";", ",", ".", ":", "=", "\"", "'", "#", "/", "*", "\\", "+", "-", "<", ">", "!", "%", " ", "\n", "r"}).Draw(rt, "punct"))
		case 6:
			sb.WriteString(rapid.SampledFrom([]string{"\x00", "\x01", "\x1b", "\x7f", "\r", "\t", "\v", "\f", "\x85", "\xa0", "\xc0", "\xff", "\xed\xa0\x80", "\xf4\x90\x80\x80", "\xe2\x80\xa8", "\u2028", "\ufeff", "é", "日", "😀", "\xc3"}).Draw(rt, "odd"))
		case 7:
			sb.WriteString(rapid.SampledFrom(vocabFixed).Draw(rt, "word"))
		default:
			sb.WriteByte("abcxyzABC0123456789"[rapid.IntRange(0, 18).Draw(rt, "alnum")])
		}
	}
	return mkCase("bytes", sb.String())
}

func drawPiece(rt *rapid.T) string {
	switch k := rapid.IntRange(0, 19).Draw(rt, "pk"); {
	case k < 11:
		return rapid.SampledFrom(vocabFixed).Draw(rt, "fixed")
	case k < 17:
		return rapid.SampledFrom(vocabVals).Draw(rt, "val")
	case k < 18:
		return rapid.SampledFrom(vocabTriv).Draw(rt, "triv")
	default:
		return rapid.SampledFrom(vocabBad).Draw(rt, "bad")
	}
}

func drawSoup(rt *rapid.T) Case {
	n := rapid.IntRange(1, 24).Draw(rt, "n")
	var sb strings.Builder
	for i := 0; i < n; i++ {
		sb.WriteString(drawPiece(rt))
		sb.WriteString(rapid.SampledFrom(seps).Draw(rt, "sep"))
	}
	return mkCase("soup", sb.String())
}

// --- generator of nested valid programs

type pgen struct {
	rt    *rapid.T
	noMap bool // inside the guard of if/elif/for a '{' starts the block, map literals cannot occur there
}

func (g *pgen) guard(d int) string {
	g.noMap = true
	defer func() { g.noMap = false }()
	return g.expr(d)
}

var (
	idents = []string{"a", "b", "c", "x", "foo", "item", "idx"}
	binops = []string{"+", "-", "*", "/", "//", "%", "==", "!=", "<", ">", "<=", ">=", "and", "or", "like", "in", "notin", "hasprefix", "hassuffix"}
)

func (g *pgen) pick(label string, n int) int { return rapid.IntRange(0, n-1).Draw(g.rt, label) }
func (g *pgen) ident() string                { return idents[g.pick("id", len(idents))] }

func (g *pgen) atom() string {
	switch g.pick("atom", 9) {
	case 0:
		return []string{"0", "1", "2", "42", "1.5"}[g.pick("num", 5)]
	case 1:
		return []string{`"s"`, `'q'`, `r"raw"`, `"a{{b}}"`, `""`}[g.pick("str", 5)]
	case 2:
		return []string{"true", "false", "null"}[g.pick("const", 3)]
	case 3:
		return g.ident() + "." + g.ident()
	case 4:
		return g.ident() + "(" + g.ident() + ", 1)"
	default:
		return g.ident()
	}
}

func (g *pgen) expr(d int) string {
	if d <= 0 {
		return g.atom()
	}
	switch g.pick("expr", 12) {
	case 0, 1, 2:
		return g.expr(d-1) + " " + binops[g.pick("op", len(binops))] + " " + g.expr(d-1)
	case 3:
		return "(" + g.expr(d-1) + " " + binops[g.pick("op", len(binops))] + " " + g.expr(d-1) + ")"
	case 4:
		return []string{"not ", "-", "+"}[g.pick("pre", 3)] + g.expr(d-1)
	case 5:
		n := g.pick("ln", 4)
		var el []string
		for i := 0; i < n; i++ {
			el = append(el, g.expr(d-1))
		}
		return "[" + strings.Join(el, ", ") + "]"
	case 6:
		if g.noMap {
			return g.atom()
		}
		n := g.pick("mn", 3)
		var el []string
		for i := 0; i < n; i++ {
			el = append(el, g.atom()+" : "+g.expr(d-1))
		}
		return "{" + strings.Join(el, ", ") + "}"
	case 7:
		return g.ident() + "[" + g.expr(d-1) + "]"
	case 8:
		n := g.pick("an", 3)
		var el []string
		for i := 0; i < n; i++ {
			el = append(el, g.expr(d-1))
		}
		return g.ident() + "." + g.ident() + "(" + strings.Join(el, ", ") + ")"
	case 9:
		return g.ident() + "[" + g.atom() + "]." + g.ident() + "(" + g.atom() + ")[0]"
	default:
		return g.atom()
	}
}

func (g *pgen) params() string {
	n := g.pick("pn", 4)
	var ps []string
	for i := 0; i < n; i++ {
		p := idents[i]
		if g.pick("preset", 3) == 0 {
			p += "=" + g.atom()
		}
		ps = append(ps, p)
	}
	return "(" + strings.Join(ps, ", ") + ")"
}

// block prints `{ ... }` with n statements; one-line form for small blocks sometimes.
func (g *pgen) block(d int, ind string) string {
	n := g.pick("bn", 4)
	if n == 0 {
		return []string{"{}", "{\n" + ind + "}", "{ }"}[g.pick("empty", 3)]
	}
	if d <= 0 && n <= 2 && g.pick("oneline", 3) == 0 {
		var ss []string
		for i := 0; i < n; i++ {
			ss = append(ss, g.simple())
		}
		return "{ " + strings.Join(ss, "; ") + " }"
	}
	var sb strings.Builder
	sb.WriteString("{\n")
	for i := 0; i < n; i++ {
		sb.WriteString(ind + "    " + g.stmt(d-1, ind+"    ") + "\n")
	}
	sb.WriteString(ind + "}")
	return sb.String()
}

// simple statements that may be followed by `;` or `}` on the same line
func (g *pgen) simple() string {
	switch g.pick("simple", 7) {
	case 0:
		return "let " + g.ident() + " := " + g.expr(1)
	case 1:
		return g.ident() + "(" + g.expr(1) + ")"
	case 2:
		return "[" + g.ident() + ", " + g.ident() + "] := " + g.expr(1)
	case 3:
		return g.ident() + "." + g.ident() + " := " + g.expr(1)
	case 4:
		return "return " + g.expr(1)
	default:
		return g.ident() + " := " + g.expr(2)
	}
}

func (g *pgen) stmt(d int, ind string) string {
	if d <= 0 {
		if g.pick("leaf", 8) == 0 {
			return []string{"break", "continue", "return"}[g.pick("ctl", 3)]
		}
		return g.simple()
	}
	switch g.pick("stmt", 14) {
	case 0, 1:
		s := "if " + g.guard(1) + " " + g.block(d, ind)
		for i, n := 0, g.pick("elifs", 3); i < n; i++ {
			s += " elif " + g.guard(1) + " " + g.block(d, ind)
		}
		if g.pick("else", 2) == 0 {
			s += " else " + g.block(d, ind)
		}
		return s
	case 2:
		return "for " + g.guard(1) + " " + g.block(d, ind)
	case 3:
		return "for " + g.ident() + " in range(1, " + g.atom() + ") " + g.block(d, ind)
	case 4:
		return "for [" + g.ident() + ", " + g.ident() + "] in " + g.guard(1) + " " + g.block(d, ind)
	case 5, 6:
		s := "try " + g.block(d, ind)
		for i, n := 0, g.pick("excepts", 3); i < n; i++ {
			switch g.pick("exc", 5) {
			case 0:
				s += " except " + g.block(d, ind)
			case 1:
				s += " except " + g.ident() + " " + g.block(d, ind)
			case 2:
				s += ` except "e1" ` + g.block(d, ind)
			case 3:
				s += ` except "e1", "e2" as ` + g.ident() + " " + g.block(d, ind)
			default:
				s += ` except "e1" as ` + g.ident() + " " + g.block(d, ind)
			}
		}
		if g.pick("otherwise", 3) == 0 {
			s += " otherwise " + g.block(d, ind)
		}
		if g.pick("finally", 2) == 0 {
			s += " finally " + g.block(d, ind)
		}
		return s
	case 7:
		return "func " + g.ident() + g.params() + " " + g.block(d, ind)
	case 8:
		return g.ident() + " := func " + g.params() + " " + g.block(d, ind)
	case 9:
		var sb strings.Builder
		sb.WriteString("sink " + g.ident())
		attrs := []string{"kindmatch [ \"a.b\", \"c.*\" ]", "scopematch [ \"data.read\" ]", "statematch { \"k\" : 1, \"n\" : null }", "priority 5", "suppresses [ \"other\" ]"}
		nl := g.pick("sinknl", 2) == 0
		for _, a := range attrs {
			if g.pick("attr", 2) == 0 {
				if nl {
					sb.WriteString("\n" + ind + "    " + a)
				} else {
					sb.WriteString(" " + a)
				}
				if g.pick("attrcomma", 3) == 0 {
					sb.WriteString(",")
				}
			}
		}
		if nl {
			sb.WriteString("\n" + ind)
		} else {
			sb.WriteString(" ")
		}
		sb.WriteString(g.block(d, ind))
		return sb.String()
	case 10:
		return "mutex " + g.ident() + " " + g.block(d, ind)
	case 11:
		return `import "lib/` + g.ident() + `.ecal" as ` + g.ident()
	case 12:
		return []string{"# note\n" + ind, "/* note */ ", "/*\n note\n*/\n" + ind}[g.pick("cmt", 3)] + g.simple()
	default:
		return g.simple()
	}
}

func (g *pgen) program() string {
	n := rapid.IntRange(1, 5).Draw(g.rt, "stmts")
	d := rapid.IntRange(1, 4).Draw(g.rt, "depth")
	var sb strings.Builder
	for i := 0; i < n; i++ {
		sb.WriteString(g.stmt(d, ""))
		if i+1 < n {
			if g.pick("topsep", 6) == 0 {
				sb.WriteString("; ")
			} else {
				sb.WriteString("\n")
			}
		}
	}
	if g.pick("trailnl", 2) == 0 {
		sb.WriteString("\n")
	}
	return sb.String()
}

func drawGen(rt *rapid.T) Case {
	return mkCase("gen", (&pgen{rt: rt}).program())
}

// --- mutations

func drawMutation(rt *rapid.T, base, baseName string) Case {
	tk := tokenise(base)
	if tk == nil || len(tk.segs) == 0 {
		// byte-level fallback
		b := []byte(base)
		i := rapid.IntRange(0, len(b)).Draw(rt, "cut")
		c := mkCase("mut", string(b[:i]))
		c.Base, c.Ops = baseName, []string{fmt.Sprintf("bytecut@%d", i)}
		return c
	}
	segs := append([]string{}, tk.segs...)
	ids := append([]parser.LexTokenID{}, tk.ids...)
	var ops []string
	insert := func(i int, s string) {
		segs = append(segs[:i], append([]string{s}, segs[i:]...)...)
		ids = append(ids[:i], append([]parser.LexTokenID{parser.TokenANY}, ids[i:]...)...)
	}
	remove := func(i int) {
		segs = append(segs[:i], segs[i+1:]...)
		ids = append(ids[:i], ids[i+1:]...)
	}
	pad := func(s string) string {
		return []string{s, s + " ", " " + s + " ", s + "\n"}[rapid.IntRange(0, 3).Draw(rt, "pad")]
	}
	nops := rapid.IntRange(1, 3).Draw(rt, "nops")
	for k := 0; k < nops && len(segs) > 0; k++ {
		switch op := rapid.IntRange(0, 10).Draw(rt, "op"); op {
		case 0: // delete
			i := rapid.IntRange(0, len(segs)-1).Draw(rt, "i")
			ops = append(ops, fmt.Sprintf("del@%d", i))
			remove(i)
		case 1: // duplicate
			i := rapid.IntRange(0, len(segs)-1).Draw(rt, "i")
			ops = append(ops, fmt.Sprintf("dup@%d", i))
			insert(i, segs[i])
		case 2: // swap with a neighbour or a random one
			i := rapid.IntRange(0, len(segs)-1).Draw(rt, "i")
			j := i + 1
			if rapid.Bool().Draw(rt, "far") {
				j = rapid.IntRange(0, len(segs)-1).Draw(rt, "j")
			}
			if j < len(segs) {
				ops = append(ops, fmt.Sprintf("swap@%d,%d", i, j))
				segs[i], segs[j] = segs[j], segs[i]
				ids[i], ids[j] = ids[j], ids[i]
			}
		case 3, 4: // stray terminator inside a block (between the first '{' and the last '}' if there is one)
			lo, hi := 0, len(segs)
			for i, id := range ids {
				if id == parser.TokenLBRACE {
					lo = i + 1
					break
				}
			}
			for i := len(ids) - 1; i >= lo; i-- {
				if ids[i] == parser.TokenRBRACE {
					hi = i
					break
				}
			}
			i := rapid.IntRange(lo, hi).Draw(rt, "i")
			s := rapid.SampledFrom(strays).Draw(rt, "stray")
			ops = append(ops, fmt.Sprintf("stray@%d:%s", i, s))
			insert(i, pad(s))
		case 5: // unbalance: drop, flip or add a bracket
			var br []int
			for i, s := range segs {
				if t := strings.TrimSpace(s); len(t) == 1 && strings.Contains("()[]{}", t) {
					br = append(br, i)
				}
			}
			mode := rapid.IntRange(0, 2).Draw(rt, "unb")
			if len(br) == 0 || mode == 2 {
				i := rapid.IntRange(0, len(segs)).Draw(rt, "i")
				s := rapid.SampledFrom(brackets).Draw(rt, "br")
				ops = append(ops, fmt.Sprintf("addbr@%d:%s", i, s))
				insert(i, pad(s))
			} else {
				i := br[rapid.IntRange(0, len(br)-1).Draw(rt, "bi")]
				if mode == 0 {
					ops = append(ops, fmt.Sprintf("delbr@%d", i))
					remove(i)
				} else {
					s := rapid.SampledFrom(brackets).Draw(rt, "br")
					ops = append(ops, fmt.Sprintf("flipbr@%d:%s", i, s))
					segs[i] = strings.Replace(segs[i], strings.TrimSpace(segs[i]), s, 1)
				}
			}
		case 6: // truncate at a token boundary
			i := rapid.IntRange(0, len(segs)).Draw(rt, "i")
			ops = append(ops, fmt.Sprintf("trunc@%d", i))
			segs, ids = segs[:i], ids[:i]
		case 7: // replace a token by a vocabulary piece
			i := rapid.IntRange(0, len(segs)-1).Draw(rt, "i")
			p := drawPiece(rt)
			ops = append(ops, fmt.Sprintf("repl@%d:%q", i, p))
			segs[i] = p + " "
			ids[i] = parser.TokenANY
		case 8: // insert a vocabulary piece
			i := rapid.IntRange(0, len(segs)).Draw(rt, "i")
			p := drawPiece(rt)
			ops = append(ops, fmt.Sprintf("ins@%d:%q", i, p))
			insert(i, p+" ")
		case 9: // break the lexing from a token on: unterminated string / comment, broken identifier
			i := rapid.IntRange(0, len(segs)).Draw(rt, "i")
			p := rapid.SampledFrom(vocabBad).Draw(rt, "bad")
			ops = append(ops, fmt.Sprintf("lexbreak@%d:%q", i, p))
			insert(i, p)
		default: // change the line structure after a token
			i := rapid.IntRange(0, len(segs)-1).Draw(rt, "i")
			t := strings.TrimRight(segs[i], " \t\r\n")
			ws := rapid.SampledFrom([]string{" ", "\n", "", "\n\n", " # c\n", " /* c */ "}).Draw(rt, "ws")
			ops = append(ops, fmt.Sprintf("ws@%d:%q", i, ws))
			segs[i] = t + ws
		}
	}
	c := mkCase("mut", tk.prefix+strings.Join(segs, ""))
	c.Base, c.Ops = baseName, ops
	return c
}

func drawCase(rt *rapid.T) Case {
	// (rapid favours the low end of a range: the mutations sit there)
	switch k := rapid.IntRange(0, 19).Draw(rt, "kind"); {
	case k < 7 && len(corpus) > 0:
		i := rapid.IntRange(0, len(corpus)-1).Draw(rt, "corpus")
		return drawMutation(rt, corpus[i], fmt.Sprintf("corpus[%d]", i))
	case k < 12:
		base := (&pgen{rt: rt}).program()
		if !isValid(base) {
			// the generator aims at valid programs; what is not valid is still an input
			return mkCase("gen", base)
		}
		return drawMutation(rt, base, "generated")
	case k < 14:
		return drawGen(rt)
	case k < 18:
		return drawSoup(rt)
	default:
		return drawBytes(rt)
	}
}

// ---------------------------------------------------------------------------------------
// tests

// directed inputs: the shapes of DESIGN section 6 and their relatives, plus edge inputs
var directed = []string{
	"", " ", "\n", "a", "a; )", "a\n)", "a ;", "a ; ; b", ";", "; a", "a\n;b",
	"if true { ) ; a }", "if true {\n ) \n a \n}", "for a { ] ; b }", "try { ) ; a } except { }", "try { a } except { ) ; b }",
	"try { a } finally { } ; b }", "func a() { ) ; a }", "f := func () { ; }", "mutex a { ) ; b }", "sink a kindmatch [1] { ) ; b }",
	"if a { b } elif c { ) ; d } else { e }", "if a { if b { ) ; c } }", "if a { b; }", "if a { ; }", "if a { b ; ; c }",
	`A["0000`, `a;"`, `if a { b ;" }`, `a["`, "a[/*", `a.b["x`, "a[1a", `a(b["`, "x := [1,2", "a b", "a # c\n)",
	"if a {\n  b\n", "(\n", "a := \n", "if a == { { b } {c}", "for a == { { b } {c}", "if a { b } elif c == { { d } {e}",
	"{a}", "{a.b}", "x := {1:2, 3}", "a := {1:2, 3:4}", "a[1", "a.", "a.1", "a(", `import "a" as`, `import "a" as b`, "import a as b",
	"return )", "return", "return 1", "func () {}", "func (1) {}", "func a(b=1, c) { return b }", "\x00", "\xff", "1e", "1e+", "1.2.3",
	"{", "}", "/*", "# c", "/* c */", "/* c */ a # d", "a := 1 # c", "\"unterminated", "'x", "r\"x", "\"\\x\"", "a := \"\xff\"",
	"a := 1; b := 2; c := 3; d := 4; e := 5; f := 6 )", "a )\nb := 1\nc := 2\nd := 3\ne := 4", "a b c d e f g h i j",
	"sink s kindmatch [\"a\"], priority 1 { a := 1 }", "sink s { }", "sink { }", "mutex { }", "mutex a b { }", "for { }", "for a in b { }",
	"for [a, b] in c { break }", "try { } except \"a\", \"b\" as e { } otherwise { } finally { }", "try { } otherwise { } except { }",
	"try { } finally { } finally { }", "try { } except as e { }", "try { } except e f { }", "if { }", "if a { } else { } else { }",
	"if a { } else if b { }", "elif", "else", "except", "as", "a := not", "a := -", "a := b :=", "a :", "a = 1", "kindmatch", "let", "let a", "let 1 := 2",
	"a.b.c(1)(2)[3].d", "a[1][2]", "a()()", "a.b(", "a.(", "a..b", "a[", "a[]", "a[1,2]", "[", "[,]", "[a,,b]", "{:}", "{a:}", "{:a}", "{a:b,,}",
	"(((((((((((a)))))))))))", "((((((((((", "))))))))))", "[[[[[[[[[[", "{{{{{{{{{{", "}}}}}}}}}}", "a := [\n1,\n2\n]\nb := {\n\"x\" : 1\n}",
	"a\r\nb\r\n", "a\rb", "\ufeffa := 1", "a\u2028b", "a\x85b", "a\x00b", "a\x00:=\x001",
}

func TestRegress(t *testing.T) { hx.Regress(t, runCase) }

// ---------------------------------------------------------------------------------------
// minimisation of a failing case. The generated tiers hand *Case to the framework; when a
// case fails, runMin replaces its content by a smaller input with the SAME failure
// signature (delta debugging over tokens, then bytes; bounded by a number of trials, not by
// time) so that the replay file and the VIOLATION line show a small reproduction. The
// verdict itself always comes from runCase on the original case.

type minimal struct {
	c Case
	f *hx.Failure
}

var minimised = map[string]*minimal{} // per failure signature: the reproduction found first in this process

func runMin(c *Case) *hx.Failure {
	f := runCase(*c)
	if f == nil || strings.HasPrefix(f.Sig, "hang") {
		return f
	}
	if m, ok := minimised[f.Sig]; ok {
		// rapid re-runs failing cases while it shrinks: minimise once per signature, then reuse
		if m != nil && len(m.c.input()) < len(c.input()) {
			*c = m.c
			return m.f
		}
		return f
	}
	minimised[f.Sig] = nil
	quiet = true
	defer func() { quiet = false }()
	budget := 8000
	if f.Sig == "goroutine-leak" {
		budget = 300 // every failing trial waits the full polling bound
	}
	var last *hx.Failure
	fails := func(s string) bool {
		if budget <= 0 {
			return false
		}
		budget--
		g := runCase(mkCase(c.Kind, s))
		if g != nil && g.Sig == f.Sig {
			last = g
			return true
		}
		return false
	}
	ddmin := func(parts []string) []string {
		for chunk := (len(parts) + 1) / 2; chunk >= 1 && budget > 0; chunk /= 2 {
			for again := true; again && budget > 0; {
				again = false
				for i := 0; i < len(parts) && len(parts) > 1; {
					e := i + chunk
					if e > len(parts) {
						e = len(parts)
					}
					cand := append(append([]string{}, parts[:i]...), parts[e:]...)
					if fails(strings.Join(cand, "")) {
						parts = cand
						again = chunk == 1 // single elements: repeat until a fixed point
					} else {
						i += chunk
					}
				}
			}
		}
		return parts
	}
	// removal of balanced bracket spans (whole blocks / argument lists), which ddmin's aligned chunks miss
	spans := func(parts []string) []string {
		closer := map[string]string{"{": "}", "(": ")", "[": "]"}
		for changed := true; changed && budget > 0; {
			changed = false
			for i := 0; i < len(parts) && budget > 0; i++ {
				open := strings.TrimSpace(parts[i])
				cl, ok := closer[open]
				if !ok {
					continue
				}
				depth, j := 0, -1
				for k := i; k < len(parts); k++ {
					if t := strings.TrimSpace(parts[k]); t == open {
						depth++
					} else if t == cl {
						if depth--; depth == 0 {
							j = k
							break
						}
					}
				}
				if j < 0 {
					continue
				}
				for _, cut := range [][2]int{{i, j + 1}, {i + 1, j}} {
					if cut[1]-cut[0] < 2 {
						continue
					}
					cand := append(append([]string{}, parts[:cut[0]]...), parts[cut[1]:]...)
					if fails(strings.Join(cand, "")) {
						parts, changed = cand, true
						break
					}
				}
			}
		}
		return parts
	}
	best := c.input()
	for round := 0; round < 2; round++ {
		if tk := tokenise(best); tk != nil {
			best = strings.Join(ddmin(spans(ddmin(append([]string{tk.prefix}, tk.segs...)))), "")
		}
	}
	if len(best) <= 400 {
		best = strings.Join(ddmin(strings.Split(best, "")), "")
	}
	if last != nil && len(best) < len(c.input()) {
		m := mkCase(c.Kind, best)
		m.Base, m.Ops = c.Base, append(append([]string{}, c.Ops...), "minimised")
		minimised[f.Sig] = &minimal{m, last}
		*c = m
		return last
	}
	return f
}

func ptr(c Case) *Case { return &c }

func soupLen() int {
	if hx.Thorough() {
		return 3
	}
	return 2
}

func strayLimit() int {
	if hx.Thorough() {
		return 400
	}
	return 60
}

func TestExhaustive(t *testing.T) {
	hx.Enumerate(t, "directed", func(yield func(*Case) bool) {
		for _, s := range directed {
			if !yield(ptr(mkCase("directed", s))) {
				return
			}
		}
	}, runMin)
	if t.Failed() {
		return
	}
	// every truncation of every corpus program at a token boundary
	hx.Enumerate(t, "truncations", func(yield func(*Case) bool) {
		for ci, src := range corpus {
			tk := tokenise(src)
			if tk == nil {
				continue
			}
			for k := 0; k < len(tk.segs); k++ { // k = number of tokens kept (k == len is the program itself)
				c := mkCase("mut", tk.join(tk.segs[:k]))
				c.Base, c.Ops = fmt.Sprintf("corpus[%d]", ci), []string{fmt.Sprintf("trunc@%d", k)}
				if !yield(&c) {
					return
				}
				// same cut without the trailing white space (the token ends the input)
				if t := strings.TrimRight(c.input(), " \t\r\n"); k > 0 && t != c.input() {
					c2 := mkCase("mut", t)
					c2.Base, c2.Ops = c.Base, []string{fmt.Sprintf("trunc@%d,trim", k)}
					if !yield(&c2) {
						return
					}
				}
			}
			if !yield(&Case{Kind: "directed", Src: src, Base: fmt.Sprintf("corpus[%d]", ci)}) {
				return
			}
		}
	}, runMin)
	if t.Failed() {
		return
	}
	// a stray ; ) } ] at every token boundary of the smaller corpus programs
	lim := strayLimit()
	hx.Enumerate(t, "strays", func(yield func(*Case) bool) {
		for ci, src := range corpus {
			tk := tokenise(src)
			if tk == nil || len(tk.segs) > lim {
				continue
			}
			for k := 0; k <= len(tk.segs); k++ {
				for _, s := range strays {
					segs := append(append(append([]string{}, tk.segs[:k]...), s+" "), tk.segs[k:]...)
					c := mkCase("mut", tk.join(segs))
					c.Base, c.Ops = fmt.Sprintf("corpus[%d]", ci), []string{fmt.Sprintf("stray@%d:%s", k, s)}
					if !yield(&c) {
						return
					}
				}
			}
		}
	}, runMin)
	if t.Failed() {
		return
	}
	// all token sequences up to the tier's length over the complete fixed vocabulary plus one
	// identifier, number, string and one lexically broken piece
	voc := append(append([]string{}, vocabFixed...), "a", "1", `"s"`, `"`)
	n := soupLen()
	hx.Enumerate(t, "soup", func(yield func(*Case) bool) {
		idx := make([]int, 0, n)
		var rec func() bool
		rec = func() bool {
			if len(idx) > 0 {
				parts := make([]string, len(idx))
				for i, k := range idx {
					parts[i] = voc[k]
				}
				if !yield(ptr(mkCase("soup", strings.Join(parts, " ")))) {
					return false
				}
			}
			if len(idx) == n {
				return true
			}
			for k := range voc {
				idx = append(idx, k)
				if !rec() {
					return false
				}
				idx = idx[:len(idx)-1]
			}
			return true
		}
		rec()
	}, runMin)
	hx.E.Exhaustive("truncations", map[string]interface{}{"corpus_programs": len(corpus), "cut": "every token boundary, with and without trailing white space"})
	hx.E.Exhaustive("strays", map[string]interface{}{"terminators": strays, "programs_with_at_most_tokens": lim, "position": "every token boundary"})
	hx.E.Exhaustive("soup", map[string]interface{}{"vocabulary": len(voc), "max_len": n, "separator": "one space"})
}

func TestProp(t *testing.T) {
	hx.Check(t, func(rt *rapid.T) *Case { return ptr(drawCase(rt)) }, runMin)
}
