package c08

import (
	"encoding/json"
	"os"
	"strings"
	"testing"

	"verif/internal/hx"
	"verif/internal/lang"
)

// ---------------------------------------------------------------------------
// (a) exhaustive operator pairs in every statement context

const prelude = "n2 := 7\ns2 := \"abc\"\nb1 := true\nb2 := false\nl1 := [1, 2, 3]\nl2 := [\"a\", \"b\"]\n"

type context struct {
	name string
	tmpl string // $E is replaced by the expression text
}

var contexts = []context{
	{"assign", "x := $E\nt.rec(x)"},
	{"let", "let x := $E\nt.rec(x)"},
	{"if-guard", "if $E {\n    t.rec(1)\n} else {\n    t.rec(2)\n}"},
	{"elif-guard", "if b2 {\n    t.rec(0)\n} elif $E {\n    t.rec(1)\n}"},
	{"while-guard", "for $E {\n    t.rec(1)\n    break\n}"},
	{"for-in", "try {\n    for i in $E {\n        t.rec(i)\n        break\n    }\n} except e {\n    t.rec(e.type)\n}"},
	{"argument", "t.rec($E)"},
	{"second-argument", "func g(a, b) {\n    return b\n}\nt.rec(g(1, $E))"},
	{"list-element", "t.rec([1, $E, 3])"},
	{"map-value", "t.rec({\"a\" : $E})"},
	{"map-key", "t.rec({$E : 1})"},
	{"param-default", "func f(a, b=$E) {\n    return b\n}\nt.rec(f(1))"},
	{"return", "func f() {\n    return $E\n}\nt.rec(f())"},
	{"index", "t.rec(l1[$E])"},
	{"sink-statematch", "sink s1\n    kindmatch [\"a\"]\n    statematch {\"a\" : $E}\n{\n    t.rec(1)\n}"},
}

// contexts in which the fully parenthesised spelling is also tried (the tree is
// the one of the minimal spelling, so the printer sees nothing new there)
var fullContexts = map[string]bool{"assign": true, "if-guard": true}

func opTypes(o lang.OpInfo) (l, r string) {
	switch o.Class {
	case "arith", "cmp", "eq":
		return "n", "n"
	case "str":
		return "s", "s"
	case "list":
		return "n", "l"
	}
	return "b", "b"
}

func atom(t string, slot int) *lang.E {
	switch t {
	case "n":
		return []*lang.E{lang.Num("7"), lang.Num("2"), lang.Num("3"), lang.Var("n2")}[slot%4]
	case "s":
		return []*lang.E{lang.Str("abc"), lang.Str("a"), lang.Var("s2"), lang.Str("c")}[slot%4]
	case "b":
		return []*lang.E{lang.Bool(true), lang.Var("b2"), lang.Bool(false), lang.Var("b1")}[slot%4]
	case "l":
		return []*lang.E{lang.Var("l1"), lang.List(lang.Num("1"), lang.Num("2")), lang.Var("l2")}[slot%3]
	}
	panic(t)
}

// flat prints the operators and operands in order without any parentheses.
func flat(e *lang.E) string {
	switch {
	case e.IsBinary():
		o, _ := lang.Bin(e.K)
		return flat(e.A[0]) + " " + o.Sym + " " + flat(e.A[1])
	case e.IsPrefix():
		if e.K == "not" {
			return "not " + flat(e.A[0])
		}
		sym := map[string]string{"minus": "-", "plus": "+"}[e.K]
		if e.A[0].IsPrefix() {
			return sym + " " + flat(e.A[0])
		}
		return sym + flat(e.A[0])
	}
	return e.Src(lang.Minimal)
}

func pairTrees(yield func(*lang.E) bool) {
	for _, outer := range lang.BinOps {
		ol, or := opTypes(outer)
		for _, inner := range lang.BinOps {
			il, ir := opTypes(inner)
			if !yield(lang.Op(outer.Name, lang.Op(inner.Name, atom(il, 0), atom(ir, 1)), atom(or, 2))) {
				return
			}
			if !yield(lang.Op(outer.Name, atom(ol, 0), lang.Op(inner.Name, atom(il, 1), atom(ir, 2)))) {
				return
			}
		}
		for _, p := range lang.PrefixOps {
			pt := "n"
			if p == "not" {
				pt = "b"
			}
			if !yield(lang.Op(p, lang.Op(outer.Name, atom(ol, 0), atom(or, 1)))) {
				return
			}
			if !yield(lang.Op(outer.Name, lang.Op(p, atom(pt, 0)), atom(or, 1))) {
				return
			}
			if !yield(lang.Op(outer.Name, atom(ol, 0), lang.Op(p, atom(pt, 1)))) {
				return
			}
		}
	}
	for _, p := range lang.PrefixOps {
		for _, q := range lang.PrefixOps {
			qt := "n"
			if q == "not" {
				qt = "b"
			}
			if !yield(lang.Op(p, lang.Op(q, atom(qt, 0)))) {
				return
			}
		}
	}
	// single operators
	for _, o := range lang.BinOps {
		l, r := opTypes(o)
		if !yield(lang.Op(o.Name, atom(l, 0), atom(r, 1))) {
			return
		}
	}
	for _, p := range lang.PrefixOps {
		if !yield(lang.Op(p, atom(map[bool]string{true: "b", false: "n"}[p == "not"], 0))) {
			return
		}
	}
}

func exprCases(yield func(Case) bool) {
	pairTrees(func(e *lang.E) bool {
		texts := [3]string{e.Src(lang.Minimal), flat(e), e.Src(lang.Full)}
		for _, cx := range contexts {
			for m, txt := range texts {
				if m == 1 && txt == texts[0] {
					continue
				}
				if m == 2 && (!fullContexts[cx.name] || txt == texts[0]) {
					continue
				}
				src := prelude + strings.ReplaceAll(cx.tmpl, "$E", txt) + "\n"
				if !yield(Case{Kind: "expr", Src: src, Exec: true}) {
					return false
				}
			}
		}
		return true
	})
}

// ---------------------------------------------------------------------------
// (c) the corpus: examples/**/*.ecal and the valid programs lifted from the
// repository's tests (testdata/corpus.json, shared with C07)

func loadCorpus(t testing.TB) []string {
	b, err := os.ReadFile("testdata/corpus.json")
	if err != nil {
		t.Fatalf("corpus: %v", err)
	}
	var out []string
	if err := json.Unmarshal(b, &out); err != nil {
		t.Fatalf("corpus: %v", err)
	}
	return out
}

func TestExhaustive(t *testing.T) {
	hx.Enumerate(t, "directed", func(yield func(Case) bool) {
		for _, s := range directed {
			if !yield(Case{Kind: "directed", Src: s}) {
				return
			}
		}
	}, runCase)
	if t.Failed() {
		return
	}
	n := 0
	hx.Enumerate(t, "operator-pairs", func(yield func(Case) bool) {
		exprCases(func(c Case) bool { n++; return yield(c) })
	}, runCase)
	hx.E.Exhaustive("operator-pairs", map[string]interface{}{
		"trees":     "all 19x19 binary nestings (inner left / inner right), all prefix x binary (operand, left, right) and prefix x prefix combinations, all single operators; well-typed operands",
		"spellings": "necessary parentheses only; no parentheses at all (the parser's own reading); every application parenthesised (in the contexts assign and if-guard)",
		"contexts":  len(contexts),
		"cases":     n,
	})
	corpus := loadCorpus(t)
	hx.Enumerate(t, "corpus", func(yield func(Case) bool) {
		for _, s := range corpus {
			if !yield(Case{Kind: "corpus", Src: s}) {
				return
			}
		}
	}, runCase)
	hx.E.Exhaustive("corpus", map[string]interface{}{"programs": len(corpus)})
}
