package c08

import (
	"testing"

	"verif/internal/hx"
)

const maxFuzzInput = 4000

// FuzzRoundTrip is the coverage-guided campaign of the thorough tier: arbitrary
// input which happens to parse must survive the round trip (tree, idempotence).
// Nothing is executed. Seeds: the directed inputs and the corpus
// (testdata/fuzz/FuzzRoundTrip, written by TestGenSeeds).
func FuzzRoundTrip(f *testing.F) {
	f.Add([]byte("a := 1"))
	f.Fuzz(func(t *testing.T, b []byte) {
		if len(b) > maxFuzzInput {
			t.Skip()
		}
		c := Case{Kind: "fuzz", Src: string(b)}
		if fl := hx.Handle(c, runCase(c)); fl != nil {
			t.Fatal(fl)
		}
	})
}
