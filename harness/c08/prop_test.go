// C08 — formatting preserves program meaning and is idempotent.
//
// Domain: (a) exhaustive depth-2 operator nesting (every binary operator under
// every other on either side, prefix x binary, prefix x prefix) printed with
// the necessary parentheses, fully parenthesised and without any parentheses,
// each placed in every statement context; (b) generated programs with all
// statement kinds nested, all string spellings, comments, container sizes
// around the multi-line thresholds, blank lines; (c) the corpus of valid
// programs lifted from the repository; (d) native fuzzing on arbitrary input
// that happens to parse; (e) tool.FormatFiles on a temp tree of generated files.
//
// Oracle: s => T1; p1 = PrettyPrint(T1); p1 must parse => T2; T1 ~ T2 under the
// harness's own comparison (node name, token id, value, identifier flag,
// AllowEscapes, children; not positions, comments, blank lines);
// PrettyPrint(T2) == p1; generated programs behave identically (result, error
// type, t.rec trace); FormatFiles leaves every file with an equivalent tree and
// never writes text which does not parse.
package c08

import (
	"flag"
	"fmt"
	"io"
	"os"
	"path/filepath"
	"regexp"
	"sort"
	"strconv"
	"strings"
	"testing"

	"github.com/krotik/ecal/cli/tool"
	"github.com/krotik/ecal/parser"

	"verif/internal/erun"
	"verif/internal/hx"
	"verif/internal/lang"
)

const rule = "case = one source text (or a small tree of files for the format tool); texts: exhaustive operator pairs (19x19 binary nestings on either side, prefix x binary, prefix x prefix) printed with necessary / full / no parentheses in 15 statement contexts (assignment, let, if/elif/loop guards, for-in, arguments, list element, map key/value, parameter default, return value, index, sink statematch), generated programs (all statement kinds nested, all string spellings, comments, container sizes around the multi-line thresholds, blank lines, layout and keyword case), the repository corpus; non-trivial = the parsed tree contains an operator operand which only parentheses can place there (removing them changes the tree), or a string whose value contains a quote, backslash, newline or {{, or a comment attached inside a statement (not at a statement's start or end); distinct by source text"

// Case is one source text or one file tree.
type Case struct {
	Kind    string            `json:"kind"`              // expr prog corpus fuzz directed files
	Src     string            `json:"src,omitempty"`     // the source text
	Exec    bool              `json:"exec,omitempty"`    // generated terminating program: also compare the behaviour of s and p1
	Imports map[string]string `json:"imports,omitempty"` // import path -> source for executed programs
	Files   []FileEnt         `json:"files,omitempty"`   // kind files: the tree given to tool.FormatFiles
}

// FileEnt is one file of a format-tool case.
type FileEnt struct {
	Path    string `json:"path"` // relative, '/' separated
	Content string `json:"content"`
}

func TestMain(m *testing.M) {
	// the format tool reports unformattable files on the flag package's output
	flag.CommandLine.SetOutput(io.Discard)
	hx.Main(m, "C08", rule)
}

// ---------------------------------------------------------------------------
// tree comparison

func valueToken(id parser.LexTokenID) bool {
	return id == parser.TokenSTRING || id == parser.TokenNUMBER || id == parser.TokenIDENTIFIER
}

// localEq compares two nodes without their children. rawOnly is set when the
// only difference is the raw / interpolating kind of a string.
func localEq(a, b *parser.ASTNode) (eq bool, rawOnly bool) {
	if a.Name != b.Name || len(a.Children) != len(b.Children) {
		return false, false
	}
	if a.Token == nil || b.Token == nil {
		if a.Token == nil && b.Token == nil {
			return true, false
		}
		// the synthetic guard of `else` has no token; `elif true` has one: same kind, no value
		return a.Name == parser.NodeTRUE, false
	}
	ta, tb := a.Token, b.Token
	if ta.ID != tb.ID || ta.Identifier != tb.Identifier {
		return false, false
	}
	if valueToken(ta.ID) {
		if ta.Val != tb.Val {
			return false, false
		}
	} else if !strings.EqualFold(ta.Val, tb.Val) {
		return false, false
	}
	if ta.AllowEscapes != tb.AllowEscapes {
		return false, true
	}
	return true, false
}

// ignoreRaw makes the comparison blind for the raw flag: used to look for any
// other difference first, so that a text with raw strings AND another defect is
// reported with the other defect's signature.
var ignoreRaw bool

func treeEq(a, b *parser.ASTNode) bool {
	if a == nil || b == nil {
		return a == b
	}
	if eq, rawOnly := localEq(a, b); !eq && !(rawOnly && ignoreRaw) {
		return false
	}
	for i := range a.Children {
		if !treeEq(a.Children[i], b.Children[i]) {
			return false
		}
	}
	return true
}

type treeDiff struct {
	sig    string
	detail string
}

func nodeStr(n *parser.ASTNode) string {
	if n == nil {
		return "<nil>"
	}
	s := n.String()
	if len(s) > 700 {
		s = s[:700] + "...\n"
	}
	return s
}

// findDiff descends to the smallest differing subtree.
func findDiff(parent, a, b *parser.ASTNode) *treeDiff {
	if a == nil || b == nil {
		if a == b {
			return nil
		}
		return &treeDiff{"tree-changed:nil-node", "nil node"}
	}
	pname := ""
	if parent != nil {
		pname = parent.Name
	}
	eq, rawOnly := localEq(a, b)
	if rawOnly && ignoreRaw {
		eq = true
	}
	if !eq {
		if rawOnly {
			return &treeDiff{"raw-flag-lost", fmt.Sprintf("string %q: AllowEscapes %v -> %v", a.Token.Val, a.Token.AllowEscapes, b.Token.AllowEscapes)}
		}
		if len(a.Children) == 0 {
			return &treeDiff{"tree-changed:" + pname + "/" + a.Name, fmt.Sprintf("under %q:\n%svs\n%s", pname, nodeStr(a), nodeStr(b))}
		}
		// a rotation (the usual effect of lost parentheses): the operand which took the place of its operator names the cause
		for _, ch := range a.Children {
			if ch.Name == b.Name && len(ch.Children) > 0 {
				return &treeDiff{"tree-changed:" + a.Name + "/" + ch.Name, fmt.Sprintf("%svs\n%s", nodeStr(a), nodeStr(b))}
			}
		}
		return &treeDiff{"tree-changed:" + a.Name + "/" + pickChild(a, nil).Name, fmt.Sprintf("%svs\n%s", nodeStr(a), nodeStr(b))}
	}
	var ds []int
	for i := range a.Children {
		if !treeEq(a.Children[i], b.Children[i]) {
			ds = append(ds, i)
		}
	}
	switch len(ds) {
	case 0:
		return nil
	case 1:
		return findDiff(a, a.Children[ds[0]], b.Children[ds[0]])
	}
	return &treeDiff{"tree-changed:" + a.Name + "/" + pickChild(a, ds).Name, fmt.Sprintf("%svs\n%s", nodeStr(a), nodeStr(b))}
}

// diffTrees reports a structural difference if there is one, else a lost raw flag.
func diffTrees(a, b *parser.ASTNode) *treeDiff {
	ignoreRaw = true
	d := findDiff(nil, a, b)
	ignoreRaw = false
	if d == nil && !treeEq(a, b) {
		d = firstRawDiff(a, b)
	}
	return d
}

func firstRawDiff(a, b *parser.ASTNode) *treeDiff {
	if _, rawOnly := localEq(a, b); rawOnly {
		return &treeDiff{"raw-flag-lost", fmt.Sprintf("string %q: AllowEscapes %v -> %v", a.Token.Val, a.Token.AllowEscapes, b.Token.AllowEscapes)}
	}
	for i := range a.Children {
		if d := firstRawDiff(a.Children[i], b.Children[i]); d != nil {
			return d
		}
	}
	return nil
}

// pickChild names the child of the differing subtree for the signature: the
// first (differing) child which has children itself, else the first one.
func pickChild(a *parser.ASTNode, only []int) *parser.ASTNode {
	idx := only
	if idx == nil {
		for i := range a.Children {
			idx = append(idx, i)
		}
	}
	for _, i := range idx {
		if len(a.Children[i].Children) > 0 {
			return a.Children[i]
		}
	}
	return a.Children[idx[0]]
}

// ---------------------------------------------------------------------------
// what a tree contains (non-triviality and classes)

type feat struct {
	needParen   bool // an operand which only parentheses can place there
	specialStr  bool
	innerCmt    bool
	ops         int
	classes     map[string]bool
	parenSample string
}

func level(n *parser.ASTNode) int {
	if o, ok := lang.Bin(n.Name); ok && len(n.Children) == 2 {
		return o.Level
	}
	if len(n.Children) == 1 {
		switch n.Name {
		case parser.NodeNOT:
			return lang.LvNot
		case parser.NodeMINUS, parser.NodePLUS:
			return lang.LvPrefix
		}
	}
	return lang.LvAtom
}

// parenOnly says whether child c at index i of operator n can only be there
// because of parentheses (documented precedence: higher level binds tighter,
// binary operators associate to the left).
func parenOnly(n *parser.ASTNode, i int, c *parser.ASTNode) bool {
	ln, lc := level(n), level(c)
	if ln == lang.LvAtom || lc == lang.LvAtom {
		return false
	}
	if len(n.Children) == 2 {
		if i == 0 {
			return lc < ln
		}
		// a prefix operator on the right is placed there by its position alone
		return len(c.Children) == 2 && lc <= ln
	}
	return len(c.Children) == 2 && lc < ln
}

func (f *feat) walk(parent, n *parser.ASTNode) {
	if n == nil {
		return
	}
	f.classes["node."+n.Name] = true
	if level(n) != lang.LvAtom {
		f.ops++
		for i, c := range n.Children {
			if parenOnly(n, i, c) {
				f.needParen = true
				if f.parenSample == "" {
					f.parenSample = n.Name + "/" + c.Name
				}
			}
		}
	}
	if n.Name == parser.NodeSTRING && n.Token != nil {
		v := n.Token.Val
		if strings.ContainsAny(v, "\"'\\\n") || strings.Contains(v, "{{") {
			f.specialStr = true
		}
		if n.Token.AllowEscapes {
			f.classes["str.quoted"] = true
		} else {
			f.classes["str.raw"] = true
		}
		if strings.Contains(v, "{{") {
			f.classes["str.has-interpolation-braces"] = true
			if !n.Token.AllowEscapes {
				f.classes["str.raw-with-interpolation-braces"] = true
			}
		}
		if strings.Contains(v, "\\") {
			f.classes["str.has-backslash"] = true
		}
		if strings.ContainsAny(v, "\"'") {
			f.classes["str.has-quote"] = true
		}
		if strings.Contains(v, "\n") {
			f.classes["str.has-newline"] = true
		}
		for _, r := range v {
			if r > 127 {
				f.classes["str.non-ascii"] = true
				break
			}
		}
	}
	if len(n.Meta) > 0 {
		top := parent == nil || parent.Name == parser.NodeSTATEMENTS
		for _, m := range n.Meta {
			switch m.Type() {
			case parser.MetaDataPreComment:
				f.classes["comment.block"] = true
				if strings.Contains(m.Value(), "\n") {
					f.classes["comment.block-multiline"] = true
				}
			case parser.MetaDataPostComment:
				f.classes["comment.line"] = true
			}
		}
		if !top {
			f.innerCmt = true
			f.classes["comment.inside-statement"] = true
		}
	}
	if n.Name == parser.NodeLIST {
		if len(n.Children) > 4 {
			f.classes["list.multiline"] = true
		} else {
			f.classes["list.inline"] = true
		}
	}
	if n.Name == parser.NodeMAP {
		if len(n.Children) > 2 {
			f.classes["map.multiline"] = true
		} else {
			f.classes["map.inline"] = true
		}
	}
	if n.Token != nil && n.Token.PrefixNewlines > 1 {
		f.classes["blank-line-before-token"] = true
	}
	for _, c := range n.Children {
		f.walk(n, c)
	}
}

func features(t *parser.ASTNode) *feat {
	f := &feat{classes: map[string]bool{}}
	f.walk(nil, t)
	if f.needParen {
		f.classes["nontrivial.parentheses-needed"] = true
	}
	if f.specialStr {
		f.classes["nontrivial.special-string"] = true
	}
	if f.innerCmt {
		f.classes["nontrivial.inner-comment"] = true
	}
	return f
}

func (f *feat) list(extra ...string) []string {
	out := append([]string{}, extra...)
	for k := range f.classes {
		out = append(out, k)
	}
	sort.Strings(out)
	return out
}

// ---------------------------------------------------------------------------
// the oracle

func parse(src string) (t *parser.ASTNode, err error, pf *hx.Failure) {
	pf = hx.Guard(func() { t, err = parser.Parse("c08", src) })
	return
}

func errType(err error) string {
	if pe, ok := err.(*parser.Error); ok && pe.Type != nil {
		return strings.ReplaceAll(pe.Type.Error(), " ", "-")
	}
	return fmt.Sprintf("%T", err)
}

func clip(s string) string {
	if len(s) > 1500 {
		return s[:1500] + fmt.Sprintf("...(%d bytes)", len(s))
	}
	return s
}

// firstDiffConstruct names the statement-level construct of p1 in which the
// first differing line of the second pass lies.
func firstDiffConstruct(p1, p2 string, t2 *parser.ASTNode) (string, int) {
	l1, l2 := strings.Split(p1, "\n"), strings.Split(p2, "\n")
	line := 0
	for line < len(l1) && line < len(l2) && l1[line] == l2[line] {
		line++
	}
	line++ // 1-based
	// a difference in blank lines belongs to the construct before them
	limit := line
	if (line-1 < len(l1) && strings.TrimSpace(l1[line-1]) == "") || (line-1 < len(l2) && strings.TrimSpace(l2[line-1]) == "") {
		limit = line - 1
	}
	best := ""
	bestLine := -1
	var walk func(parent, n *parser.ASTNode)
	walk = func(parent, n *parser.ASTNode) {
		if n == nil {
			return
		}
		if n.Token != nil && n.Name != parser.NodeSTATEMENTS && (parent == nil || parent.Name == parser.NodeSTATEMENTS) {
			if n.Token.Lline <= limit && n.Token.Lline >= bestLine {
				best, bestLine = n.Name, n.Token.Lline
			}
		}
		for _, c := range n.Children {
			walk(n, c)
		}
	}
	walk(nil, t2)
	if best == "" {
		best = "unknown"
	}
	return best, line
}

var positions = regexp.MustCompile(`\(Line[: ]\d+,? Pos[: ]\d+\)`)

func canon(v interface{}) string { return canonD(v, 0) }

func canonD(v interface{}, depth int) string {
	if depth > 40 {
		return "<deep>"
	}
	canon := func(x interface{}) string { return canonD(x, depth+1) }
	switch c := v.(type) {
	case nil:
		return "null"
	case float64:
		return strconv.FormatFloat(c, 'g', -1, 64)
	case string:
		// source positions are not part of the meaning (a function value or an error prints where it was declared / raised)
		return strconv.Quote(positions.ReplaceAllString(c, "(Line _ Pos _)"))
	case bool:
		return fmt.Sprint(c)
	case []interface{}:
		var p []string
		for _, x := range c {
			p = append(p, canon(x))
		}
		return "[" + strings.Join(p, ",") + "]"
	case map[interface{}]interface{}:
		var p []string
		for k, x := range c {
			p = append(p, canon(k)+":"+canon(x))
		}
		sort.Strings(p)
		return "{" + strings.Join(p, ",") + "}"
	}
	return fmt.Sprintf("<%T>", v)
}

func canonTrace(tr []interface{}) string {
	var p []string
	for _, x := range tr {
		p = append(p, canon(x))
	}
	return strings.Join(p, " ; ")
}

func outcome(r *erun.Result) string {
	switch {
	case r.ParseErr != nil:
		return "parse-error"
	case r.ValidateErr != nil:
		return "validate-error:" + errKind(r.ValidateErr)
	case r.Err != nil:
		return "error:" + errKind(r.Err) + " trace=" + canonTrace(r.Trace)
	}
	return "value:" + canon(r.Val) + " trace=" + canonTrace(r.Trace)
}

func errKind(err error) string {
	typ, _, _, _, _ := erun.ErrInfo(err)
	return typ
}

func runCase(c Case) *hx.Failure {
	if c.Kind == "files" {
		return runFiles(c)
	}
	return roundTrip(c)
}

func roundTrip(c Case) *hx.Failure {
	src := c.Src
	t1, err, pf := parse(src)
	if pf != nil {
		hx.E.Exclude("parse-panics(C07)")
		return nil
	}
	if err != nil || t1 == nil {
		hx.E.Exclude("does-not-parse." + c.Kind)
		return nil
	}
	f := features(t1)
	nt := f.needParen || f.specialStr || f.innerCmt
	classes := []string{"kind." + c.Kind}
	// Generated programs which have the shape of an open finding are judged without exactly
	// the aspect that finding breaks (everything else is still checked); directed, corpus,
	// fuzz and regression inputs are judged completely and tolerated by signature.
	skipIdempotence, skipRawFlag, skipExec, skipTree := false, false, false, false
	if c.Kind != "directed" && c.Kind != "expr" {
		if hx.KnownOpen("C08-times-div-brackets") && hasTimesDiv(t1) {
			// (the program generator does not produce this shape while the finding is open; corpus and fuzz inputs may contain it)
			hx.E.Exclude("known.C08-times-div-brackets(tree-not-judged)")
			skipTree, skipExec, skipIdempotence = true, true, true // the second pass starts from the changed tree
		}
		if hx.KnownOpen("C08-comment-next-to-bracket-lost") && commentNextToBracket(t1) {
			hx.E.Exclude("known.C08-comment-next-to-bracket-lost(idempotence-not-judged)")
			skipIdempotence = true
		}
		if hx.KnownOpen("C08-raw-string-printed-quoted") && f.classes["str.raw"] {
			hx.E.Exclude("known.C08-raw-string-printed-quoted(raw-flag-not-judged)")
			skipRawFlag = true
			// a raw string with {{ becomes an interpolation: the behaviour differs because of that finding
			skipExec = skipExec || f.classes["str.raw-with-interpolation-braces"]
		}
	}
	done := func(outcome string) {
		hx.E.Case(nt, src, f.list(append(classes, "outcome."+outcome)...)...)
		if nt {
			hx.E.Sample(src, map[string]interface{}{"kind": c.Kind, "src": clip(src), "outcome": outcome})
		}
	}

	var p1 string
	if pf := hx.Guard(func() { p1, err = parser.PrettyPrint(t1) }); pf != nil {
		done("prettyprint-panic")
		pf.Msg = fmt.Sprintf("PrettyPrint of the tree of %q: %s", clip(src), pf.Msg)
		return pf
	}
	if err != nil {
		done("not-formatted")
		return nil
	}
	// printing the same tree once more gives the same text (the printer keeps nothing between calls)
	var p1b string
	var errb error
	if pf := hx.Guard(func() { p1b, errb = parser.PrettyPrint(t1) }); pf != nil || errb != nil || p1b != p1 {
		done("second-print-differs")
		return hx.Failf("again:print-differs", "PrettyPrint of the SAME tree (of %q) a second time: panic=%v err=%v\nfirst  %q\nsecond %q", clip(src), pf != nil, errb, clip(p1), clip(p1b))
	}
	t2, err, pf := parse(p1)
	if pf != nil {
		done("reparse-panic")
		return hx.Failf("reparse-fails:panic", "source %q\nformatted %q\nparser panics on the formatted text: %s", clip(src), clip(p1), pf.Msg)
	}
	if err != nil {
		done("reparse-fails")
		return hx.Failf("reparse-fails:"+errType(err), "source    %q\nformatted %q\nthe formatted text does not parse: %v", clip(src), clip(p1), err)
	}
	d := diffTrees(t1, t2)
	if d != nil && ((d.sig == "raw-flag-lost" && skipRawFlag) || skipTree) {
		d = nil
	}
	if d != nil {
		done("tree-changed")
		return hx.Failf(d.sig, "source    %q\nformatted %q\nthe formatted text parses to a different tree: %s", clip(src), clip(p1), d.detail)
	}
	var p2 string
	if pf := hx.Guard(func() { p2, err = parser.PrettyPrint(t2) }); pf != nil {
		done("second-pass-panic")
		return hx.Failf("not-idempotent:panic", "source %q\nformatted %q\nsecond pass panics: %s", clip(src), clip(p1), pf.Msg)
	}
	if err != nil {
		done("second-pass-error")
		return hx.Failf("not-idempotent:error", "source %q\nformatted %q\nsecond pass fails: %v", clip(src), clip(p1), err)
	}
	if p2 != p1 && !skipIdempotence {
		done("not-idempotent")
		what, line := firstDiffConstruct(p1, p2, t2)
		if same, n1, n2 := onlyCommentsDiffer(p1, p2); same && n2 < n1 {
			what = "comment-lost"
		} else if same && n1 == n2 {
			what = "layout:" + what
		}
		return hx.Failf("not-idempotent:"+what, "source %q\nfirst pass  %q\nsecond pass %q\nfirst difference in line %d", clip(src), clip(p1), clip(p2), line)
	}

	if c.Exec && !skipExec {
		r1 := erun.Run(src, erun.Options{Imports: c.Imports, Debugger: newStepDbg})
		r2 := erun.Run(p1, erun.Options{Imports: c.Imports, Debugger: newStepDbg})
		if r1.Panic != nil || r2.Panic != nil {
			if (r1.Panic == nil) != (r2.Panic == nil) {
				done("behaviour-changed")
				return hx.Failf("behaviour-changed", "source %q\nformatted %q\nonly one of them panics: %v / %v", clip(src), clip(p1), r1.Panic, r2.Panic)
			}
			done("exec-panics")
			hx.E.Exclude("exec.panics(C06)")
			return nil
		}
		if budgetHit(r1) || budgetHit(r2) {
			done("exec-budget")
			hx.E.Exclude("exec.step-budget")
			return nil
		}
		o1, o2 := outcome(r1), outcome(r2)
		classes = append(classes, "exec."+strings.SplitN(strings.SplitN(o1, " ", 2)[0], ":", 2)[0])
		if len(r1.Trace) > 0 {
			classes = append(classes, "exec.trace-nonempty")
		}
		if o1 != o2 {
			done("behaviour-changed")
			return hx.Failf("behaviour-changed", "source %q\nformatted %q\nsource    -> %s\nformatted -> %s", clip(src), clip(p1), clip(o1), clip(o2))
		}
	}
	if p1 == strings.TrimSpace(src) {
		classes = append(classes, "already-formatted")
	}
	done("ok")
	return nil
}

// ---------------------------------------------------------------------------
// the format tool

// verifyFiles judges the directory after one run of the format tool (pass 1: source files, pass 2: files the tool
// formatted itself): foreign and unparseable files are untouched, every other file parses to the tree of its source.
func verifyFiles(c Case, dir string, pass int, pf *hx.Failure, orig func(int) (*parser.ASTNode, bool), nvalid, ninvalid, nforeign, nchanged *int) *hx.Failure {
	var fail *hx.Failure
	for i, fe := range c.Files {
		if pf != nil || fail != nil {
			break
		}
		b, err := os.ReadFile(filepath.Join(dir, filepath.FromSlash(fe.Path)))
		if err != nil {
			return hx.Failf("formatfiles:file-lost", "%s cannot be read after FormatFiles (run %d): %v", fe.Path, pass, err)
		}
		after := string(b)
		if after != fe.Content {
			*nchanged++
		}
		otree, valid := orig(i)
		switch {
		case !strings.HasSuffix(fe.Path, ".ecal"):
			*nforeign++
			if after != fe.Content {
				fail = hx.Failf("formatfiles:foreign-file-modified", "%s (extension does not match) was rewritten (run %d): %q -> %q", fe.Path, pass, clip(fe.Content), clip(after))
			}
		case !valid:
			*ninvalid++
			if after != fe.Content {
				fail = hx.Failf("formatfiles:unparseable-file-modified", "%s does not parse but was rewritten (run %d): %q -> %q", fe.Path, pass, clip(fe.Content), clip(after))
			}
		default:
			*nvalid++
			t2, perr, ppf := parse(after)
			if ppf != nil || perr != nil {
				fail = hx.Failf("formatfiles:unparseable-written", "%s: %q was replaced by %q which does not parse (run %d of the tool): %v %v", fe.Path, clip(fe.Content), clip(after), pass, perr, ppf)
			} else if d := diffTrees(otree, t2); d != nil && !knownFileDiff(otree, d) {
				fail = hx.Failf("formatfiles:"+d.sig, "%s: %q was replaced by %q which parses to a different tree (run %d of the tool): %s", fe.Path, clip(fe.Content), clip(after), pass, d.detail)
			}
		}
	}
	return fail
}

func runFiles(c Case) *hx.Failure {
	dir, err := os.MkdirTemp("", "verif-c08-")
	if err != nil {
		panic(err)
	}
	defer os.RemoveAll(dir)
	type orig struct {
		tree  *parser.ASTNode
		valid bool
	}
	origs := make([]orig, len(c.Files))
	seen := map[string]bool{}
	nt := false
	for i, fe := range c.Files {
		if seen[fe.Path] || fe.Path == "" || strings.Contains(fe.Path, "..") {
			hx.E.Exclude("files.bad-path")
			return nil
		}
		seen[fe.Path] = true
		p := filepath.Join(dir, filepath.FromSlash(fe.Path))
		os.MkdirAll(filepath.Dir(p), 0755)
		if err := os.WriteFile(p, []byte(fe.Content), 0644); err != nil {
			panic(err)
		}
		t, perr, pf := parse(fe.Content)
		if pf != nil {
			hx.E.Exclude("parse-panics(C07)")
			return nil
		}
		if perr == nil && t != nil {
			origs[i] = orig{t, true}
			ft := features(t)
			nt = nt || ft.needParen || ft.specialStr || ft.innerCmt
		}
	}
	var ferr error
	var pf *hx.Failure
	key := fmt.Sprint(c.Files)
	nvalid, ninvalid, nforeign, nchanged := 0, 0, 0, 0
	var fail *hx.Failure
	// the tool is run twice over the directory: the second run meets files it has formatted itself
	for pass := 1; pass <= 2 && pf == nil && fail == nil; pass++ {
		pf = hx.Guard(func() { ferr = tool.FormatFiles(dir, ".ecal") })
		nvalid, ninvalid, nforeign, nchanged = 0, 0, 0, 0
		if f := verifyFiles(c, dir, pass, pf, func(i int) (*parser.ASTNode, bool) { return origs[i].tree, origs[i].valid }, &nvalid, &ninvalid, &nforeign, &nchanged); f != nil {
			fail = f
		}
	}
	cl := []string{"kind.files"}
	if nvalid > 0 {
		cl = append(cl, "files.with-valid")
	}
	if ninvalid > 0 {
		cl = append(cl, "files.with-unparseable")
	}
	if nforeign > 0 {
		cl = append(cl, "files.with-foreign-extension")
	}
	if nchanged > 0 {
		cl = append(cl, "files.rewritten")
	}
	hx.E.Case(nt, key, cl...)
	if pf != nil {
		pf.Msg = fmt.Sprintf("FormatFiles on %v: %s", c.Files, pf.Msg)
		return pf
	}
	if fail != nil {
		return fail
	}
	if ferr != nil {
		return hx.Failf("formatfiles:error", "FormatFiles returned %v", ferr)
	}
	return nil
}

// knownFileDiff: the difference is exactly what an open finding explains (counted).
func knownFileDiff(orig *parser.ASTNode, d *treeDiff) bool {
	if d.sig == "raw-flag-lost" && hx.KnownOpen("C08-raw-string-printed-quoted") {
		hx.E.Exclude("known.C08-raw-string-printed-quoted(raw-flag-not-judged)")
		return true
	}
	if hx.KnownOpen("C08-times-div-brackets") && hasTimesDiv(orig) {
		hx.E.Exclude("known.C08-times-div-brackets(tree-not-judged)")
		return true
	}
	return false
}

func TestRegress(t *testing.T) { hx.Regress(t, runCase) }
