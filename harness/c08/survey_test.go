package c08

// Development-time tool (not part of the check): runs every enumerated case
// without stopping at the first failure and prints a histogram of signatures.
//
//	cd /verif/harness && C08_SURVEY=1 go test -tags verif -count=1 -run '^TestSurvey$' -v ./c08

import (
	"fmt"
	"os"
	"path/filepath"
	"sort"
	"strconv"
	"testing"

	"pgregory.net/rapid"

	"verif/internal/ev"
	"verif/internal/hx"
)

// TestGenSeeds (development-time tool) writes the native fuzz seeds.
//
//	cd /verif/harness && C08_GEN_SEEDS=1 go test -tags verif -count=1 -run '^TestGenSeeds$' ./c08
func TestGenSeeds(t *testing.T) {
	if os.Getenv("C08_GEN_SEEDS") == "" {
		t.Skip("C08_GEN_SEEDS not set")
	}
	dir := "testdata/fuzz/FuzzRoundTrip"
	os.RemoveAll(dir)
	os.MkdirAll(dir, 0755)
	seeds := append([]string{}, directed...)
	for _, s := range loadCorpus(t) {
		if len(s) <= maxFuzzInput {
			seeds = append(seeds, s)
		}
	}
	for _, s := range seeds {
		name := fmt.Sprintf("seed-%016x", ev.Hash(s))
		body := "go test fuzz v1\n[]byte(" + strconv.Quote(s) + ")\n"
		if err := os.WriteFile(filepath.Join(dir, name), []byte(body), 0644); err != nil {
			t.Fatal(err)
		}
	}
	t.Logf("%d fuzz seeds", len(seeds))
}

func TestSurvey(t *testing.T) {
	if os.Getenv("C08_SURVEY") == "" {
		t.Skip("C08_SURVEY not set")
	}
	type ent struct {
		n     int
		first string
		short string
	}
	hist := map[string]*ent{}
	total := 0
	run := func(c Case) bool {
		total++
		if f := runCase(c); f != nil && !hx.Tolerated(f) {
			e := hist[f.Sig]
			if e == nil {
				e = &ent{first: f.Msg, short: c.Src}
				hist[f.Sig] = e
			}
			if len(c.Src) < len(e.short) && c.Kind != "files" {
				e.short, e.first = c.Src, f.Msg
			}
			e.n++
		}
		return true
	}
	for _, s := range directed {
		run(Case{Kind: "directed", Src: s})
	}
	if os.Getenv("C08_SURVEY") == "noparse" {
		seen := map[string]int{}
		rapid.Check(t, func(rt *rapid.T) {
			c := genProg(rt)
			if _, err, _ := parse(c.Src); err != nil {
				k := errType(err)
				seen[k]++
				if seen[k] <= 4 {
					fmt.Printf("--- %v\n%s\n", err, c.Src[len(progPrelude):])
				}
			}
		})
		fmt.Println(seen)
		return
	}
	if os.Getenv("C08_SURVEY") == "tolerated" {
		n := 0
		rapid.Check(t, func(rt *rapid.T) {
			c := genProg(rt)
			if f := runCase(c); f != nil && n < 12 {
				n++
				fmt.Printf("--- %s\n%s\n", f.Sig, f.Msg)
			}
		})
		return
	}
	if os.Getenv("C08_SURVEY") == "prog" {
		rapid.Check(t, func(rt *rapid.T) {
			if rapid.IntRange(0, 11).Draw(rt, "mode") == 0 {
				run(genFiles(rt))
			} else {
				run(genProg(rt))
			}
		})
	} else if os.Getenv("C08_SURVEY") != "directed" {
		exprCases(run)
		for _, s := range loadCorpus(t) {
			run(Case{Kind: "corpus", Src: s})
		}
	}
	var keys []string
	for k := range hist {
		keys = append(keys, k)
	}
	sort.Strings(keys)
	for _, k := range keys {
		fmt.Printf("=== %6d  %s\n%s\n\n", hist[k].n, k, hist[k].first)
	}
	fmt.Printf("total cases %d, failing signatures %d\n", total, len(keys))
}
