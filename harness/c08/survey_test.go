package c08

// Development-time tool (not part of the check): runs every enumerated case
// without stopping at the first failure and prints a histogram of signatures.
//
//	cd /verif/harness && C08_SURVEY=1 go test -tags verif -count=1 -run '^TestSurvey$' -v ./c08

import (
	"fmt"
	"os"
	"path/filepath"
	"sort"
	"strconv"
	"strings"
	"testing"

	"pgregory.net/rapid"

	"verif/internal/erun"
	"verif/internal/ev"
	"verif/internal/hx"
)

// TestGenSeeds (development-time tool) writes the native fuzz seeds.
//
//	cd /verif/harness && C08_GEN_SEEDS=1 go test -tags verif -count=1 -run '^TestGenSeeds$' ./c08
func TestGenSeeds(t *testing.T) {
	if os.Getenv("C08_GEN_SEEDS") == "" {
		t.Skip("C08_GEN_SEEDS not set")
	}
	dir := "testdata/fuzz/FuzzRoundTrip"
	os.RemoveAll(dir)
	os.MkdirAll(dir, 0755)
	seeds := append([]string{}, directed...)
	for _, s := range loadCorpus(t) {
		if len(s) <= maxFuzzInput {
			seeds = append(seeds, s)
		}
	}
	for _, s := range seeds {
		name := fmt.Sprintf("seed-%016x", ev.Hash(s))
		body := "go test fuzz v1\n[]byte(" + strconv.Quote(s) + ")\n"
		if err := os.WriteFile(filepath.Join(dir, name), []byte(body), 0644); err != nil {
			t.Fatal(err)
		}
	}
	t.Logf("%d fuzz seeds", len(seeds))
}

func TestSurvey(t *testing.T) {
	if os.Getenv("C08_SURVEY") == "" {
		t.Skip("C08_SURVEY not set")
	}
	type ent struct {
		n     int
		first string
		short string
	}
	hist := map[string]*ent{}
	total := 0
	run := func(c Case) bool {
		total++
		if f := runCase(c); f != nil && !hx.Tolerated(f) {
			e := hist[f.Sig]
			if e == nil {
				e = &ent{first: f.Msg, short: c.Src}
				hist[f.Sig] = e
			}
			if len(c.Src) < len(e.short) && c.Kind != "files" {
				e.short, e.first = c.Src, f.Msg
			}
			e.n++
		}
		return true
	}
	for _, s := range directed {
		run(Case{Kind: "directed", Src: s})
	}
	if os.Getenv("C08_SURVEY") == "noparse" {
		seen := map[string]int{}
		rapid.Check(t, func(rt *rapid.T) {
			c := genProg(rt, true)
			if _, err, _ := parse(c.Src); err != nil {
				k := errType(err)
				seen[k]++
				if seen[k] <= 4 {
					fmt.Printf("--- %v\n%s\n", err, c.Src[len(progPrelude):])
				}
			}
		})
		fmt.Println(seen)
		return
	}
	if os.Getenv("C08_SURVEY") == "panics" {
		seen := map[string]int{}
		rapid.Check(t, func(rt *rapid.T) {
			c := genProg(rt, true)
			r := erun.Run(c.Src, erun.Options{Imports: c.Imports, Debugger: newStepDbg})
			if r.Panic != nil {
				seen[r.Panic.Sig]++
				if seen[r.Panic.Sig] == 1 {
					fmt.Printf("--- %s\n%s\n", r.Panic.Sig, c.Src[len(progPrelude):])
				}
			}
		})
		fmt.Println(seen)
		return
	}
	if os.Getenv("C08_SURVEY") == "tolerated" {
		n := 0
		rapid.Check(t, func(rt *rapid.T) {
			c := genProg(rt, true)
			if f := runCase(c); f != nil && n < 12 {
				n++
				fmt.Printf("--- %s\n%s\n", f.Sig, f.Msg)
			}
		})
		return
	}
	if os.Getenv("C08_SURVEY") == "prog" {
		rapid.Check(t, func(rt *rapid.T) {
			if rapid.IntRange(0, 11).Draw(rt, "mode") == 0 {
				run(genFiles(rt))
			} else {
				run(genProg(rt, true))
			}
		})
	} else if os.Getenv("C08_SURVEY") != "directed" {
		exprCases(run)
		for _, s := range loadCorpus(t) {
			run(Case{Kind: "corpus", Src: s})
		}
	}
	var keys []string
	for k := range hist {
		keys = append(keys, k)
	}
	sort.Strings(keys)
	for _, k := range keys {
		fmt.Printf("=== %6d  %s\n%s\n\n", hist[k].n, k, hist[k].first)
	}
	fmt.Printf("total cases %d, failing signatures %d\n", total, len(keys))
}

// TestMakeRegress (development-time tool): runs the named inputs through runCase against
// the repository the module currently points at and writes a regression file for each
// one that fails - run it against the UNFIXED tree, so every committed regression case is
// known to fail there.
//
//	cd /verif/harness && C08_MAKE_REGRESS=/verif/regress/C08 go test -tags verif -count=1 -run '^TestMakeRegress$' -v ./c08
func TestMakeRegress(t *testing.T) {
	dir := os.Getenv("C08_MAKE_REGRESS")
	if dir == "" {
		t.Skip("C08_MAKE_REGRESS not set")
	}
	for _, rc := range [][2]string{
		{"01-brackets-right-operand", "x := 1 - (2 - 3)\nt.rec(x)"},
		{"01-brackets-prefix-operand", "x := not (a and b)"},
		{"01-brackets-tighter-parent", "x := (a < b) * 2"},
		{"01-brackets-map-value", "x := {\"a\" : (b == c)}"},
		{"02-blank-line-after-mutex", "mutex a {\n}\nb"},
		{"03-if-true-duplicated-as-else", "if true {\n    a\n}"},
		{"04-layout-blank-line-inside-list", "x := [\n\n1,\n\n2]"},
		{"04-layout-comment-inside-expression", "a + /* c */ b"},
		{"04-layout-two-comments", "/* a */ /* b */ c"},
		{"04-layout-comment-after-return", "func f() {\n    return 0 + 0 /* two\n   lines */ + (0 + 0)\n}"},
		{"04-layout-empty-comment", "/**/0"},
		{"05-line-comment-swallows-bracket", "f(a # c\n)"},
		{"05-line-comment-swallows-operator", "a # c\n+ b"},
		{"06-sign-starts-statement", "a; -b"},
		{"06-bracket-starts-statement", "a := f(1);\n(b + c) * d"},
		{"07-comma-accumulates-in-comment", "Foo := {\n  \"super\" : [ Bar ]\n\n  \"id\" : 0\n\n  \"idx\" : 0 # Constructor\n  \"init\" : 1\n}"},
		{"08-return-with-value-as-operand", "(return 1) + 2"},
		{"08-bare-return-before-sign", "func f() {\n    return\n    -2\n}"},
		{"08-bare-return-in-list", "[return\n]"},
		{"09-needed-comma-swallowed", "x := [1 # c\n, -3, 4, 5, 6]"},
		{"10-blank-line-after-line-comment", "x := 0 < # c\n 0\n\ny"},
		{"11-bare-return-at-end-of-input", "return\n#"},
		{"12-line-comments-joined", "00#\n#"},
		{"open-times-div-brackets", "x := 7 * (2 / 3)\nt.rec(x)"},
		{"open-raw-string-printed-quoted", "x := r\"{{1+2}}\"\nt.rec(x)"},
		{"open-comment-next-to-bracket-lost", "x := 1 + # c\n (2 + 3)"},
	} {
		c := Case{Kind: "directed", Src: rc[1], Exec: strings.Contains(rc[1], "t.rec")}
		f := runCase(c)
		if f == nil {
			t.Errorf("%s: %q does not fail on this tree", rc[0], rc[1])
			continue
		}
		os.Setenv("VERIF_REPLAY", filepath.Join(dir, rc[0]+".json"))
		hx.WriteReplay(c, f)
		t.Logf("%s: %s", rc[0], f.Sig)
	}
	os.Unsetenv("VERIF_REPLAY")
}
