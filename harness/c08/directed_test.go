package c08

// directed inputs: the shapes the design's probes already saw (DESIGN section 6)
// and the edge cases of every printer branch; each one is also a native fuzz seed.
var directed = []string{
	// an access after a call / access which the printer spreads over several lines
	`x := a([1,2,3,4,5])[0]`, `a({1:2,3:4,5:6}).foo[1]`, `x := f([1,2,3,4,5])[0][1].b([1,2,3,4,5,6])[3]`, "y := g(1,\n2)[0]", `z := m[[1,2,3,4,5][2]][0]`,
	// parentheses
	"1 - (2 - 3)", "not (a and b)", "a / (b * c)", "-(a + b)", "(not a) == b", "a == (b == c)", "(a < b) * 2",
	"a - (b + c)", "a % (b % c)", "(a or b) and c", "a and (b or c)", "not (a or b)", "(a and b) or c",
	"a * (not b) + c", "(a * not b) + c", "-(not a) * b", "- -a", "+ +a", "- +a", "not not a", "-(-a)",
	"x := {\"a\" : (b == c)}", "x := {(a == b) : c}", "func f(a=(b == c)) {\n}", "a := (b := c)", "let (a := 1)",
	"(return 1) + 2", "(a)(b)", "[1,2][0]", "(a).b", "(func () { return 1 })()",
	"a in (b in c)", "(a in b) in c", "a like (b like c)", "for (a in b) in c {\n}", "for a in (b in c) {\n}",
	// strings
	`r"{{1+2}}"`, `r'{{1+2}}'`, `"{{1+2}}"`, `'{{1+2}}'`, `x := r"a\nb"`, `x := "a\\"`, `x := 'a\\'`, `x := r"a\"`, `x := r'a"b'`, `x := r"a'b"`,
	"x := r\"a\nb\"", `x := "a\"b"`, `x := 'a"b'`, `x := 'a\'b'`, `x := "éé\x01"`, `x := ""`, `x := r""`, `x := "\\\\"`, `x := "{{a}} \" {{b}}"`,
	`x := r"'\"`, "x := r\"a\\\"\ny := r'b\"'",
	`import r"a" as b`, `try { } except r"a" { }`, `x := {r"a" : 1}`, `a.b(r"x")`,
	// statements
	"mutex a {\n    b\n}", "mutex a {\n}\nb", "mutex a {\n    b\n}\nc\n", "if a {\n    mutex m {\n        b\n    }\n    c\n}",
	"func f() {\n    mutex m {\n        b\n    }\n}", "mutex a {\n    mutex b {\n        c\n    }\n}",
	"if a {\n} elif true {\n}", "if a {\n} elif b {\n} else {\n}", "if true {\n} else {\n}", "if a {\n    b\n} elif true {\n    c\n} elif d {\n    e\n}",
	"for a {\n}", "for a in b {\n}", "for [a, b] in c {\n}", "for a in range(1, 2) {\n    break\n    continue\n}",
	"try {\n} except {\n}", "try {\n} except e {\n}", "try {\n} except \"a\" {\n}", "try {\n} except \"a\" as e {\n}", "try {\n} except \"a\", \"b\" {\n}",
	"try {\n} except \"a\", \"b\" as e {\n} except {\n} otherwise {\n} finally {\n}", "try {\n} finally {\n}", "try {\n} otherwise {\n}",
	"func f() {\n}", "func f(a) {\n}", "func f(a, b=1, c=\"x\") {\n    return\n}", "f := func () {\n}", "f := func (a=[1,2,3,4,5]) {\n    return a\n}", "func () {\n}",
	"return", "return 1", "return a\nb", "break", "continue", "let a := 1", "[a, b] := c", "let [a, b] := c", "a.b := 1", "a[1] := 1", "a.b[1].c(x).d := 1",
	"import \"a/b\" as c", "a.b[1].c(x)", "a(1)(2)", "a[1][2]", "a().b", "a(b(c(d)))", "a[b[c]]",
	"sink a\n    kindmatch [\"a\"]\n{\n}", "sink a kindmatch [\"a\"] scopematch [\"b\"] statematch {\"a\" : 1} priority 1 suppresses [\"c\"] {\n    b\n}",
	"sink a\nkindmatch [\"a\",\"b\",\"c\",\"d\",\"e\"],\nstatematch {\"a\":1,\"b\":2,\"c\":3},\npriority -1\n{\n}", "sink a {\n}\nb",
	"sink a priority 1 + 2 {\n}", "sink a priority (1 + 2) {\n}",
	// containers
	"[]", "[1]", "[1, 2, 3, 4]", "[1, 2, 3, 4, 5]", "{}", "x := {}", "x := {\"a\" : 1}", "x := {\"a\" : 1, \"b\" : 2}", "x := {\"a\" : 1, \"b\" : 2, \"c\" : 3}",
	"x := [[1, 2, 3, 4, 5], {\"a\" : [1, 2, 3, 4, 5], \"b\" : {}, \"c\" : 3}]", "f([1, 2, 3, 4, 5], {\"a\" : 1, \"b\" : 2, \"c\" : 3})",
	"x := [1, 2, 3, 4, 5][0]", "x := {1 : 2, 3 : 4, 5 : 6}.a", "for a in [1, 2, 3, 4, 5] {\n}", "if a in [1, 2, 3, 4, 5] {\n}", "return [1, 2, 3, 4, 5]",
	"x := [\n\n1,\n\n2]", "x := {\n\n\"a\" :\n\n1}", "x := [func () {\n    a\n}, 1, 2, 3, 4]", "x := {\"a\" : func () {\n    a\n}, \"b\" : 1, \"c\" : 2}",
	// comments
	"/* c */ a", "a # c", "a # c\nb", "/* c */\na", "/* c\n d */\na", "a\n/* c */\nb", "a\n\n\n# c\nb", "# c\na", "a /* c */ + b", "a + /* c */ b", "a + b /* c */",
	"a # c\n+ b", "a + # c\nb", "x := [1, # one\n2]", "x := [1 # one\n, 2]", "f(a, # c\nb)", "f(a # c\n)", "if a { # c\n}", "if a # c\n{\n}", "if a {\n    b # c\n}",
	"if a {\n    /* c */\n    b\n}", "if a {\n    /* c\n    d */\n    b\n}", "if a {\n    b\n    /* c */\n}", "if a {\n    b\n} /* c */ else {\n}", "if a {\n} # c\nelse {\n}",
	"x := \"a\" # c", "x := { # c\n\"a\" : 1}", "x := {\"a\" : 1 # c\n}", "x := {\"a\" : /* c */ 1}", "func f(a /* c */, b) {\n}", "func /* c */ f() {\n}",
	"a /* c */", "a /* c */\nb", "/* a */ /* b */ c", "a # b # c", "/* # */ a", "a # /* c */", "a # c\n# d\nb", "/* */ a", "/*\n*/ a", "/*a*/a/*b*/", "#\na", "a #", "a #\n",
	"mutex a { # c\n}", "try { # c\n} except { # d\n}", "return 1 # c", "return # c", "import \"a\" as b # c", "sink a # c\nkindmatch [\"a\"] # d\n{ # e\n}",
	"a := 1 /* c */ ; b := 2", "a := 1 ; /* c */ b := 2", "a := 1 # c ; b := 2\nd",
	// blank lines, separators, layout, keyword case
	"a\n\nb", "a\n\n\n\nb", "a;b", "a ; b ; c", "a;;b", "if a { b ; c }", "if a { b }", "if a {\n\n    b\n\n\n    c\n\n}", "\n\n\na", "a\n\n\n",
	"a AND b OR NOT c", "a hasPrefix b", "a HASSUFFIX b", "a NOTIN b", "TRUE", "False", "NULL", "IF a {\n} ELIF b {\n} ELSE {\n}", "FOR a IN b {\n}", "x := 1E+02", "x := 1.50", "x := 0x10", "x := 1e+3",
	"a +\nb", "a\n+ b", "f(\na,\nb\n)", "a.\nb", "a\n.b", "x := [\n1, 2\n]", "if a\n{\n}\nelse\n{\n}",
	"a := 1\nb := 2\n\n# trailing", "a := 1\n/* trailing */",
	// shapes found by the generated search (each one failed on the unrepaired tree)
	"{{return\n}}", "[return\n]", "f(return\n, 1)", "return # c\n+ 1", "x := [return\n, 1, 2, 3, 4, 5]", "00#\n#", "a # \n# b\n# \n+ c", "return\n#", "a\nreturn\n# done\n", "a; -b", "a; +b * c", "f(0);\n-(0 + l[0]) + 0", "a := -(b);\n(0 + 0) * 2", "a := f(1);\n(b + c) * d", "if x {\n    a; -b\n}",
	"func f() {\n    return\n    -2\n}", "func f() {\n    return\n    +7 - 1\n    g()\n}", "(return) + 1", "(return 1) and x",
	"x := [1 # c\n, -3, 4, 5, 6]", "x := [a # c\n, (b + c) * 2, 4, 5, 6]", "x := {1 : 2 # c\n, -3 : 4, 5 : 6}", "x := {0 : s, 0 : 0 + #\n 0, 0 : not true}",
	"if true {\n    a\n}", "if true {\n    a\n} elif true {\n    b\n}", "if true {\n} else {\n    b\n}",
	"x := 0 < # c\n 0\n\ny", "a # c\n\nb", "a # c\n\n\n\nb", "0 /*c*/ + 0", "a\n\n0 /*c*/ + 0", "/* x */ a /* c */ + b", "a\n/* x */ b /* c */ + c",
	"x := [/* c */ 1, 2, 3, 4, 5]", "x := [\n\n/* c */ 1, 2, 3, 4, 5]", "func f() {\n    return 0 + 0 /* two\n   lines */ + (0 + 0)\n}", "return /* c */ 1", "return /* a\nb */ 1",
	"x := {\"w\" : true\n\n  and\n( true ), \"a\" : 1, \"b\" : 2}", "a\n\n:= 1", "x := 1 + # c\n (2 + 3)", "x := (a + b) /* c */ * 2", "f(a # c\n, b)",
	"x := a * (b + c # cmt\n)", "(\n\na + b) * 2", "(/* c */ a + b) * 2", "name /* foo\n\t\tbar\n    x*/ 'b/* - */la' /*test*/",
	"Foo := {\n  \"super\" : [ Bar ]\n\n  # Object ID\n  #\n  \"id\" : 0\n\n  \"idx\" : 0\n\n  # Constructor\n  #\n  \"init\" : 1\n}",
	"mutex a {\n}\n\n\n/* c */\n\nb", "import \"a\" as b\n\n/* c */\n\nfor a in b {\n}", "sink a\n    priority -1\n    suppresses []\n{\n}", "sink s\n    kindmatch [\"a\"],\n    /* c */\n\n    priority 1\n{\n}", "sink s\n    /* c */\n\n    kindmatch [\"a\"]\n{\n}", "sink s\n    kindmatch [\"a\"]\n\n\n    # c\n\n    priority 1\n{\n}", "a\n/* c */\n\npriority 1", "a\n/* c */\n\nkindmatch []", "/* a */\n\n0 /* b */ % 0", "/**/\n\n0/**/%0", "/* a */\n\nx /* b */ := /* c */ 1", "# a\n\n\nf(1) /* b */ + 2", "let [a, b] := c\nlet     [a, b] := c",
	// forms which do NOT parse today (excluded and counted as such): if a later version of the parser accepts one of them,
	// the printer has to round-trip it like everything else
	"if (conf == {\"debug\" : true}) {\n    a\n}", "for [k, v] in ({\"a\" : 1, \"b\" : 2}) {\n    a\n}", "if check({\"a\" : 1}) {\n    a\n}", "if x in [{\"a\" : 1}] {\n    a\n}",
	"if a {\n    b\n} elif (c == {1 : 2}) {\n    d\n}", "for ({\"a\" : 1}).a > 0 {\n    break\n}", "for a, b in x {\n    c\n}", "x := 0x1f + 0b101 + 0o17", "x := a ? b : c", "x += 1", "x := l[1:2]",
	"f(a=1, b=2)", "x := r'it\\'s'", "x := \"a\" \"b\"", "x := a ** b", "x := !a", "x := a if b else c", "func f(a, *rest) {\n}", "x := [i * 2 for i in l]", "try {\n} except \"a\" | \"b\" {\n}",
	"x := {a : 1, b}", "let a, b := c", "a, b := c", "x := 1_000", "x := .5", "x := 5.", "x := 1e3", "x := -(-a)", "if a { b } else if c { d }", "while a {\n}", "x := a.b?.c", "x := f(1,)", "x := [1, 2,]", "x := {\"a\" : 1,}",
	// a statement which needs its separating semicolon (starts with a sign or bracket) behind a statement ending in a comment / a bare return
	"a := 1 # one\n;-b", "x := a # c\n;(x + b) * 2", "a # c\n;[1, 2][0]", "a /* c */;\n-b", "a /* c */\n;-b", "if x {\n    a # c\n    ;-b\n}", "a # c\n; +b\nd # e\n;(f)",
	"func f() {\n    return;\n    -a\n}", "func f() {\n    return # c\n    ;-a\n}", "func f() {\n    return 1 # c\n    ;(a)\n}", "a # c\n\n;-b", "a\n# c\n;-b", "x := [1, 2] # c\n;[3][0]", "x := f() # c\n;(g)()",
}
