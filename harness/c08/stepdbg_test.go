package c08

import (
	"errors"
	"strings"
	"sync/atomic"
	"time"

	"github.com/krotik/common/datautil"
	"github.com/krotik/ecal/engine/pool"
	"github.com/krotik/ecal/interpreter"
	"github.com/krotik/ecal/parser"
	"github.com/krotik/ecal/util"

	"verif/internal/erun"
)

// Generated programs terminate by construction; the step budget is only a
// safety net (a program which uses it up is discarded, never judged).
const stepBudget = 200000

var errBudget = errors.New("verif step budget exhausted")

type stepDbg struct {
	visits int64
}

func newStepDbg(erp *interpreter.ECALRuntimeProvider, vs parser.Scope) util.ECALDebugger {
	return &stepDbg{}
}

func (d *stepDbg) VisitState(node *parser.ASTNode, vs parser.Scope, tid uint64) util.TraceableRuntimeError {
	if atomic.AddInt64(&d.visits, 1) > stepBudget {
		return util.NewRuntimeError("c08", errBudget, "more than the allowed node visits", node).(util.TraceableRuntimeError)
	}
	return nil
}

func budgetHit(r *erun.Result) bool {
	return r.Err != nil && strings.Contains(r.Err.Error(), errBudget.Error())
}

func (d *stepDbg) HandleInput(string) (interface{}, error)                 { return nil, nil }
func (d *stepDbg) StopThreads(time.Duration) bool                          { return false }
func (d *stepDbg) BreakOnStart(bool)                                       {}
func (d *stepDbg) BreakOnError(bool)                                       {}
func (d *stepDbg) SetLockingState(map[string]uint64, *datautil.RingBuffer) {}
func (d *stepDbg) SetThreadPool(*pool.ThreadPool)                          {}
func (d *stepDbg) VisitStepInState(*parser.ASTNode, parser.Scope, uint64) util.TraceableRuntimeError {
	return nil
}
func (d *stepDbg) VisitStepOutState(*parser.ASTNode, parser.Scope, uint64, error) util.TraceableRuntimeError {
	return nil
}
func (d *stepDbg) RecordThreadFinished(uint64)               {}
func (d *stepDbg) SetBreakPoint(string, int)                 {}
func (d *stepDbg) DisableBreakPoint(string, int)             {}
func (d *stepDbg) RemoveBreakPoint(string, int)              {}
func (d *stepDbg) ExtractValue(uint64, string, string) error { return nil }
func (d *stepDbg) InjectValue(uint64, string, string) error  { return nil }
func (d *stepDbg) Continue(uint64, util.ContType)            {}
func (d *stepDbg) Status() interface{}                       { return nil }
func (d *stepDbg) LockState() interface{}                    { return nil }
func (d *stepDbg) Describe(uint64) interface{}               { return nil }
