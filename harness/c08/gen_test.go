package c08

import (
	"testing"

	"pgregory.net/rapid"

	"verif/internal/hx"
)

func TestProp(t *testing.T) {
	hx.Check(t, func(rt *rapid.T) Case {
		return Case{Kind: "prog", Src: rapid.SampledFrom(directed).Draw(rt, "d")}
	}, runCase)
}
