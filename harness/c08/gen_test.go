package c08

// (b) generated programs: every statement kind nested in the others, all
// string spellings, comments before/after tokens, container sizes around the
// multi-line thresholds, blank lines, separators, layout and keyword case.
// Programs terminate by construction (bounded ranges, condition loops with a
// private counter incremented at the loop head, functions call only functions
// defined before them) and are deterministic, so their behaviour can be compared.

import (
	"fmt"
	"strings"
	"testing"

	"pgregory.net/rapid"

	"verif/internal/hx"
	"verif/internal/lang"
)

// X is the generator's expression tree (surface decoration is drawn while printing).
type X struct {
	K string // num str id list map call idx dot func  or an operator node name
	S string // text of num / id / field, content of str
	A []*X
	F string // func literal: complete text
}

func (x *X) binary() bool { _, ok := lang.Bin(x.K); return ok && len(x.A) == 2 }
func (x *X) prefix() bool {
	return len(x.A) == 1 && (x.K == "not" || x.K == "minus" || x.K == "plus")
}
func (x *X) level() int {
	if x.binary() {
		o, _ := lang.Bin(x.K)
		return o.Level
	}
	if x.prefix() {
		if x.K == "not" {
			return lang.LvNot
		}
		return lang.LvPrefix
	}
	return lang.LvAtom
}

type pg struct {
	rt      *rapid.T
	b       strings.Builder
	nfunc   int
	nloop   int
	budget  int
	funcs   []string // callable names, arity 1
	imports map[string]string
	noRaw   bool // open finding: raw strings are printed quoted
	noTD    bool // open finding: a * (b / c)
	cmRate  int  // 0 = no inner comments, else 1 in cmRate optional places gets one
	plain   bool // no layout noise at all
}

type sctx struct {
	depth  int
	inLoop bool
	inFunc bool
	top    bool
}

func (g *pg) pick(n int, l string) int { return rapid.IntRange(0, n-1).Draw(g.rt, l) }

// chance is true in 1 of n draws (the largest value, so that shrinking removes the decoration).
func (g *pg) chance(n int, l string) bool {
	return n > 0 && rapid.IntRange(0, n-1).Draw(g.rt, l) == n-1
}
func (g *pg) oneOf(l string, s ...string) string { return s[g.pick(len(s), l)] }

// ---------------------------------------------------------------------------
// strings

var strPieces = []string{"", "a", "abc", " ", "x y", "é", "日本", "\"", "'", "\\", "\\\\", "\n", "\t", "\r", "{{", "}}", "{{a}}", "{{1+2}}", "{{ s }}", "{", "}", "#", "/*", "*/", "r\"", "\\n", "\\\"", "$", "%v", "\x01", "a.b", "[a-c]+", ";", ")"}

func (g *pg) strContent() string {
	n := g.pick(4, "sn")
	var sb strings.Builder
	for i := 0; i < n; i++ {
		sb.WriteString(strPieces[g.pick(len(strPieces), "sp")])
	}
	return sb.String()
}

// quote spells content as an ECAL string literal in a drawn style.
func (g *pg) quote(s string) string {
	style := g.pick(6, "qstyle") // 0-2 double, 3 single, 4 raw double, 5 raw single
	if style >= 4 {
		if g.noRaw {
			hx.E.Exclude("known.C08-raw-string-printed-quoted")
			style = 0
		} else if style == 4 && !strings.Contains(s, `"`) {
			return `r"` + s + `"`
		} else if style == 5 && !strings.Contains(s, `'`) {
			return `r'` + s + `'`
		} else {
			style = 0
		}
	}
	if style == 3 && !strings.ContainsAny(s, "'") {
		var sb strings.Builder
		sb.WriteByte('\'')
		for _, r := range s {
			switch r {
			case '\\':
				sb.WriteString(`\\`)
			case '\n':
				sb.WriteString(`\n`)
			case '\t':
				sb.WriteString(`\t`)
			case '\r':
				sb.WriteString(`\r`)
			case '\x01':
				sb.WriteString(`\x01`)
			case '"':
				if g.chance(2, "esq") {
					sb.WriteString(`\"`)
				} else {
					sb.WriteString(`"`)
				}
			default:
				sb.WriteRune(r)
			}
		}
		sb.WriteByte('\'')
		return sb.String()
	}
	var sb strings.Builder
	sb.WriteByte('"')
	for _, r := range s {
		switch r {
		case '\\':
			sb.WriteString(`\\`)
		case '"':
			sb.WriteString(`\"`)
		case '\n':
			sb.WriteString(`\n`)
		case '\t':
			sb.WriteString(`\t`)
		case '\r':
			sb.WriteString(`\r`)
		case '\x01':
			sb.WriteString(g.oneOf("ctl", `\x01`, `\u0001`, `\001`))
		case 'é':
			sb.WriteString(g.oneOf("uni", "é", `\u00e9`, `\xc3\xa9`))
		default:
			sb.WriteRune(r)
		}
	}
	sb.WriteByte('"')
	return sb.String()
}

// ---------------------------------------------------------------------------
// expressions

var numLits = []string{"0", "1", "2", "3", "7", "10", "0.5", "2.50", "1e+3", "1.5e+01", "123456789", "007", "1e+308"}

func (g *pg) num() *X { return &X{K: "num", S: numLits[g.pick(len(numLits), "nl")]} }
func (g *pg) id(names ...string) *X {
	return &X{K: "id", S: names[g.pick(len(names), "idn")]}
}

// exprN/B/S/L generate expressions of (intended) type number/bool/string/list.
func (g *pg) exprN(d int) *X {
	if d <= 0 || g.chance(3, "nleaf") {
		switch g.pick(8, "nk") {
		case 1, 2:
			return g.id("a", "b", "c", "numD")
		case 3:
			return &X{K: "idx", A: []*X{g.id("l"), g.exprN(0)}}
		case 4:
			return g.path()
		case 5:
			if len(g.funcs) > 0 {
				return &X{K: "call", A: []*X{{K: "id", S: g.funcs[g.pick(len(g.funcs), "fn")]}, g.exprN(d - 1)}}
			}
			return g.num()
		case 6:
			return &X{K: "call", A: []*X{{K: "id", S: "len"}, g.exprL(d - 1)}}
		}
		return g.num()
	}
	if g.chance(6, "npre") {
		return &X{K: g.oneOf("pm", "minus", "plus"), A: []*X{g.exprN(d - 1)}}
	}
	op := g.oneOf("aop", "plus", "minus", "times", "div", "divint", "modint", "plus", "minus", "times")
	l, r := g.exprN(d-1), g.exprN(d-1)
	if op == "div" || op == "divint" || op == "modint" {
		if g.chance(2, "simplediv") {
			r = &X{K: "num", S: g.oneOf("dv", "1", "2", "3", "7")}
		}
	}
	if g.noTD && op == "times" && r.K == "div" && r.binary() {
		hx.E.Exclude("known.C08-times-div-brackets")
		r.K = "divint"
	}
	return &X{K: op, A: []*X{l, r}}
}

// literalArith is arithmetic over number literals only.
func (g *pg) literalArith(d int) *X {
	if d <= 0 || g.chance(2, "laleaf") {
		return g.num()
	}
	if g.chance(5, "lapre") {
		return &X{K: "minus", A: []*X{g.literalArith(d - 1)}}
	}
	return &X{K: g.oneOf("laop", "plus", "minus", "times", "divint"), A: []*X{g.literalArith(d - 1), g.literalArith(d - 1)}}
}

func (g *pg) exprS(d int) *X {
	switch g.pick(6, "sk") {
	case 0:
		return g.id("s")
	case 1:
		if d > 0 {
			return &X{K: "plus", A: []*X{g.exprS(d - 1), g.exprS(d - 1)}}
		}
	case 2:
		return &X{K: "idx", A: []*X{g.id("m"), {K: "str", S: "k"}}}
	}
	return &X{K: "str", S: g.strContent()}
}

func (g *pg) exprL(d int) *X {
	switch g.pick(5, "lk") {
	case 0, 1:
		return g.id("l")
	case 2:
		return &X{K: "dot", S: "p", A: []*X{{K: "dot", S: "o", A: []*X{g.id("m")}}}}
	}
	n := g.pick(7, "ln")
	x := &X{K: "list"}
	for i := 0; i < n; i++ {
		x.A = append(x.A, g.exprAny(d-1))
	}
	return x
}

func (g *pg) exprM(d int) *X {
	n := g.pick(5, "mn")
	x := &X{K: "map"}
	for i := 0; i < n; i++ {
		var k *X
		switch g.pick(5, "mk") {
		case 0:
			k = g.num()
		case 1:
			k = g.exprS(0)
		default:
			k = &X{K: "str", S: g.oneOf("mkey", "k", "o", "key", "a b", "x")}
		}
		x.A = append(x.A, k, g.exprAny(d-1))
	}
	return x
}

func (g *pg) path() *X {
	// m.o.p[1].q  |  m.k  |  m["k"]  |  o.f(1)  |  m.o.p[0]  |  lib-free access chains
	switch g.pick(7, "pk") {
	case 5: // an index after a call whose argument is printed on several lines (list above the multi-line threshold)
		long := &X{K: "list"}
		for i := 0; i < 5+g.pick(3, "ll"); i++ {
			long.A = append(long.A, &X{K: "num", S: fmt.Sprint(i)})
		}
		return &X{K: "idx", A: []*X{{K: "call", A: []*X{g.id("idf"), long}}, {K: "num", S: fmt.Sprint(g.pick(5, "li"))}}}
	case 6: // the same with a map argument and a dotted access before the index
		mp := &X{K: "map", A: []*X{{K: "str", S: "p"}, {K: "list", A: []*X{{K: "num", S: "7"}, {K: "num", S: "8"}}}, {K: "str", S: "u"}, {K: "num", S: "1"}, {K: "str", S: "w"}, {K: "num", S: "2"}}}
		return &X{K: "idx", A: []*X{{K: "dot", S: "p", A: []*X{{K: "call", A: []*X{g.id("idf"), mp}}}}, {K: "num", S: "1"}}}
	case 0:
		return &X{K: "dot", S: "q", A: []*X{{K: "idx", A: []*X{{K: "dot", S: "p", A: []*X{{K: "dot", S: "o", A: []*X{g.id("m")}}}}, {K: "num", S: "1"}}}}}
	case 1:
		return &X{K: "dot", S: "k", A: []*X{g.id("m")}}
	case 2:
		return &X{K: "idx", A: []*X{g.id("m"), {K: "str", S: "k"}}}
	case 3:
		return &X{K: "call", A: []*X{{K: "dot", S: "f", A: []*X{g.id("o")}}, g.exprN(0)}}
	}
	return &X{K: "idx", A: []*X{{K: "dot", S: "p", A: []*X{{K: "dot", S: "o", A: []*X{g.id("m")}}}}, {K: "num", S: "0"}}}
}

func (g *pg) exprB(d int) *X {
	if d <= 0 || g.chance(4, "bleaf") {
		switch g.pick(4, "bk") {
		case 0:
			return &X{K: "true"}
		case 1:
			return &X{K: "false"}
		case 2:
			return g.id("tt", "ff")
		}
		return &X{K: g.oneOf("cop0", "<", ">", "==", "!="), A: []*X{g.exprN(0), g.exprN(0)}}
	}
	switch g.pick(9, "bop") {
	case 0:
		return &X{K: "not", A: []*X{g.exprB(d - 1)}}
	case 1, 2, 3:
		return &X{K: g.oneOf("ao", "and", "or"), A: []*X{g.exprB(d - 1), g.exprB(d - 1)}}
	case 4:
		return &X{K: g.oneOf("cop", ">=", "<=", ">", "<"), A: []*X{g.exprN(d - 1), g.exprN(d - 1)}}
	case 5:
		if g.chance(2, "eqb") {
			return &X{K: g.oneOf("eop", "==", "!="), A: []*X{g.exprB(d - 1), g.exprB(d - 1)}}
		}
		return &X{K: g.oneOf("eop", "==", "!="), A: []*X{g.exprN(d - 1), g.exprN(d - 1)}}
	case 6:
		return &X{K: g.oneOf("sop", "like", "hasprefix", "hassuffix"), A: []*X{g.exprS(d - 1), g.exprS(d - 1)}}
	case 7:
		return &X{K: g.oneOf("mop", "in", "notin"), A: []*X{g.exprN(d - 1), g.exprL(d - 1)}}
	}
	// ill-typed on purpose: a comparison as an arithmetic operand etc.
	return &X{K: g.oneOf("mix", "==", "and", "<"), A: []*X{g.exprAny(d - 1), g.exprAny(d - 1)}}
}

func (g *pg) exprAny(d int) *X {
	switch g.pick(12, "anyk") {
	case 0, 1, 2:
		return g.exprN(d)
	case 3, 4:
		return g.exprB(d)
	case 5, 6:
		return g.exprS(d)
	case 7:
		if d > 0 {
			return g.exprL(d)
		}
	case 8:
		if d > 0 {
			return g.exprM(d)
		}
	case 9:
		return &X{K: "null"}
	case 10:
		if d > 0 && g.budget > 4 {
			return &X{K: "func", F: g.funcLiteral(sctx{depth: 3})}
		}
	}
	return g.exprN(d)
}

// ---------------------------------------------------------------------------
// printing expressions with surface decoration

var kwAlt = map[string][]string{
	"and": {"and", "AND", "And"}, "or": {"or", "OR"}, "not": {"not", "NOT", "Not"},
	"like": {"like", "LIKE"}, "hasprefix": {"hasprefix", "hasPrefix", "HASPREFIX"}, "hassuffix": {"hassuffix", "hasSuffix"},
	"in": {"in", "IN"}, "notin": {"notin", "NOTIN", "notIn"},
	"true": {"true", "TRUE", "True"}, "false": {"false", "FALSE"}, "null": {"null", "NULL", "Null"},
}

func (g *pg) kw(k string) string {
	if g.plain || !g.chance(5, "kwcase") {
		return k
	}
	if alts, ok := kwAlt[k]; ok {
		return alts[g.pick(len(alts), "kwalt")]
	}
	return strings.ToUpper(k)
}

var cmTexts = []string{"c", " note ", "x := 1", "a # b", "\"q", " two\n   lines ", "*", "/ *", "TODO: é"}

// blockCm returns an inline block comment (with surrounding spaces) or "".
func (g *pg) blockCm(l string) string {
	if g.cmRate == 0 || !g.chance(g.cmRate, "cm."+l) {
		return ""
	}
	return " /*" + cmTexts[g.pick(len(cmTexts), "cmt")] + "*/ "
}

// lineCm returns a line comment which ends the line (the text continues on the next line) or "".
func (g *pg) lineCm(l string) string {
	if g.cmRate == 0 || !g.chance(g.cmRate*2, "lcm."+l) {
		return ""
	}
	return " #" + g.oneOf("lcmt", " c", "c", " x := 1", " /* c */", " \"q", "") + "\n"
}

// sp is optional layout between two tokens where a line break is harmless.
func (g *pg) sp(l string) string {
	if g.plain {
		return " "
	}
	switch g.pick(14, "sp."+l) {
	case 10:
		return "\n"
	case 11:
		return "  "
	case 12:
		return "\n\n  "
	case 13:
		return "\t"
	}
	return " "
}

// tight is like sp but may also be empty.
func (g *pg) tight(l string) string {
	if g.plain {
		return ""
	}
	switch g.pick(8, "tg."+l) {
	case 6:
		return " "
	case 7:
		return "\n"
	}
	return ""
}

func (g *pg) src(x *X) string {
	var sb strings.Builder
	g.write(&sb, x, false)
	return sb.String()
}

func (g *pg) writeParen(sb *strings.Builder, x *X, need bool) {
	if need || (!g.plain && g.chance(9, "redundant")) {
		sb.WriteString("(" + g.tight("lp") + g.blockCm("lp"))
		g.write(sb, x, false)
		sb.WriteString(g.lineCm("rp") + g.tight("rp") + ")")
		return
	}
	g.write(sb, x, false)
}

// write prints x; sameLine forbids anything that would put a line break before the first token.
func (g *pg) write(sb *strings.Builder, x *X, sameLine bool) {
	if !sameLine {
		sb.WriteString(g.blockCm("pre"))
	}
	switch {
	case x.binary():
		lv := x.level()
		l, r := x.A[0], x.A[1]
		g.writeParen(sb, l, l.level() < lv)
		o, _ := lang.Bin(x.K)
		sym := o.Sym
		if _, ok := kwAlt[x.K]; ok {
			sym = g.kw(x.K)
		}
		sb.WriteString(g.lineCm("bop") + g.sp("bop1") + g.blockCm("bop") + sym + g.lineCm("aop") + g.sp("bop2"))
		// a prefix operator needs no parentheses on the right unless it binds weaker than an operator which may follow
		g.writeParen(sb, r, (r.binary() && r.level() <= lv) || (r.prefix() && r.level() < lv))
	case x.prefix():
		c := x.A[0]
		if x.K == "not" {
			sb.WriteString(g.kw("not") + g.sp("not"))
			g.writeParen(sb, c, c.level() < lang.LvNot)
		} else {
			sb.WriteString(map[string]string{"minus": "-", "plus": "+"}[x.K])
			if c.prefix() {
				sb.WriteString(" ")
			} else {
				sb.WriteString(g.tight("pre"))
			}
			g.writeParen(sb, c, c.level() < lang.LvPrefix)
		}
	case x.K == "num" || x.K == "id":
		sb.WriteString(x.S)
	case x.K == "str":
		sb.WriteString(g.quote(x.S))
	case x.K == "true" || x.K == "false" || x.K == "null":
		sb.WriteString(g.kw(x.K))
	case x.K == "list":
		sb.WriteString("[" + g.tight("l0"))
		for i, c := range x.A {
			if i > 0 {
				sb.WriteString(g.oneOf("lsep", ", ", ",", ", ", " ,\n", ",\n    ") + g.lineCm("lsep"))
			}
			g.write(sb, c, false)
		}
		if len(x.A) > 0 && !g.plain && g.chance(10, "trailcomma") {
			sb.WriteString(",")
		}
		sb.WriteString(g.lineCm("l1") + g.tight("l1") + "]")
	case x.K == "map":
		sb.WriteString("{" + g.tight("m0"))
		for i := 0; i+1 < len(x.A); i += 2 {
			if i > 0 {
				sb.WriteString(g.oneOf("msep", ", ", ",", ",\n", ",\n    ") + g.lineCm("msep"))
			}
			g.write(sb, x.A[i], false)
			sb.WriteString(g.oneOf("kvsep", " : ", ":", ": ", " :\n") + g.blockCm("kv"))
			g.write(sb, x.A[i+1], false)
		}
		sb.WriteString(g.lineCm("m1") + g.tight("m1") + "}")
	case x.K == "call":
		g.write(sb, x.A[0], sameLine)
		sb.WriteString("(" + g.tight("c0"))
		for i, c := range x.A[1:] {
			if i > 0 {
				sb.WriteString(g.oneOf("asep", ", ", ",", ",\n  ") + g.lineCm("asep"))
			}
			g.write(sb, c, false)
		}
		sb.WriteString(g.lineCm("c1") + g.tight("c1") + ")")
	case x.K == "idx":
		// the bracket of an access must be on the line of the identifier it follows
		var base strings.Builder
		g.write(&base, x.A[0], sameLine)
		sb.WriteString(strings.ReplaceAll(base.String(), "\n", " "))
		sb.WriteString("[" + g.tight("i0"))
		g.write(sb, x.A[1], false)
		sb.WriteString(g.tight("i1") + "]")
	case x.K == "dot":
		g.write(sb, x.A[0], sameLine)
		sb.WriteString("." + x.S)
	case x.K == "func":
		sb.WriteString(x.F)
	default:
		panic("c08 gen: cannot print " + x.K)
	}
	sb.WriteString(g.blockCm("post"))
}

// ---------------------------------------------------------------------------
// statements

func (g *pg) ind(n int) string {
	if g.plain {
		return strings.Repeat("    ", n)
	}
	switch g.pick(6, "ind") {
	case 3:
		return ""
	case 4:
		return strings.Repeat("\t", n)
	case 5:
		return strings.Repeat("  ", n)
	}
	return strings.Repeat("    ", n)
}

// stmtSep ends a statement: newline(s), a trailing line comment, or a semicolon.
func (g *pg) stmtSep() string {
	if g.plain {
		return "\n"
	}
	switch g.pick(16, "sep") {
	case 8:
		return "\n\n"
	case 9:
		return "\n\n\n\n"
	case 10:
		return " ; "
	case 11:
		return ";"
	case 12:
		return " # " + g.oneOf("tcm", "done", "x", "é /* */", "") + "\n"
	case 13:
		return "\n" + g.leadCm()
	case 14:
		return " \t\n"
	case 15:
		return ";\n"
	}
	return "\n"
}

// leadCm is a comment on lines of its own before a statement.
func (g *pg) leadCm() string {
	switch g.pick(5, "lead") {
	case 0:
		return "/* " + g.oneOf("lc", "lead", "a\n b\n", "\n * x\n * y\n ") + " */\n"
	case 1:
		return "# line\n"
	case 2:
		return "\n/* c */\n\n"
	case 3:
		return "  /*c*/ "
	}
	return "# a\n# b\n"
}

func (g *pg) open() string { // " {" + newline
	if g.plain {
		return " {\n"
	}
	return g.oneOf("open", " {\n", " {\n", "{\n", "\n{\n", " { ", " {"+g.lineCmAlways()) // the comment after { belongs to no node
}

func (g *pg) lineCmAlways() string {
	if g.cmRate == 0 {
		return "\n"
	}
	return " # c\n"
}

func (g *pg) block(c sctx, max int) string {
	var sb strings.Builder
	n := g.pick(max+1, "nst")
	inner := c
	inner.depth++
	inner.top = false
	for i := 0; i < n && g.budget > 0; i++ {
		sb.WriteString(g.ind(inner.depth))
		st := g.stmt(inner)
		sb.WriteString(st)
		sb.WriteString(g.sepAfter(st))
	}
	// a semicolon separates statements, it cannot end the last one
	return noFinalSemicolon(sb.String())
}

// sepAfter draws the separator after a statement (a bare return cannot be followed by a semicolon).
func (g *pg) sepAfter(st string) string {
	sep := g.stmtSep()
	if strings.HasSuffix(strings.ToLower(st), "return") && strings.HasPrefix(strings.TrimLeft(sep, " "), ";") {
		return "\n"
	}
	return sep
}

func noFinalSemicolon(s string) string {
	t := strings.TrimRight(s, " \t\n")
	if strings.HasSuffix(t, ";") {
		return strings.TrimRight(t, "; \t\n") + "\n"
	}
	return s
}

func (g *pg) body(c sctx, max int) string {
	return g.open() + g.block(c, max) + g.ind(c.depth) + "}"
}

func (g *pg) funcLiteral(c sctx) string {
	g.budget -= 2
	params := g.oneOf("fparams", "()", "(x)", "(x, y)", "(x, y=1)", "(x=[1,2,3,4,5], y=\"s\")", "( x ,y = 1+2 )", "(x, y={\"k\":1,\"l\":2,\"n\":3})")
	fc := c
	fc.inFunc, fc.inLoop = true, false
	return g.kw("func") + g.oneOf("fsp", " ", "") + params + g.body(fc, 3)
}

func (g *pg) recStmt(x *X) string {
	return "t.rec(" + g.src(x) + ")"
}

func (g *pg) stmt(c sctx) string {
	g.budget--
	k := g.pick(32, "stmt")
	if c.depth >= 3 && k >= 10 && k <= 19 {
		k = k % 5
	}
	switch k {
	case 0, 1, 2:
		return g.recStmt(g.exprAny(3))
	case 3:
		return g.id("a", "b", "c").S + g.oneOf("asg", " := ", ":=", " :=\n  ") + g.src(g.exprN(3))
	case 4:
		return g.kw("let") + " " + g.oneOf("letv", "a", "x", "y") + " := " + g.src(g.exprAny(2))
	case 5:
		return g.oneOf("let?", "", "let ") + "[" + g.oneOf("mv", "a, b", "x,y", "a ,b, c") + "] := " + g.src(&X{K: "list", A: []*X{g.exprN(1), g.exprN(1), g.exprN(1)}})
	case 6:
		// the value stored into a container is built from literals only: storing a container into
		// itself makes the interpreter's error formatting recurse without end (a fatal stack overflow
		// of the host - C06's subject, and it would kill this process)
		tgt := g.oneOf("ptgt", "m.k", "l[0]", "m.o.p[1].q", "m[\"k\"]", "m.o.p[0]", "o.v", "l[len(l) - 1]")
		return tgt + " := " + g.src(g.literalArith(2))
	case 7:
		return g.oneOf("tb", "tt", "ff") + " := " + g.src(g.exprB(3))
	case 8:
		return "s := " + g.src(g.exprS(2))
	case 9:
		// container sizes around the multi-line thresholds
		if g.chance(2, "lm") {
			return g.oneOf("cv", "x", "l") + " := " + g.src(g.exprL(2))
		}
		return "x := " + g.src(g.exprM(2))
	case 10, 11: // if / elif / else
		var sb strings.Builder
		sb.WriteString(g.kw("if") + " " + g.srcGuard(g.exprB(2)) + g.body(c, 3))
		for n := g.pick(3, "nelif"); n > 0; n-- {
			sb.WriteString(g.oneOf("elifsp", " ", "\n", " "+g.blockCm("elif")) + g.kw("elif") + " " + g.srcGuard(g.exprB(2)) + g.body(c, 2))
		}
		if g.chance(2, "else") {
			sb.WriteString(g.oneOf("elsesp", " ", "\n", "") + g.kw("else") + g.body(c, 2))
		}
		return sb.String()
	case 12: // condition loop with a private counter incremented at the head
		g.nloop++
		w := fmt.Sprintf("w%d", g.nloop)
		lc := c
		lc.inLoop = true
		init := w + " := 0"
		if c.inFunc {
			init = "let " + w + " := 0"
		}
		cond := &X{K: "<", A: []*X{{K: "id", S: w}, {K: "num", S: fmt.Sprint(1 + g.pick(3, "wn"))}}}
		var cx *X = cond
		if g.chance(3, "wand") {
			cx = &X{K: "and", A: []*X{cond, g.exprB(1)}}
		}
		return init + "\n" + g.ind(c.depth) + g.kw("for") + " " + g.srcGuard(cx) + g.open() +
			g.ind(c.depth+1) + w + " := " + w + " + 1\n" + g.block(lc, 3) + g.ind(c.depth) + "}"
	case 13, 14: // for ... in
		lc := c
		lc.inLoop = true
		var head string
		switch g.pick(5, "forin") {
		case 0:
			head = "i " + g.kw("in") + " range(" + g.oneOf("rng", "2", "0, 2", "1, 3", "3, 1, -1", "0, 4, 2", "2, 2") + ")"
		case 1:
			head = "i " + g.kw("in") + " " + g.srcGuard(g.exprL(1))
		case 2:
			head = "[k, v] in " + g.oneOf("fm", "m", "m.o", "ob") // a map literal cannot be written here: the brace would start the block
		case 3:
			head = "[ i,j ] in [[1, 2], [3, 4]]"
		default:
			head = "i in l"
		}
		return g.kw("for") + " " + head + g.body(lc, 3)
	case 15, 16: // try
		var sb strings.Builder
		sb.WriteString(g.kw("try") + g.body(c, 3))
		for n := g.pick(3, "nexc"); n > 0; n-- {
			sb.WriteString(g.oneOf("excsp", " ", "\n", " ") + g.kw("except") + " " +
				g.oneOf("exc", "", "e ", "\"A\" ", "\"A\" as e ", "\"A\", \"B\" ", "\"A\", \"Operand is not a number\" as e ", "'A','B' as  e ", g.quote("A")+" ") +
				"{\n" + g.oneOf("excb", "", g.ind(c.depth+1)+"t.rec(e.type)\n", g.ind(c.depth+1)+"t.rec(\"caught\")\n") + g.block(c, 2) + g.ind(c.depth) + "}")
		}
		if g.chance(3, "otherwise") {
			sb.WriteString(" " + g.kw("otherwise") + g.body(c, 2))
		}
		if g.chance(3, "finally") {
			sb.WriteString(" " + g.kw("finally") + g.body(c, 2))
		}
		return sb.String()
	case 17: // named function + call
		g.nfunc++
		name := fmt.Sprintf("fn%d", g.nfunc)
		fc := c
		fc.inFunc, fc.inLoop = true, false
		g.budget--
		s := g.kw("func") + " " + name + g.blockCm("fname") + g.oneOf("fp", "(x)", "(x, y=2)", "( x, y = [1,2,3,4,5] )", "(x,y=\"d\",z=null)") + g.body(fc, 4)
		g.funcs = append(g.funcs, name)
		if g.chance(2, "callit") {
			s += "\n" + g.ind(c.depth) + g.recStmt(&X{K: "call", A: []*X{{K: "id", S: name}, g.exprN(1)}})
		}
		return s
	case 18: // anonymous function
		g.nfunc++
		name := fmt.Sprintf("af%d", g.nfunc)
		s := name + " := " + g.funcLiteral(c)
		if g.chance(2, "callaf") {
			s += "\n" + g.ind(c.depth) + "t.rec(" + name + "(1, 2))"
		}
		return s
	case 19: // mutex
		return g.kw("mutex") + " " + g.oneOf("mx", "mx", "mtx2") + g.body(c, 3)
	case 20, 29:
		if c.inLoop {
			return g.oneOf("bc", "break", "continue", "BREAK")
		}
		if c.inFunc {
			if g.chance(3, "retnone") {
				return g.kw("return")
			}
			return g.kw("return") + " " + g.srcSameLine(g.exprAny(2))
		}
		return g.recStmt(g.exprB(3))
	case 21, 22:
		if c.inFunc {
			if g.cmRate != 0 && g.chance(3, "retcm") {
				// a comment on the operator of a return value: wherever the printer moves it, the value must stay on the line of the return
				return g.kw("return") + " " + g.srcSameLine(g.exprN(1)) + " /*" + g.oneOf("rcmt", " two\n   lines ", "c", "\n", " a\n\n b\n") + "*/ " + g.oneOf("retop", "+", "-", "*", "==") + " " + g.srcSameLine(g.exprN(1))
			}
			return g.kw("return") + " " + g.srcSameLine(g.exprAny(3))
		}
		return g.recStmt(g.exprN(4))
	case 23: // raise
		return "raise(" + g.oneOf("rs", "\"A\"", "\"B\", \"detail\"", "\"A\", \"d\", [1, 2]", "") + ")"
	case 24: // import
		if c.top && g.imports != nil {
			return g.kw("import") + " " + g.oneOf("imp", "\"lib\"", "'lib'", "\"dir/lib2\"") + " " + g.kw("as") + " " + g.oneOf("impn", "lib", "lib2")
		}
		return g.recStmt(&X{K: "dot", S: "x", A: []*X{{K: "id", S: "lib"}}})
	case 25: // sink
		if c.top {
			return g.sink(c)
		}
		return g.recStmt(g.exprS(2))
	case 26: // bare expression statements
		return g.src(g.exprAny(3))
	case 27: // object style map with functions
		g.nfunc++
		return fmt.Sprintf("ob%d := {", g.nfunc) + g.tight("ob") + "\"v\" : " + g.src(g.exprN(1)) + g.oneOf("obsep", ", ", ",\n", "\n") +
			g.leadCmMaybe() + "\"f\" : " + g.funcLiteral(c) + g.oneOf("obsep2", ", ", ",\n", "\n") + "\"w\" : " + g.src(g.exprAny(1)) + g.tight("ob1") + "}"
	case 28:
		return g.recStmt(g.exprS(3))
	case 30:
		return g.recStmt(g.exprB(4))
	}
	return g.recStmt(g.exprN(4))
}

func (g *pg) leadCmMaybe() string {
	if g.cmRate != 0 && g.chance(3, "obcm") {
		return "/* " + g.oneOf("obc", "doc", "\n doc\n two\n") + " */\n"
	}
	return ""
}

// srcGuard prints a guard expression: a map literal cannot occur there (the brace starts the block).
func (g *pg) srcGuard(x *X) string {
	stripMaps(x)
	return g.src(x)
}

func stripMaps(x *X) {
	for i, c := range x.A {
		if c.K == "map" || c.K == "func" {
			x.A[i] = &X{K: "null"}
		} else {
			stripMaps(c)
		}
	}
	if x.K == "map" || x.K == "func" {
		x.K, x.A, x.F = "null", nil, ""
	}
}

// srcSameLine prints an expression whose first token must stay on the current line (return value).
func (g *pg) srcSameLine(x *X) string {
	var sb strings.Builder
	g.write(&sb, x, true)
	s := sb.String()
	return s
}

func (g *pg) sink(c sctx) string {
	g.nfunc++
	attrs := []string{
		g.kw("kindmatch") + " " + g.oneOf("km", "[\"a.b\"]", "[ \"a.*\", \"c\" ]", "[\"a\",\"b\",\"c\",\"d\",\"e\"]"),
		g.kw("scopematch") + " " + g.oneOf("sm", "[]", "[\"data.read\"]", "[\"x\", \"y\"]"),
		g.kw("statematch") + " " + g.oneOf("stm", "{}", "{\"a\" : 1}", "{\"a\":1,\"b\":NULL,\"c\":\"x\"}", "{ \"k\" : 1 + 2 }"),
		g.kw("priority") + " " + g.oneOf("pr", "0", "10", "-1", "(1 + 2)"),
		g.kw("suppresses") + " " + g.oneOf("sup", "[\"other\"]", "[]", "[\"s1\", \"s2\"]"),
	}
	// a drawn subset in a drawn order
	var sb strings.Builder
	sb.WriteString(g.kw("sink") + fmt.Sprintf(" sk%d", g.nfunc))
	n := g.pick(6, "nattr")
	perm := rapid.Permutation([]int{0, 1, 2, 3, 4}).Draw(g.rt, "attrperm")
	for i := 0; i < n; i++ {
		// (also a comment of its own, with an empty line before or after it, in front of an attribute)
		if i == 0 {
			sb.WriteString(g.oneOf("atsep0", "\n    ", " ", "\n", "\n    /* at */\n\n    ", "\n\n    /* at */\n    ", "\n    # at\n\n    ") + attrs[perm[i]])
		} else {
			sb.WriteString(g.oneOf("atsep", "\n    ", ", ", ",\n  ", "\n", "\n    /* at */\n\n    ", ",\n\n  /* at */\n  ", ",\n    # at\n\n    ", "\n\n\n    ") + attrs[perm[i]])
		}
	}
	sc := c
	sc.inFunc, sc.inLoop = false, false
	sb.WriteString(g.oneOf("skopen", "\n{\n", " {\n", "\n    {\n") + g.block(sc, 3) + "}")
	return sb.String()
}

const progPrelude = "func idf(v) {\n    return v\n}\na := 1\nb := 2\nc := 3\nnumD := 4\ntt := true\nff := false\ns := \"str\"\nl := [1, 2, 3]\nm := {\"k\" : 1, \"o\" : {\"p\" : [1, {\"q\" : 2}]}}\no := {\"v\" : 5, \"f\" : func (x) {\n    return x + 1\n}}\n"

var libs = map[string]string{
	"lib":      "x := 1\nfunc f(a) {\n    return a + 1\n}\n",
	"dir/lib2": "x := \"two\"\n",
}

// genProg draws a program. While the raw string finding is open, raw strings are only drawn
// where runCase can leave exactly the raw flag out of the judgement (kind prog, not the file tool).
func genProg(rt *rapid.T, rawOK bool) Case {
	g := &pg{rt: rt, budget: 6 + rapid.IntRange(0, 30).Draw(rt, "budget"), imports: libs,
		noRaw: !rawOK && hx.KnownOpen("C08-raw-string-printed-quoted"), noTD: hx.KnownOpen("C08-times-div-brackets")}
	switch g.pick(6, "noise") {
	case 0:
		g.plain = true
	case 1, 2:
		g.cmRate = 0
	case 3:
		g.cmRate = 40
	case 4:
		g.cmRate = 12
	default:
		g.cmRate = 80
	}
	var sb strings.Builder
	if !g.plain && g.chance(4, "leadfile") {
		sb.WriteString(g.leadCm())
	}
	sb.WriteString(progPrelude)
	n := 1 + g.pick(8, "ntop")
	c := sctx{top: true}
	for i := 0; i < n && g.budget > 0; i++ {
		st := g.stmt(c)
		sb.WriteString(st)
		sb.WriteString(g.sepAfter(st))
	}
	src := noFinalSemicolon(sb.String())
	if g.chance(3, "finalnl") {
		src = strings.TrimRight(src, "\n ;\t")
	}
	return Case{Kind: "prog", Src: src, Exec: true, Imports: libs}
}

// genFiles draws a small file tree for the format tool.
func genFiles(rt *rapid.T) Case {
	n := rapid.IntRange(1, 4).Draw(rt, "nfiles")
	c := Case{Kind: "files"}
	for i := 0; i < n; i++ {
		dir := rapid.SampledFrom([]string{"", "sub/", "sub/deep/", "a b/"}).Draw(rt, "dir")
		name := fmt.Sprintf("f%d", i)
		var content string
		switch rapid.IntRange(0, 9).Draw(rt, "fkind") {
		case 0: // does not parse: must stay untouched
			content = rapid.SampledFrom([]string{"a := := 1\n", "if a {\n", "x := \"abc\n", ")", "", "   \n"}).Draw(rt, "bad")
			name += ".ecal"
		case 1: // another extension: must stay untouched
			content = "a:=1;b:=2\n"
			name += rapid.SampledFrom([]string{".txt", ".ecal.bak", ".ecalx", ""}).Draw(rt, "ext")
		case 2:
			content = rapid.SampledFrom(directed).Draw(rt, "directed")
			name += ".ecal"
		case 3: // a file edited on another platform: CR LF line ends, also inside strings which span lines
			content = rapid.SampledFrom([]string{
				"x := r\"Line one\r\nLine two\"\r\nlog(x)\r\n",
				"# c\r\nx := r'a\r\n\r\nb'\r\ny := \"p\r\nq\"\r\n",
				"if a {\r\n    b := [1, 2, 3, 4, 5] # c\r\n}\r\n",
				"m := {\"k\" : r\"v\r\nw\", \"l\" : 2, \"n\" : 3}\r\n/* c\r\n d */\r\nz\r\n",
			}).Draw(rt, "crlf")
			name += ".ecal"
		default:
			content = genProg(rt, false).Src
			if rapid.IntRange(0, 5).Draw(rt, "crlfall") == 0 {
				content = strings.ReplaceAll(content, "\n", "\r\n")
			}
			name += ".ecal"
		}
		c.Files = append(c.Files, FileEnt{Path: dir + name, Content: content})
	}
	return c
}

func TestProp(t *testing.T) {
	hx.Check(t, func(rt *rapid.T) Case {
		if rapid.IntRange(0, 11).Draw(rt, "mode") == 0 {
			return genFiles(rt)
		}
		return genProg(rt, true)
	}, runCase)
}
