package c08

import (
	"strings"

	"github.com/krotik/ecal/parser"

	"verif/internal/lang"
)

// The harness's own model of which operand is written in parentheses (needed to
// describe the shapes of open findings exactly): levels of the documented
// operators plus the separators which the grammar treats like operators.
func opLevel(n *parser.ASTNode) (lv int, infix bool, ok bool) {
	if len(n.Children) == 2 {
		if o, isBin := lang.Bin(n.Name); isBin {
			return o.Level, true, true
		}
		switch n.Name {
		case parser.NodeKVP, parser.NodePRESET:
			return lang.LvCmp, true, true
		case parser.NodeASSIGN:
			return 5, true, true
		}
	}
	if len(n.Children) == 1 {
		switch n.Name {
		case parser.NodeNOT:
			return lang.LvNot, false, true
		case parser.NodeMINUS, parser.NodePLUS:
			return lang.LvPrefix, false, true
		case parser.NodeLET:
			return 7, false, true
		case parser.NodeKINDMATCH, parser.NodeSCOPEMATCH, parser.NodeSTATEMATCH, parser.NodePRIORITY, parser.NodeSUPPRESSES:
			return 90, false, true
		}
	}
	return 0, false, false
}

// bracketed: must child c (index i) of n be written in parentheses?
func bracketed(n *parser.ASTNode, i int, c *parser.ASTNode) bool {
	pl, pin, pok := opLevel(n)
	cl, cin, cok := opLevel(c)
	if pok && pin && i == 0 && c.Name == parser.NodeRETURN && len(c.Children) > 0 {
		return true
	}
	if !pok || !cok {
		return false
	}
	return cl < pl || (cl == pl && cin && !(pin && i == 0))
}

// lastTokenKept: does the printed text of n end with a token which the parser
// keeps as a node (so that a line comment after it is attached to a node again)?
func lastTokenKept(n *parser.ASTNode) bool {
	nc := len(n.Children)
	if nc == 0 {
		return n.Name != parser.NodeLIST && n.Name != parser.NodeMAP
	}
	last := n.Children[nc-1]
	if _, _, ok := opLevel(n); ok {
		return !bracketed(n, nc-1, last) && lastTokenKept(last)
	}
	switch n.Name {
	case parser.NodeRETURN, parser.NodeIMPORT:
		return lastTokenKept(last)
	case parser.NodeIDENTIFIER:
		return last.Name == parser.NodeIDENTIFIER && lastTokenKept(last)
	}
	return false
}

// firstTokenKept: does the printed text of n start with a token which the parser keeps?
func firstTokenKept(n *parser.ASTNode) bool {
	if _, infix, ok := opLevel(n); ok && infix {
		return !bracketed(n, 0, n.Children[0]) && firstTokenKept(n.Children[0])
	}
	return n.Name != parser.NodeLIST && n.Name != parser.NodeMAP
}

// startsWithSignOrBracket: does the printed text of a statement start with a sign or an opening
// bracket (it is then separated from the previous statement with a semicolon)?
func startsWithSignOrBracket(n *parser.ASTNode) bool {
	for {
		_, infix, ok := opLevel(n)
		if !ok {
			return false
		}
		if !infix {
			return n.Name == parser.NodePLUS || n.Name == parser.NodeMINUS
		}
		if bracketed(n, 0, n.Children[0]) {
			return true
		}
		n = n.Children[0]
	}
}

// preCommentOnLeftEdge: a block comment which is printed before the first token of the statement.
func preCommentOnLeftEdge(n *parser.ASTNode) bool {
	for {
		for _, m := range n.Meta {
			if m.Type() == parser.MetaDataPreComment {
				return true
			}
		}
		_, infix, ok := opLevel(n)
		if !ok || !infix || bracketed(n, 0, n.Children[0]) {
			return false
		}
		n = n.Children[0]
	}
}

// commentNextToBracket: the tree carries a comment which the printer can only
// place directly after a closing or before an opening bracket - where the
// parser drops it (open finding C08-comment-next-to-bracket-lost).
func commentNextToBracket(n *parser.ASTNode) bool {
	if n == nil {
		return false
	}
	for _, m := range n.Meta {
		switch m.Type() {
		case parser.MetaDataPostComment:
			if !lastTokenKept(n) {
				return true
			}
		case parser.MetaDataPreComment:
			if !firstTokenKept(n) {
				return true
			}
		}
	}
	for i, c := range n.Children {
		// a comment before the semicolon which separates a statement starting with a sign or bracket is dropped too
		if n.Name == parser.NodeSTATEMENTS && i > 0 && startsWithSignOrBracket(c) && preCommentOnLeftEdge(c) {
			return true
		}
		if commentNextToBracket(c) {
			return true
		}
	}
	return false
}

// onlyCommentsDiffer: p1 and p2 consist of the same tokens except for comments.
func onlyCommentsDiffer(p1, p2 string) (bool, int, int) {
	strip := func(s string) (string, int) {
		var sb strings.Builder
		n := 0
		for _, t := range parser.LexToList("c08", s) {
			if t.ID == parser.TokenPRECOMMENT || t.ID == parser.TokenPOSTCOMMENT {
				n++
				continue
			}
			if t.ID == parser.TokenCOMMA {
				continue // the comma after a commented element of a multi-line container becomes part of the comment
			}
			sb.WriteString(t.String())
			sb.WriteByte(0)
		}
		return sb.String(), n
	}
	s1, n1 := strip(p1)
	s2, n2 := strip(p2)
	return s1 == s2, n1, n2
}

// hasTimesDiv: the tree contains a * (b / c) (open finding C08-times-div-brackets).
func hasTimesDiv(n *parser.ASTNode) bool {
	if n == nil {
		return false
	}
	if n.Name == parser.NodeTIMES && len(n.Children) == 2 && n.Children[1].Name == parser.NodeDIV && len(n.Children[1].Children) == 2 {
		return true
	}
	for _, c := range n.Children {
		if hasTimesDiv(c) {
			return true
		}
	}
	return false
}
