// C15 — debugging only observes: same outcome, and every suspended thread can be resumed.
//
// Domain: control-flow programs from the C04 generator (optionally run as a
// sink body on a pool worker), breakpoint sets over their lines (set /
// disabled / removed), breakOnStart / breakOnError, a command sequence over
// {resume, stepin, stepover, stepout} applied by a controller that always
// resumes what is suspended, and a perturbation plan over the
// debug.suspend / debug.resumed hook points (incl. "hold the thread between
// publishing its suspension and waiting, issue Continue, release").
// Oracle: (1) transparency against an undebugged run, (2) every stop is
// justified, (3) for resume-only sequences the stops equal those computed
// from the baseline line-visit trace, (4) resumability (stuck-state rule).
package c15

import (
	"fmt"
	"os"
	"regexp"
	"runtime"
	"sort"
	"strconv"
	"strings"
	"sync"
	"sync/atomic"
	"testing"
	"time"

	"pgregory.net/rapid"

	"github.com/krotik/ecal/engine"
	"github.com/krotik/ecal/interpreter"
	"github.com/krotik/ecal/parser"
	"github.com/krotik/ecal/util"
	"github.com/krotik/ecal/verifhook"

	"verif/internal/erun"
	"verif/internal/hx"
	"verif/internal/lang"
	"verif/internal/pgen"
	"verif/internal/sched"
)

const rule = "case = (generated control-flow program, run directly or as a sink body on a worker; breakpoints set/disabled/removed over its lines; breakOnStart/breakOnError; command sequence over resume/stepin/stepover/stepout; perturbation plan at debug.suspend/debug.resumed); non-trivial = at least one suspension happened inside a function call or sink AND at least two different commands were used (or, for resume-only sequences, at least two suspensions were predicted and observed); distinct by (source, breakpoints, commands, plan)"

// Case is one debugging session.
type Case struct {
	Prog         *lang.Prog `json:"prog"`
	Sink         bool       `json:"sink"`     // run the program as the body of a sink (events sent with addEventAndWait)
	Breaks       []int      `json:"breaks"`   // line selectors (mod number of lines)
	Disabled     []int      `json:"disabled"` // selectors into Breaks that get disabled again
	Removed      []int      `json:"removed"`  // selectors into Breaks that get removed again
	BreakOnStart bool       `json:"break_on_start"`
	BreakOnError bool       `json:"break_on_error"`
	Cmds         []string   `json:"cmds"` // applied round robin to successive suspensions
	Plan         sched.Plan `json:"plan"`
	Late         []int      `json:"late,omitempty"`       // line selectors of break points which are set WHILE the program runs: at the LateAfter-th state visit inside a function call (as if a client sent break commands at that moment)
	LateAfter    int        `json:"late_after,omitempty"` //
	Noise        bool       `json:"noise,omitempty"`      // a second client keeps setting and removing a break point of ANOTHER source while the session runs (the debugger's tables change under the running threads and the commands; writers are pending almost all the time)
	StopLate     int        `json:"stop_late,omitempty"`  // StopAll only: StopThreads is called with a quiet period (30 ms) and this many further events arrive during it - their sink threads suspend at the break point while StopThreads waits; the next StopThreads has to release them as well
	StopAll      int        `json:"stop_all,omitempty"`   // > 0: that many sink threads are suspended at a breakpoint on several workers, then StopThreads must release every one of them
}

func TestMain(m *testing.M) { hx.Main(m, "C15", rule) }

var stuckBound = 10 * time.Second

func init() {
	if v, err := strconv.Atoi(os.Getenv("VERIF_C15_STUCK_SECONDS")); err == nil && v > 0 {
		stuckBound = time.Duration(v) * time.Second
	}
}

const srcName = "c15prog"

type visit struct {
	tid  uint64
	line int
}

// wrapDbg decorates the real debugger: it records which line every thread is
// visiting (so a suspension can be located) and the full visit trace.
type wrapDbg struct {
	util.ECALDebugger
	mu     sync.Mutex
	cur    map[uint64]int
	depth  map[uint64]int // function call depth (step-in minus step-out)
	visits []visit
	nvis   int64
	// late break points
	late       func()
	lateAfter  int
	inFunc     int
	lateDone   bool
	lateInCall bool
}

func newWrap(inner util.ECALDebugger) *wrapDbg {
	return &wrapDbg{ECALDebugger: inner, cur: map[uint64]int{}, depth: map[uint64]int{}}
}

func (w *wrapDbg) VisitState(node *parser.ASTNode, vs parser.Scope, tid uint64) util.TraceableRuntimeError {
	if node.Token != nil && node.Token.Lsource == srcName {
		w.mu.Lock()
		w.cur[tid] = node.Token.Lline
		w.visits = append(w.visits, visit{tid, node.Token.Lline})
		var fire func()
		if w.late != nil && !w.lateDone {
			if w.depth[tid] >= 1 {
				w.inFunc++
			}
			// inside a function call if the program has one early enough, otherwise after some statements
			if (w.depth[tid] >= 1 && w.inFunc > w.lateAfter) || len(w.visits) > 12+8*w.lateAfter {
				w.lateDone = true
				w.lateInCall = w.depth[tid] >= 1
				fire = w.late
			}
		}
		w.mu.Unlock()
		if fire != nil {
			fire() // a client sets break points now: this thread is inside a function call
		}
	}
	atomic.AddInt64(&w.nvis, 1)
	return w.ECALDebugger.VisitState(node, vs, tid)
}

func (w *wrapDbg) VisitStepInState(node *parser.ASTNode, vs parser.Scope, tid uint64) util.TraceableRuntimeError {
	w.mu.Lock()
	w.depth[tid]++
	w.mu.Unlock()
	return w.ECALDebugger.VisitStepInState(node, vs, tid)
}

func (w *wrapDbg) VisitStepOutState(node *parser.ASTNode, vs parser.Scope, tid uint64, soErr error) util.TraceableRuntimeError {
	w.mu.Lock()
	w.depth[tid]--
	if node.Token != nil {
		w.cur[tid] = node.Token.Lline
	}
	w.mu.Unlock()
	return w.ECALDebugger.VisitStepOutState(node, vs, tid, soErr)
}

func (w *wrapDbg) where(tid uint64) (line, depth int) {
	w.mu.Lock()
	defer w.mu.Unlock()
	return w.cur[tid], w.depth[tid]
}

type outcome struct {
	val, err, trace, log, global string
	panicked                     *hx.Failure
}

func summarize(r *erun.Result) outcome {
	o := outcome{panicked: r.Panic}
	o.val = lang.Show(lang.FromGo(r.Val))
	if r.ParseErr != nil || r.ValidateErr != nil {
		o.err = fmt.Sprint("parse/validate: ", r.ParseErr, r.ValidateErr)
	} else if r.Err != nil {
		t, d, data, _, _ := erun.ErrInfo(r.Err)
		o.err = fmt.Sprintf("%s|%s|%s", t, d, lang.Show(lang.FromGo(data)))
	}
	var tr []string
	for _, x := range r.Trace {
		tr = append(tr, lang.Show(lang.FromGo(x)))
	}
	o.trace = strings.Join(tr, " ")
	o.log = strings.Join(r.Log, "\n")
	if r.Global != nil {
		o.global = r.Global.String()
	}
	return o
}

func source(c Case) string {
	c.Prog.Number()
	body := c.Prog.Src()
	if c.StopAll > 0 {
		var b strings.Builder
		b.WriteString("sink s1\n    kindmatch [ \"a.b\" ]\n{\n    t.rec(\"in-sink\")\n")
		for _, l := range strings.Split(strings.TrimRight(body, "\n"), "\n") {
			b.WriteString("    " + l + "\n")
		}
		b.WriteString("}\n")
		for i := 1; i < c.StopAll; i++ {
			fmt.Fprintf(&b, "addEvent(\"e%d\", \"a.b\", {})\n", i)
		}
		b.WriteString("r := addEventAndWait(\"elast\", \"a.b\", {})\n")
		return b.String()
	}
	if !c.Sink {
		return body
	}
	var b strings.Builder
	b.WriteString("sink s1\n    kindmatch [ \"a.b\" ]\n{\n")
	for _, l := range strings.Split(strings.TrimRight(body, "\n"), "\n") {
		b.WriteString("    " + l + "\n")
	}
	b.WriteString("}\nr1 := addEventAndWait(\"e1\", \"a.b\", {})\nt.rec(r1)\nr2 := addEventAndWait(\"e2\", \"a.b\", {})\nt.rec(len(r2))\n")
	return b.String()
}

type stop struct {
	tid   uint64
	line  int
	depth int
	cmd   string // command issued for this stop
}

// after the first inconclusive case the shard is going to be reported as inconclusive anyway: the remaining cases
// are not run (every further one could cost another bound)
var gaveUp atomic.Bool

func inconclusive(reason string) {
	gaveUp.Store(true)
	hx.Inconclusive(reason)
}

// lockedInDebugger looks through a dump of all goroutines for one that is blocked acquiring a lock (not waiting on a
// condition variable, which is where a suspended thread legitimately sits) below a frame of the debugger. Such a
// goroutine, seen after the bound with nothing else moving, is a final state: Go locks have no timeouts.
var lockWait = regexp.MustCompile(`^goroutine \d+ \[(sync\.(RW)?Mutex\.(R)?Lock|semacquire)(, \d+ minutes)?\]:`)

func lockedInDebugger() string {
	buf := make([]byte, 1<<20)
	for {
		n := runtime.Stack(buf, true)
		if n < len(buf) {
			buf = buf[:n]
			break
		}
		buf = make([]byte, 2*len(buf))
	}
	for _, g := range strings.Split(string(buf), "\n\n") {
		if lockWait.MatchString(g) && strings.Contains(g, "interpreter.(*ecalDebugger).") {
			if len(g) > 1500 {
				g = g[:1500]
			}
			return g
		}
	}
	return ""
}

// dbgCall makes one call of the debugger's interface under a watchdog. A call which has not returned after the bound
// while no hold is active, no thread visits a statement any more and a goroutine sits in a lock acquisition below the
// debugger is a violation (the debugger's lock is held for good: no suspended thread can be resumed any more);
// a call that is merely slow makes the case inconclusive. ok=false: give up the case.
func dbgCall(w *wrapDbg, s *sched.Sched, what, src string, f func()) (fail *hx.Failure, ok bool) {
	ret := make(chan struct{})
	go func() { f(); close(ret) }()
	select {
	case <-ret:
		return nil, true
	case <-time.After(stuckBound + 10*time.Second):
	}
	waited := stuckBound + 11*time.Second
	a := atomic.LoadInt64(&w.nvis)
	time.Sleep(500 * time.Millisecond)
	b := atomic.LoadInt64(&w.nvis)
	time.Sleep(500 * time.Millisecond)
	select {
	case <-ret:
		return nil, true
	default:
	}
	if g := lockedInDebugger(); g != "" && a == b && b == atomic.LoadInt64(&w.nvis) && s.ActiveHolds() == 0 {
		if stuckBound > 3*time.Second {
			stuckBound = 3 * time.Second
		}
		return hx.Failf("debugger-locked-up", "%s has not returned after %v, no thread visits a statement any more and a goroutine is blocked acquiring a lock inside the debugger (suspended threads cannot be resumed any more); hook counters %v\n%s\n%s",
			what, waited, s.Counts(), g, src), false
	}
	inconclusive("c15." + what + "-slow")
	return nil, false
}

func runCase(c Case) (fail *hx.Failure) {
	if gaveUp.Load() {
		hx.E.Exclude("not-run.after-inconclusive")
		return nil
	}
	// sink variants run on pool workers: a panic there (or a runtime abort anywhere) kills the process;
	// the case is written ahead so that the driver can report it (crash:inflight)
	hx.WriteInflight(c)
	defer hx.ClearInflight()
	if c.StopAll > 0 {
		return runStopAll(c)
	}
	src := source(c)
	nlines := strings.Count(src, "\n")
	if nlines == 0 {
		nlines = 1
	}
	workers := 0
	if c.Sink {
		workers = 1
	}

	// (0) plain run
	base := erun.Run(src, erun.Options{Name: srcName, Workers: workers})
	if base.Panic != nil || base.ParseErr != nil || base.ValidateErr != nil {
		hx.E.Exclude("baseline-does-not-run") // totality is C06/C07's subject
		return nil
	}
	want := summarize(base)

	// (1) debugger attached, no breakpoints: same outcome; gives the line-visit trace
	var w0 *wrapDbg
	quiet := erun.Run(src, erun.Options{Name: srcName, Workers: workers, Debugger: func(erp *interpreter.ECALRuntimeProvider, vs parser.Scope) util.ECALDebugger {
		d := interpreter.NewECALDebugger(vs)
		d.BreakOnError(false)
		w0 = newWrap(d)
		return w0
	}})
	if got := summarize(quiet); got != want {
		return hx.Failf("attached-debugger-changes-outcome", "with a debugger attached (no breakpoints, break-on-error off) the outcome differs:\n%s\n%s", diff(want, got), src)
	}

	// breakpoints
	active := map[int]bool{}
	var setLines []int
	for _, b := range c.Breaks {
		l := 1 + abs(b)%nlines
		setLines = append(setLines, l)
		active[l] = true
	}
	for _, d := range c.Disabled {
		if len(setLines) > 0 {
			active[setLines[abs(d)%len(setLines)]] = false
		}
	}
	for _, r := range c.Removed {
		if len(setLines) > 0 {
			delete(active, setLines[abs(r)%len(setLines)])
		}
	}

	var lateLines []int
	lateSet := map[int]bool{}
	for _, b := range c.Late {
		l := 1 + abs(b)%nlines
		lateLines = append(lateLines, l)
		lateSet[l] = true
	}

	// (2) the debugged run
	s := sched.Install(c.Plan)
	var suspMu sync.Mutex
	suspended, resumed := map[uint64]int{}, map[uint64]int{}
	s.Observer = func(point string, args []interface{}) {
		if len(args) == 0 {
			return
		}
		tid, _ := args[0].(uint64)
		suspMu.Lock()
		switch point {
		case "debug.suspend":
			suspended[tid]++
		case "debug.resumed":
			resumed[tid]++
		}
		suspMu.Unlock()
	}
	defer s.Uninstall()

	var w *wrapDbg
	var inner util.ECALDebugger
	ready := make(chan struct{})
	done := make(chan struct{})
	var res *erun.Result
	go func() {
		res = erun.Run(src, erun.Options{Name: srcName, Workers: workers, Debugger: func(erp *interpreter.ECALRuntimeProvider, vs parser.Scope) util.ECALDebugger {
			inner = interpreter.NewECALDebugger(vs)
			inner.BreakOnError(c.BreakOnError)
			inner.BreakOnStart(c.BreakOnStart)
			for _, l := range setLines {
				inner.SetBreakPoint(srcName, l)
			}
			for _, d := range c.Disabled {
				if len(setLines) > 0 {
					inner.DisableBreakPoint(srcName, setLines[abs(d)%len(setLines)])
				}
			}
			for _, r := range c.Removed {
				if len(setLines) > 0 {
					inner.RemoveBreakPoint(srcName, setLines[abs(r)%len(setLines)])
				}
			}
			w = newWrap(inner)
			if len(lateLines) > 0 {
				w.lateAfter = c.LateAfter
				w.late = func() {
					for _, l := range lateLines {
						inner.SetBreakPoint(srcName, l)
					}
				}
			}
			close(ready)
			return w
		}})
		close(done)
	}()
	select {
	case <-ready:
	case <-done:
		select {
		case <-ready: // the program already ran to its end
		default: // never evaluated (cannot happen: the baseline ran)
			return hx.Failf("harness:no-debugger", "%s", src)
		}
	}

	if c.Noise {
		stopNoise := make(chan struct{})
		defer close(stopNoise)
		go func() {
			for {
				select {
				case <-stopNoise:
					return
				default:
				}
				inner.SetBreakPoint("c15other", 1)
				inner.RemoveBreakPoint("c15other", 1)
				runtime.Gosched()
			}
		}()
	}

	var stops []stop
	boundedAt := -1 // index of the first stop after which all break points were removed (session bound)
	lastCmd := map[uint64]string{}
	cmdIdx := 0
	contAt := map[uint64]time.Time{}
	contSusp := map[uint64]int{} // suspend count at the time of the Continue
	finished := false
	lastProgress := time.Now()
	var lastVis int64 = -1
	for !finished {
		select {
		case <-done:
			finished = true
			continue
		default:
		}
		var st map[string]interface{}
		if f, ok := dbgCall(w, s, "status", src, func() { st, _ = inner.Status().(map[string]interface{}) }); !ok {
			return f
		}
		threads, _ := st["threads"].(map[string]map[string]interface{})
		acted := false
		for k, ts := range threads {
			running, has := ts["threadRunning"].(bool)
			if !has || running {
				continue
			}
			tid64, _ := strconv.ParseUint(k, 10, 64)
			line, depth := w.where(tid64)
			cmd := "resume"
			if len(c.Cmds) > 0 {
				cmd = c.Cmds[cmdIdx%len(c.Cmds)]
				cmdIdx++
			}
			if len(stops) > 400 {
				cmd = "resume" // keep resuming: bounded session
				if boundedAt < 0 {
					boundedAt = len(stops) // stops from here on meet an empty break point table
					inner.RemoveBreakPoint(srcName, 0)
				}
			}
			stops = append(stops, stop{tid64, line, depth, cmd})
			lastCmd[tid64] = cmd
			suspMu.Lock()
			contSusp[tid64] = resumed[tid64]
			suspMu.Unlock()
			contAt[tid64] = time.Now()
			if f, ok := dbgCall(w, s, "continue("+cmd+")", src, func() {
				inner.Continue(tid64, map[string]util.ContType{"resume": util.Resume, "stepin": util.StepIn, "stepover": util.StepOver, "stepout": util.StepOut}[cmd])
			}); !ok {
				return f
			}
			verifhook.At("h.continue", tid64)
			acted = true
		}
		if v := atomic.LoadInt64(&w.nvis); v != lastVis || acted {
			lastVis = v
			lastProgress = time.Now()
		}
		// resumability: a thread we continued must leave its wait
		if time.Since(lastProgress) > stuckBound/2 && s.ActiveHolds() == 0 {
			for tid, t0 := range contAt {
				suspMu.Lock()
				left := resumed[tid] > contSusp[tid]
				suspMu.Unlock()
				if !left && time.Since(t0) > stuckBound/2 {
					a := atomic.LoadInt64(&w.nvis)
					time.Sleep(500 * time.Millisecond)
					b := atomic.LoadInt64(&w.nvis)
					time.Sleep(500 * time.Millisecond)
					select {
					case <-done:
						finished = true
					default:
					}
					suspMu.Lock()
					left = resumed[tid] > contSusp[tid]
					suspMu.Unlock()
					if !finished && !left && a == b && b == atomic.LoadInt64(&w.nvis) && s.ActiveHolds() == 0 {
						if stuckBound > 3*time.Second {
							stuckBound = 3 * time.Second
						}
						line, _ := w.where(tid)
						return hx.Failf("continue-lost", "thread %d was reported suspended at line %d, received '%s' %v ago and never left its wait (status now: %v); hook counters %v\n%s",
							tid, line, lastCmd[tid], time.Since(t0).Round(time.Millisecond), threads[fmt.Sprint(tid)], s.Counts(), src)
					}
				}
			}
			if !finished && time.Since(lastProgress) > stuckBound+20*time.Second {
				if g := lockedInDebugger(); g != "" && s.ActiveHolds() == 0 {
					// no thread is waiting for a command we have not given (those were judged above), nothing has
					// visited a statement for the whole bound, and a goroutine sits in a lock acquisition of the debugger
					if stuckBound > 3*time.Second {
						stuckBound = 3 * time.Second
					}
					return hx.Failf("debugger-locked-up", "the debugged program has not visited a statement for %v (the plain run ended at once) and a goroutine is blocked acquiring a lock inside the debugger; status: %v; hook counters %v\n%s\n%s",
						time.Since(lastProgress).Round(time.Millisecond), threads, s.Counts(), g, src)
				}
				inconclusive("c15.session-did-not-finish")
				return nil
			}
		}
		if !acted {
			time.Sleep(30 * time.Microsecond)
		}
	}

	// (1) transparency
	if res.Panic != nil {
		return &hx.Failure{Sig: res.Panic.Sig, Msg: src + "\n" + res.Panic.Msg}
	}
	if got := summarize(res); got != want {
		return hx.Failf("debugging-changes-outcome", "the debugged run differs from the plain run (breakpoints %v, commands %v, %d stops):\n%s\n%s", keys(active), c.Cmds, len(stops), diff(want, got), src)
	}

	// (2) every stop after a resume (or the first one) must be justified
	firstStop := true
	prevCmd := map[uint64]string{}
	for i, st := range stops {
		pc, seen := prevCmd[st.tid]
		if !seen || pc == "resume" {
			if boundedAt >= 0 && i > boundedAt {
				// the session bound removed all break points while this thread may already
				// have been waiting at one: stops of the tail are not judged
				break
			}
			// (a stop at a late break point can only happen after it was set)
			justified := active[st.line] || lateSet[st.line] || (c.BreakOnStart && firstStop) || c.BreakOnError
			if !justified {
				return hx.Failf("unjustified-stop", "thread %d stopped at line %d after '%s' but there is no active breakpoint there (active: %v, breakOnStart=%v, breakOnError=%v)\n%s",
					st.tid, st.line, pc, keys(active), c.BreakOnStart, c.BreakOnError, src)
			}
		}
		prevCmd[st.tid] = st.cmd
		firstStop = false
	}

	// (3) completeness for resume-only sessions
	// (a stepout given to a thread which is not inside any function call has nothing to step out of and is a resume:
	// in a program without functions - also as the body of a sink - sessions over {resume, stepout} are predicted too)
	resumeOnly := !c.BreakOnStart && !c.BreakOnError && len(stops) <= 400 && len(c.Late) == 0
	noFuncs := !strings.Contains(src, "func")
	usesStepOut := false
	for _, cmd := range c.Cmds {
		if cmd == "stepout" && noFuncs {
			usesStepOut = true
			continue
		}
		if cmd != "resume" {
			resumeOnly = false
		}
	}
	predicted := -1
	if resumeOnly {
		// baseline visits per thread, in thread order of first appearance
		perTid := map[uint64][]int{}
		var order []uint64
		for _, v := range w0.visits {
			if _, ok := perTid[v.tid]; !ok {
				order = append(order, v.tid)
			}
			perTid[v.tid] = append(perTid[v.tid], v.line)
		}
		var wantStops [][]int
		for _, tid := range order {
			var seq []int
			prev := -1
			for _, l := range perTid[tid] {
				if l != prev && active[l] {
					seq = append(seq, l)
				}
				prev = l
			}
			wantStops = append(wantStops, seq)
		}
		gotPer := map[uint64][]int{}
		var gorder []uint64
		for _, st := range stops {
			if _, ok := gotPer[st.tid]; !ok {
				gorder = append(gorder, st.tid)
			}
			gotPer[st.tid] = append(gotPer[st.tid], st.line)
		}
		var gotStops, wantNonEmpty [][]int
		for _, tid := range gorder {
			gotStops = append(gotStops, gotPer[tid])
		}
		for _, sq := range wantStops {
			if len(sq) > 0 {
				wantNonEmpty = append(wantNonEmpty, sq)
			}
		}
		// threads are matched as a multiset of per-thread sequences (thread ids and their order of appearance are not part of the statement)
		byText := func(x [][]int) { sort.Slice(x, func(i, j int) bool { return fmt.Sprint(x[i]) < fmt.Sprint(x[j]) }) }
		byText(gotStops)
		byText(wantNonEmpty)
		if fmt.Sprint(gotStops) != fmt.Sprint(wantNonEmpty) {
			return hx.Failf("suspension-sequence", "resume-only session: threads suspended at lines %v; the line-visit trace of the plain run and the active breakpoints %v predict %v\n%s",
				gotStops, keys(active), wantNonEmpty, src)
		}
		predicted = 0
		for _, sq := range wantNonEmpty {
			predicted += len(sq)
		}
	}

	// evidence
	inCall, cmds := false, map[string]bool{}
	for _, st := range stops {
		if st.depth > 0 || c.Sink {
			inCall = true
		}
		cmds[st.cmd] = true
	}
	nt := (inCall && len(cmds) >= 2) || (resumeOnly && predicted >= 2)
	rel, _ := s.HoldStats()
	classes := []string{fmt.Sprintf("sink.%v", c.Sink), fmt.Sprintf("resume-only.%v", resumeOnly)}
	if resumeOnly && usesStepOut {
		classes = append(classes, fmt.Sprintf("predicted.stepout-outside-any-call.sink.%v", c.Sink))
	}
	switch {
	case len(stops) == 0:
		classes = append(classes, "stops.0")
	case len(stops) < 5:
		classes = append(classes, "stops.1-4")
	case len(stops) < 50:
		classes = append(classes, "stops.5-49")
	default:
		classes = append(classes, "stops.50+")
	}
	if inCall {
		classes = append(classes, "stop.inside-call-or-sink")
	}
	for k := range cmds {
		classes = append(classes, "cmd."+k)
	}
	if rel > 0 {
		classes = append(classes, "plan.held-at-suspend-until-continue")
	}
	if c.BreakOnError {
		classes = append(classes, "break-on-error")
	}
	if c.Noise {
		classes = append(classes, "second-client.edits-break-points-of-another-source-meanwhile")
	}
	if len(lateLines) > 0 {
		w.mu.Lock()
		fired, inCall := w.lateDone, w.lateInCall
		w.mu.Unlock()
		classes = append(classes, fmt.Sprintf("late-break-points.set.%v.inside-a-call.%v", fired, inCall))
		if fired && len(keys(active)) == 0 && !c.BreakOnStart && !c.BreakOnError {
			classes = append(classes, "late-break-points.nothing-observed-before")
		}
	}
	key := src + fmt.Sprint(keys(active), c.Cmds, c.Plan, c.BreakOnStart, c.BreakOnError, lateLines, c.LateAfter, c.Noise)
	hx.E.Case(nt, key, classes...)
	hx.E.Class("suspensions", int64(len(stops)))
	if nt {
		hx.E.Sample(key, map[string]interface{}{"src": src, "breakpoints": keys(active), "cmds": c.Cmds, "stops": len(stops), "plan": fmt.Sprint(c.Plan)})
	}
	return nil
}

// runStopAll: several sink threads suspended at one breakpoint, then
// StopThreads: every suspended thread must leave its wait. The threads are
// killed by design afterwards (Goexit), so nothing else is compared.
func runStopAll(c Case) (fail *hx.Failure) {
	src := source(c)
	s := sched.Install(c.Plan)
	defer s.Uninstall()
	var mu sync.Mutex
	resumed := map[uint64]int{}
	nSuspend, nResumed := 0, 0 // passages of the hook points, whatever thread id the thread presents
	s.Observer = func(point string, args []interface{}) {
		if point == "debug.suspend" {
			mu.Lock()
			nSuspend++
			mu.Unlock()
		}
		if point == "debug.resumed" && len(args) > 0 {
			if tid, ok := args[0].(uint64); ok {
				mu.Lock()
				resumed[tid]++
				nResumed++
				mu.Unlock()
			}
		}
	}
	var inner util.ECALDebugger
	ready := make(chan struct{})
	hx.WriteInflight(c) // a fatal runtime abort inside StopThreads cannot be recovered
	var theErp *interpreter.ECALRuntimeProvider
	defer func() {
		if theErp != nil {
			erun.Close(theErp) // the main thread of this program never returns (its sink threads are killed): stop recording for it
		}
	}()
	go func() {
		defer func() { recover() }()
		erun.Run(src, erun.Options{Name: srcName, Workers: c.StopAll + c.StopLate, Debugger: func(erp *interpreter.ECALRuntimeProvider, vs parser.Scope) util.ECALDebugger {
			theErp = erp
			inner = interpreter.NewECALDebugger(vs)
			inner.BreakOnError(false)
			inner.SetBreakPoint(srcName, 4) // first statement of the sink body
			close(ready)
			return inner
		}})
	}()
	<-ready
	// wait until all invocations are suspended
	var susp []uint64
	deadline := time.Now().Add(20 * time.Second)
	for time.Now().Before(deadline) {
		susp = susp[:0]
		st, _ := inner.Status().(map[string]interface{})
		threads, _ := st["threads"].(map[string]map[string]interface{})
		for k, ts := range threads {
			if running, has := ts["threadRunning"].(bool); has && !running {
				tid, _ := strconv.ParseUint(k, 10, 64)
				susp = append(susp, tid)
			}
		}
		mu.Lock()
		atWait := nSuspend - nResumed
		mu.Unlock()
		if len(susp) >= c.StopAll || atWait >= c.StopAll {
			break
		}
		time.Sleep(200 * time.Microsecond)
	}
	mu.Lock()
	atWait := nSuspend - nResumed
	mu.Unlock()
	if len(susp) < c.StopAll && atWait < c.StopAll {
		hx.ClearInflight()
		inconclusive("c15.stopall-not-all-suspended")
		return nil
	}
	if len(susp) < c.StopAll {
		// all invocations have gone to their wait (hook passages) but status shows fewer suspended threads: several
		// of them present the same thread id. StopThreads has to release every one of them all the same.
		hx.E.Class("stopall.suspended-threads-share-an-id", 1)
	}
	time.Sleep(2 * time.Millisecond) // let them reach their waits (a thread still before its wait is the C15 lost-continue window, covered elsewhere)
	mu.Lock()
	before := map[uint64]int{}
	for _, tid := range susp {
		before[tid] = resumed[tid]
	}
	waiting := nSuspend - nResumed
	resumedBefore := nResumed
	mu.Unlock()
	var released bool
	quiet := time.Duration(0)
	if c.StopLate > 0 && theErp != nil {
		// (the stopped threads were pool workers and are gone: the pool has c.StopLate workers left for these)
		quiet = 30 * time.Millisecond
		go func() {
			time.Sleep(2 * time.Millisecond)
			for i := 0; i < c.StopLate; i++ {
				theErp.Processor.AddEvent(engine.NewEvent(fmt.Sprint("late", i), []string{"a", "b"}, map[interface{}]interface{}{}), nil)
			}
		}()
	}
	if f := hx.Guard(func() { released = inner.StopThreads(quiet) }); f != nil {
		hx.ClearInflight()
		return f
	}
	start := time.Now()
	for {
		left := 0
		mu.Lock()
		for _, tid := range susp {
			if resumed[tid] > before[tid] {
				left++
			}
		}
		gone := nResumed - resumedBefore
		mu.Unlock()
		if left == len(susp) && gone >= waiting {
			break
		}
		if left == len(susp) && time.Since(start) > stuckBound && s.ActiveHolds() == 0 {
			hx.ClearInflight()
			if stuckBound > 3*time.Second {
				stuckBound = 3 * time.Second
			}
			return hx.Failf("stopthreads-leaves-thread-suspended", "%d sink invocations were waiting at the breakpoint (passages of the suspend hook; status showed %d suspended thread ids); %v after StopThreads (returned %v) only %d of them have left their wait\n%s",
				waiting, len(susp), time.Since(start).Round(time.Millisecond), released, gone, src)
		}
		if time.Since(start) > stuckBound && s.ActiveHolds() == 0 {
			hx.ClearInflight()
			if stuckBound > 3*time.Second {
				stuckBound = 3 * time.Second
			}
			return hx.Failf("stopthreads-leaves-thread-suspended", "%d threads were suspended at the breakpoint; %v after StopThreads (returned %v) only %d of them have left their wait\n%s",
				len(susp), time.Since(start).Round(time.Millisecond), released, left, src)
		}
		time.Sleep(100 * time.Microsecond)
	}
	time.Sleep(time.Millisecond) // the released threads delete their state and exit while we are still here
	lateClass := "stopall.no-late-threads"
	if c.StopLate > 0 {
		// threads which suspended while (or after) StopThreads waited for its quiet period are suspended threads like
		// any other: stopping all threads again has to release every one of them
		lateWaiting := 0
		for dl := time.Now().Add(2 * time.Second); time.Now().Before(dl); time.Sleep(200 * time.Microsecond) {
			mu.Lock()
			lateWaiting = nSuspend - nResumed
			mu.Unlock()
			if lateWaiting >= c.StopLate {
				break
			}
		}
		if lateWaiting > 0 {
			lateClass = "stopall.late-threads-suspended-during-the-quiet-period"
			mu.Lock()
			rb := nResumed
			mu.Unlock()
			var again bool
			if f := hx.Guard(func() { again = inner.StopThreads(0) }); f != nil {
				hx.ClearInflight()
				return f
			}
			for t0 := time.Now(); ; time.Sleep(100 * time.Microsecond) {
				mu.Lock()
				gone := nResumed - rb
				mu.Unlock()
				if gone >= lateWaiting {
					break
				}
				if time.Since(t0) > stuckBound && s.ActiveHolds() == 0 {
					hx.ClearInflight()
					if stuckBound > 3*time.Second {
						stuckBound = 3 * time.Second
					}
					return hx.Failf("stopthreads-leaves-thread-suspended", "%d sink invocations suspended at the breakpoint while StopThreads(%v) was waiting for its quiet period (or after it); %v after the next StopThreads(0) (returned %v) only %d of them have left their wait\n%s",
						lateWaiting, quiet, time.Since(t0).Round(time.Millisecond), again, gone, src)
				}
			}
			time.Sleep(time.Millisecond)
		}
	}
	hx.ClearInflight()
	key := fmt.Sprint("stopall", c.StopAll, c.StopLate, src)
	hx.E.Case(true, key, "stopall", fmt.Sprintf("stopall.threads.%d", len(susp)), lateClass)
	hx.E.Sample(key, map[string]interface{}{"src": src, "suspended_threads": len(susp), "stop_all": true})
	return nil
}

func diff(a, b outcome) string {
	var out []string
	add := func(n, x, y string) {
		if x != y {
			out = append(out, fmt.Sprintf("  %s:\n    plain:    %s\n    debugged: %s", n, x, y))
		}
	}
	add("result", a.val, b.val)
	add("error", a.err, b.err)
	add("observations", a.trace, b.trace)
	add("log", a.log, b.log)
	add("global scope", a.global, b.global)
	return strings.Join(out, "\n")
}

func keys(m map[int]bool) []int {
	var out []int
	for k, v := range m {
		if v {
			out = append(out, k)
		}
	}
	sort.Ints(out)
	return out
}

func abs(x int) int {
	if x < 0 {
		return -x
	}
	return x
}

func TestRegress(t *testing.T) { hx.Regress(t, runCase) }

func genCase(rt *rapid.T) Case {
	pick := func(n int, l string) int { return rapid.IntRange(0, n-1).Draw(rt, l) }
	c := Case{Prog: pgen.ControlFlow(rt), Sink: pick(4, "sink") == 0, BreakOnStart: pick(8, "bos") == 0, BreakOnError: pick(4, "boe") == 0}
	for i, n := 0, pick(7, "nbreaks"); i < n; i++ {
		c.Breaks = append(c.Breaks, pick(200, "bl"))
	}
	// (several, also the same break point more than once: a repeated command must change nothing)
	if pick(3, "dis") == 0 {
		for i, n := 0, 1+pick(3, "ndis"); i < n; i++ {
			c.Disabled = append(c.Disabled, pick(3, "disi"))
		}
	}
	if pick(4, "rem") == 0 {
		for i, n := 0, 1+pick(2, "nrem"); i < n; i++ {
			c.Removed = append(c.Removed, pick(8, "remi"))
		}
	}
	if k := pick(8, "resumeonly"); k < 3 {
		c.Cmds = []string{"resume"}
	} else if k == 3 {
		c.Cmds = [][]string{{"stepout"}, {"stepout", "resume"}, {"resume", "stepout"}}[pick(3, "so")]
	} else {
		for i, n := 0, 1+pick(6, "ncmds"); i < n; i++ {
			c.Cmds = append(c.Cmds, []string{"resume", "stepin", "stepover", "stepout"}[pick(4, "cmd")])
		}
	}
	switch pick(4, "directed") {
	case 0: // between publishing the suspension and waiting: hold until the controller has issued Continue
		c.Plan = append(c.Plan, sched.Rule{Point: "debug.suspend", Nth: 1 + pick(4, "dn"), Action: "hold", Until: "h.continue", Plus: 1, Timeout: 200})
	case 1:
		c.Plan = append(c.Plan, sched.Rule{Point: "debug.suspend", Nth: 0, Action: "yield", N: pick(4, "yn")})
	case 2:
		c.Plan = append(c.Plan, sched.Rule{Point: "debug.resumed", Nth: 0, Action: "sleep", N: 1 + pick(100, "sn")})
	}
	if pick(3, "late") == 0 {
		for i, n := 0, 1+pick(3, "nlate"); i < n; i++ {
			c.Late = append(c.Late, pick(200, "ll"))
		}
		c.LateAfter = pick(3, "lateafter")
		if pick(2, "lateonly") == 0 {
			// nothing is observed when the call is entered
			c.Breaks, c.Disabled, c.Removed, c.BreakOnStart, c.BreakOnError = nil, nil, nil, false, false
		}
	}
	c.Noise = pick(3, "noise") == 0
	if pick(16, "stopall") == 0 {
		c.StopAll = 2 + pick(3, "stopn")
		c.StopLate = pick(3, "stoplate")
		c.Plan = nil
	}
	return c
}

// directed: StopThreads with 2-4 threads suspended on as many workers, repeated (the interesting schedule is sampled)
func TestExhaustive(t *testing.T) {
	reps := 40
	if hx.Thorough() {
		reps = 400
	}
	hx.Enumerate(t, "stopthreads", func(yield func(Case) bool) {
		for i := 0; i < reps; i++ {
			for n := 2; n <= 4; n++ {
				p := &lang.Prog{Body: []*lang.S{lang.Assign(lang.Var("a"), lang.Num(fmt.Sprint(i))), lang.Rec(lang.Var("a")), lang.Mark("after")}}
				if !yield(Case{Prog: p, StopAll: n, StopLate: i % 3}) {
					return
				}
			}
		}
	}, runCase)
}

func TestProp(t *testing.T) { hx.Check(t, genCase, runCase) }
