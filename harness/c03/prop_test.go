// C03 — expressions evaluate per the documented operator semantics and precedence.
//
// Domain: expression trees over the 19 binary and 3 prefix operators, all
// literal kinds and a fixed variable environment; exhaustive for all
// operator pairs (depth 2) with a well-typed operand assignment plus one
// ill-typed operand of every other kind per slot; random type-directed trees
// to depth 6 with redundant parentheses, layout and keyword-case variation.
// Oracle: (1) the tree ECAL parsed equals the generated tree (precedence,
// associativity), (2) Eval equals the harness's reference evaluator or both
// fail, with the documented error kind naming the operand.
package c03

import (
	"fmt"
	"regexp"
	"strings"
	"testing"

	"pgregory.net/rapid"

	"verif/internal/erun"
	"verif/internal/hx"
	"verif/internal/lang"
)

const rule = "case = (expression tree, print mode); trees: exhaustive operator pairs (19x19 binary nestings on either side, prefix x binary) with well-typed operands and one ill-typed operand of every other kind per slot, plus random type-directed trees to depth 6; printed with the minimal parentheses the DOCUMENTED precedence requires, or fully parenthesised, plus redundant parentheses/layout/keyword case; non-trivial = at least two operators of which one is an operand of the other written WITHOUT parentheses around it; distinct by printed text"

// Case is one expression.
type Case struct {
	Expr *lang.E `json:"expr"`
	Full bool    `json:"full"` // fully parenthesised printing
}

func TestMain(m *testing.M) { hx.Main(m, "C03", rule) }

// The fixed environment (ECAL side / reference side).
var envGo = map[string]interface{}{
	"n1": 2., "n2": 7., "n3": 0.5, "n0": 0., "nn": -3.,
	"s1": "a", "s2": "abc", "s3": "",
	"b1": true, "b2": false, "u": nil,
	"l1": []interface{}{1., 2., 3.}, "l2": []interface{}{"a", "b"}, "l0": []interface{}{},
}

// The environment of the second evaluation of the same tree: every name keeps
// its kind and changes its value (n0 stays zero: it is the zero divisor).
var envGo2 = map[string]interface{}{
	"n1": 7., "n2": 2., "n3": 4., "n0": 0., "nn": -1.,
	"s1": "abc", "s2": "a", "s3": "ab",
	"b1": false, "b2": true, "u": nil,
	"l1": []interface{}{4., 5.}, "l2": []interface{}{"c"}, "l0": []interface{}{},
}

func envRefOf(env map[string]interface{}) map[string]lang.Value {
	out := map[string]lang.Value{}
	for k, v := range env {
		out[k] = lang.FromGo(v)
	}
	return out
}

func envRef() map[string]lang.Value { return envRefOf(envGo) }

func rootOp(e *lang.E) string {
	if e.IsBinary() || e.IsPrefix() {
		return e.K
	}
	return "atom"
}

func nontrivial(e *lang.E, full bool) bool {
	if full {
		return false
	}
	found := false
	e.Walk(func(x *lang.E) {
		if x.IsBinary() || x.IsPrefix() {
			for _, c := range x.A {
				if (c.IsBinary() || c.IsPrefix()) && c.P == 0 && x.Level() != lang.LvAtom {
					// child written without explicit redundant parentheses; it is bare iff the printer does not need them
					bare := false
					if x.IsBinary() {
						if c == x.A[0] {
							bare = c.Level() >= x.Level()
						} else {
							bare = c.Level() > x.Level()
						}
					} else if x.K == "not" {
						bare = c.Level() >= lang.LvNot
					} else {
						bare = c.Level() >= lang.LvPrefix
					}
					if bare {
						found = true
					}
				}
			}
		}
	})
	return found
}

func runCase(c Case) *hx.Failure {
	mode := lang.Minimal
	if c.Full {
		mode = lang.Full
	}
	src := c.Expr.Src(mode)
	nt := nontrivial(c.Expr, c.Full)
	classes := []string{"root." + rootOp(c.Expr)}
	if c.Full {
		classes = append(classes, "print.full")
	} else {
		classes = append(classes, "print.minimal")
	}

	want, werr, unspec := lang.EvalExpr(c.Expr, envRef())
	res := erun.Run(src, erun.Options{Env: envGo, Env2: envGo2, NoEval: unspec != ""})
	if res.Panic != nil {
		// a crash is C06's subject, but it also means no value/error came back here
		hx.E.Case(nt, src, append(classes, "outcome.panic")...)
		return hx.Failf("panic:"+rootOp(c.Expr), "%s\n%s", src, res.Panic.Msg)
	}
	if res.ParseErr != nil {
		hx.E.Case(nt, src, append(classes, "outcome.parse-error")...)
		return hx.Failf("parse-error", "valid expression rejected by the parser: %q: %v", src, res.ParseErr)
	}

	// (1) structure
	got, cerr := erun.ToExpr(res.AST)
	if cerr != nil {
		hx.E.Case(nt, src, append(classes, "outcome.tree-unreadable")...)
		return hx.Failf("structure:unreadable", "%q parsed into a tree the harness cannot read: %v", src, cerr)
	}
	if got.Shape() != c.Expr.Shape() {
		hx.E.Case(nt, src, append(classes, "outcome.structure")...)
		return hx.Failf("structure:"+rootOp(c.Expr)+"/"+rootOp(got),
			"%q\n  expected tree %s\n  parsed tree   %s", src, c.Expr.Shape(), got.Shape())
	}
	if res.ValidateErr != nil {
		hx.E.Case(nt, src, append(classes, "outcome.validate-error")...)
		return hx.Failf("validate-error", "%q: %v", src, res.ValidateErr)
	}

	// (2) value
	if unspec != "" {
		hx.E.Case(nt, src, append(classes, "outcome.unspecified")...)
		hx.E.Exclude("unspecified." + strings.SplitN(unspec, ":", 2)[0])
		return nil
	}
	if werr != nil {
		classes = append(classes, "outcome.error")
	} else {
		classes = append(classes, "outcome.value")
	}
	hx.E.Case(nt, src, classes...)
	if nt {
		hx.E.Sample(src, map[string]interface{}{"src": src, "tree": c.Expr.Shape(), "expect": show(want, werr)})
	}
	if f := judge(c, src, "", want, werr, res.Val, res.Err); f != nil {
		return f
	}
	// (3) the same tree evaluated again with other values of the same kinds: nothing of the first
	// evaluation may stick to the nodes
	if res.Again {
		want2, werr2, unspec2 := lang.EvalExpr(c.Expr, envRefOf(envGo2))
		if unspec2 != "" {
			hx.E.Class("second-evaluation.unspecified", 1)
			return nil
		}
		hx.E.Class("second-evaluation.judged", 1)
		if show(want2, werr2) != show(want, werr) {
			hx.E.Class("second-evaluation.expects-another-outcome", 1)
		}
		if f := judge(c, src, " [second evaluation of the same tree, with n1=7 n2=2 n3=4 nn=-1 s1=\"abc\" s2=\"a\" s3=\"ab\" b1=false b2=true l1=[4,5] l2=[\"c\"]]", want2, werr2, res.Val2, res.Err2); f != nil {
			f.Sig = "again:" + f.Sig
			return f
		}
	}
	return nil
}

var errTextTail = regexp.MustCompile(`\(Line:\d+ Pos:\d+\)$`)

// judge compares one evaluation result with the reference's.
func judge(c Case, src, note string, want lang.Value, werr *lang.ErrV, val interface{}, err error) *hx.Failure {
	if werr != nil {
		if err == nil {
			return hx.Failf("error-missing:"+rootOp(c.Expr), "%q%s evaluated to %s but must fail with %q", src, note, lang.Show(val), werr.Type)
		}
		typ, detail, _, _, ok := erun.ErrInfo(err)
		if !ok || typ != werr.Type {
			return hx.Failf("error-type:"+rootOp(c.Expr), "%q%s failed with %q (%v) but must fail with %q", src, note, typ, err, werr.Type)
		}
		named := false
		for _, n := range werr.Operand {
			if n == "" || strings.Contains(strings.ToLower(detail), strings.ToLower(n)) {
				named = true
			}
		}
		if !named {
			return hx.Failf("error-operand:"+rootOp(c.Expr), "%q%s failed with detail %q which names none of the offending operands %q", src, note, detail, werr.Operand)
		}
		// what a user gets to see is the text of the error: it must name the operand as well
		// (the detail in brackets, followed by the position, as ecal.md shows it)
		named = strings.Contains(err.Error(), "("+detail+")") && errTextTail.MatchString(err.Error())
		if !named {
			return hx.Failf("error-text:"+rootOp(c.Expr), "%q%s: the error's fields name the operand (detail %q) but its text does not: %q", src, note, detail, err.Error())
		}
		return nil
	}
	if err != nil {
		return hx.Failf("unexpected-error:"+rootOp(c.Expr), "%q%s must evaluate to %s but failed: %v", src, note, lang.Show(want), err)
	}
	if !lang.Match(want, val) {
		return hx.Failf("value:"+rootOp(c.Expr), "%q%s evaluated to %s, reference says %s", src, note, lang.Show(val), lang.Show(want))
	}
	return nil
}

func show(v lang.Value, e *lang.ErrV) string {
	if e != nil {
		return "error " + e.Type
	}
	return lang.Show(v)
}

func TestRegress(t *testing.T) { hx.Regress(t, runCase) }

// ---------------------------------------------------------------------------
// exhaustive operator pairs

// operand types: n s b l(list) a(any scalar: we use n) ; result types
func opTypes(o lang.OpInfo) (l, r, res string) {
	switch o.Class {
	case "arith":
		return "n", "n", "n"
	case "cmp", "eq":
		return "n", "n", "b"
	case "str":
		return "s", "s", "b"
	case "list":
		return "n", "l", "b"
	}
	return "b", "b", "b"
}

var atoms = map[string][][2]*lang.E{ // per type: (literal, variable) choices
}

func atom(t string, variant int) *lang.E {
	switch t {
	case "n":
		return []*lang.E{lang.Num("2"), lang.Var("n2"), lang.Num("0.5"), lang.Num("1.5e+01")}[variant%4]
	case "s":
		return []*lang.E{lang.Str("a"), lang.Var("s2"), lang.StrQ("ab", "'"), lang.StrQ("a", `r"`)}[variant%4]
	case "b":
		return []*lang.E{lang.Bool(true), lang.Var("b2"), lang.Bool(false), lang.Var("b1")}[variant%4]
	case "l":
		return []*lang.E{lang.List(lang.Num("1"), lang.Num("2")), lang.Var("l1"), lang.List(), lang.Var("l2")}[variant%4]
	case "u":
		return []*lang.E{lang.Null(), lang.Var("u")}[variant%2]
	}
	panic(t)
}

var kinds = []string{"n", "s", "b", "l", "u"}

func clone(e *lang.E) *lang.E {
	c := *e
	c.A = nil
	for _, a := range e.A {
		c.A = append(c.A, clone(a))
	}
	return &c
}

// leaves returns pointers to the leaf slots of a tree.
func leaves(e *lang.E, out *[]**lang.E) {
	for i := range e.A {
		if len(e.A[i].A) == 0 && e.A[i].K != "list" {
			*out = append(*out, &e.A[i])
		} else if e.A[i].K == "list" {
			*out = append(*out, &e.A[i])
		} else {
			leaves(e.A[i], out)
		}
	}
}

func pairTrees(yield func(Case) bool) {
	emit := func(tree *lang.E, slotTypes []string) bool {
		for _, full := range []bool{false, true} {
			for variant := 0; variant < 2; variant++ {
				t := clone(tree)
				var ls []**lang.E
				leaves(t, &ls)
				for i, l := range ls {
					*l = atom(slotTypes[i], variant+i)
				}
				if !yield(Case{Expr: t, Full: full}) {
					return false
				}
			}
			// one ill-typed operand of every other kind per slot
			for slot := range slotTypes {
				for _, k := range kinds {
					if k == slotTypes[slot] {
						continue
					}
					t := clone(tree)
					var ls []**lang.E
					leaves(t, &ls)
					for i, l := range ls {
						if i == slot {
							*l = atom(k, slot)
						} else {
							*l = atom(slotTypes[i], i)
						}
					}
					if !yield(Case{Expr: t, Full: full}) {
						return false
					}
				}
			}
		}
		return true
	}
	ph := func() *lang.E { return lang.Null() }
	for _, outer := range lang.BinOps {
		ol, or, _ := opTypes(outer)
		for _, inner := range lang.BinOps {
			il, ir, _ := opTypes(inner)
			// inner on the left
			if !emit(lang.Op(outer.Name, lang.Op(inner.Name, ph(), ph()), ph()), []string{il, ir, or}) {
				return
			}
			// inner on the right
			if !emit(lang.Op(outer.Name, ph(), lang.Op(inner.Name, ph(), ph())), []string{ol, il, ir}) {
				return
			}
		}
		for _, p := range lang.PrefixOps {
			pt := "n"
			if p == "not" {
				pt = "b"
			}
			// prefix applied to the binary expression, and as left / right operand
			if !emit(lang.Op(p, lang.Op(outer.Name, ph(), ph())), []string{ol, or}) {
				return
			}
			if !emit(lang.Op(outer.Name, lang.Op(p, ph()), ph()), []string{pt, or}) {
				return
			}
			if !emit(lang.Op(outer.Name, ph(), lang.Op(p, ph())), []string{ol, pt}) {
				return
			}
		}
	}
	for _, p := range lang.PrefixOps {
		for _, q := range lang.PrefixOps {
			qt := "n"
			if q == "not" {
				qt = "b"
			}
			if !emit(lang.Op(p, lang.Op(q, ph())), []string{qt}) {
				return
			}
		}
	}
	// single operators x operand-kind matrix
	for _, o := range lang.BinOps {
		for _, a := range kinds {
			for _, b := range kinds {
				for v := 0; v < 2; v++ {
					if !yield(Case{Expr: lang.Op(o.Name, atom(a, v), atom(b, v+1))}) {
						return
					}
				}
			}
		}
	}
	for _, p := range lang.PrefixOps {
		for _, a := range kinds {
			for v := 0; v < 2; v++ {
				if !yield(Case{Expr: lang.Op(p, atom(a, v))}) {
					return
				}
			}
		}
	}
}

func TestExhaustive(t *testing.T) {
	hx.Enumerate(t, "operator-pairs", pairTrees, runCase)
	hx.E.Exhaustive("operator-pairs", "all 19x19 binary nestings (inner left / inner right), all prefix x binary and prefix x prefix combinations, each minimal and fully parenthesised, with 2 well-typed operand assignments and one ill-typed operand of every other kind per slot; all single operators x operand-kind pairs")
}

// ---------------------------------------------------------------------------
// random type-directed trees

// (spellings with leading zeros are decimal like every other literal: 010 is ten)
var numLits = []string{"0", "1", "2", "3", "7", "10", "0.5", "2.5", "1.5", "7.9", "123.456", "1.234560e+02", "1e+02", "100000", "123456789", "1e+308", "0.001",
	"010", "007", "0100", "00", "017", "08", "010.5", "0.50", "00.5", "01e+02"}
var strLits = []string{"", "a", "b", "abc", "ab", "1", "A", "a b", "é", "^a", "a.c", "[a-c]+", "b$", "a|b", "x'y", `x"y`, "line\nbreak", "tab\t."}
var layouts = []string{"", "", "", "  ", "\n", "\n  ", "\t"}
var kwCase = map[string][]string{
	"and": {"and", "AND", "And"}, "or": {"or", "OR", "Or"}, "not": {"not", "NOT", "Not"},
	"like": {"like", "LIKE"}, "hasprefix": {"hasPrefix", "hasprefix", "HASPREFIX"}, "hassuffix": {"hasSuffix", "hassuffix"},
	"in": {"in", "IN"}, "notin": {"notin", "NOTIN", "notIn"},
	"true": {"true", "TRUE", "True"}, "false": {"false", "FALSE"}, "null": {"null", "NULL", "Null"},
}

type gen struct{ rt *rapid.T }

func (g gen) pick(n int, label string) int { return rapid.IntRange(0, n-1).Draw(g.rt, label) }

func (g gen) decorate(e *lang.E) *lang.E {
	if g.pick(8, "paren") == 0 {
		e.P = 1 + g.pick(2, "pn")
	}
	if e.IsBinary() || e.IsPrefix() || e.P > 0 {
		e.Sp = layouts[g.pick(len(layouts), "sp")]
	}
	if alts, ok := kwCase[e.K]; ok && (len(e.A) > 0 || e.K == "true" || e.K == "false" || e.K == "null") {
		e.Kw = alts[g.pick(len(alts), "kw")]
	}
	return e
}

func (g gen) leaf(t string) *lang.E {
	v := g.pick(10, "leafkind")
	switch t {
	case "n":
		if v < 3 {
			return lang.Var([]string{"n1", "n2", "n3", "n0", "nn"}[g.pick(5, "nv")])
		}
		return lang.Num(numLits[g.pick(len(numLits), "nl")])
	case "s":
		if v < 3 {
			return lang.Var([]string{"s1", "s2", "s3"}[g.pick(3, "sv")])
		}
		s := strLits[g.pick(len(strLits), "sl")]
		q := []string{`"`, `"`, `'`, `r"`, `r'`}[g.pick(5, "q")]
		if _, ok := lang.QuoteString(s, q); !ok || (strings.HasPrefix(q, "r") && strings.ContainsAny(s, "\n\t")) {
			q = `"`
		}
		return lang.StrQ(s, q)
	case "b":
		if v < 4 {
			return lang.Var([]string{"b1", "b2"}[g.pick(2, "bv")])
		}
		return g.decorate(lang.Bool(v%2 == 0))
	case "l":
		if v < 4 {
			return lang.Var([]string{"l1", "l2", "l0"}[g.pick(3, "lv")])
		}
		n := g.pick(4, "ln")
		et := []string{"n", "s"}[g.pick(2, "let")]
		l := lang.List()
		for i := 0; i < n; i++ {
			l.A = append(l.A, g.leaf(et))
		}
		return l
	}
	if v < 5 {
		return lang.Var("u")
	}
	return g.decorate(lang.Null())
}

// expr generates an expression of (intended) type t; with a small
// probability an operand of another kind is injected.
func (g gen) expr(t string, depth int) *lang.E {
	if g.pick(14, "illtyped") == 0 {
		t = kinds[g.pick(len(kinds), "ik")]
	}
	if depth <= 0 || g.pick(5, "stop") == 0 || t == "l" || t == "u" {
		return g.leaf(t)
	}
	switch t {
	case "n":
		if g.pick(6, "prefix") == 0 {
			return g.decorate(lang.Op([]string{"minus", "plus"}[g.pick(2, "pm")], g.expr("n", depth-1)))
		}
		op := []string{"plus", "minus", "times", "div", "divint", "modint"}[g.pick(6, "aop")]
		r := g.expr("n", depth-1)
		if op == "modint" || op == "div" || op == "divint" {
			// keep most divisors simple and non-zero so the case stays specified
			if g.pick(4, "div") != 0 {
				r = lang.Num([]string{"1", "2", "3", "7", "10", "2.5", "1.5", "3.7"}[g.pick(8, "dv")])
			}
		}
		l := g.expr("n", depth-1)
		if op == "modint" && g.pick(4, "modl") != 0 {
			l = lang.Num([]string{"0", "1", "7", "10", "123456789", "4", "5", "12", "7.9", "5.2"}[g.pick(10, "ml")])
		}
		return g.decorate(lang.Op(op, l, r))
	case "s":
		return g.leaf("s")
	default: // boolean
		switch g.pick(8, "bop") {
		case 0:
			return g.decorate(lang.Op("not", g.expr("b", depth-1)))
		case 1, 2:
			return g.decorate(lang.Op([]string{"and", "or"}[g.pick(2, "ao")], g.expr("b", depth-1), g.expr("b", depth-1)))
		case 3:
			ot := []string{"n", "s"}[g.pick(2, "ct")]
			l, r := g.expr(ot, depth-1), g.expr(ot, depth-1)
			if ot == "n" && g.pick(6, "nan") == 0 {
				// NaN without dividing by zero: (1e+308 * 10) - (1e+308 * 10)
				inf := func() *lang.E { return lang.Op("times", lang.Num("1e+308"), lang.Num("10")) }
				nan := lang.Op("minus", inf(), inf())
				if g.pick(2, "nanside") == 0 {
					l = nan
				} else {
					r = nan
				}
			}
			return g.decorate(lang.Op([]string{">=", "<=", ">", "<"}[g.pick(4, "cop")], l, r))
		case 4:
			ot := []string{"n", "s", "b", "u"}[g.pick(4, "et")]
			return g.decorate(lang.Op([]string{"==", "!="}[g.pick(2, "eop")], g.expr(ot, depth-1), g.expr(ot, depth-1)))
		case 5:
			return g.decorate(lang.Op([]string{"like", "hasprefix", "hassuffix"}[g.pick(3, "sop")], g.expr("s", depth-1), g.expr("s", depth-1)))
		case 6:
			ot := []string{"n", "s"}[g.pick(2, "mt")]
			return g.decorate(lang.Op([]string{"in", "notin"}[g.pick(2, "mop")], g.expr(ot, depth-1), g.leaf("l")))
		default:
			return g.decorate(lang.Op([]string{"and", "or"}[g.pick(2, "ao2")], g.expr("b", depth-1), g.expr("b", depth-1)))
		}
	}
}

func TestProp(t *testing.T) {
	hx.Check(t, func(rt *rapid.T) Case {
		g := gen{rt}
		typ := []string{"n", "b", "b"}[g.pick(3, "type")]
		e := g.expr(typ, 1+g.pick(6, "depth"))
		return Case{Expr: e, Full: g.pick(6, "full") == 0}
	}, runCase)
}

var _ = fmt.Sprint
