package c19

import (
	"fmt"
	"math"
	"reflect"
	"strconv"
	"strings"
)

// ---------------------------------------------------------------------------
// The ECAL value universe as tokens (JSON friendly, NaN/Inf safe).
//
//	null true false            -> nil, bool
//	n:<float 'g' format>       -> float64   (n:NaN n:+Inf n:-Inf n:-0 ...)
//	s:<text>                   -> string
//	l:0 l:2 l:n                -> [] , [1,2] , ["a",[1]]
//	m:0 m:1 m:n                -> {} , {"a":1} , {1:"x"}
//	f                          -> a function value
// ---------------------------------------------------------------------------

// baseU is the universe which is enumerated exhaustively.
var baseU = []string{"null", "true", "false", "n:0", "n:1", "n:-1", "n:2", "n:7", "n:0.5", "n:-2.5", "n:1e+308",
	"n:123456789", "n:300", "s:", "s:a", "s:1", "l:0", "l:2", "m:0", "f", "n:NaN", "n:+Inf"}

// extU are further values used for the exhaustive unary sweep and the random search
// (boundaries of every integer kind, float32 limits, fractions around zero).
var extU = []string{"n:-0", "n:127", "n:128", "n:-128", "n:-129", "n:255", "n:256", "n:32767", "n:32768", "n:-32768",
	"n:-32769", "n:65535", "n:65536", "n:2147483647", "n:2147483648", "n:-2147483648", "n:-2147483649",
	"n:4294967295", "n:4294967296", "n:9007199254740992", "n:9223372036854774784", "n:9223372036854775808",
	"n:-9223372036854775808", "n:-9223372036854777856", "n:18446744073709549568", "n:18446744073709551616",
	"n:-Inf", "n:3.4028234663852886e+38", "n:3.5e+38", "n:-3.5e+38", "n:1e-46", "n:0.1", "n:-0.5", "n:1.5", "n:2.5", "n:-1.5",
	"n:126.99999", "n:-0.99", "n:255.5", "s:abc", "s:1.5", "s: ", "s:true", "s:null", "l:n", "m:1", "m:n"}

func numTok(f float64) string { return "n:" + strconv.FormatFloat(f, 'g', -1, 64) }

// value builds a fresh Go value for a token.
func value(tok string) (interface{}, error) {
	switch {
	case tok == "null":
		return nil, nil
	case tok == "true":
		return true, nil
	case tok == "false":
		return false, nil
	case tok == "f":
		return theFunc, nil
	case strings.HasPrefix(tok, "n:"):
		f, err := strconv.ParseFloat(tok[2:], 64)
		if err != nil && !math.IsInf(f, 0) { // range errors still give ±Inf
			return nil, fmt.Errorf("bad number token %q", tok)
		}
		return f, nil
	case strings.HasPrefix(tok, "s:"):
		return tok[2:], nil
	case tok == "l:0":
		return []interface{}{}, nil
	case tok == "l:2":
		return []interface{}{1., 2.}, nil
	case tok == "l:n":
		return []interface{}{"a", []interface{}{1.}}, nil
	case tok == "m:0":
		return map[interface{}]interface{}{}, nil
	case tok == "m:1":
		return map[interface{}]interface{}{"a": 1.}, nil
	case tok == "m:n":
		return map[interface{}]interface{}{1.: "x"}, nil
	}
	return nil, fmt.Errorf("unknown token %q", tok)
}

// argClass names the kind of an argument (evidence and case keys).
func argClass(v interface{}) string {
	switch x := v.(type) {
	case nil:
		return "null"
	case bool:
		return "bool"
	case string:
		return "string"
	case float64:
		switch {
		case math.IsNaN(x) || math.IsInf(x, 0):
			return "num.special"
		case x != math.Trunc(x):
			return "num.frac"
		case math.Abs(x) > 1<<53:
			return "num.huge"
		default:
			return "num.int"
		}
	case []interface{}:
		return "list"
	case map[interface{}]interface{}:
		return "map"
	}
	return "func"
}

// ---------------------------------------------------------------------------
// The harness' own conversion table  ECAL value -> Go parameter.
// ---------------------------------------------------------------------------

type convStatus int

const (
	convExact    convStatus = iota // there is exactly one faithful Go value
	convTrunc                      // fractional number for an integer kind; truncated value is in range: truncation or an error
	convOpen                       // number which the integer / float32 kind cannot represent: only totality is demanded
	convMismatch                   // no Go value of the parameter type corresponds to the ECAL value
)

// intRange gives [lo, hi) of an integer kind as float64 (both exactly representable).
func intRange(t reflect.Type) (lo, hi float64) {
	bits := t.Bits()
	switch t.Kind() {
	case reflect.Int, reflect.Int8, reflect.Int16, reflect.Int32, reflect.Int64:
		return -math.Ldexp(1, bits-1), math.Ldexp(1, bits-1)
	}
	return 0, math.Ldexp(1, bits)
}

// convert maps one ECAL argument to a parameter of type pt.
func convert(arg interface{}, pt reflect.Type) (reflect.Value, convStatus) {
	k := pt.Kind()
	switch {
	case k == reflect.Float64:
		f, ok := arg.(float64)
		if !ok {
			return reflect.Value{}, convMismatch
		}
		v := reflect.New(pt).Elem()
		v.SetFloat(f)
		return v, convExact

	case k == reflect.Float32:
		f, ok := arg.(float64)
		if !ok {
			return reflect.Value{}, convMismatch
		}
		if !math.IsNaN(f) && !math.IsInf(f, 0) && math.Abs(f) > math.MaxFloat32 {
			return reflect.Value{}, convOpen
		}
		v := reflect.New(pt).Elem()
		v.SetFloat(float64(float32(f)))
		return v, convExact

	case isNumericKind(k): // integer kinds
		f, ok := arg.(float64)
		if !ok {
			return reflect.Value{}, convMismatch
		}
		if math.IsNaN(f) || math.IsInf(f, 0) {
			return reflect.Value{}, convOpen
		}
		st := convExact
		tr := math.Trunc(f)
		if tr != f {
			st = convTrunc
		}
		lo, hi := intRange(pt)
		if tr < lo || tr >= hi {
			return reflect.Value{}, convOpen
		}
		v := reflect.New(pt).Elem()
		if lo < 0 {
			v.SetInt(int64(tr))
		} else {
			v.SetUint(uint64(tr))
		}
		return v, st

	case k == reflect.String:
		s, ok := arg.(string)
		if !ok {
			return reflect.Value{}, convMismatch
		}
		v := reflect.New(pt).Elem()
		v.SetString(s)
		return v, convExact

	case k == reflect.Bool:
		b, ok := arg.(bool)
		if !ok {
			return reflect.Value{}, convMismatch
		}
		v := reflect.New(pt).Elem()
		v.SetBool(b)
		return v, convExact

	case k == reflect.Interface:
		if arg == nil {
			return reflect.Zero(pt), convExact
		}
		if reflect.TypeOf(arg).Implements(pt) {
			v := reflect.New(pt).Elem()
			v.Set(reflect.ValueOf(arg))
			return v, convExact
		}
		return reflect.Value{}, convMismatch

	default: // slices, maps, pointers, funcs ...: only a value of exactly that type, or null as the zero value
		if arg == nil {
			switch k {
			case reflect.Slice, reflect.Map, reflect.Ptr, reflect.Func, reflect.Chan:
				return reflect.Zero(pt), convExact
			}
			return reflect.Value{}, convMismatch
		}
		if reflect.TypeOf(arg) == pt {
			return reflect.ValueOf(arg), convExact
		}
		return reflect.Value{}, convMismatch
	}
}

// ---------------------------------------------------------------------------
// Expectation
// ---------------------------------------------------------------------------

type expKind int

const (
	expMustError   expKind = iota // the call cannot be made (arity, kind, null) or the Go function fails: an error is required
	expMustSucceed                // scalar parameters, exact arity, exactly representable arguments: the result is required
	expEither                     // a valid call exists: its faithful result or an error
	expTotalOnly                  // conversion is implementation defined: only totality is demanded
)

type expectation struct {
	kind    expKind
	reason  string      // class label
	value   interface{} // expected ECAL value (expMustSucceed / expEither)
	noValue bool        // the function has no (non-error) result: null or an empty list are accepted
	errText string      // text of the Go error which must be visible in the reported error
	convs   []string    // numeric conversions to a non-float64 kind which this vector exercises
	blame   string      // parameter class used in failure signatures
}

// paramClass names a parameter type for signatures / evidence.
func paramClass(pt reflect.Type) string {
	if isNumericKind(pt.Kind()) && isNamed(pt) {
		return "named-" + pt.Kind().String()
	}
	if pt.Kind() == reflect.Interface {
		return "interface"
	}
	if pt.Kind() == reflect.Slice && pt.Elem().Kind() == reflect.Interface {
		return "list"
	}
	return pt.Kind().String()
}

func paramType(ft reflect.Type, i int) reflect.Type {
	n := ft.NumIn()
	if ft.IsVariadic() && i >= n-1 {
		return ft.In(n - 1).Elem()
	}
	return ft.In(i)
}

// toECAL converts a Go result to the ECAL value it has to be delivered as.
func toECAL(v reflect.Value) interface{} {
	if v.Kind() == reflect.Interface {
		if v.IsNil() {
			return nil
		}
		v = v.Elem()
	}
	switch v.Kind() {
	case reflect.Int, reflect.Int8, reflect.Int16, reflect.Int32, reflect.Int64:
		return float64(v.Int())
	case reflect.Uint, reflect.Uint8, reflect.Uint16, reflect.Uint32, reflect.Uint64, reflect.Uintptr:
		return float64(v.Uint())
	case reflect.Float32, reflect.Float64:
		return v.Float()
	}
	return v.Interface()
}

// expect computes what the bridge has to do for fn(args).
func expect(fn *fnSpec, args []interface{}) expectation {
	ft := fn.Type
	nIn := ft.NumIn()
	var e expectation

	// numeric conversions exercised (whether or not the whole call is valid)
	for i, a := range args {
		if i >= nIn && !ft.IsVariadic() {
			break
		}
		pt := paramType(ft, i)
		if _, ok := a.(float64); ok && isNumericKind(pt.Kind()) && (pt.Kind() != reflect.Float64 || isNamed(pt)) {
			e.convs = append(e.convs, paramClass(pt))
		}
	}

	// arity
	if !ft.IsVariadic() {
		if len(args) > nIn {
			e.kind, e.reason = expMustError, "arity.too-many"
			return e
		}
		if len(args) < nIn {
			e.kind, e.reason = expMustError, "arity.too-few"
			return e
		}
	} else if len(args) < nIn-1 {
		e.kind, e.reason = expMustError, "arity.too-few"
		return e
	}

	// arguments
	in := make([]reflect.Value, len(args))
	worst := convExact
	scalar := !ft.IsVariadic()
	for i, a := range args {
		pt := paramType(ft, i)
		k := pt.Kind()
		if !(isNumericKind(k) || (k == reflect.String || k == reflect.Bool) && !isNamed(pt)) {
			scalar = false
		}
		v, st := convert(a, pt)
		if st == convMismatch {
			e.kind = expMustError
			if a == nil {
				e.reason = "null-for-" + paramClass(pt)
			} else {
				e.reason = "kind-mismatch"
			}
			return e
		}
		if st > worst {
			worst = st
		}
		if e.blame == "" && (st != convExact || paramClass(pt) != "float64") {
			e.blame = paramClass(pt)
		}
		in[i] = v
	}
	if e.blame == "" {
		e.blame = "plain"
	}
	if worst == convOpen {
		e.kind, e.reason = expTotalOnly, "number-not-representable"
		return e
	}

	// the call is possible: make it directly
	var out []reflect.Value
	returned := false
	func() {
		defer func() { recover() }()
		out = reflect.ValueOf(fn.Fn).Call(in)
		returned = true
	}()
	if !returned {
		e.kind, e.reason = expMustError, "go-panic"
		return e
	}
	if n := len(out); n > 0 && ft.Out(n-1) == errorType {
		if !out[n-1].IsNil() {
			e.kind, e.reason = expMustError, "go-error"
			e.errText = out[n-1].Interface().(error).Error()
			return e
		}
		out = out[:n-1]
	}
	switch len(out) {
	case 0:
		e.noValue = true
	case 1:
		e.value = toECAL(out[0])
	default:
		l := make([]interface{}, len(out))
		for i, o := range out {
			l[i] = toECAL(o)
		}
		e.value = l
	}
	switch {
	case worst == convTrunc:
		e.kind, e.reason = expEither, "fraction-truncated-or-error"
	case scalar:
		e.kind, e.reason = expMustSucceed, "scalar-exact"
	case ft.IsVariadic():
		e.kind, e.reason = expEither, "variadic"
	default:
		e.kind, e.reason = expEither, "non-scalar-param"
	}
	return e
}

// ---------------------------------------------------------------------------
// Equality of ECAL values (NaN equals NaN, -0 differs from +0, containers deep)
// ---------------------------------------------------------------------------

func same(a, b interface{}) bool {
	switch x := a.(type) {
	case nil:
		return b == nil
	case float64:
		y, ok := b.(float64)
		if !ok {
			return false
		}
		if math.IsNaN(x) || math.IsNaN(y) {
			return math.IsNaN(x) && math.IsNaN(y)
		}
		return x == y && math.Signbit(x) == math.Signbit(y)
	case string:
		y, ok := b.(string)
		return ok && x == y
	case bool:
		y, ok := b.(bool)
		return ok && x == y
	case []interface{}:
		y, ok := b.([]interface{})
		if !ok || len(x) != len(y) {
			return false
		}
		for i := range x {
			if !same(x[i], y[i]) {
				return false
			}
		}
		return true
	case map[interface{}]interface{}:
		y, ok := b.(map[interface{}]interface{})
		if !ok || len(x) != len(y) {
			return false
		}
		for k, v := range x {
			w, ok := y[k]
			if !ok || !same(v, w) {
				return false
			}
		}
		return true
	}
	if reflect.TypeOf(a) != reflect.TypeOf(b) {
		return false
	}
	if reflect.TypeOf(a).Comparable() {
		return a == b
	}
	return reflect.DeepEqual(a, b)
}

func show(v interface{}) string { return fmt.Sprintf("%T(%v)", v, v) }

// rawGoNumber reports whether v is a Go number which is no ECAL number.
func rawGoNumber(v interface{}) bool {
	if v == nil {
		return false
	}
	k := reflect.TypeOf(v).Kind()
	return isNumericKind(k) && reflect.TypeOf(v) != reflect.TypeOf(float64(0))
}
