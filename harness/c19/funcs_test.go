package c19

import (
	"errors"
	"fmt"
	"math"
	"reflect"
	"sort"
	"strconv"
	"time"

	"github.com/krotik/ecal/parser"
	"github.com/krotik/ecal/stdlib"
	"github.com/krotik/ecal/util"
)

// named numeric types
type myInt int
type myU8 uint8
type myFloat float64
type myF32 float32

// funcStub is the "function value" of the ECAL value universe: an object
// implementing util.ECALFunction (comparable by pointer).
type funcStub struct{ name string }

func (f *funcStub) Run(instanceID string, vs parser.Scope, is map[string]interface{}, tid uint64, args []interface{}) (interface{}, error) {
	return nil, nil
}
func (f *funcStub) DocString() (string, error) { return f.name, nil }
func (f *funcStub) String() string             { return "ecal.function: " + f.name }

var theFunc = &funcStub{"stub"}

// d describes what arrived in the Go function: static type is given by the
// caller, dynamic type and value are printed.
func d(static string, v interface{}) string { return fmt.Sprintf("%s<%T:%v>", static, v, v) }

// fnSpec is one bridged function.
type fnSpec struct {
	Name    string            // "math.pow" / "c19.pInt8"
	Fn      interface{}       // the Go function (the harness calls it directly for the expectation)
	Type    reflect.Type      // its type
	Adapter util.ECALFunction // the bridge object under test
	Syn     bool              // synthetic (true) or generated stdlib (false)
	Tags    []string          // signature classes (evidence)
}

// the harness' own table of the Go functions behind the generated stdlib (by ECAL name)
var mathFuncs = map[string]interface{}{
	"abs": math.Abs, "acos": math.Acos, "acosh": math.Acosh, "asin": math.Asin, "asinh": math.Asinh,
	"atan": math.Atan, "atan2": math.Atan2, "atanh": math.Atanh, "cbrt": math.Cbrt, "ceil": math.Ceil,
	"copysign": math.Copysign, "cos": math.Cos, "cosh": math.Cosh, "dim": math.Dim, "erf": math.Erf,
	"erfc": math.Erfc, "erfcinv": math.Erfcinv, "erfinv": math.Erfinv, "exp": math.Exp, "exp2": math.Exp2,
	"expm1": math.Expm1, "floor": math.Floor, "frexp": math.Frexp, "gamma": math.Gamma, "hypot": math.Hypot,
	"ilogb": math.Ilogb, "inf": math.Inf, "isInf": math.IsInf, "isNaN": math.IsNaN, "j0": math.J0,
	"j1": math.J1, "jn": math.Jn, "ldexp": math.Ldexp, "lgamma": math.Lgamma, "log": math.Log,
	"log10": math.Log10, "log1p": math.Log1p, "log2": math.Log2, "logb": math.Logb, "max": math.Max,
	"min": math.Min, "mod": math.Mod, "modf": math.Modf, "naN": math.NaN, "nextafter": math.Nextafter,
	"nextafter32": math.Nextafter32, "pow": math.Pow, "pow10": math.Pow10, "remainder": math.Remainder,
	"round": math.Round, "roundToEven": math.RoundToEven, "signbit": math.Signbit, "sin": math.Sin,
	"sincos": math.Sincos, "sinh": math.Sinh, "sqrt": math.Sqrt, "tan": math.Tan, "tanh": math.Tanh,
	"trunc": math.Trunc, "y0": math.Y0, "y1": math.Y1, "yn": math.Yn,
}

// synthetic functions (every one total, cheap and deterministic for all inputs,
// except the ones which panic on purpose)
var synFuncs = map[string]interface{}{
	// --- one parameter of every numeric kind; the result shows type and value which arrived
	"pInt":     func(a int) string { return d("int", a) },
	"pInt8":    func(a int8) string { return d("int8", a) },
	"pInt16":   func(a int16) string { return d("int16", a) },
	"pInt32":   func(a int32) string { return d("int32", a) },
	"pInt64":   func(a int64) string { return d("int64", a) },
	"pUint":    func(a uint) string { return d("uint", a) },
	"pUint8":   func(a uint8) string { return d("uint8", a) },
	"pUint16":  func(a uint16) string { return d("uint16", a) },
	"pUint32":  func(a uint32) string { return d("uint32", a) },
	"pUint64":  func(a uint64) string { return d("uint64", a) },
	"pUintptr": func(a uintptr) string { return d("uintptr", a) },
	"pFloat32": func(a float32) string { return d("float32", a) },
	"pFloat64": func(a float64) string { return d("float64", a) },
	// --- named numeric types
	"pMyInt":    func(a myInt) string { return d("myInt", a) },
	"pMyU8":     func(a myU8) string { return d("myU8", a) },
	"pMyFloat":  func(a myFloat) string { return d("myFloat", a) },
	"pMyF32":    func(a myF32) string { return d("myF32", a) },
	"pDuration": func(a time.Duration) string { return d("Duration", int64(a)) },
	// --- other parameter kinds
	"pString":   func(a string) string { return d("string", a) },
	"pBool":     func(a bool) string { return d("bool", a) },
	"pIface":    func(a interface{}) string { return d("iface", a) },
	"pList":     func(a []interface{}) string { return d("list", a) },
	"pMap":      func(a map[interface{}]interface{}) string { return d("map", len(a)) },
	"pFSlice":   func(a []float64) string { return d("fslice", a) },
	"pStringer": func(a fmt.Stringer) string { return d("stringer", a != nil) },
	"pFunc":     func(a util.ECALFunction) string { return d("func", a != nil) },
	// --- numeric results of every kind (must come back as float64)
	"rInt":     func(a int) int { return a },
	"rInt8":    func(a int8) int8 { return a },
	"rInt16":   func(a int16) int16 { return a },
	"rInt32":   func(a int32) int32 { return a },
	"rInt64":   func(a int64) int64 { return a },
	"rUint":    func(a uint) uint { return a },
	"rUint8":   func(a uint8) uint8 { return a },
	"rUint16":  func(a uint16) uint16 { return a },
	"rUint32":  func(a uint32) uint32 { return a },
	"rUint64":  func(a uint64) uint64 { return a },
	"rUintptr": func(a uintptr) uintptr { return a },
	"rFloat32": func(a float32) float32 { return a },
	"rFloat64": func(a float64) float64 { return a },
	"rMyInt":   func(a myInt) myInt { return a + 1 },
	"rMyFloat": func(a float64) myFloat { return myFloat(a) },
	"rLenInt":  func(a string) int { return len(a) },
	"rBoolU8": func(a bool) uint8 {
		if a {
			return 200
		}
		return 0
	},
	// --- several parameters
	"mI8U16": func(a int8, b uint16) int32 { return int32(a)*100000 + int32(b) },
	"mMixed": func(a int, b string, c float32, e bool) string {
		return d("int", a) + d("string", b) + d("float32", c) + d("bool", e)
	},
	"mFour": func(a float64, b int64, c uint8, e string) string {
		return d("float64", a) + d("int64", b) + d("uint8", c) + d("string", e)
	},
	"mThree":  func(a, b, c float64) float64 { return a*4 + b*2 + c },
	"mSI":     func(s string, n int) string { return d("string", s) + d("int", n) },
	"mLI":     func(l []interface{}, i int) interface{} { return l[i] }, // panics when out of range
	"mDiv":    func(a, b int) int { return a / b },                      // panics on zero
	"mMapGet": func(m map[interface{}]interface{}, k string) interface{} { return m[k] },
	// --- variadic
	"vFloats": func(a ...float64) float64 {
		s := 0.0
		for _, x := range a {
			s += x
		}
		return s + float64(len(a))*1000
	},
	"vInts": func(n int, a ...int) int {
		s := n
		for _, x := range a {
			s = s*10 + x
		}
		return s
	},
	"vIfaces":  func(a ...interface{}) string { return d("ifaces", a) },
	"vSprintf": func(s string, a ...interface{}) string { return d("string", s) + d("ifaces", a) },
	"vStrings": func(a ...string) int { return len(a) },
	// the shape stdlib.AddStdlibPluginFunc wraps a plugin function in
	"vPlugin": func(a ...interface{}) (interface{}, error) {
		if len(a) == 0 {
			return "", fmt.Errorf("Need a name to greet as argument")
		}
		return fmt.Sprintf("Hello World for %v", a[0]), nil
	},
	"vPluginCount": func(a ...interface{}) (interface{}, error) { return len(a), nil }, // a Go int inside interface{}
	// --- several results
	"xTwo":   func(a float64) (int, string) { return int(math.Float64bits(a) >> 52), d("float64", a) },
	"xThree": func() (int8, uint8, float32) { return -8, 200, 0.5 },
	"xKinds": func(a int16) (int16, uint64, float32, string, bool, myInt) {
		return a, uint64(1) << 40, 1.5, "s", true, myInt(a) * 2
	},
	// --- trailing error
	"eNil": func(a int) (int, error) { return a + 1, nil },
	"eErr": func(a int) (int, error) { return a, errors.New("go error for " + strconv.Itoa(a)) },
	"eOnly": func(fail bool) error {
		if fail {
			return errors.New("asked to fail")
		}
		return nil
	},
	"eMulti": func(a uint8) (uint8, string, error) {
		if a > 100 {
			return 0, "", fmt.Errorf("too big: %d", a)
		}
		return a, "ok", nil
	},
	"eParse": func(s string) (float64, error) { return strconv.ParseFloat(s, 64) },
	"eAtoi":  strconv.Atoi,
	// --- panics
	"kPanic":    func() { panic("kaboom") },
	"kPanicErr": func(a int) int { panic(errors.New("bad thing")) },
	"kPanicArg": func(a interface{}) string { panic(a) },
	"kNilMap":   func(k string) int { var m map[string]int; m[k] = 1; return 1 },
	"kNilDeref": func(a float64) float64 { var p *float64; return *p + a },
	// --- zero parameters / zero results
	"zNone":  func() {},
	"zConst": func() float64 { return 42 },
	"zInt":   func() int { return -7 },
	"zSink":  func(a float64) {},
	"zSinkI": func(a int8, b string) {},
	// --- results of interface type / containers
	"iInt":   func() interface{} { return int(7) },
	"iF32":   func() interface{} { return float32(0.5) },
	"iU16":   func(a uint16) interface{} { return a },
	"iNil":   func() interface{} { return nil },
	"iStr":   func() interface{} { return "x" },
	"iEcho":  func(a interface{}) interface{} { return a },
	"cList":  func() []interface{} { return []interface{}{1.0, "a"} },
	"cMap":   func() map[interface{}]interface{} { return map[interface{}]interface{}{"k": 2.0} },
	"cEchoL": func(l []interface{}) []interface{} { return l },
}

var (
	allFuncs   []*fnSpec // sorted by name: math.* first, then c19.*
	funcByName = map[string]*fnSpec{}
	setupErr   error
)

var errorType = reflect.TypeOf((*error)(nil)).Elem()

func isNumericKind(k reflect.Kind) bool {
	switch k {
	case reflect.Int, reflect.Int8, reflect.Int16, reflect.Int32, reflect.Int64,
		reflect.Uint, reflect.Uint8, reflect.Uint16, reflect.Uint32, reflect.Uint64, reflect.Uintptr,
		reflect.Float32, reflect.Float64:
		return true
	}
	return false
}

func isNamed(t reflect.Type) bool { return t.PkgPath() != "" }

func sigTags(t reflect.Type) []string {
	var tags []string
	add := func(s string) {
		for _, x := range tags {
			if x == s {
				return
			}
		}
		tags = append(tags, s)
	}
	if t.IsVariadic() {
		add("sig.variadic")
	}
	if t.NumIn() == 0 {
		add("sig.zero-param")
	}
	if t.NumIn() > 1 {
		add("sig.multi-param")
	}
	no := t.NumOut()
	if no > 0 && t.Out(no-1) == errorType {
		add("sig.trailing-error")
		no--
	}
	if no == 0 {
		add("sig.zero-result")
	}
	if no > 1 {
		add("sig.multi-result")
	}
	for i := 0; i < t.NumIn(); i++ {
		p := t.In(i)
		switch {
		case isNumericKind(p.Kind()) && isNamed(p):
			add("sig.param.named-numeric")
		case isNumericKind(p.Kind()):
			add("sig.param." + p.Kind().String())
		case p.Kind() == reflect.Interface:
			add("sig.param.interface")
		default:
			add("sig.param." + p.Kind().String())
		}
	}
	for i := 0; i < no; i++ {
		o := t.Out(i)
		if isNumericKind(o.Kind()) && o.Kind() != reflect.Float64 {
			add("sig.result.non-float64-number")
		}
		if o.Kind() == reflect.Interface {
			add("sig.result.interface")
		}
	}
	return tags
}

// setupFuncs builds the function table and registers the synthetic functions
// as stdlib package "c19" so they can be reached from ECAL source.
func setupFuncs() error {
	// the generated stdlib must be exactly what the harness' table knows
	_, _, syms := stdlib.GetStdlibSymbols()
	gen := map[string]bool{}
	for _, s := range syms {
		gen[s] = true
	}
	for n := range mathFuncs {
		if !gen["math."+n] {
			return fmt.Errorf("harness table names math.%s which the generated stdlib does not have", n)
		}
		delete(gen, "math."+n)
	}
	if len(gen) != 0 {
		var rest []string
		for s := range gen {
			rest = append(rest, s)
		}
		sort.Strings(rest)
		return fmt.Errorf("generated stdlib has functions unknown to the harness table: %v", rest)
	}

	for n, f := range mathFuncs {
		ad, ok := stdlib.GetStdlibFunc("math." + n)
		if !ok {
			return fmt.Errorf("GetStdlibFunc(math.%s) not found", n)
		}
		allFuncs = append(allFuncs, &fnSpec{Name: "math." + n, Fn: f, Type: reflect.TypeOf(f), Adapter: ad})
	}
	if err := stdlib.AddStdlibPkg("c19", "synthetic functions of check C19"); err != nil {
		return err
	}
	for n, f := range synFuncs {
		ad := stdlib.NewECALFunctionAdapter(reflect.ValueOf(f), "doc "+n)
		if err := stdlib.AddStdlibFunc("c19", n, ad); err != nil {
			return err
		}
		allFuncs = append(allFuncs, &fnSpec{Name: "c19." + n, Fn: f, Type: reflect.TypeOf(f), Adapter: ad, Syn: true})
	}
	sort.Slice(allFuncs, func(i, j int) bool {
		if allFuncs[i].Syn != allFuncs[j].Syn {
			return !allFuncs[i].Syn
		}
		return allFuncs[i].Name < allFuncs[j].Name
	})
	for _, f := range allFuncs {
		f.Tags = sigTags(f.Type)
		funcByName[f.Name] = f
	}
	return nil
}
