package c19

// Dispatch: ONE call expression reaches several bridged functions, because the function name is computed
// (math[n](x) in a loop, a dispatcher function). Every call must run the function its own name selects.

import (
	"fmt"
	"math"
	"sort"
	"strings"
	"testing"

	"github.com/krotik/ecal/interpreter"
	"github.com/krotik/ecal/parser"
	"github.com/krotik/ecal/scope"
	"github.com/krotik/ecal/util"
	"pgregory.net/rapid"

	"verif/internal/hx"
)

// DispatchCase is the dispatch part of a Case.
type DispatchCase struct {
	Names []string  `json:"names"` // unary float functions of the generated math package, in call order
	Args  []float64 `json:"args"`  // one argument per call
	Form  int       `json:"form"`  // 0: loop over a list of names, 1: dispatcher function called once per name
}

var unaryFloat = func() []string {
	var out []string
	for n, f := range mathFuncs {
		if _, ok := f.(func(float64) float64); ok {
			out = append(out, n)
		}
	}
	sort.Strings(out)
	return out
}()

func runDispatch(c Case) *hx.Failure {
	d := c.Dispatch
	if len(d.Names) == 0 || len(d.Names) != len(d.Args) {
		hx.E.Exclude("malformed-case")
		return nil
	}
	var want []float64
	var names, args []string
	for i, n := range d.Names {
		f, ok := mathFuncs[n].(func(float64) float64)
		if !ok {
			hx.E.Exclude("malformed-case")
			return nil
		}
		want = append(want, f(d.Args[i]))
		names = append(names, fmt.Sprintf("%q", n))
		args = append(args, fmt.Sprintf("%v", d.Args[i]))
	}
	var src string
	if d.Form == 0 {
		src = fmt.Sprintf("names := [%s]\nargs := [%s]\nres := []\nfor i in range(0, %d) {\n    res := add(res, math[names[i]](args[i]))\n}\nres\n",
			strings.Join(names, ", "), strings.Join(args, ", "), len(d.Names)-1)
	} else {
		var calls []string
		for i := range d.Names {
			calls = append(calls, fmt.Sprintf("call(%s, %s)", names[i], args[i]))
		}
		src = fmt.Sprintf("func call(name, x) {\n    return math[name](x)\n}\nres := [%s]\nres\n", strings.Join(calls, ", "))
	}
	key := fmt.Sprintf("dispatch|%d|%v|%v", d.Form, d.Names, d.Args)
	hx.E.Case(len(d.Names) >= 2, key, "dispatch", fmt.Sprintf("dispatch.form.%d", d.Form))
	hx.E.Sample(key, map[string]interface{}{"source": src})
	var res interface{}
	var err error
	if f := hx.Guard(func() {
		erp := interpreter.NewECALRuntimeProvider("c19", nil, util.NewNullLogger())
		go erp.Cron.Stop() // detached: never wait for it
		var ast *parser.ASTNode
		if ast, err = parser.ParseWithRuntime("c19", src, erp); err != nil {
			return
		}
		if err = ast.Runtime.Validate(); err != nil {
			return
		}
		res, err = ast.Runtime.Eval(scope.NewScope(scope.GlobalScope), make(map[string]interface{}), erp.NewThreadID())
	}); f != nil {
		return f
	}
	if err != nil {
		return hx.Failf("dispatch:error", "%v\n%s", err, src)
	}
	list, ok := res.([]interface{})
	if !ok || len(list) != len(want) {
		return hx.Failf("dispatch:shape", "result %v\n%s", res, src)
	}
	for i, w := range want {
		g, ok := list[i].(float64)
		if !ok || !(g == w || (math.IsNaN(g) && math.IsNaN(w))) {
			return hx.Failf("dispatch:wrong-function", "call %d, math.%s(%v), returned %v; calling the Go function gives %v (calls so far through the same expression: %v)\n%s", i, d.Names[i], d.Args[i], list[i], w, d.Names[:i], src)
		}
	}
	return nil
}

func drawDispatch(rt *rapid.T) Case {
	n := rapid.IntRange(2, 6).Draw(rt, "n")
	d := &DispatchCase{Form: rapid.IntRange(0, 1).Draw(rt, "form")}
	for i := 0; i < n; i++ {
		d.Names = append(d.Names, rapid.SampledFrom(unaryFloat).Draw(rt, "name"))
		d.Args = append(d.Args, rapid.SampledFrom([]float64{0.5, 6.25, 2, -1.5, 0, 100}).Draw(rt, "arg"))
	}
	return Case{Dispatch: d}
}

func TestPropDispatch(t *testing.T) {
	hx.Check(t, drawDispatch, runCase)
}
