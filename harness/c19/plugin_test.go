package c19

import (
	"fmt"
	"math"
	"os"
	"os/exec"
	"path/filepath"
	"strings"
	"sync"
	"testing"

	"github.com/krotik/ecal/stdlib"

	"verif/internal/hx"
)

// Plugin functions: loaded through the REAL plugin path
// (stdlib.AddStdlibPluginFunc -> plugin.Open -> Lookup -> adapter). The plugin
// is built once per process from ./plugin with the same toolchain and tags.

var pluginSyms = []string{"Panic", "NilMap", "Int", "Int64", "Uint8", "Float32", "Float64", "Count", "Echo", "Error", "ValueAndError", "String"}

var (
	pluginOnce sync.Once
	pluginErr  error
)

func loadPlugin() error {
	pluginOnce.Do(func() {
		dir, err := os.MkdirTemp("", "verif-c19-plugin-")
		if err != nil {
			pluginErr = err
			return
		}
		so := filepath.Join(dir, "c19plugin.so")
		cmd := exec.Command("go", "build", "-buildmode=plugin", "-tags", "verif", "-o", so, "./plugin")
		cmd.Env = append(os.Environ(), "GOFLAGS=-mod=mod", "GOPROXY=off", "GOSUMDB=off", "GOTOOLCHAIN=local")
		if out, err := cmd.CombinedOutput(); err != nil {
			pluginErr = fmt.Errorf("cannot build the plugin: %v\n%s", err, out)
			return
		}
		for _, s := range pluginSyms {
			if err := stdlib.AddStdlibPluginFunc("c19p", strings.ToLower(s), so, s); err != nil {
				pluginErr = fmt.Errorf("cannot load plugin symbol %s: %v", s, err)
				return
			}
		}
		// a symbol which is no function and a missing one must be refused with an error
		if err := stdlib.AddStdlibPluginFunc("c19p", "notafunction", so, "NotAFunction"); err == nil {
			pluginErr = fmt.Errorf("VIOLATION: a plugin symbol which is no function was accepted")
		}
		if err := stdlib.AddStdlibPluginFunc("c19p", "missing", so, "NoSuchSymbol"); err == nil {
			pluginErr = fmt.Errorf("VIOLATION: a missing plugin symbol was accepted")
		}
	})
	return pluginErr
}

// runPlugin judges one call of a plugin function.
func runPlugin(c Case) *hx.Failure {
	if err := loadPlugin(); err != nil {
		if strings.HasPrefix(err.Error(), "VIOLATION") {
			return hx.Failf("plugin:bad-symbol-accepted", "%v", err)
		}
		hx.E.Exclude("plugin.unavailable") // building / loading plugins is not possible in this environment: nothing can be said
		return nil
	}
	name := strings.TrimPrefix(c.Fn, "plugin.")
	f, ok := stdlib.GetStdlibFunc("c19p." + name)
	if !ok {
		return hx.Failf("harness:bad-case", "unknown plugin function %q", c.Fn)
	}
	vals := make([]interface{}, len(c.Args))
	for i, t := range c.Args {
		v, err := value(t)
		if err != nil {
			return hx.Failf("harness:bad-case", "%v", err)
		}
		vals[i] = v
	}
	var res interface{}
	var err error
	key := fmt.Sprint("plugin:", c.Fn, c.Args)
	hx.E.Case(true, key, "plugin", "plugin."+name, fmt.Sprintf("plugin.args.%d", len(vals)))
	hx.E.Sample(key, map[string]interface{}{"plugin_function": name, "args": c.Args})
	if fl := hx.Guard(func() { res, err = f.Run("c19", nil, make(map[string]interface{}), 1, vals) }); fl != nil {
		return &hx.Failure{Sig: "plugin:" + fl.Sig, Msg: fmt.Sprintf("a panic escaped the function bridge for plugin function %s%v\n%s", name, c.Args, fl.Msg)}
	}
	if err != nil {
		if err.Error() == "" {
			return hx.Failf("plugin:error-without-text", "%s%v", name, c.Args)
		}
		return nil // a descriptive error is always acceptable (e.g. the bridge refuses more than one argument for variadic plugin functions)
	}
	// a result came back: it must be the function's result, numbers as ECAL numbers
	switch name {
	case "panic", "nilmap", "error", "valueanderror":
		return hx.Failf("plugin:no-error:"+name, "plugin function %s%v returned %#v without an error", name, c.Args, res)
	case "int":
		return wantNum(name, res, 7)
	case "int64":
		return wantNum(name, res, -9)
	case "uint8":
		return wantNum(name, res, 200)
	case "float32":
		return wantNum(name, res, 1.5)
	case "float64":
		return wantNum(name, res, 2.25)
	case "count":
		return wantNum(name, res, float64(len(vals)))
	case "string":
		if res != fmt.Sprint("s:", len(vals)) {
			return hx.Failf("plugin:value-mismatch:string", "got %#v", res)
		}
	case "echo":
		var want interface{}
		if len(vals) > 0 {
			want = vals[0]
		}
		if !equalValue(res, want) {
			return hx.Failf("plugin:value-mismatch:echo", "echo%v returned %#v", c.Args, res)
		}
	}
	return nil
}

func wantNum(name string, res interface{}, want float64) *hx.Failure {
	f, ok := res.(float64)
	if !ok {
		return hx.Failf("plugin:result-not-ecal-number:"+name, "plugin function %s returned %#v (%T); Go integers and floats must be delivered as ECAL numbers (float64)", name, res, res)
	}
	if f != want && !(math.IsNaN(f) && math.IsNaN(want)) {
		return hx.Failf("plugin:value-mismatch:"+name, "plugin function %s returned %v, its Go code returns %v", name, f, want)
	}
	return nil
}

func equalValue(a, b interface{}) bool { return fmt.Sprintf("%#v", a) == fmt.Sprintf("%#v", b) }

func pluginCases(yield func(Case) bool) {
	u := []string{"null", "n:1", "s:abc", "true", "l:2", "m:1"}
	for _, s := range pluginSyms {
		fnName := "plugin." + strings.ToLower(s)
		if !yield(Case{Fn: fnName, Route: "run"}) {
			return
		}
		for _, a := range u {
			if !yield(Case{Fn: fnName, Args: []string{a}, Route: "run"}) {
				return
			}
			for _, b := range u[:3] {
				if !yield(Case{Fn: fnName, Args: []string{a, b}, Route: "run"}) {
					return
				}
			}
		}
	}
}

func TestExhaustivePlugin(t *testing.T) {
	hx.Enumerate(t, "plugin-functions", pluginCases, runCase)
	hx.E.Exhaustive("plugin-functions", "12 plugin functions (panicking, returning Go int/int64/uint8/float32/float64, counting, echoing, failing) loaded through stdlib.AddStdlibPluginFunc x argument vectors of length 0..2")
}
