// Package main is a Go plugin with stdlib functions for the C19 check: it is
// built at test time (go build -buildmode=plugin) and loaded through the
// real stdlib.AddStdlibPluginFunc path.
package main

import "fmt"

type fn struct{ kind string }

// Run implements util.ECALPluginFunction.
func (f *fn) Run(args []interface{}) (interface{}, error) {
	switch f.kind {
	case "panic":
		panic("plugin kaboom")
	case "nilmap":
		var m map[string]int
		m["x"] = 1 // runtime panic
		return nil, nil
	case "int":
		return int(7), nil
	case "int64":
		return int64(-9), nil
	case "uint8":
		return uint8(200), nil
	case "float32":
		return float32(1.5), nil
	case "float64":
		return 2.25, nil
	case "count":
		return len(args), nil
	case "echo":
		if len(args) == 0 {
			return nil, nil
		}
		return args[0], nil
	case "error":
		return nil, fmt.Errorf("plugin says no (%d arguments)", len(args))
	case "valueanderror":
		return "ignored", fmt.Errorf("plugin failed with a value")
	case "string":
		return fmt.Sprint("s:", len(args)), nil
	}
	return nil, nil
}

// DocString implements util.ECALPluginFunction.
func (f *fn) DocString() string { return "c19 plugin function " + f.kind }

// Exported symbols
var (
	Panic         = fn{"panic"}
	NilMap        = fn{"nilmap"}
	Int           = fn{"int"}
	Int64         = fn{"int64"}
	Uint8         = fn{"uint8"}
	Float32       = fn{"float32"}
	Float64       = fn{"float64"}
	Count         = fn{"count"}
	Echo          = fn{"echo"}
	Error         = fn{"error"}
	ValueAndError = fn{"valueanderror"}
	String        = fn{"string"}
	NotAFunction  = 42
)
