// C19 — the Go function bridge is total and converts numbers faithfully.
//
// Domain: every entry of the generated stdlib (math.*) plus synthetic Go
// functions wrapped with stdlib.NewECALFunctionAdapter (every numeric parameter
// kind, named numeric types, string, bool, interface{}, lists, maps, variadic,
// several results, trailing error, panicking, zero parameters / results) ×
// argument vectors over the ECAL value universe; exhaustive up to a length
// bound, random beyond. Two routes: ECALFunctionAdapter.Run directly and an
// ECAL program `pkg.fn(args...)`.
//
// Oracle: the harness' own conversion table (model_test.go) decides whether a
// Go call corresponds to the vector; if it does the harness calls the Go
// function itself and compares.
package c19

import (
	"fmt"
	"math"
	"os"
	"reflect"
	"regexp"
	"strconv"
	"strings"
	"testing"

	"pgregory.net/rapid"

	"github.com/krotik/ecal/interpreter"
	"github.com/krotik/ecal/parser"
	"github.com/krotik/ecal/scope"
	"github.com/krotik/ecal/util"

	"verif/internal/hx"
)

const rule = "case = (bridged function, argument vector, route); functions = all generated stdlib entries + synthetic Go functions over every numeric parameter kind, named numeric types, string, bool, interface{}, list, map, variadic, multi-result, trailing-error, panicking, zero-param/zero-result signatures; vectors enumerated exhaustively over the 22-value universe up to the tier's length bound (plus a unary/binary sweep over integer-kind and float32 boundary values) and drawn at random (length 0..6, arbitrary float64 / strings) beyond; route = ECALFunctionAdapter.Run or an ECAL program `pkg.fn(...)`; non-trivial = arity mismatch, an argument of the wrong kind, a null argument, or a number facing a parameter of a numeric kind other than plain float64; distinct by (Go signature, argument values, route)"

// Case is one bridged call.
type Case struct {
	Fn    string   `json:"fn"`    // "math.pow", "c19.pInt8"
	Args  []string `json:"args"`  // value tokens, see model_test.go
	Route string   `json:"route"` // "run": ECALFunctionAdapter.Run; "ecal": through ECAL source
	// one call expression reaching several bridged functions (dispatch_test.go); the other fields are unused
	Dispatch *DispatchCase `json:"dispatch,omitempty"`
}

func TestMain(m *testing.M) {
	setupErr = setupFuncs()
	hx.Main(m, "C19", rule)
}

func needSetup(t *testing.T) {
	if setupErr != nil {
		// not a verdict about the code: the harness' function table does not match the tree
		fmt.Fprintln(os.Stderr, "verif: C19 setup:", setupErr)
		t.Fatalf("INFRASTRUCTURE C19: %v", setupErr)
	}
}

var simpleString = regexp.MustCompile(`^[A-Za-z0-9 ._]*$`)

// buildSource prints `fn(args)`; values without a safe literal are handed in as variables.
func buildSource(fn string, vals []interface{}) (string, map[string]interface{}) {
	preset := map[string]interface{}{}
	parts := make([]string, len(vals))
	for i, v := range vals {
		lit := ""
		switch x := v.(type) {
		case nil:
			lit = "null"
		case bool:
			lit = strconv.FormatBool(x)
		case float64:
			if !math.IsNaN(x) && !math.IsInf(x, 0) && !(x == 0 && math.Signbit(x)) {
				if x >= 0 {
					lit = strconv.FormatFloat(x, 'f', -1, 64)
				} else {
					lit = "-" + strconv.FormatFloat(-x, 'f', -1, 64)
				}
			}
		case string:
			if simpleString.MatchString(x) {
				lit = `"` + x + `"`
			}
		}
		if lit == "" {
			lit = fmt.Sprintf("a%d", i)
			preset[lit] = v
		}
		parts[i] = lit
	}
	return fn + "(" + strings.Join(parts, ", ") + ")", preset
}

// tooCostly excludes calls whose Go function itself needs seconds (math.Jn / math.Yn
// iterate |order| times): nothing about the bridge.
func tooCostly(fn string, vals []interface{}) bool {
	if fn != "math.jn" && fn != "math.yn" {
		return false
	}
	if len(vals) == 0 {
		return false
	}
	f, ok := vals[0].(float64)
	return ok && !(math.Abs(f) <= 10000)
}

func runCase(c Case) *hx.Failure {
	if c.Dispatch != nil {
		return runDispatch(c)
	}
	if strings.HasPrefix(c.Fn, "plugin.") {
		return runPlugin(c)
	}
	fn := funcByName[c.Fn]
	if fn == nil || (c.Route != "run" && c.Route != "ecal") {
		return hx.Failf("harness:bad-case", "unknown function %q or route %q", c.Fn, c.Route)
	}
	vals := make([]interface{}, len(c.Args))
	for i, t := range c.Args {
		v, err := value(t)
		if err != nil {
			return hx.Failf("harness:bad-case", "%v", err)
		}
		vals[i] = v
	}
	if tooCostly(c.Fn, vals) {
		hx.E.Exclude("cost.math-jn-yn-order-above-10000")
		return nil
	}

	e := expect(fn, vals)

	// ---- execute
	var ret interface{}
	var err error
	var fail *hx.Failure
	call := func() (interface{}, error) {
		args := make([]interface{}, len(vals))
		copy(args, vals)
		return fn.Adapter.Run("c19", scope.NewScope("c19"), make(map[string]interface{}), 0, args)
	}
	var runRet interface{}
	var runErr error
	src := ""
	if c.Route == "run" {
		fail = hx.Guard(func() { ret, err = call() })
	} else {
		var preset map[string]interface{}
		src, preset = buildSource(c.Fn, vals)
		parseFailed := false
		fail = hx.Guard(func() {
			erp := interpreter.NewECALRuntimeProvider("c19", &util.MemoryImportLocator{Files: map[string]string{}}, util.NewNullLogger())
			go erp.Cron.Stop() // detached: never wait for it (it can deadlock against the cron tick)
			var ast *parser.ASTNode
			if ast, err = parser.ParseWithRuntime("c19", src, erp); err != nil {
				parseFailed = true
				return
			}
			if err = ast.Runtime.Validate(); err != nil {
				parseFailed = true
				return
			}
			vs := scope.NewScope(scope.GlobalScope)
			for k, v := range preset {
				vs.SetValue(k, v)
			}
			ret, err = ast.Runtime.Eval(vs, make(map[string]interface{}), erp.NewThreadID())
		})
		if fail == nil && parseFailed {
			// the generated call expression is plain ECAL (literals and variables): must not happen
			return hx.Failf("harness:source-did-not-parse", "%q: %v", src, err)
		}
		if fail == nil {
			fail = hx.Guard(func() { runRet, runErr = call() })
		}
	}

	// ---- evidence
	mismatch := e.kind == expMustError && (strings.HasPrefix(e.reason, "arity.") || e.reason == "kind-mismatch" || strings.HasPrefix(e.reason, "null-for-"))
	hasNull := false
	kinds := make([]string, len(vals))
	for i, v := range vals {
		kinds[i] = argClass(v)
		if v == nil {
			hasNull = true
		}
	}
	nontrivial := mismatch || hasNull || len(e.convs) > 0
	key := fn.Type.String() + "|" + strings.Join(c.Args, "\x1f") + "|" + c.Route
	classes := []string{"route." + c.Route, "len." + strconv.Itoa(len(vals)), "expect." + expName[e.kind] + "." + e.reason}
	if fn.Syn {
		classes = append(classes, "set.synthetic")
	} else {
		classes = append(classes, "set.generated-stdlib")
	}
	classes = append(classes, fn.Tags...)
	for _, cv := range uniq(e.convs) {
		classes = append(classes, "conv."+cv)
	}
	for _, k := range uniq(kinds) {
		classes = append(classes, "arg."+k)
	}
	switch {
	case fail != nil:
		classes = append(classes, "outcome.panic")
	case err != nil && ret != nil:
		classes = append(classes, "outcome.error", "outcome.error.value-alongside")
	case err != nil:
		classes = append(classes, "outcome.error")
	default:
		classes = append(classes, "outcome.result")
	}
	if fail == nil && err != nil && e.kind == expEither {
		classes = append(classes, "observed.valid-call-refused."+e.reason)
	}
	hx.E.Case(nontrivial, key, classes...)
	if nontrivial {
		hx.E.Sample(key, map[string]interface{}{"fn": c.Fn, "sig": fn.Type.String(), "args": c.Args, "route": c.Route,
			"expect": expName[e.kind] + "." + e.reason, "error": fmt.Sprint(err), "result": show(ret)})
	}
	if e.kind == expTotalOnly {
		hx.E.Class("value-oracle.unspecified."+e.reason, 1)
	}

	// ---- verdict
	if fail != nil {
		return fail
	}
	what := fmt.Sprintf("%s %s%v via %s", c.Fn, fn.Type, c.Args, c.Route)
	if f := judge(e, ret, err, what); f != nil {
		return f
	}
	if c.Route == "ecal" {
		return judgeWrapping(ret, err, runRet, runErr, what+" source "+strconv.Quote(src))
	}
	// the same call once more through the same adapter: judged like the first one (an adapter keeps nothing
	// between calls)
	var ret2 interface{}
	var err2 error
	held := show(ret) // what the first call returned, as its caller still holds it
	if f := hx.Guard(func() { ret2, err2 = call() }); f != nil {
		f.Sig = "again:" + f.Sig
		f.Msg = "second identical call of " + what + ": " + f.Msg
		return f
	}
	if f := judge(e, ret2, err2, "second identical call of "+what); f != nil {
		f.Sig = "again:" + f.Sig
		return f
	}
	if now := show(ret); now != held {
		return hx.Failf("again:first-result-changed", "%s returned %s; after a second call through the bridge the value the first caller still holds reads %s", what, held, now)
	}
	// ... and after a call of another bridged function (results must not live in memory the bridge uses again)
	if other, ok := funcByName["math.modf"]; ok && other.Adapter != nil {
		hx.Guard(func() { other.Adapter.Run("c19", scope.NewScope("c19"), make(map[string]interface{}), 0, []interface{}{123.25}) })
		if now := show(ret); now != held {
			return hx.Failf("again:first-result-changed", "%s returned %s; after a call of math.Modf through the bridge the value the first caller still holds reads %s", what, held, now)
		}
	}
	return nil
}

var expName = map[expKind]string{expMustError: "must-error", expMustSucceed: "must-succeed", expEither: "result-or-error", expTotalOnly: "total-only"}

func uniq(in []string) []string {
	var out []string
outer:
	for _, s := range in {
		for _, o := range out {
			if o == s {
				continue outer
			}
		}
		out = append(out, s)
	}
	return out
}

// judge compares the outcome of a bridged call with the expectation.
func judge(e expectation, ret interface{}, err error, what string) *hx.Failure {
	if err != nil {
		if strings.TrimSpace(err.Error()) == "" {
			return hx.Failf("error-without-text", "%s: error with empty text", what)
		}
		switch e.kind {
		case expMustSucceed:
			return hx.Failf("valid-call-refused:"+e.blame, "%s: exact arity, every argument exactly representable in its scalar parameter type, the Go function returns %s — but the bridge reports: %v", what, show(e.value), err)
		case expMustError:
			if e.errText != "" && !strings.Contains(err.Error(), e.errText) {
				return hx.Failf("go-error-text-lost", "%s: the Go function returned error %q, the bridge reports %q", what, e.errText, err.Error())
			}
		}
		return nil
	}
	switch e.kind {
	case expMustError:
		sig := e.reason
		if strings.HasPrefix(sig, "null-for-") {
			sig = "null"
		}
		detail := ""
		if e.errText != "" {
			detail = fmt.Sprintf(" (Go error: %q)", e.errText)
		}
		return hx.Failf("no-error:"+sig, "%s: an error is required (%s)%s but the call returned %s", what, e.reason, detail, show(ret))
	case expTotalOnly:
		return nil
	}
	if e.noValue {
		if l, ok := ret.([]interface{}); ret == nil || ok && len(l) == 0 {
			return nil
		}
		return hx.Failf("value-for-no-result", "%s: the Go function has no result but the call returned %s", what, show(ret))
	}
	if same(e.value, ret) {
		return nil
	}
	if raw := findRaw(ret); raw != nil {
		return hx.Failf("result-not-ecal-number:"+reflect.TypeOf(raw).Kind().String(), "%s: Go number delivered as %s instead of an ECAL number (float64); expected %s, got %s", what, show(raw), show(e.value), show(ret))
	}
	return hx.Failf("value-mismatch:"+e.blame, "%s: calling the Go function directly with the converted arguments gives %s, the bridge returned %s", what, show(e.value), show(ret))
}

func findRaw(v interface{}) interface{} {
	if rawGoNumber(v) {
		return v
	}
	if l, ok := v.([]interface{}); ok {
		for _, x := range l {
			if rawGoNumber(x) {
				return x
			}
		}
	}
	return nil
}

// judgeWrapping: an ECAL call must report exactly what Run reports — the same value, or
// Run's error wrapped into a runtime error which carries its text.
func judgeWrapping(ret interface{}, err error, runRet interface{}, runErr error, what string) *hx.Failure {
	if (err != nil) != (runErr != nil) {
		return hx.Failf("ecal:outcome-differs-from-run", "%s: Run gives (%s, %v), the ECAL call gives (%s, %v)", what, show(runRet), runErr, show(ret), err)
	}
	if err == nil {
		if !same(runRet, ret) {
			return hx.Failf("ecal:value-differs-from-run", "%s: Run gives %s, the ECAL call gives %s", what, show(runRet), show(ret))
		}
		return nil
	}
	re, ok := err.(*util.RuntimeError)
	if !ok {
		return hx.Failf("ecal:error-not-wrapped", "%s: error of type %T is no runtime error: %v", what, err, err)
	}
	if re.Type != util.ErrRuntimeError || re.Detail != runErr.Error() {
		return hx.Failf("ecal:error-detail-lost", "%s: Run reports %q, the ECAL error is type=%v detail=%q", what, runErr.Error(), re.Type, re.Detail)
	}
	return nil
}

func TestRegress(t *testing.T) {
	needSetup(t)
	hx.Regress(t, runCase)
}

// ---------------------------------------------------------------------------
// exhaustive part
// ---------------------------------------------------------------------------

// vectors yields every vector of exactly n tokens over u.
func vectors(u []string, n int, yield func([]string) bool) bool {
	idx := make([]int, n)
	for {
		v := make([]string, n)
		for i, k := range idx {
			v[i] = u[k]
		}
		if !yield(v) {
			return false
		}
		i := n - 1
		for ; i >= 0; i-- {
			idx[i]++
			if idx[i] < len(u) {
				break
			}
			idx[i] = 0
		}
		if i < 0 {
			return true
		}
	}
}

func deep(f *fnSpec) bool { return f.Syn && (f.Type.NumIn() >= 3 || f.Type.IsVariadic()) }

func TestExhaustive(t *testing.T) {
	needSetup(t)
	maxLen, ecalEvery := 2, 6 // every 6th vector also through ECAL source (period 7: spreads over 4 shards)
	if hx.Thorough() {
		maxLen, ecalEvery = 3, 24 // period 25: spreads over 16 shards
	}
	allU := append(append([]string{}, baseU...), extU...)
	n := 0
	emit := func(yield func(Case) bool, f *fnSpec, v []string) bool {
		n++
		if !yield(Case{Fn: f.Name, Args: v, Route: "run"}) {
			return false
		}
		if n%ecalEvery == 0 {
			return yield(Case{Fn: f.Name, Args: v, Route: "ecal"})
		}
		return true
	}
	hx.Enumerate(t, "vectors", func(yield func(Case) bool) {
		for _, f := range allFuncs {
			f := f
			// every vector over the base universe up to the bound
			for l := 0; l <= maxLen; l++ {
				if !vectors(baseU, l, func(v []string) bool { return emit(yield, f, v) }) {
					return
				}
			}
			// boundary sweep: every unary vector over the extended values
			if !vectors(extU, 1, func(v []string) bool { return emit(yield, f, v) }) {
				return
			}
			// signatures which can take three or more arguments: one length further
			if deep(f) {
				if !vectors(baseU, maxLen+1, func(v []string) bool { return emit(yield, f, v) }) {
					return
				}
			}
			// all pairs over base+extended values (quick: synthetic functions which can take two arguments)
			if !hx.Thorough() && !(f.Syn && (f.Type.NumIn() >= 2 || f.Type.IsVariadic())) {
				continue
			}
			if !vectors(allU, 2, func(v []string) bool {
				for _, tok := range v {
					if !inBase[tok] {
						return emit(yield, f, v)
					}
				}
				return true // pure base pairs were done above
			}) {
				return
			}
		}
	}, runCase)
	bound := map[string]interface{}{"functions": len(allFuncs), "universe": baseU, "max_len": maxLen, "unary_boundary_values": extU,
		"ecal_route_every": ecalEvery}
	bound["max_len_plus_one_for"] = "synthetic functions with >=3 parameters or variadic"
	if hx.Thorough() {
		bound["pairs_over_universe_and_boundary_values_for"] = "all functions"
	} else {
		bound["pairs_over_universe_and_boundary_values_for"] = "synthetic functions with >=2 parameters or variadic"
	}
	hx.E.Exhaustive("vectors", bound)
}

var inBase = func() map[string]bool {
	m := map[string]bool{}
	for _, t := range baseU {
		m[t] = true
	}
	return m
}()

// ---------------------------------------------------------------------------
// random part
// ---------------------------------------------------------------------------

var boundaries = []float64{0, 1, 127, 128, 255, 256, 32767, 32768, 65535, 65536, 2147483647, 2147483648, 4294967295, 4294967296,
	1 << 53, 9223372036854775808, 18446744073709551616, math.MaxFloat32}

func drawNumber(rt *rapid.T) float64 {
	switch rapid.IntRange(0, 5).Draw(rt, "numkind") {
	case 0:
		return float64(rapid.IntRange(-300, 300).Draw(rt, "small"))
	case 1: // around a boundary
		b := rapid.SampledFrom(boundaries).Draw(rt, "bound")
		b += float64(rapid.IntRange(-2, 2).Draw(rt, "off"))
		if rapid.Bool().Draw(rt, "neg") {
			b = -b
		}
		return b
	case 2: // integral, any magnitude an integer kind can hold
		return float64(rapid.Int64().Draw(rt, "i64"))
	case 3: // fraction
		return float64(rapid.IntRange(-70000, 70000).Draw(rt, "fi")) + rapid.Float64Range(-1, 1).Draw(rt, "ff")
	case 4:
		return float64(rapid.Uint64().Draw(rt, "u64"))
	}
	return rapid.Float64().Draw(rt, "any")
}

func drawToken(rt *rapid.T, want reflect.Type) string {
	// 55%: something of the kind the parameter wants; otherwise anything
	if want != nil && rapid.IntRange(0, 99).Draw(rt, "directed") < 55 {
		k := want.Kind()
		switch {
		case isNumericKind(k):
			return numTok(drawNumber(rt))
		case k == reflect.String:
			return "s:" + rapid.StringN(0, 6, -1).Draw(rt, "str")
		case k == reflect.Bool:
			return strconv.FormatBool(rapid.Bool().Draw(rt, "b"))
		case k == reflect.Slice:
			return rapid.SampledFrom([]string{"l:0", "l:2", "l:n"}).Draw(rt, "l")
		case k == reflect.Map:
			return rapid.SampledFrom([]string{"m:0", "m:1", "m:n"}).Draw(rt, "m")
		}
	}
	switch rapid.IntRange(0, 9).Draw(rt, "tokkind") {
	case 0, 1, 2, 3:
		return rapid.SampledFrom(baseU).Draw(rt, "base")
	case 4, 5:
		return rapid.SampledFrom(extU).Draw(rt, "ext")
	case 6, 7:
		return numTok(drawNumber(rt))
	case 8:
		return "s:" + rapid.String().Draw(rt, "anystr")
	}
	return rapid.SampledFrom([]string{"null", "f", "l:n", "m:1", "m:n", "true"}).Draw(rt, "other")
}

func TestProp(t *testing.T) {
	needSetup(t)
	hx.Check(t, func(rt *rapid.T) Case {
		var f *fnSpec
		if rapid.IntRange(0, 2).Draw(rt, "set") == 0 {
			f = allFuncs[rapid.IntRange(0, len(mathFuncs)-1).Draw(rt, "math")]
		} else {
			f = allFuncs[rapid.IntRange(len(mathFuncs), len(allFuncs)-1).Draw(rt, "syn")]
		}
		nIn := f.Type.NumIn()
		n := nIn
		switch rapid.IntRange(0, 9).Draw(rt, "arity") { // 0..5: exact arity
		case 6, 7:
			n = rapid.IntRange(0, 6).Draw(rt, "len")
		case 8:
			n = nIn + 1
		case 9:
			if nIn > 0 {
				n = nIn - 1
			}
		}
		if f.Type.IsVariadic() && rapid.Bool().Draw(rt, "more") {
			n = nIn - 1 + rapid.IntRange(0, 4).Draw(rt, "extra")
		}
		args := make([]string, n)
		for i := range args {
			var want reflect.Type
			if i < nIn || f.Type.IsVariadic() {
				want = paramType(f.Type, i)
			}
			args[i] = drawToken(rt, want)
		}
		route := "run"
		if rapid.IntRange(0, 3).Draw(rt, "route") == 3 {
			route = "ecal"
		}
		return Case{Fn: f.Name, Args: args, Route: route}
	}, runCase)
}
