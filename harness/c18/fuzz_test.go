package c18

import (
	"os"
	"path/filepath"
	"testing"

	"verif/internal/hx"
)

var fuzzSeeds = []string{
	"a := 1",
	"a # c\nb",
	"a /* c\n d */ b\n  c",
	"x := r\"a\nb\" y\n z",
	"if a > 1 {\n  # comment\n  b := \"é\" # tail\n} else {\r\n\tc := 'x'\r\n}\n",
	"/* 日本 */ a /**/ b #\n#\n c",
	"func f(a, b=1) {\n return a + b // 2 % 3\n}\n",
	"sink s kindmatch [\"a.b\"], priority 1 { log(1) }",
	"\"unclosed",
	"/* open",
	"1.5e+3 .5 1. a.b[0] != >= <= == := ;",
	"r'' r\"\" '' \"\" #",
	"\xff\xfe a \x00 b\n\x85 c",
}

// FuzzLexPositions feeds arbitrary bytes to the lexer (thorough tier).
func FuzzLexPositions(f *testing.F) {
	for _, s := range fuzzSeeds {
		f.Add([]byte(s))
	}
	// the example programs of the repository, where available
	for _, root := range []string{os.Getenv("VERIF_REPO"), "/repo"} {
		if root == "" {
			continue
		}
		files, _ := filepath.Glob(filepath.Join(root, "examples", "*", "*.ecal"))
		for _, fn := range files {
			if b, err := os.ReadFile(fn); err == nil && len(b) < 1<<16 {
				f.Add(b)
			}
		}
		if len(files) > 0 {
			break
		}
	}
	f.Fuzz(func(t *testing.T, b []byte) {
		if len(b) > 1<<16 {
			return
		}
		c := Case{Mode: "raw", Raw: append([]byte(nil), b...)}
		if fl := hx.Handle(c, runCase(c)); fl != nil {
			t.Fatal(fl)
		}
	})
}
