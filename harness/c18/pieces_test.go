package c18

// Source pieces with known byte offsets: the generator's own bookkeeping.
// Nothing in this file looks at what the lexer under test does; the rules
// below (which pieces are well formed, which neighbours need a separator)
// are the harness's statement of the input domain of C18.

import (
	"regexp"
	"strings"
	"unicode"
	"unicode/utf8"
)

// Piece is one lexical building block of a generated source text.
type Piece struct {
	K string `json:"k"` // kind: id num kw sym qstr rstr lc bc ws bad
	T string `json:"t"` // exact source text
}

const (
	kID  = "id"   // identifier [A-Za-z][A-Za-z0-9]*, not a keyword
	kNUM = "num"  // number
	kKW  = "kw"   // keyword (any letter case)
	kSYM = "sym"  // symbol
	kQS  = "qstr" // "..." or '...' (escapes interpreted, no raw newline)
	kRS  = "rstr" // r"..." or r'...' (raw, may contain newlines)
	kLC  = "lc"   // # comment, WITHOUT the terminating newline
	kBC  = "bc"   // /* comment */
	kWS  = "ws"   // white space (space, tab, CR, LF, other space/control runes)
	kBAD = "bad"  // text which cannot be lexed; only as the very last piece
)

var keywords = []string{
	"let", "import", "as", "sink", "kindmatch", "scopematch", "statematch", "priority", "suppresses",
	"func", "return", "and", "or", "not", "like", "hasprefix", "hassuffix", "in", "notin",
	"false", "true", "null", "if", "elif", "else", "for", "break", "continue",
	"try", "except", "otherwise", "finally", "mutex",
}

var symbols = []string{
	">=", "<=", "!=", "==", ">", "<", "(", ")", "[", "]", "{", "}", ".", ",", ";", ":", "=",
	"+", "-", "*", "/", "//", "%", ":=",
}

var badIdents = []string{"é", "a_b", "$x", "@", "ü1", "_", "xéy", "~"}

var (
	kwSet  = map[string]bool{}
	symSet = map[string]bool{}
	badSet = map[string]bool{}
	idRe   = regexp.MustCompile(`^[A-Za-z][A-Za-z0-9]{0,11}$`)
	numRe  = regexp.MustCompile(`^[0-9]{1,12}(\.[0-9]{1,6})?(e\+[0-9]{1,2})?$`)
)

func init() {
	for _, k := range keywords {
		kwSet[k] = true
	}
	for _, s := range symbols {
		symSet[s] = true
	}
	for _, s := range badIdents {
		badSet[s] = true
	}
}

func isKeyword(s string) bool { return kwSet[strings.ToLower(s)] }

func isWord(k string) bool { return k == kID || k == kKW || k == kNUM }
func isStr(k string) bool  { return k == kQS || k == kRS }
func isTok(k string) bool  { return isWord(k) || isStr(k) || k == kSYM }
func isCom(k string) bool  { return k == kLC || k == kBC }

// badKind classifies the text of a "bad" piece.
func badKind(t string) string {
	switch {
	case strings.HasPrefix(t, "/*"):
		return "unclosed-bc"
	case strings.HasPrefix(t, "\"") || strings.HasPrefix(t, "'"):
		return "unclosed-str"
	}
	return "bad-ident"
}

func validQuoted(t string) bool {
	if len(t) < 2 {
		return false
	}
	q := t[0]
	if (q != '"' && q != '\'') || t[len(t)-1] != q {
		return false
	}
	c := t[1 : len(t)-1]
	for i := 0; i < len(c); i++ {
		switch c[i] {
		case '\n', q:
			return false
		case '\\':
			if i+1 >= len(c) {
				return false
			}
			switch c[i+1] {
			case 'n', 't':
			case '"':
				if q != '"' {
					return false
				}
			case '\\':
				// an escaped backslash directly before the closing quote is
				// outside the domain (how the literal ends there is a string
				// syntax question, not a position question)
				if i+2 >= len(c) {
					return false
				}
			default:
				return false
			}
			i++
		}
	}
	return true
}

func validRaw(t string) bool {
	if len(t) < 3 || t[0] != 'r' {
		return false
	}
	q := t[1]
	if (q != '"' && q != '\'') || t[len(t)-1] != q {
		return false
	}
	return strings.IndexByte(t[2:len(t)-1], q) < 0
}

func validPiece(p Piece) bool {
	t := p.T
	if t == "" || !utf8.ValidString(t) {
		return false
	}
	switch p.K {
	case kID:
		return idRe.MatchString(t) && !isKeyword(t)
	case kKW:
		return isKeyword(t)
	case kNUM:
		return numRe.MatchString(t)
	case kSYM:
		return symSet[t]
	case kQS:
		return validQuoted(t)
	case kRS:
		return validRaw(t)
	case kLC:
		return t[0] == '#' && strings.IndexByte(t, '\n') < 0
	case kBC:
		return len(t) >= 4 && strings.HasPrefix(t, "/*") && strings.Index(t[2:], "*/") == len(t)-4
	case kWS:
		for _, r := range t {
			if !unicode.IsSpace(r) && !unicode.IsControl(r) {
				return false
			}
		}
		return true
	case kBAD:
		switch badKind(t) {
		case "unclosed-bc":
			return strings.Index(t[2:], "*/") < 0
		case "unclosed-str":
			return strings.IndexByte(t[1:], t[0]) < 0 && strings.IndexByte(t, '\\') < 0
		}
		return badSet[t]
	}
	return false
}

// effKind is the kind used by the neighbour rules ("bad" pieces behave like
// the construct they start).
func effKind(p Piece) string {
	if p.K != kBAD {
		return p.K
	}
	switch badKind(p.T) {
	case "unclosed-bc":
		return kBC
	case "unclosed-str":
		return kQS
	}
	return kID
}

// needsSep tells whether b directly after a could be read differently from
// "token a, then token b" (conservative: a true answer only costs a space).
func needsSep(a, b Piece) bool {
	ak, bk := effKind(a), effKind(b)
	if ak == kWS || bk == kWS || ak == kBC {
		return false
	}
	if ak == kLC {
		return true // only white space with a newline may follow (checked by validSeq)
	}
	switch {
	case isWord(ak) && (isWord(bk) || isStr(bk)):
		return true // ab, a1, 1a, a"x", ar"x"
	case (ak == kID || ak == kKW) && bk == kLC:
		return true // a#c is one (illegal) word
	case ak == kNUM && bk == kSYM && b.T[0] == '.':
		return true // 1. is a number
	case ak == kSYM && bk == kSYM:
		pair := a.T[len(a.T)-1:] + b.T[:1]
		return symSet[pair] || pair == "/*"
	case ak == kSYM && bk == kBC:
		return a.T[len(a.T)-1] == '/' // //* would start with the symbol //
	}
	return false
}

// validSeq checks a whole piece sequence against the domain rules.
func validSeq(ps []Piece) (bool, string) {
	if len(ps) == 0 {
		return false, "empty"
	}
	for i, p := range ps {
		if !validPiece(p) {
			return false, "piece"
		}
		if p.K == kBAD && i != len(ps)-1 {
			return false, "bad-not-last"
		}
		if i == 0 {
			continue
		}
		a := ps[i-1]
		if a.K == kLC {
			if p.K != kWS || strings.IndexByte(p.T, '\n') < 0 {
				return false, "lc-not-ended"
			}
			continue
		}
		if a.K == kWS && p.K == kWS {
			continue
		}
		if needsSep(a, p) {
			return false, "adjacency"
		}
	}
	return true, ""
}

// layout is the position bookkeeping of one assembled source.
type layout struct {
	src    string
	off    []int // offset of every piece
	lineAt []int // true line (from 1) of every byte offset 0..len(src)
	colAt  []int // true column (bytes, from 1) of every byte offset 0..len(src)
}

func positions(src string) (lineAt, colAt []int) {
	lineAt = make([]int, len(src)+1)
	colAt = make([]int, len(src)+1)
	line, col := 1, 1
	for i := 0; i <= len(src); i++ {
		lineAt[i], colAt[i] = line, col
		if i < len(src) {
			if src[i] == '\n' {
				line++
				col = 1
			} else {
				col++
			}
		}
	}
	return
}

func assemble(ps []Piece) *layout {
	var sb strings.Builder
	l := &layout{off: make([]int, len(ps))}
	for i, p := range ps {
		l.off[i] = sb.Len()
		sb.WriteString(p.T)
	}
	l.src = sb.String()
	l.lineAt, l.colAt = positions(l.src)
	return l
}

// blankComments replaces every comment by blanks of the same shape (every
// byte but '\n' becomes a space).
func blankComments(ps []Piece) string {
	var sb strings.Builder
	for _, p := range ps {
		if !isCom(p.K) {
			sb.WriteString(p.T)
			continue
		}
		for i := 0; i < len(p.T); i++ {
			if p.T[i] == '\n' {
				sb.WriteByte('\n')
			} else {
				sb.WriteByte(' ')
			}
		}
	}
	return sb.String()
}

// stripFlatComments removes every comment which contains no newline.
// ok=false if the remaining sequence is outside the domain (a comment was
// the only separator between two tokens).
func stripFlatComments(ps []Piece) ([]Piece, bool, int) {
	var out []Piece
	n := 0
	for _, p := range ps {
		if isCom(p.K) && strings.IndexByte(p.T, '\n') < 0 {
			n++
			continue
		}
		out = append(out, p)
	}
	if n == 0 {
		return ps, true, 0
	}
	ok, _ := validSeq(out)
	return out, ok, n
}

// nlContext names the construct which holds the last newline before offset
// off ("line1" if there is none): ws, lc (the newline ending a # comment),
// bc, rstr. Used for failure signatures only.
func nlContext(ps []Piece, l *layout, off int) string {
	idx := strings.LastIndexByte(l.src[:off], '\n')
	if idx < 0 {
		return "line1"
	}
	for i := len(ps) - 1; i >= 0; i-- {
		if l.off[i] <= idx {
			k := ps[i].K
			if k == kWS && i > 0 && ps[i-1].K == kLC && strings.IndexByte(ps[i].T, '\n') == idx-l.off[i] {
				return kLC
			}
			if k == kBAD {
				return effKind(ps[i])
			}
			return k
		}
	}
	return "line1"
}

// Open findings (ids as listed in known_findings.json). While one is listed
// as open, exactly its shape is kept out of the explored space and counted.
const (
	findLC  = "C18-line-comment-column" // sig ...:nl-in-lc
	findEOF = "C18-eof-position"        // sig eof-position:...
)

// lcShape tells whether some token, comment or unlexable tail starts on a
// line whose preceding newline is the one that ends a # comment.
func lcShape(ps []Piece) bool {
	ctx := "line1"
	for i, p := range ps {
		if p.K != kWS && ctx == kLC {
			return true
		}
		n := strings.Count(p.T, "\n")
		switch {
		case n == 0:
		case p.K == kWS && i > 0 && ps[i-1].K == kLC && n == 1:
			ctx = kLC
		default:
			ctx = p.K
		}
	}
	return false
}

// avoidLCShape rewrites a piece list so that lcShape is false: the newline
// which ends a # comment gets a second newline. Returns whether it changed anything.
func avoidLCShape(ps []Piece) bool {
	changed := false
	for lcShape(ps) {
		ctx := "line1"
		at := -1
		for i, p := range ps {
			if p.K != kWS && ctx == kLC {
				break
			}
			n := strings.Count(p.T, "\n")
			switch {
			case n == 0:
			case p.K == kWS && i > 0 && ps[i-1].K == kLC && n == 1:
				ctx = kLC
				at = i
			default:
				ctx = p.K
			}
		}
		if at < 0 {
			break
		}
		ps[at].T += "\n"
		changed = true
	}
	return changed
}
