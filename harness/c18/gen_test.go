package c18

// rapid generators: piece soup and valid programs with fillers in every gap.

import (
	"fmt"
	"strings"

	"pgregory.net/rapid"
)

var (
	idPool  = []string{"a", "b", "x1", "foo", "Bar", "r", "e", "rr", "i", "e5", "notx", "In2", "R", "returned", "zz9"}
	numPool = []string{"0", "1", "42", "3.14", "1e+5", "007", "2.5e+10", "123456789", "0.5", "10"}

	qAtoms   = []string{"a", "xyz", " ", "é", "日本", "😀", `\n`, `\t`, "#", "/*", "*/", "\t", "\r", "OTHERQ", `\"`, `\\x`, "//"}
	rAtoms   = []string{"a", " ", "\n", "\r\n", "é", "日本", "😀", `\`, "#", "/*", "*/", "\t", "OTHERQ", "\n\n", "  ", "\n  ", "x := 1", `\n`}
	lcAtoms  = []string{"", " c", "é", "日本", "\"", "'", "/*", "*/", "\t", "\r", "#", "r\"", " x := 1", "😀", " "}
	bcAtoms  = []string{"", " c ", "\n", "\r\n", "é", "日", "😀", "*", "/", "#", "\"", "'", "\t", " * ", "\n\n", "r'", "\n   ", "x := 1", "\r"}
	wsFlat   = []string{" ", "  ", "\t", "\r", "\f", "\v", " ", " ", " \t ", "    "}
	wsNL     = []string{"\n", "\r\n", "\n\n", "\n   ", "\n\t", " \n", "\r\n\r\n", "\n \n  ", "\t\r\n ", "\n "}
	badTails = []string{"\"abc", "'x y", "\"a\nb", "/* open", "/* a\n b", "/*", "\"", "é", "a_b", "$x", "@", "ü1", "_", "xéy", "~"}
)

func pick(rt *rapid.T, label string, pool []string) string {
	return pool[rapid.IntRange(0, len(pool)-1).Draw(rt, label)]
}

func atoms(rt *rapid.T, label string, pool []string, max int) string {
	n := rapid.IntRange(0, max).Draw(rt, label+"N")
	var sb strings.Builder
	for i := 0; i < n; i++ {
		sb.WriteString(pick(rt, label, pool))
	}
	return sb.String()
}

func drawID(rt *rapid.T) Piece {
	var s string
	if rapid.IntRange(0, 3).Draw(rt, "idgen") == 0 {
		s = rapid.StringMatching(`[A-Za-z][A-Za-z0-9]{0,5}`).Draw(rt, "idre")
		if isKeyword(s) {
			s += "0"
		}
	} else {
		s = pick(rt, "id", idPool)
	}
	return Piece{kID, s}
}

func drawKW(rt *rapid.T) Piece {
	s := pick(rt, "kw", keywords)
	switch rapid.IntRange(0, 5).Draw(rt, "kwcase") {
	case 0:
		s = strings.ToUpper(s)
	case 1:
		s = strings.ToUpper(s[:1]) + s[1:]
	}
	return Piece{kKW, s}
}

func drawQS(rt *rapid.T) Piece {
	q, other := `"`, `'`
	if rapid.Bool().Draw(rt, "single") {
		q, other = other, q
	}
	c := atoms(rt, "q", qAtoms, 5)
	c = strings.ReplaceAll(c, "OTHERQ", other)
	if q == `'` {
		c = strings.ReplaceAll(c, `\"`, `"`)
	}
	p := Piece{kQS, q + c + q}
	if !validPiece(p) {
		p = Piece{kQS, q + "s" + q}
	}
	return p
}

func drawRS(rt *rapid.T) Piece {
	q, other := `"`, `'`
	if rapid.Bool().Draw(rt, "single") {
		q, other = other, q
	}
	c := atoms(rt, "r", rAtoms, 6)
	c = strings.ReplaceAll(c, "OTHERQ", other)
	return Piece{kRS, "r" + q + c + q}
}

func drawLC(rt *rapid.T) Piece {
	return Piece{kLC, "#" + atoms(rt, "lc", lcAtoms, 4)}
}

// drawBC draws a block comment; multi: 0 = no newline, 1 = with newline, 2 = any.
func drawBC(rt *rapid.T, multi int) Piece {
	c := atoms(rt, "bc", bcAtoms, 5)
	switch multi {
	case 0:
		c = strings.NewReplacer("\r\n", " ", "\n", " ").Replace(c)
	case 1:
		if strings.IndexByte(c, '\n') < 0 {
			c += pick(rt, "bcnl", []string{"\n", "\r\n", "\n ", "\n\n"})
		}
	}
	for strings.Contains(c, "*/") {
		c = strings.ReplaceAll(c, "*/", "* /")
	}
	return Piece{kBC, "/*" + c + "*/"}
}

func drawWS(rt *rapid.T, nl int) Piece { // nl: 0 flat, 1 with newline, 2 any
	n := rapid.IntRange(1, 3).Draw(rt, "wsN")
	var sb strings.Builder
	for i := 0; i < n; i++ {
		switch {
		case nl == 0:
			sb.WriteString(pick(rt, "wsf", wsFlat))
		case nl == 1 && i == 0:
			sb.WriteString(pick(rt, "wsn", wsNL))
		default:
			if rapid.Bool().Draw(rt, "wsk") {
				sb.WriteString(pick(rt, "wsf", wsFlat))
			} else {
				sb.WriteString(pick(rt, "wsn", wsNL))
			}
		}
	}
	return Piece{kWS, sb.String()}
}

// appendFixed appends p, inserting the separator the domain rules require.
func appendFixed(out []Piece, p Piece) []Piece {
	if len(out) > 0 {
		a := out[len(out)-1]
		switch {
		case a.K == kLC:
			if p.K != kWS || strings.IndexByte(p.T, '\n') < 0 {
				out = append(out, Piece{kWS, "\n"})
			}
		case needsSep(a, p):
			out = append(out, Piece{kWS, " "})
		}
	}
	return append(out, p)
}

func drawSoup(rt *rapid.T) []Piece {
	// a slice generator, so that rapid can shrink by dropping pieces
	raw := rapid.SliceOfN(rapid.Custom(drawSoupPiece), 1, 24).Draw(rt, "pieces")
	var out []Piece
	for _, p := range raw {
		out = appendFixed(out, p)
	}
	if rapid.IntRange(0, 9).Draw(rt, "tail") == 0 {
		out = appendFixed(out, Piece{kBAD, pick(rt, "bad", badTails)})
	}
	return out
}

func drawSoupPiece(rt *rapid.T) Piece {
	{
		var p Piece
		switch k := rapid.IntRange(0, 27).Draw(rt, "kind"); {
		case k < 3:
			p = drawID(rt)
		case k < 5:
			p = Piece{kNUM, pick(rt, "num", numPool)}
		case k < 7:
			p = drawKW(rt)
		case k < 11:
			p = Piece{kSYM, pick(rt, "sym", symbols)}
		case k < 13:
			p = drawQS(rt)
		case k < 16:
			p = drawRS(rt)
		case k < 19:
			p = drawLC(rt)
		case k < 23:
			p = drawBC(rt, 2)
		default:
			p = drawWS(rt, 2)
		}
		return p
	}
}

// ---------------------------------------------------------------------------
// programs

const (
	gAny  = iota + 1 // anything: blanks, newlines, any comment
	gLine            // must stay on the line: blanks, newline-free block comments
	gStmt            // statement boundary: like gAny but with at least one newline
	gEdge            // start / end of the file: anything or nothing
)

type item struct {
	gap int // gap before the token
	p   Piece
}

type progBuilder struct {
	rt       *rapid.T
	items    []item
	numVars  []string
	nextVar  int
	plant    string
	plantAt  int // index into items of the planted token, -1 if none
	wantRT   bool
	depthMax int
}

func (b *progBuilder) tok(gap int, k, t string) int {
	b.items = append(b.items, item{gap, Piece{k, t}})
	return len(b.items) - 1
}

func (b *progBuilder) fresh(prefix string) string {
	b.nextVar++
	return fmt.Sprintf("%s%d", prefix, b.nextVar)
}

func (b *progBuilder) num(gap int) {
	b.tok(gap, kNUM, pick(b.rt, "num", numPool))
}

func (b *progBuilder) str(gap int) {
	if rapid.IntRange(0, 2).Draw(b.rt, "strk") == 0 {
		p := drawQS(b.rt)
		b.tok(gap, p.K, p.T)
	} else {
		p := drawRS(b.rt)
		b.tok(gap, p.K, p.T)
	}
}

// numExpr emits a well-typed numeric expression.
func (b *progBuilder) numExpr(gap, depth int) {
	k := rapid.IntRange(0, 9).Draw(b.rt, "nexpr")
	if depth <= 0 && k >= 4 {
		k = k % 4
	}
	switch {
	case k < 3:
		b.num(gap)
	case k == 3:
		if len(b.numVars) > 0 {
			b.tok(gap, kID, pick(b.rt, "nv", b.numVars))
		} else {
			b.num(gap)
		}
	case k < 8:
		b.numExpr(gap, depth-1)
		b.tok(gAny, kSYM, pick(b.rt, "aop", []string{"+", "-", "*"}))
		b.numExpr(gAny, depth-1)
	case k == 8:
		b.tok(gap, kSYM, "(")
		b.numExpr(gAny, depth-1)
		b.tok(gAny, kSYM, ")")
	default:
		b.tok(gap, kSYM, "-")
		b.num(gAny)
	}
}

func (b *progBuilder) boolExpr(gap, depth int) {
	k := rapid.IntRange(0, 7).Draw(b.rt, "bexpr")
	if depth <= 0 && k >= 5 {
		k = k % 5
	}
	switch {
	case k < 2:
		b.tok(gap, kKW, pick(b.rt, "bool", []string{"true", "false", "True", "FALSE"}))
	case k < 5:
		b.numExpr(gap, depth-1)
		b.tok(gAny, kSYM, pick(b.rt, "cmp", []string{">=", "<=", "!=", "==", ">", "<"}))
		b.numExpr(gAny, depth-1)
	case k == 5:
		b.tok(gap, kKW, "not")
		b.boolExpr(gAny, depth-1)
	default:
		b.boolExpr(gap, depth-1)
		b.tok(gAny, kKW, pick(b.rt, "bop", []string{"and", "or", "AND"}))
		b.boolExpr(gAny, depth-1)
	}
}

// anyExpr emits a number, string, bool, list or map expression.
func (b *progBuilder) anyExpr(gap, depth int) {
	k := rapid.IntRange(0, 6).Draw(b.rt, "expr")
	if depth <= 0 && k >= 5 {
		k = 1
	}
	switch {
	case k == 0:
		b.numExpr(gap, depth)
	case k < 4:
		b.str(gap)
	case k == 4:
		b.boolExpr(gap, depth)
	case k == 5:
		b.list(gap, depth-1)
	default:
		b.tok(gap, kSYM, "{")
		n := rapid.IntRange(0, 2).Draw(b.rt, "mapN")
		for i := 0; i < n; i++ {
			if i > 0 {
				b.tok(gAny, kSYM, ",")
			}
			b.tok(gAny, kQS, fmt.Sprintf(`"k%d"`, i))
			b.tok(gAny, kSYM, ":")
			b.anyExpr(gAny, depth-1)
		}
		b.tok(gAny, kSYM, "}")
	}
}

func (b *progBuilder) list(gap, depth int) {
	b.tok(gap, kSYM, "[")
	n := rapid.IntRange(0, 3).Draw(b.rt, "listN")
	for i := 0; i < n; i++ {
		if i > 0 {
			b.tok(gAny, kSYM, ",")
		}
		b.anyExpr(gAny, depth)
	}
	b.tok(gAny, kSYM, "]")
}

func (b *progBuilder) block(depth int) {
	b.tok(gAny, kSYM, "{")
	n := rapid.IntRange(0, 2).Draw(b.rt, "blockN")
	b.stmts(n, depth+1, gAny)
	b.tok(gAny, kSYM, "}")
}

// stmts emits n statements; first is the gap before the first one.
func (b *progBuilder) stmts(n, depth, first int) {
	for i := 0; i < n; i++ {
		gap := first
		if i > 0 {
			gap = gStmt
			if rapid.IntRange(0, 5).Draw(b.rt, "semi") == 0 {
				b.tok(gAny, kSYM, ";")
				gap = gAny
			}
		}
		b.stmt(gap, depth)
	}
}

// illTyped emits the planted ill-typed operation and returns the item index of the operand.
func (b *progBuilder) illTyped(gap int) int {
	marker := fmt.Sprintf("zq%d", rapid.IntRange(10, 99).Draw(b.rt, "marker"))
	if rapid.IntRange(0, 2).Draw(b.rt, "pct") == 0 {
		marker = "z%" + marker[2:] // the operand's text ends up in the error message: a % must stay a %
	}
	b.tok(gap, kID, b.fresh("w"))
	b.tok(gAny, kSYM, ":=")
	op := pick(b.rt, "iop", []string{"+", "-", "*", "/", "//", "%"})
	switch rapid.IntRange(0, 5).Draw(b.rt, "ill") {
	case 0:
		b.num(gAny)
		b.tok(gAny, kSYM, op)
		return b.tok(gAny, kQS, `"`+marker+`"`)
	case 1:
		i := b.tok(gAny, kQS, `'`+marker+`'`)
		b.tok(gAny, kSYM, op)
		b.num(gAny)
		return i
	case 2:
		b.tok(gAny, kSYM, "-")
		return b.tok(gAny, kQS, `"`+marker+`"`)
	case 3:
		b.num(gAny)
		b.tok(gAny, kSYM, op)
		return b.tok(gAny, kRS, `r"`+marker+pick(b.rt, "illnl", []string{"\n", "\nzz\n", "\r\n  ", ""})+`"`)
	case 4:
		b.tok(gAny, kKW, "not")
		return b.tok(gAny, kNUM, "77"+marker[2:])
	default:
		i := b.tok(gAny, kRS, `r'`+marker+pick(b.rt, "illnl", []string{"\n", "\n\n", "é\n ", ""})+`'`)
		b.tok(gAny, kSYM, op)
		b.num(gAny)
		return i
	}
}

// plantStmt emits the ill-typed operation at a place which is certainly executed.
func (b *progBuilder) plantStmt(gap int) {
	inner := func() {
		n := rapid.IntRange(0, 1).Draw(b.rt, "before")
		b.stmts(n, 2, gAny) // depth 2: simple statements only
		g := gAny
		if n > 0 {
			g = gStmt
		}
		b.plantAt = b.illTyped(g)
		if rapid.IntRange(0, 2).Draw(b.rt, "after") == 0 {
			b.stmt(gStmt, 2)
		}
	}
	switch rapid.IntRange(0, 7).Draw(b.rt, "wrap") {
	case 0:
		b.tok(gap, kKW, "if")
		b.tok(gAny, kKW, "true")
		b.tok(gAny, kSYM, "{")
		inner()
		b.tok(gAny, kSYM, "}")
	case 1:
		b.tok(gap, kKW, "for")
		b.tok(gAny, kID, b.fresh("q"))
		b.tok(gAny, kKW, "in")
		b.tok(gAny, kSYM, "[")
		b.num(gAny)
		b.tok(gAny, kSYM, "]")
		b.tok(gAny, kSYM, "{")
		inner()
		b.tok(gAny, kSYM, "}")
	case 2:
		f := b.fresh("f")
		b.tok(gap, kKW, "func")
		b.tok(gAny, kID, f)
		b.tok(gAny, kSYM, "(")
		b.tok(gAny, kSYM, ")")
		b.tok(gAny, kSYM, "{")
		inner()
		b.tok(gAny, kSYM, "}")
		b.tok(gStmt, kID, f)
		b.tok(gAny, kSYM, "(")
		b.tok(gAny, kSYM, ")")
	case 3:
		b.tok(gap, kKW, "try")
		b.tok(gAny, kSYM, "{")
		inner()
		b.tok(gAny, kSYM, "}")
		b.tok(gAny, kKW, "finally")
		b.block(1)
	default:
		b.plantAt = b.illTyped(gap)
	}
}

func (b *progBuilder) stmt(gap, depth int) {
	k := rapid.IntRange(0, 13).Draw(b.rt, "stmt")
	if depth >= b.depthMax && k >= 6 {
		k = k % 6
	}
	switch {
	case k < 3: // numeric assignment
		v := b.fresh("n")
		if rapid.IntRange(0, 4).Draw(b.rt, "let") == 0 {
			b.tok(gap, kKW, "let")
			gap = gAny
		}
		b.tok(gap, kID, v)
		b.tok(gAny, kSYM, ":=")
		b.numExpr(gAny, 2)
		if depth == 0 {
			b.numVars = append(b.numVars, v)
		}
	case k < 6: // any assignment
		b.tok(gap, kID, b.fresh("v"))
		b.tok(gAny, kSYM, ":=")
		b.anyExpr(gAny, 2)
	case k < 8: // if
		b.tok(gap, kKW, pick(b.rt, "ifkw", []string{"if", "If", "IF"}))
		b.boolExpr(gAny, 1)
		b.block(depth)
		if rapid.IntRange(0, 2).Draw(b.rt, "elif") == 0 {
			b.tok(gAny, kKW, "elif")
			b.boolExpr(gAny, 1)
			b.block(depth)
		}
		if rapid.IntRange(0, 2).Draw(b.rt, "else") == 0 {
			b.tok(gAny, kKW, "else")
			b.block(depth)
		}
	case k == 8: // for in
		b.tok(gap, kKW, "for")
		b.tok(gAny, kID, b.fresh("q"))
		b.tok(gAny, kKW, "in")
		b.tok(gAny, kSYM, "[")
		b.num(gAny)
		if rapid.Bool().Draw(b.rt, "two") {
			b.tok(gAny, kSYM, ",")
			b.num(gAny)
		}
		b.tok(gAny, kSYM, "]")
		b.block(depth)
	case k == 9: // function and call
		f := b.fresh("f")
		b.tok(gap, kKW, "func")
		b.tok(gAny, kID, f)
		b.tok(gAny, kSYM, "(")
		b.tok(gAny, kID, "pa")
		b.tok(gAny, kSYM, ",")
		b.tok(gAny, kID, "pb")
		if rapid.Bool().Draw(b.rt, "preset") {
			b.tok(gAny, kSYM, "=")
			b.num(gAny)
		}
		b.tok(gAny, kSYM, ")")
		b.tok(gAny, kSYM, "{")
		n := rapid.IntRange(0, 2).Draw(b.rt, "fbody")
		b.stmts(n, depth+1, gAny)
		g := gAny
		if n > 0 {
			g = gStmt
		}
		b.tok(g, kKW, "return")
		if rapid.IntRange(0, 3).Draw(b.rt, "retval") > 0 {
			// the value must start on the line of the keyword
			b.tok(gLine, kID, "pa")
			b.tok(gAny, kSYM, "+")
			b.num(gAny)
			b.tok(gAny, kSYM, "}")
		} else {
			b.tok(gStmt, kSYM, "}")
		}
		b.tok(gStmt, kID, b.fresh("c"))
		b.tok(gAny, kSYM, ":=")
		b.tok(gAny, kID, f)
		b.tok(gAny, kSYM, "(")
		b.num(gAny)
		b.tok(gAny, kSYM, ",")
		b.num(gAny)
		b.tok(gAny, kSYM, ")")
	case k == 10: // try
		b.tok(gap, kKW, "try")
		b.block(depth)
		cl := rapid.IntRange(0, 2).Draw(b.rt, "clauses")
		if cl != 1 {
			b.tok(gAny, kKW, "except")
			b.block(depth)
		}
		if cl != 0 {
			b.tok(gAny, kKW, "finally")
			b.block(depth)
		}
	case k == 11: // mutex
		b.tok(gap, kKW, "mutex")
		b.tok(gAny, kID, b.fresh("m"))
		b.block(depth)
	case k == 12: // list and index access (the bracket must stay on the identifier's line)
		l := b.fresh("l")
		b.tok(gap, kID, l)
		b.tok(gAny, kSYM, ":=")
		b.tok(gAny, kSYM, "[")
		b.num(gAny)
		b.tok(gAny, kSYM, ",")
		b.str(gAny)
		b.tok(gAny, kSYM, "]")
		b.tok(gStmt, kID, b.fresh("v"))
		b.tok(gAny, kSYM, ":=")
		b.tok(gAny, kID, l)
		b.tok(gLine, kSYM, "[")
		b.tok(gAny, kNUM, pick(b.rt, "ix", []string{"0", "1"}))
		b.tok(gAny, kSYM, "]")
	default: // call of a stdlib function
		b.tok(gap, kID, b.fresh("v"))
		b.tok(gAny, kSYM, ":=")
		b.tok(gAny, kID, "len")
		b.tok(gAny, kSYM, "(")
		b.list(gAny, 1)
		b.tok(gAny, kSYM, ")")
	}
}

// openEnd emits a last statement which is still open when the text ends.
func (b *progBuilder) openEnd(gap int) {
	body := func() {
		b.tok(gAny, kSYM, "{")
		b.stmts(rapid.IntRange(0, 2).Draw(b.rt, "openN"), 2, gAny)
	}
	switch rapid.IntRange(0, 7).Draw(b.rt, "open") {
	case 0:
		b.tok(gap, kKW, "if")
		b.boolExpr(gAny, 1)
		body()
	case 1:
		b.tok(gap, kKW, "for")
		b.tok(gAny, kID, b.fresh("q"))
		b.tok(gAny, kKW, "in")
		b.list(gAny, 0)
		body()
	case 2:
		b.tok(gap, kKW, "func")
		b.tok(gAny, kID, b.fresh("f"))
		b.tok(gAny, kSYM, "(")
		b.tok(gAny, kSYM, ")")
		body()
	case 3:
		b.tok(gap, kKW, "try")
		body()
	case 4:
		b.tok(gap, kKW, "mutex")
		b.tok(gAny, kID, b.fresh("m"))
		body()
	case 5:
		b.tok(gap, kID, b.fresh("v"))
		b.tok(gAny, kSYM, ":=")
		b.tok(gAny, kSYM, "(")
		b.numExpr(gAny, 1)
	case 6:
		b.tok(gap, kID, b.fresh("v"))
		b.tok(gAny, kSYM, ":=")
		b.tok(gAny, kID, "len")
		b.tok(gAny, kSYM, "(")
		b.str(gAny)
	default:
		b.tok(gap, kID, b.fresh("v"))
		b.tok(gAny, kSYM, ":=")
		b.tok(gAny, kSYM, "[")
		b.num(gAny)
		b.tok(gAny, kSYM, ",")
		b.str(gAny)
	}
}

var strayTokens = []Piece{{kSYM, ")"}, {kSYM, "]"}, {kSYM, "}"}, {kSYM, ","}, {kKW, "as"}}

func drawGap(rt *rapid.T, kind int) []Piece {
	var out []Piece
	max := 3
	if kind == gLine {
		max = 2
	}
	n := rapid.IntRange(0, max).Draw(rt, "gapN")
	if kind == gAny && n > 0 && rapid.IntRange(0, 2).Draw(rt, "plain") == 0 {
		return []Piece{{kWS, " "}}
	}
	for i := 0; i < n; i++ {
		var p Piece
		if kind == gLine {
			if rapid.Bool().Draw(rt, "lk") {
				p = drawWS(rt, 0)
			} else {
				p = drawBC(rt, 0)
			}
		} else {
			switch rapid.IntRange(0, 9).Draw(rt, "gk") {
			case 0, 1:
				p = drawWS(rt, 0)
			case 2, 3:
				p = drawWS(rt, 1)
			case 4, 5:
				p = drawBC(rt, 0)
			case 6, 7:
				p = drawBC(rt, 1)
			default:
				p = drawLC(rt)
			}
		}
		out = appendFixed(out, p)
	}
	if kind == gStmt {
		has := false
		for _, p := range out {
			if p.K != kLC && strings.IndexByte(p.T, '\n') >= 0 {
				has = true
			}
		}
		if len(out) > 0 && out[len(out)-1].K == kLC {
			has = true // the newline ending the comment is added below
		}
		if !has {
			out = appendFixed(out, drawWS(rt, 1))
		}
	}
	return out
}

func drawProg(rt *rapid.T) Case {
	b := &progBuilder{rt: rt, plantAt: -1, depthMax: 2}
	switch k := rapid.IntRange(0, 10).Draw(rt, "plant"); {
	case k < 4:
	case k < 6:
		b.plant = "stray"
	case k < 7:
		b.plant = "lexerr"
	case k == 10:
		b.plant = "eof"
	default:
		b.plant = "runtime"
		b.wantRT = true
	}
	n := rapid.IntRange(1, 4).Draw(rt, "stmts")
	strayMid := -1
	if b.plant == "stray" && n > 1 && rapid.IntRange(0, 19).Draw(rt, "straymid") == 0 {
		// rarely in the middle: a failing parse leaves the lexer goroutine of the code under test behind
		strayMid = rapid.IntRange(1, n-1).Draw(rt, "strayat")
	}
	drawStray := func() {
		g := gStmt
		if rapid.IntRange(0, 2).Draw(rt, "strayline") == 0 {
			g = gLine
		}
		s := strayTokens[rapid.IntRange(0, len(strayTokens)-1).Draw(rt, "stray")]
		b.plantAt = b.tok(g, s.K, s.T)
	}
	rtAt := -1
	if b.wantRT {
		n = rapid.IntRange(0, 3).Draw(rt, "stmtsrt")
		rtAt = rapid.IntRange(0, n).Draw(rt, "rtat")
	}
	first := true
	gapNow := func() int {
		if first {
			first = false
			return gEdge
		}
		return gStmt
	}
	for i := 0; i < n; i++ {
		if i == strayMid {
			drawStray()
		}
		if i == rtAt {
			b.plantStmt(gapNow())
		}
		b.stmt(gapNow(), 0)
	}
	if rtAt == n {
		b.plantStmt(gapNow())
	}
	if b.plant == "stray" && strayMid < 0 {
		drawStray()
	}
	if b.plant == "eof" {
		b.openEnd(gapNow())
	}
	if b.plant == "lexerr" {
		g := gStmt
		if rapid.Bool().Draw(rt, "lexerrgap") {
			g = gAny
		}
		b.plantAt = b.tok(g, kBAD, pick(rt, "bad", badTails))
	}

	// fill the gaps
	var out []Piece
	plantIdx := 0
	for i, it := range b.items {
		kind := it.gap
		var gap []Piece
		if kind == gEdge {
			if rapid.Bool().Draw(rt, "edge") {
				gap = drawGap(rt, gAny)
			}
		} else {
			gap = drawGap(rt, kind)
		}
		for _, p := range gap {
			out = appendFixed(out, p)
		}
		out = appendFixed(out, it.p)
		if i == b.plantAt {
			plantIdx = len(out) - 1
		}
	}
	if b.plant != "lexerr" && rapid.Bool().Draw(rt, "trail") {
		for _, p := range drawGap(rt, gAny) {
			out = appendFixed(out, p)
		}
	}
	c := Case{Mode: "prog", Pieces: out, Plant: b.plant}
	if b.plant != "" {
		c.PlantIdx = plantIdx
	}
	if b.plant == "runtime" {
		// a third of the programs is run the way the command line tool runs an entry file
		switch rapid.IntRange(0, 5).Draw(rt, "route") {
		case 0, 1:
			c.CLI = true
		case 2:
			c.Module = true // imported a second time by the same provider after its text has moved
		}
	}
	return c
}
