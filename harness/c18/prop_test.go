// C18 — tokens, errors and breakpoints carry the true source position.
//
// Domain: source texts assembled from pieces whose byte offsets the harness
// knows by construction (identifiers, numbers, every keyword and symbol,
// quoted strings, raw strings with embedded newlines, # comments, /* */
// comments, blanks, tabs, CR, LF, CRLF, multi-byte runes inside strings,
// comments and white space). Two shapes: "soup" (random interleavings, lexed
// only) and "prog" (valid ECAL programs with random fillers in every gap,
// lexed, parsed and - for a planted runtime error - evaluated).
//
// Oracles (all derived from the property text, bytes from 1, lines split at '\n'):
//  1. every token: Pos = offset of the piece's first byte, Lline/Lpos = line
//     and column recomputed from the source; comment and error tokens are
//     checked for consistency of Lline/Lpos with their own Pos;
//  2. planted errors: a stray token / an unlexable piece at a known place
//     gives a parser.Error with that line and column; an ill-typed literal
//     operand at a known place gives a util.RuntimeError whose node is that
//     operand and whose Line/Pos is the operand's true position;
//  3. metamorphic: the token list and the tree (with positions, without
//     comment meta data) equal those of the same text with every comment
//     replaced by blanks of equal shape; removing comments which contain no
//     newline does not change the tree (kinds, values, lines).
//
// The end-of-input token has no first character: for it (and for "unexpected
// end" parser errors) only a weak form is demanded, see eofPlaceOK. A panic of
// the code under test is counted as excluded (totality is C06/C07). Open
// findings C18-line-comment-column / C18-eof-position (ids in pieces_test.go)
// are kept out of the explored space while known_findings.json lists them.
package c18

import (
	"errors"
	"fmt"
	"github.com/krotik/ecal/cli/tool"
	"os"
	"path/filepath"
	"strings"
	"testing"

	"pgregory.net/rapid"

	"github.com/krotik/ecal/interpreter"
	"github.com/krotik/ecal/parser"
	"github.com/krotik/ecal/scope"
	"github.com/krotik/ecal/util"

	"verif/internal/hx"
)

const rule = "case = source text assembled from pieces with known byte offsets (soup: random interleaving of identifiers, numbers, all keywords/symbols, quoted and raw multi-line strings, # and /* */ comments, blanks/tabs/CR/LF/CRLF/multi-byte runes, separators only where two neighbours would fuse; prog: generated valid ECAL program with such fillers in every gap, optionally with a planted stray token, unlexable tail or ill-typed operand; raw: arbitrary bytes from the fuzz target); non-trivial = some token's nearest preceding non-blank piece is a comment or a string containing a newline and at most one newline lies between them (token on the same or the next line); distinct by (mode, plant, source text)"

// Case is one generated source.
type Case struct {
	Mode     string  `json:"mode"`             // soup | prog | raw
	Pieces   []Piece `json:"pieces,omitempty"` // soup, prog
	Plant    string  `json:"plant,omitempty"`  // prog: "", stray, lexerr, runtime, eof
	PlantIdx int     `json:"plant_idx,omitempty"`
	Raw      []byte  `json:"raw,omitempty"` // raw: the source bytes (base64 in JSON)
	Module   bool    `json:"module,omitempty"` // plant runtime: the program is a MODULE which one provider imports twice: first with three more empty lines in front, then as it is (positions of the second load are judged)
	CLI      bool    `json:"cli,omitempty"` // plant runtime: the program is an entry FILE loaded by cli/tool's interpreter (LoadInitialFile)
}

func TestMain(m *testing.M) { hx.Main(m, "C18", rule) }

func clip(s string) string {
	if len(s) > 300 {
		return fmt.Sprintf("%q...(%d bytes)", s[:300], len(s))
	}
	return fmt.Sprintf("%q", s)
}

func isComment(t parser.LexToken) bool {
	return t.ID == parser.TokenPRECOMMENT || t.ID == parser.TokenPOSTCOMMENT
}

// idClass maps a token id to the piece kind it must come from.
func idClass(t parser.LexToken) string {
	switch {
	case t.ID == parser.TokenIDENTIFIER:
		return kID
	case t.ID == parser.TokenNUMBER:
		return kNUM
	case t.ID == parser.TokenSTRING:
		return "str"
	case t.ID == parser.TokenError:
		return kBAD
	case isComment(t) || t.ID == parser.TokenEOF:
		return "other"
	case symSet[t.Val]:
		return kSYM
	case isKeyword(t.Val):
		// (the id ranges of const.go do not separate the two: "let" sits among the symbols)
		return kKW
	}
	return "other"
}

// selfConsistent checks Lline/Lpos of one token against its own Pos.
func selfConsistent(t parser.LexToken, lineAt, colAt []int) (string, bool) {
	if t.Pos < 0 || t.Pos >= len(lineAt) {
		return "pos-out-of-range", false
	}
	if t.Lline != lineAt[t.Pos] {
		return "line", false
	}
	if t.Lpos != colAt[t.Pos] {
		return "col", false
	}
	return "", true
}

func tokDesc(t parser.LexToken) string {
	return fmt.Sprintf("{id:%d val:%q Pos:%d Lline:%d Lpos:%d}", t.ID, t.Val, t.Pos, t.Lline, t.Lpos)
}

// A panic of the code under test is a totality question (C06/C07), not a
// position question: the case is discarded and counted, never reported here.
func discardPanic(f *hx.Failure) bool {
	if f == nil {
		return false
	}
	hx.E.Exclude("unspecified.panic(not a position question) " + f.Sig)
	return true
}

func lex(src string) (toks []parser.LexToken, panicked bool) {
	return toks, discardPanic(hx.Guard(func() { toks = parser.LexToList("c18", src) }))
}

func parse(src string) (ast *parser.ASTNode, err error, panicked bool) {
	return ast, err, discardPanic(hx.Guard(func() { ast, err = parser.Parse("c18", src) }))
}

// checkTokens is oracle 1.
func checkTokens(c Case, l *layout, toks []parser.LexToken) *hx.Failure {
	var expTok, expCom []int
	for i, p := range c.Pieces {
		switch {
		case isTok(p.K) || p.K == kBAD:
			expTok = append(expTok, i)
		case isCom(p.K):
			expCom = append(expCom, i)
		}
	}
	ti, ci := 0, 0
	for _, t := range toks {
		if t.ID == parser.TokenEOF {
			if !hx.KnownOpen(findEOF) && !eofPlaceOK(l, endAnchor(c.Pieces, l), t.Lline, t.Lpos) {
				return hx.Failf("eof-position:token", "source %s: the end-of-input token says %s; that is no line/column between the last lexical element (offset %d) and the end of the text (offset %d = line %d, column %d)", clip(l.src), tokDesc(t), endAnchor(c.Pieces, l), len(l.src), l.lineAt[len(l.src)], l.colAt[len(l.src)])
			}
			continue
		}
		if isComment(t) {
			if ci >= len(expCom) {
				return hx.Failf("token-sequence:extra-comment", "source %s: unexpected comment token %s", clip(l.src), tokDesc(t))
			}
			pi := expCom[ci]
			ci++
			p := c.Pieces[pi]
			if (p.K == kLC) != (t.ID == parser.TokenPOSTCOMMENT) {
				return hx.Failf("token-sequence:comment-kind", "source %s: comment piece %q at offset %d reported as %s", clip(l.src), p.T, l.off[pi], tokDesc(t))
			}
			if t.Pos < l.off[pi] || t.Pos > l.off[pi]+len(p.T) {
				return hx.Failf("comment-pos-outside", "source %s: comment piece %q spans offsets %d..%d but its token says %s", clip(l.src), p.T, l.off[pi], l.off[pi]+len(p.T), tokDesc(t))
			}
			if what, ok := selfConsistent(t, l.lineAt, l.colAt); !ok {
				return hx.Failf("comment-"+what+":nl-in-"+nlContext(c.Pieces, l, t.Pos), "source %s: comment token %s: offset %d is line %d column %d", clip(l.src), tokDesc(t), t.Pos, l.lineAt[t.Pos], l.colAt[t.Pos])
			}
			continue
		}
		if ti >= len(expTok) {
			return hx.Failf("token-sequence:extra-token", "source %s: unexpected token %s after the %d expected ones", clip(l.src), tokDesc(t), len(expTok))
		}
		pi := expTok[ti]
		ti++
		p := c.Pieces[pi]
		off := l.off[pi]
		cls := idClass(t)
		want := p.K
		if isStr(p.K) {
			want = "str"
		}
		if cls != want {
			return hx.Failf("token-sequence:kind", "source %s: piece %q (%s) at offset %d was lexed as %s", clip(l.src), p.T, p.K, off, tokDesc(t))
		}
		if p.K == kBAD {
			// the error token stands for the whole unlexable run; the text does not say which of its
			// bytes counts as "first" (e.g. '/' or what follows "/*"): any offset inside the run is
			// accepted, line and column must be the true ones of the offset the token names
			if t.Pos < off || t.Pos > off+len(p.T) {
				return hx.Failf("token-pos:nl-in-"+nlContext(c.Pieces, l, off), "source %s: error token for %q at offsets %d..%d says %s", clip(l.src), p.T, off, off+len(p.T), tokDesc(t))
			}
			if what, ok := selfConsistent(t, l.lineAt, l.colAt); !ok {
				return hx.Failf("token-"+what+":nl-in-"+nlContext(c.Pieces, l, t.Pos), "source %s: error token %s: offset %d is line %d column %d", clip(l.src), tokDesc(t), t.Pos, l.lineAt[t.Pos], l.colAt[t.Pos])
			}
			continue
		}
		switch p.K {
		case kID, kKW, kSYM, kNUM:
			if t.Val != p.T {
				return hx.Failf("token-sequence:value", "source %s: piece %q (%s) at offset %d was lexed as %s", clip(l.src), p.T, p.K, off, tokDesc(t))
			}
		}
		if t.Pos != off {
			return hx.Failf("token-pos:nl-in-"+nlContext(c.Pieces, l, off), "source %s: token %q starts at offset %d (line %d, column %d) but the lexer says %s", clip(l.src), p.T, off, l.lineAt[off], l.colAt[off], tokDesc(t))
		}
		if t.Lline != l.lineAt[off] {
			return hx.Failf("token-line:nl-in-"+nlContext(c.Pieces, l, off), "source %s: token %q starts at offset %d = line %d, column %d but the lexer says %s", clip(l.src), p.T, off, l.lineAt[off], l.colAt[off], tokDesc(t))
		}
		if t.Lpos != l.colAt[off] {
			return hx.Failf("token-col:nl-in-"+nlContext(c.Pieces, l, off), "source %s: token %q starts at offset %d = line %d, column %d but the lexer says %s", clip(l.src), p.T, off, l.lineAt[off], l.colAt[off], tokDesc(t))
		}
	}
	if ti != len(expTok) || ci != len(expCom) {
		return hx.Failf("token-sequence:missing", "source %s: %d of %d tokens and %d of %d comments were reported", clip(l.src), ti, len(expTok), ci, len(expCom))
	}
	return nil
}

// endAnchor is the offset of the last piece which is not white space (0 if there is none).
func endAnchor(ps []Piece, l *layout) int {
	for i := len(ps) - 1; i >= 0; i-- {
		if ps[i].K != kWS {
			return l.off[i]
		}
	}
	return 0
}

// eofPlaceOK judges a position reported for the end of the input. The end has
// no first character, so the statement only demands that the report is a
// place the user sees: no position at all (line 0), or the true line and
// column of some offset between the start of the last lexical element and
// the end of the text.
func eofPlaceOK(l *layout, from, line, col int) bool {
	if line == 0 {
		return true
	}
	for o := from; o <= len(l.src); o++ {
		if l.lineAt[o] == line && l.colAt[o] == col {
			return true
		}
	}
	return false
}

func sameTok(a, b parser.LexToken) bool {
	return a.ID == b.ID && a.Pos == b.Pos && a.Val == b.Val && a.Lline == b.Lline && a.Lpos == b.Lpos &&
		a.Identifier == b.Identifier && a.AllowEscapes == b.AllowEscapes
}

// checkBlankTokens is oracle 3 on the token level.
func checkBlankTokens(c Case, l *layout, toks []parser.LexToken, blank string) *hx.Failure {
	btoks, panicked := lex(blank)
	if panicked {
		return nil
	}
	var a, b []parser.LexToken
	for _, t := range toks {
		if !isComment(t) && t.ID != parser.TokenEOF {
			a = append(a, t)
		}
	}
	for _, t := range btoks {
		if !isComment(t) && t.ID != parser.TokenEOF {
			b = append(b, t)
		}
	}
	for i := 0; i < len(a) && i < len(b); i++ {
		if !sameTok(a[i], b[i]) {
			return hx.Failf("blanking-changes-token:nl-in-"+nlContext(c.Pieces, l, a[i].Pos), "source %s: token %d is %s, but %s once every comment is replaced by blanks of equal shape", clip(l.src), i, tokDesc(a[i]), tokDesc(b[i]))
		}
	}
	if len(a) != len(b) {
		return hx.Failf("blanking-changes-token-count", "source %s: %d tokens, but %d once every comment is replaced by blanks of equal shape", clip(l.src), len(a), len(b))
	}
	return nil
}

// cmpAST compares two trees ignoring meta data; withCol also compares Pos and Lpos.
func cmpAST(a, b *parser.ASTNode, withCol bool, path string) string {
	if a == nil || b == nil {
		if a == b {
			return ""
		}
		return path + ": one node is nil"
	}
	if a.Name != b.Name {
		return fmt.Sprintf("%s: node %q vs %q", path, a.Name, b.Name)
	}
	if (a.Token == nil) != (b.Token == nil) {
		return path + ": one token is nil"
	}
	if a.Token != nil {
		x, y := *a.Token, *b.Token
		if x.ID != y.ID || x.Val != y.Val || x.Lline != y.Lline || (withCol && (x.Pos != y.Pos || x.Lpos != y.Lpos)) {
			return fmt.Sprintf("%s/%s: token %s vs %s", path, a.Name, tokDesc(x), tokDesc(y))
		}
	}
	if len(a.Children) != len(b.Children) {
		return fmt.Sprintf("%s/%s (%s): %d vs %d children", path, a.Name, tokStr(a), len(a.Children), len(b.Children))
	}
	for i := range a.Children {
		if d := cmpAST(a.Children[i], b.Children[i], withCol, fmt.Sprintf("%s/%s[%d]", path, a.Name, i)); d != "" {
			return d
		}
	}
	return ""
}

func tokStr(n *parser.ASTNode) string {
	if n.Token == nil {
		return "no token"
	}
	return tokDesc(*n.Token)
}

func topLevel(n *parser.ASTNode) int {
	if n == nil {
		return 0
	}
	if n.Name == parser.NodeSTATEMENTS {
		return len(n.Children)
	}
	return 1
}

func perr(err error) string {
	var pe *parser.Error
	if errors.As(err, &pe) {
		return fmt.Sprintf("%v at line %d column %d", pe.Type, pe.Line, pe.Pos)
	}
	return fmt.Sprint(err)
}

// cmpParse compares the outcome of parsing two variants of the same program.
func cmpParse(a1 *parser.ASTNode, e1 error, a2 *parser.ASTNode, e2 error, withCol bool) string {
	if (e1 == nil) != (e2 == nil) {
		return fmt.Sprintf("one parses, the other does not: %v vs %v", e1, e2)
	}
	if e1 != nil {
		var p1, p2 *parser.Error
		if !errors.As(e1, &p1) || !errors.As(e2, &p2) {
			return ""
		}
		if p1.Type == p2.Type && p1.Type == parser.ErrUnexpectedEnd && p1.Detail == "" && p2.Detail == "" {
			// where the end of the input is reported is only loosely specified (see eofPlaceOK);
			// a trailing comment may legitimately move it
			return ""
		}
		if p1.Type != p2.Type || p1.Line != p2.Line || (withCol && p1.Pos != p2.Pos) {
			return fmt.Sprintf("different parse errors: %s vs %s", perr(e1), perr(e2))
		}
		return ""
	}
	if topLevel(a1) != topLevel(a2) {
		return fmt.Sprintf("%d vs %d top-level statements", topLevel(a1), topLevel(a2))
	}
	return cmpAST(a1, a2, withCol, "")
}

// followClasses computes the non-triviality rule and the class labels.
func followClasses(ps []Piece, l *layout) (bool, []string) {
	seen := map[string]bool{}
	nontrivial := false
	for i, p := range ps {
		if !isTok(p.K) && p.K != kBAD {
			continue
		}
		j := i - 1
		nl := 0
		for j >= 0 && ps[j].K == kWS {
			nl += strings.Count(ps[j].T, "\n")
			j--
		}
		if j < 0 {
			continue
		}
		q := ps[j]
		multi := strings.IndexByte(q.T, '\n') >= 0
		var what string
		switch {
		case q.K == kLC:
			what = "lc"
		case q.K == kBC && multi:
			what = "bcN"
		case q.K == kBC:
			what = "bc1"
		case isStr(q.K) && multi:
			what = "strN"
		default:
			continue
		}
		switch nl {
		case 0:
			what += ".sameline"
		case 1:
			what += ".nextline"
		default:
			seen["tok-after."+what+".later"] = true
			continue
		}
		nontrivial = true
		seen["tok-after."+what] = true
	}
	has := func(name string, b bool) {
		if b {
			seen[name] = true
		}
	}
	has("has.crlf", strings.Contains(l.src, "\r\n"))
	has("has.tab", strings.Contains(l.src, "\t"))
	multibyte := false
	for i := 0; i < len(l.src); i++ {
		if l.src[i] >= 0x80 {
			multibyte = true
			break
		}
	}
	has("has.multibyte", multibyte)
	var out []string
	for _, k := range []string{"tok-after.lc.nextline", "tok-after.lc.later", "tok-after.bc1.sameline", "tok-after.bc1.nextline", "tok-after.bc1.later",
		"tok-after.bcN.sameline", "tok-after.bcN.nextline", "tok-after.bcN.later", "tok-after.strN.sameline", "tok-after.strN.nextline", "tok-after.strN.later",
		"has.crlf", "has.tab", "has.multibyte"} {
		if seen[k] {
			out = append(out, k)
		}
	}
	return nontrivial, out
}

func runCase(c Case) *hx.Failure {
	if c.Mode == "raw" {
		return runRaw(c)
	}
	if c.Mode != "soup" && c.Mode != "prog" {
		hx.E.Exclude("malformed-case.mode")
		return nil
	}
	if ok, why := validSeq(c.Pieces); !ok {
		hx.E.Exclude("malformed-case." + why)
		return nil
	}
	if c.Mode == "soup" && c.Plant != "" {
		hx.E.Exclude("malformed-case.plant")
		return nil
	}
	if c.Plant != "" && c.Plant != "eof" && (c.PlantIdx < 0 || c.PlantIdx >= len(c.Pieces)) {
		hx.E.Exclude("malformed-case.plant")
		return nil
	}
	if hx.KnownOpen(findLC) && lcShape(c.Pieces) {
		hx.E.Exclude("known." + findLC)
		return nil
	}
	if hx.KnownOpen(findEOF) && c.Plant == "eof" {
		hx.E.Exclude("known." + findEOF)
		return nil
	}
	l := assemble(c.Pieces)
	nontrivial, classes := followClasses(c.Pieces, l)
	classes = append(classes, "mode."+c.Mode)
	if c.Mode == "prog" {
		classes = append(classes, "plant."+map[bool]string{true: "none", false: c.Plant}[c.Plant == ""])
	}
	if c.Pieces[len(c.Pieces)-1].K == kBAD {
		classes = append(classes, "tail."+badKind(c.Pieces[len(c.Pieces)-1].T))
	}
	key := c.Mode + "|" + c.Plant + "|" + l.src
	hx.E.Case(nontrivial, key, classes...)
	if nontrivial {
		hx.E.Sample(key, map[string]interface{}{"mode": c.Mode, "plant": c.Plant, "source": l.src, "classes": classes})
	}

	// oracle 1
	toks, panicked := lex(l.src)
	if panicked {
		return nil
	}
	if f := checkTokens(c, l, toks); f != nil {
		return f
	}
	// the same text once more: the same tokens with the same positions (the lexer keeps nothing between runs)
	if toks2, p2 := lex(l.src); !p2 {
		same := len(toks2) == len(toks)
		for i := 0; same && i < len(toks); i++ {
			same = sameTok(toks[i], toks2[i]) && toks[i].Lline == toks2[i].Lline && toks[i].Lpos == toks2[i].Lpos && toks[i].Pos == toks2[i].Pos
		}
		if !same {
			return hx.Failf("again:tokens-differ", "lexing %q a second time gives other tokens or positions (%d tokens, then %d)", l.src, len(toks), len(toks2))
		}
	}
	// oracle 3, token level
	blank := blankComments(c.Pieces)
	if f := checkBlankTokens(c, l, toks, blank); f != nil {
		return f
	}
	if c.Mode != "prog" {
		return nil
	}
	return runProg(c, l, blank)
}

func runProg(c Case, l *layout, blank string) *hx.Failure {
	a1, e1, panicked := parse(l.src)
	if panicked {
		return nil
	}
	// oracle 3, tree level: comments replaced by blanks of equal shape
	if blank != l.src {
		a2, e2, panicked := parse(blank)
		if panicked {
			return nil
		}
		if d := cmpParse(a1, e1, a2, e2, true); d != "" {
			return hx.Failf("blanking-changes-tree", "source %s: tree differs from the tree of the same text with every comment replaced by blanks of equal shape: %s", clip(l.src), d)
		}
		hx.E.Class("metamorphic.blanked", 1)
	}
	// oracle 3: comments without a newline never change the statement list
	if stripped, ok, n := stripFlatComments(c.Pieces); n > 0 {
		if !ok {
			hx.E.Class("metamorphic.strip-skipped(comment-was-only-separator)", 1)
		} else {
			a3, e3, panicked := parse(assemble(stripped).src)
			if panicked {
				return nil
			}
			if d := cmpParse(a1, e1, a3, e3, false); d != "" {
				return hx.Failf("flat-comment-changes-tree", "source %s: tree (kinds, values, lines) differs from the tree of the same text without its %d newline-free comments: %s", clip(l.src), n, d)
			}
			hx.E.Class("metamorphic.stripped", 1)
		}
	}

	switch c.Plant {
	case "":
		if e1 != nil {
			hx.E.Class("prog.parse-error(generator)", 1)
		}
		return nil
	case "stray", "lexerr":
		p := c.Pieces[c.PlantIdx]
		off := l.off[c.PlantIdx]
		var pe *parser.Error
		if e1 == nil || !errors.As(e1, &pe) {
			// the statement does not promise that every stray token is rejected (C07 does)
			hx.E.Exclude("unspecified.planted-token-accepted")
			return nil
		}
		if c.Plant == "lexerr" && pe.Type != parser.ErrLexicalError {
			hx.E.Exclude("unspecified.error-about-other-token")
			return nil
		}
		if c.Plant == "stray" {
			// the error must be about the planted token (its text is part of the message)
			want := p.T
			if p.K == kKW {
				want = "<" + strings.ToUpper(p.T) + ">"
			}
			if !strings.Contains(pe.Detail, want) {
				hx.E.Exclude("unspecified.error-about-other-token")
				return nil
			}
		}
		okPos := pe.Line == l.lineAt[off] && pe.Pos == l.colAt[off]
		if !okPos && p.K == kBAD {
			// any byte of the unlexable run (see checkTokens)
			for o := off; o <= off+len(p.T) && !okPos; o++ {
				okPos = pe.Line == l.lineAt[o] && pe.Pos == l.colAt[o]
			}
		}
		if !okPos {
			return hx.Failf("parser-error-position:"+c.Plant+":nl-in-"+nlContext(c.Pieces, l, off), "source %s: planted %q at offset %d = line %d, column %d; parser reports %q", clip(l.src), p.T, off, l.lineAt[off], l.colAt[off], e1.Error())
		}
		hx.E.Class("planted."+c.Plant+".checked", 1)
	case "eof":
		// the program ends inside an open construct
		var pe *parser.Error
		if e1 == nil || !errors.As(e1, &pe) || pe.Type != parser.ErrUnexpectedEnd {
			hx.E.Exclude("unspecified.truncated-program-other-outcome")
			return nil
		}
		if pe.Line == 0 {
			hx.E.Class("planted.eof.no-position-claimed", 1)
			return nil
		}
		if !eofPlaceOK(l, endAnchor(c.Pieces, l), pe.Line, pe.Pos) {
			return hx.Failf("eof-position:parser-error", "source %s: the program ends inside an open construct; parser reports %q, which is no line/column between the last lexical element (offset %d) and the end of the text (offset %d = line %d, column %d)", clip(l.src), e1.Error(), endAnchor(c.Pieces, l), len(l.src), l.lineAt[len(l.src)], l.colAt[len(l.src)])
		}
		hx.E.Class("planted.eof.checked", 1)
	case "runtime":
		if e1 != nil {
			hx.E.Class("prog.parse-error(generator)", 1)
			return nil
		}
		return runEval(c, l)
	default:
		hx.E.Exclude("malformed-case.plant")
	}
	return nil
}

func runEval(c Case, l *layout) *hx.Failure {
	p := c.Pieces[c.PlantIdx]
	off := l.off[c.PlantIdx]
	var err error
	if c.CLI {
		dir, derr := os.MkdirTemp("", "verif-c18-")
		if derr != nil {
			panic(derr)
		}
		defer os.RemoveAll(dir)
		entry := filepath.Join(dir, "entry.ecal")
		if werr := os.WriteFile(entry, []byte(l.src), 0644); werr != nil {
			panic(werr)
		}
		hx.E.Class("planted.runtime.via-cli-entry-file", 1)
		if f := hx.Guard(func() {
			interp := tool.NewCLIInterpreter()
			none, lvl := "", "Error"
			interp.Dir, interp.LogFile, interp.LogLevel = &dir, &none, &lvl
			interp.EntryFile = entry
			if err = interp.CreateRuntimeProvider("c18"); err != nil {
				panic(err)
			}
			go interp.RuntimeProvider.Cron.Stop() // detached: never wait for it
			err = interp.LoadInitialFile(interp.RuntimeProvider.NewThreadID())
			interp.RuntimeProvider.Processor.Finish()
		}); discardPanic(f) {
			return nil
		}
	} else if c.Module {
		hx.E.Class("planted.runtime.via-module-imported-again", 1)
		if f := hx.Guard(func() {
			il := &util.MemoryImportLocator{Files: map[string]string{"lib": "\n\n\n" + l.src}}
			erp := interpreter.NewECALRuntimeProvider("c18", il, util.NewNullLogger())
			go erp.Cron.Stop() // detached: never wait for it
			load := func() error {
				ast, e := parser.ParseWithRuntime("c18main", "import \"lib\" as lib\n", erp)
				if e == nil {
					if e = ast.Runtime.Validate(); e == nil {
						_, e = ast.Runtime.Eval(scope.NewScope(scope.GlobalScope), make(map[string]interface{}), erp.NewThreadID())
					}
				}
				return e
			}
			load()
			il.Files["lib"] = l.src // the module was edited: its code moved up by three lines
			err = load()
		}); discardPanic(f) {
			return nil
		}
	} else if f := hx.Guard(func() {
		erp := interpreter.NewECALRuntimeProvider("c18", nil, util.NewNullLogger())
		go erp.Cron.Stop() // detached: never wait for it (it can deadlock against the cron tick)
		var ast *parser.ASTNode
		if ast, err = parser.ParseWithRuntime("c18", l.src, erp); err != nil {
			return
		}
		if err = ast.Runtime.Validate(); err != nil {
			return
		}
		_, err = ast.Runtime.Eval(scope.NewScope(scope.GlobalScope), make(map[string]interface{}), erp.NewThreadID())
	}); discardPanic(f) {
		return nil
	}
	var re *util.RuntimeError
	if err == nil || !errors.As(err, &re) {
		hx.E.Exclude("unspecified.no-runtime-error")
		return nil
	}
	if re.Node == nil || re.Node.Token == nil {
		hx.E.Exclude("unspecified.runtime-error-without-token")
		return nil
	}
	// whatever token the error is attached to: its reported place must be its true place
	tp := re.Node.Token.Pos
	if tp < 0 || tp > len(l.src) {
		return hx.Failf("runtime-error-position:pos-out-of-range", "source %s: runtime error %q is attached to a token at offset %d", clip(l.src), err.Error(), tp)
	}
	if re.Line != l.lineAt[tp] || re.Pos != l.colAt[tp] {
		return hx.Failf("runtime-error-position:nl-in-"+nlContext(c.Pieces, l, tp), "source %s: runtime error %q is attached to the token at offset %d = line %d, column %d", clip(l.src), err.Error(), tp, l.lineAt[tp], l.colAt[tp])
	}
	// the position a user reads is the one in the error's text: "(Line:<l> Pos:<c>)" at its end
	if want := fmt.Sprintf("(Line:%d Pos:%d)", l.lineAt[tp], l.colAt[tp]); !strings.HasSuffix(err.Error(), want) {
		return hx.Failf("runtime-error-position:text", "source %s: the runtime error is attached to the token at offset %d = line %d, column %d (its Line/Pos fields say so too) but its text does not end in %s: %q", clip(l.src), tp, l.lineAt[tp], l.colAt[tp], want, err.Error())
	}
	if re.Type != util.ErrNotANumber && re.Type != util.ErrNotABoolean {
		hx.E.Exclude("unspecified.other-runtime-error")
		return nil
	}
	if tp == off {
		hx.E.Class("planted.runtime.checked(at-operand)", 1)
		return nil
	}
	// attached to another token (say the operator): fine as long as it is a real token start (oracle 1 covered it)
	for i, q := range c.Pieces {
		if l.off[i] == tp && isTok(q.K) {
			hx.E.Class("planted.runtime.checked(at-other-token)", 1)
			return nil
		}
	}
	return hx.Failf("runtime-error-position:no-token-start", "source %s: ill-typed operand %q planted at offset %d (line %d, column %d); the error %q is attached to offset %d where no token starts", clip(l.src), p.T, off, l.lineAt[off], l.colAt[off], err.Error(), tp)
}

// runRaw checks arbitrary bytes: every token must be consistent with its own Pos
// and, where the lexeme can be recovered, the input at Pos must start with it.
func runRaw(c Case) *hx.Failure {
	src := string(c.Raw)
	lineAt, colAt := positions(src)
	multiline := strings.IndexByte(src, '\n') >= 0
	toks, panicked := lex(src)
	if panicked {
		return nil
	}
	// offsets of the newlines which end a # comment (by the lexer's own account; used to name the failure class only)
	lcEnd := map[int]bool{}
	for _, t := range toks {
		if t.ID == parser.TokenPOSTCOMMENT && strings.HasSuffix(t.Val, "\n") {
			lcEnd[t.Pos+len(t.Val)-1] = true
		}
	}
	fail := func(sig, format string, a ...interface{}) *hx.Failure {
		hx.E.Case(multiline, "raw|"+src, "mode.raw")
		return hx.Failf(sig, format, a...)
	}
	var n, ncom, nerr int
	for _, t := range toks {
		if t.ID == parser.TokenEOF {
			if hx.KnownOpen(findEOF) || t.Lline == 0 {
				continue
			}
			// weakest form: the reported place exists in the text
			ok := false
			for o := 0; o <= len(src) && !ok; o++ {
				ok = lineAt[o] == t.Lline && colAt[o] == t.Lpos
			}
			if !ok {
				return fail("eof-position:raw-token", "source %s: the end-of-input token says %s; the text has no such line/column", clip(src), tokDesc(t))
			}
			continue
		}
		n++
		if what, ok := selfConsistent(t, lineAt, colAt); !ok {
			d, ctx := "", ""
			if t.Pos >= 0 && t.Pos < len(lineAt) {
				d = fmt.Sprintf(": offset %d is line %d column %d", t.Pos, lineAt[t.Pos], colAt[t.Pos])
				if i := strings.LastIndexByte(src[:t.Pos], '\n'); i >= 0 && lcEnd[i] {
					ctx = ":nl-in-lc"
					if hx.KnownOpen(findLC) {
						hx.E.Class("known."+findLC+".token-skipped", 1)
						continue
					}
				}
			}
			return fail("raw-token-"+what+ctx, "source %s: token %s%s", clip(src), tokDesc(t), d)
		}
		rest := src[t.Pos:]
		ok := true
		switch idClass(t) {
		case kID, kSYM, kKW:
			ok = strings.HasPrefix(rest, t.Val)
		case kNUM:
			ok = len(rest) >= len(t.Val) && strings.ToLower(rest[:len(t.Val)]) == t.Val
		case "str":
			ok = len(rest) >= 2 && (rest[0] == '"' || rest[0] == '\'' || (rest[0] == 'r' && (rest[1] == '"' || rest[1] == '\'')))
		case kBAD:
			nerr++
		default:
			if isComment(t) {
				ncom++
				// Pos may name the opener or the first byte of the content
				ok = strings.HasPrefix(rest, t.Val) || strings.HasPrefix(rest, "#"+t.Val) || strings.HasPrefix(rest, "/*"+t.Val)
			}
		}
		if !ok {
			return fail("raw-lexeme-not-at-pos", "source %s: token %s but the input at offset %d reads %s", clip(src), tokDesc(t), t.Pos, clip(rest))
		}
	}
	// non-trivial (raw): a comment, a newline and at least one other token
	nt := multiline && ncom > 0 && n > ncom
	cls := []string{"mode.raw"}
	if nerr > 0 {
		cls = append(cls, "raw.lex-error")
	}
	if ncom > 0 {
		cls = append(cls, "raw.has-comment")
	}
	hx.E.Case(nt, "raw|"+src, cls...)
	return nil
}

func TestRegress(t *testing.T) { hx.Regress(t, runCase) }

// enumeration alphabet (soup mode)
var enumAlphabet = []Piece{
	{kID, "a"}, {kNUM, "1"}, {kSYM, "+"}, {kSYM, "/"}, {kQS, `"s"`}, {kRS, "r\"x\ny\""},
	{kLC, "# c"}, {kLC, "#é"}, {kBC, "/* c */"}, {kBC, "/* c\n d */"},
	{kWS, " "}, {kWS, "\n"}, {kWS, "\r\n"}, {kWS, "\t"},
}

func enumLen() int {
	if hx.Thorough() {
		return 5
	}
	return 4
}

func TestExhaustive(t *testing.T) {
	n := enumLen()
	hx.Enumerate(t, "soup", func(yield func(Case) bool) {
		idx := make([]int, 0, n)
		var rec func() bool
		rec = func() bool {
			if len(idx) > 0 {
				ps := make([]Piece, len(idx))
				for i, k := range idx {
					ps[i] = enumAlphabet[k]
				}
				// sequences outside the domain (two pieces which would fuse) are not part of the space
				if ok, _ := validSeq(ps); ok {
					if !yield(Case{Mode: "soup", Pieces: ps}) {
						return false
					}
				}
			}
			if len(idx) == n {
				return true
			}
			for k := range enumAlphabet {
				idx = append(idx, k)
				if !rec() {
					return false
				}
				idx = idx[:len(idx)-1]
			}
			return true
		}
		rec()
	}, runCase)
	var alpha []string
	for _, p := range enumAlphabet {
		alpha = append(alpha, p.T)
	}
	hx.E.Exhaustive("soup", map[string]interface{}{"alphabet": alpha, "max_len": n, "note": "all sequences inside the domain (neighbours that would fuse into one token are excluded)"})
}

func TestProp(t *testing.T) {
	hx.Check(t, func(rt *rapid.T) Case {
		var c Case
		if rapid.IntRange(0, 9).Draw(rt, "mode") < 4 {
			c = Case{Mode: "soup", Pieces: drawSoup(rt)}
		} else {
			c = drawProg(rt)
		}
		if hx.KnownOpen(findLC) && avoidLCShape(c.Pieces) {
			hx.E.Exclude("known." + findLC + "(shape avoided by construction)")
		}
		return c
	}, runCase)
}
