package c16

import (
	"fmt"
	"testing"
	"time"
)

func TestDbg(t *testing.T) {
	for _, su := range setups {
		t0 := time.Now()
		for i := 0; i < 200; i++ {
			s := newSession()
			s.setup(su)
			s.finish()
			s.close()
		}
		fmt.Printf("%s: %v per case\n", su, time.Since(t0)/200)
	}
}
