package c16

import (
	"fmt"
	"testing"
)

func TestDbg(t *testing.T) {
	s := newSession()
	s.dbg.BreakOnError(false)
	fmt.Println(s.start("misc"))
	fmt.Println(s.quiesce())
	for _, th := range s.threads {
		fmt.Printf("   thread %d over=%v err=%v res=%v\n", th.tid, th.over, th.err, th.res)
	}
	s.close()
}
