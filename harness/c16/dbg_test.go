package c16

import (
	"fmt"
	"testing"
)

func TestDbg(t *testing.T) {
	for _, su := range setups {
		s := newSession()
		f := s.setup(su)
		v, _ := s.view()
		fmt.Printf("%s: fail=%v label=%s view=%+v\n", su, f, s.stateLabel(v), v)
		for _, th := range s.threads {
			fmt.Printf("   thread %d over=%v err=%v res=%v\n", th.tid, th.over, th.err, th.res)
		}
		fmt.Printf("   dump=%+v\n", s.dump())
		s.close()
	}
}
