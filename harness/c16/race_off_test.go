//go:build !race

package c16

// raceEnabled is false in a plain build: the spinning scenario relies on
// recovered panics and on the Go runtime's own abort only.
const raceEnabled = false
