// C16 — the debugger command interface is total.
//
// Domain: a debugger is brought into one of the reachable states (setup), then
// a sequence of steps is applied: command lines over the vocabulary of
// interpreter.DebugCommandsMap (plus unknown words) with 0..4 arguments drawn
// from typed argument classes, and state changing actions (start a program,
// release a running thread, StopThreads, switch break-on-error, finish).
//
// Oracle, after every command: HandleInput did not panic; it returned an error
// or a result which json.Marshal accepts; a following "status" answers within
// 5 s (stuck-state rule, see the assumption recorded in TestMain). At the end
// of every case all threads reported as suspended are resumed and all programs
// must complete.
package c16

import (
	"encoding/json"
	"fmt"
	"runtime"
	"strings"
	"testing"

	"pgregory.net/rapid"

	"verif/internal/hx"
)

const rule = "case = (setup state, steps); steps are debugger command lines (word x typed argument classes, 0..4 arguments) and state changes (start program, release running thread, StopThreads, break-on-error switch, finish); quick tier enumerates every command word x setup state x argument class tuple up to the command's arity + 1 on a freshly built state; non-trivial = at least one command meets a debugger state in which the repository's tests never issue that command word (command x state off the diagonal of interpreter/debug_test.go); distinct by the sequence of (state, command word, argument classes)"

// Step is one action of a case.
type Step struct {
	Op    string   `json:"op"`              // cmd | start | release | stop | boe | finish
	Prog  string   `json:"prog,omitempty"`  // start: program name
	Flag  bool     `json:"flag,omitempty"`  // boe: value for BreakOnError; start: set the program's canonical breakpoint first
	Reuse bool     `json:"reuse,omitempty"` // start: run on the id of the last finished thread (as the console does)
	Word  string   `json:"word,omitempty"`  // cmd: command word
	Args  []string `json:"args,omitempty"`  // cmd: arguments ($-tokens are resolved against the live state)
}

// Case is a setup state plus a step sequence.
type Case struct {
	Setup string    `json:"setup"`
	Steps []Step    `json:"steps"`
	Spin  *SpinCase `json:"spin,omitempty"` // spinning scenario (spin_test.go); Setup/Steps unused
}

func TestMain(m *testing.M) {
	// The check reads goroutine dumps (stop-the-world) several times per case;
	// with one P that is cheap, and thread interleavings become (nearly)
	// deterministic. C16 is not about data races.
	runtime.GOMAXPROCS(1)
	hx.Main(m, "C16", rule)
}

// ---------------------------------------------------------------------------
// Setup states
// ---------------------------------------------------------------------------

var setups = []string{"fresh", "parsed", "finished", "running", "running-deep", "running-mutex", "running-interrogated",
	"susp-top", "susp-nested", "susp-alias", "susp-hostile", "err-top", "err-nested", "finished-stale", "stopped", "mixed"}

func (s *session) setup(name string) *hx.Failure {
	run := func(steps ...string) *hx.Failure {
		for _, st := range steps {
			var f *hx.Failure
			switch {
			case strings.HasPrefix(st, "start "):
				if err := s.start(st[6:], false); err != nil {
					return hx.Failf("setup-error", "cannot start %v: %v", st[6:], err)
				}
				if !s.quiesce() {
					f = hx.Failf("no-quiescence", "setup %v after %v", name, st)
				}
			case st == "release":
				s.release()
				if !s.quiesce() {
					f = hx.Failf("no-quiescence", "setup %v after %v", name, st)
				}
			case st == "stop":
				if _, f = s.stopThreads(); f == nil && !s.quiesce() {
					f = hx.Failf("no-quiescence", "setup %v after %v", name, st)
				}
			case strings.HasPrefix(st, "cont "):
				v, ff := s.view()
				if ff != nil {
					return ff
				}
				tid := uint64(0)
				for _, t := range sortedTids(v) {
					if v[t].suspended {
						tid = t
						break
					}
				}
				f = s.cmd(fmt.Sprintf("cont %d %s", tid, st[5:]))
			default:
				f = s.cmd(st)
			}
			if f != nil {
				return f
			}
		}
		return nil
	}
	switch name {
	case "fresh":
		return nil
	case "parsed":
		if _, err := s.parse("nest"); err != nil {
			return hx.Failf("setup-error", "parse: %v", err)
		}
		return nil
	case "finished":
		return run("start flat")
	case "running":
		return run("start hold")
	case "running-deep":
		return run("start hold", "release", "release")
	case "running-mutex":
		return run("start hold", "release", "release", "release")
	case "running-interrogated":
		return run("break hold:3", "start hold", "cont stepover", "cont stepover")
	case "susp-top":
		return run("break flat:5", "start flat")
	case "susp-nested":
		return run("break nest:5", "start nest")
	case "susp-alias":
		return run("break alias:7", "start alias")
	case "susp-hostile":
		return run("break hostile:10", "start hostile")
	case "err-top":
		return run("start err")
	case "err-nested":
		return run("start err", "cont resume")
	case "finished-stale":
		return run("start err", "cont resume", "cont resume", "cont resume")
	case "stopped":
		return run("break nest:5", "start nest", "stop")
	case "mixed":
		return run("break nest:5", "start nest", "start hold")
	}
	return hx.Failf("setup-error", "unknown setup %q", name)
}

// what the setup must have produced (checked: a setup which silently builds
// another state would hollow out the table)
var setupLabel = map[string]string{
	"fresh": "fresh", "parsed": "parsed", "finished": "finished", "running": "running",
	"running-deep": "running-deep", "running-mutex": "running-mutex", "running-interrogated": "running-interrogated",
	"susp-top": "susp-top", "susp-nested": "susp-nested", "susp-alias": "susp-nested", "susp-hostile": "susp-top", "err-top": "err-top", "err-nested": "err-nested",
	"finished-stale": "finished-stale", "stopped": "stopped", "mixed": "running+susp-nested",
}

// ---------------------------------------------------------------------------
// Vocabulary
// ---------------------------------------------------------------------------

var words = []string{"break", "rmbreak", "disablebreak", "breakonstart", "cont", "describe", "status", "extract", "inject", "lockstate"}
var unknownWords = []string{"foo", "STATUS", "✓ü", "breakonerror"}

type tok struct{ s, class string }

var (
	tidsAll = []tok{{"$susp", "tid.susp"}, {"$run", "tid.run"}, {"$fin", "tid.fin"}, {"0", "tid.zero"}, {"-1", "tid.neg"},
		{"99999999999999999999", "tid.huge"}, {"9223372036854775807", "tid.maxint"}, {"x1", "tid.nonnum"}, {"1.5", "tid.float"}, {"✓ü", "garbage"}}
	tidsFew = []tok{{"$susp", "tid.susp"}, {"$run", "tid.run"}, {"$fin", "tid.fin"}, {"-1", "tid.neg"}, {"99999999999999999999", "tid.huge"}, {"x1", "tid.nonnum"}}
	targets = []tok{{"$src:$bp", "tgt.known"}, {"$src:$bp2", "tgt.known2"}, {"$src:9999", "tgt.unknown-line"}, {"nosuch:1", "tgt.unknown-src"},
		{"$src", "tgt.nocolon"}, {"$src:x", "tgt.nonum"}, {"$src:-1", "tgt.neg"}, {"$src:0", "tgt.zero"}, {"a:1:2", "tgt.colons"},
		{":", "tgt.colon-only"}, {":5", "tgt.nosrc"}, {"$src:99999999999999999999", "tgt.huge"}, {"✓:ü", "garbage"}}
	kinds   = []tok{{"resume", "kind.resume"}, {"stepin", "kind.stepin"}, {"stepover", "kind.stepover"}, {"stepout", "kind.stepout"}, {"StepOut", "kind.StepOut"}, {"RESUME", "kind.RESUME"}, {"jump", "kind.bad"}}
	bools   = []tok{{"true", "bool.true"}, {"false", "bool.false"}, {"1", "lit.1"}, {"maybe", "bool.bad"}}
	exSrc   = []tok{{"z", "lit.z"}, {"a", "lit.a"}, {"nosuch", "lit.nosuch"}, {"_x", "lit._x"}, {"c.0", "lit.c.0"}}
	exDst   = []tok{{"x", "lit.x"}, {"a", "lit.a"}, {"1x", "id.invalid"}}
	injVars = []tok{{"z", "lit.z"}, {"a", "lit.a"}, {"x", "lit.x"}, {"_x", "lit._x"}, {"c.0", "lit.c.0"}, {"c.9", "id.dotted-oob"}, {"c.-5", "id.dotted-neg"}, {"a.b", "id.dotted-noncontainer"}, {"d.y.0", "id.dotted-deep"}}
	exprs   = []tok{{"1+1", "expr.ok"}, {"\"a\"", "expr.string"}, {"1+\"a\"", "expr.illtyped"}, {"1+", "expr.syntax"}, {"a", "lit.a"},
		{"nosuch", "lit.nosuch"}, {"[1,{2:3}]", "expr.container"}, {"len([1])", "expr.call"}, {")", "expr.garbage"},
		// calls of functions DEFINED BY THE DEBUGGED PROGRAM (their body nodes consult the debugger while the command runs)
		{"plain(3)", "expr.progcall"}, {"plain(plain(1))", "expr.progcall-nested"}, {"fn(3)", "expr.progcall-maybe-undefined"}}
	exprTail = []tok{{"+", "expr.tail-op"}, {"; 2", "expr.tail-stmt"}}
	extras   = []tok{{"x", "lit.x"}, {"1", "lit.1"}}
)

// positions per command word; the last list is the "arity + 1" position
var shapes = map[string][][]tok{
	"break":        {targets, extras},
	"rmbreak":      {targets, extras},
	"disablebreak": {targets, extras},
	"breakonstart": {bools, extras},
	"cont":         {tidsAll, kinds, extras},
	"describe":     {tidsAll, extras},
	"status":       {extras},
	"lockstate":    {extras},
	"extract":      {tidsFew, exSrc, exDst, extras},
	"inject":       {tidsFew, injVars, exprs, exprTail},
	"foo":          {extras},
	"STATUS":       {},
	"✓ü":           {},
	"breakonerror": {bools},
	"":             {},
}

var classOf = func() map[string]string {
	m := map[string]string{}
	for _, l := range [][]tok{extras, exprTail, exprs, injVars, exDst, exSrc, bools, kinds, targets, tidsFew, tidsAll} {
		for _, t := range l {
			m[t.s] = t.class
		}
	}
	return m
}()

// every token the random generator may use for any position
var allToks = func() []string {
	seen := map[string]bool{}
	var r []string
	for _, l := range [][]tok{tidsAll, targets, kinds, bools, exSrc, exDst, injVars, exprs, exprTail, extras} {
		for _, t := range l {
			if !seen[t.s] {
				seen[t.s] = true
				r = append(r, t.s)
			}
		}
	}
	return append(r, "", " ", "-0", "+1", "0x10", "1e3", "$src:$bp:1", "a.b.c", "{", "\"", "nil")
}()

// where the repository's tests issue each command word (interpreter/debug_test.go;
// lockstate only with suspended sink workers, which no setup here produces)
var diagonal = map[string]map[string]bool{
	"break":        {"fresh": true, "susp-top": true, "susp-call": true, "susp-nested": true},
	"disablebreak": {"fresh": true},
	"rmbreak":      {"fresh": true, "finished": true},
	"breakonstart": {"fresh": true},
	"status":       {"fresh": true, "finished": true, "susp-top": true, "susp-call": true, "susp-nested": true, "err-nested": true},
	"describe":     {"susp-top": true, "susp-call": true, "susp-nested": true},
	"cont":         {"fresh": true, "susp-top": true, "susp-call": true, "susp-nested": true, "err-nested": true},
	"extract":      {"susp-call": true, "fresh": true},
	"inject":       {"susp-call": true, "fresh": true},
	"lockstate":    {},
	"foo":          {"fresh": true},
}

// ---------------------------------------------------------------------------
// Running a case
// ---------------------------------------------------------------------------

// resolve replaces the $-tokens of an argument and returns its class label.
func (s *session) resolve(arg string, v map[uint64]tview) (string, string) {
	class, ok := classOf[arg]
	if !ok {
		class = "other"
	}
	if !strings.Contains(arg, "$") {
		return arg, class
	}
	p := s.lastSrc
	if p == nil {
		p = programs["nest"]
	}
	switch arg {
	case "$susp":
		for _, tid := range sortedTids(v) {
			if v[tid].suspended {
				return fmt.Sprint(tid), class
			}
		}
		return "77", class + "-absent"
	case "$run":
		for _, th := range s.active() {
			if !v[th.tid].suspended {
				return fmt.Sprint(th.tid), class
			}
		}
		return "78", class + "-absent"
	case "$fin":
		for i := len(s.threads) - 1; i >= 0; i-- {
			if s.threads[i].over {
				return fmt.Sprint(s.threads[i].tid), class
			}
		}
		return "79", class + "-absent"
	}
	r := strings.NewReplacer("$src", p.Src, "$bp2", fmt.Sprint(p.BP2), "$bp", fmt.Sprint(p.BP))
	return r.Replace(arg), class
}

func marshal(v interface{}) (err error) {
	defer func() {
		if r := recover(); r != nil {
			err = fmt.Errorf("json.Marshal panicked: %v", r)
		}
	}()
	_, err = json.Marshal(v)
	return err
}

func short(s string) string {
	if len(s) > 160 {
		return s[:160] + "..."
	}
	return s
}

func runCase(c Case) (fail *hx.Failure) {
	if c.Spin != nil {
		nlines := 0
		for _, cl := range c.Spin.Clients {
			nlines += len(cl)
		}
		// commands meeting threads which execute statements: a state the
		// repository's tests never issue any command in
		key := fmt.Sprintf("spin|%d|%v|%v", c.Spin.Threads, c.Spin.NoBOE, c.Spin.Clients)
		hx.E.Case(nlines > 0, key, "setup.spin")
		hx.E.Sample(key, map[string]interface{}{"setup": "spin", "spin": c.Spin})
		return runSpin(c)
	}
	s := newSession()
	defer s.close()

	var keys []string
	classes := map[string]bool{"setup." + c.Setup: true}
	nontrivial := false
	recorded := false
	record := func() {
		if recorded {
			return
		}
		recorded = true
		var cl []string
		for k := range classes {
			cl = append(cl, k)
		}
		key := c.Setup + "|" + strings.Join(keys, ";")
		hx.E.Case(nontrivial, key, cl...)
		if nontrivial {
			hx.E.Sample(key, map[string]interface{}{"setup": c.Setup, "steps": c.Steps, "met": keys})
		}
	}
	defer record()

	if f := s.setup(c.Setup); f != nil {
		f.Msg = "while building state " + c.Setup + ": " + f.Msg
		return f
	}
	if v, f := s.view(); f != nil {
		return f
	} else if got := s.stateLabel(v); got != setupLabel[c.Setup] {
		return hx.Failf("harness:setup-state", "setup %v produced state %v", c.Setup, got)
	}

	for i, st := range c.Steps {
		switch st.Op {
		case "start":
			if len(s.active()) >= maxActive || programs[st.Prog] == nil || (st.Prog == "hold" && s.running("hold")) {
				// (two threads inside the hold program would contend for its ECAL mutex)
				hx.E.Class("step.noop", 1)
				continue
			}
			if st.Flag {
				if f := s.cmd(fmt.Sprintf("break %s:%d", programs[st.Prog].Src, programs[st.Prog].BP)); f != nil {
					return f
				}
			}
			if err := s.start(st.Prog, st.Reuse); err != nil {
				return hx.Failf("setup-error", "cannot start %v: %v", st.Prog, err)
			}
			hx.E.Class("step.start."+st.Prog, 1)
			for _, old := range s.threads[:len(s.threads)-1] {
				if old.tid == s.threads[len(s.threads)-1].tid {
					hx.E.Class("step.start.reused-id", 1)
					break
				}
			}
		case "release":
			if !s.release() {
				hx.E.Class("step.noop", 1)
				continue
			}
			hx.E.Class("step.release", 1)
		case "stop":
			done, f := s.stopThreads()
			if f != nil {
				return f
			}
			if !done {
				hx.E.Exclude("stopthreads.two-suspended-threads(data race, not C16)")
				continue
			}
			hx.E.Class("step.stop", 1)
		case "boe":
			if f := s.bounded("hang:BreakOnError", "BreakOnError", func() { s.dbg.BreakOnError(st.Flag) }); f != nil {
				return f
			}
			hx.E.Class("step.boe", 1)
		case "finish":
			if f := s.finish(); f != nil {
				f.Msg = fmt.Sprintf("step %d (finish): %s", i, f.Msg)
				return f
			}
			hx.E.Class("step.finish", 1)
		case "cmd":
			v, f := s.view()
			if f != nil {
				return f
			}
			state := s.stateLabel(v)
			line := st.Word
			var acl []string
			for _, a := range st.Args {
				r, cl := s.resolve(a, v)
				line += " " + r
				acl = append(acl, cl)
			}
			word := st.Word
			dword := word
			if _, ok := diagonal[word]; !ok {
				dword = "foo"
			}
			if !diagonal[dword][state] {
				nontrivial = true
				classes["offdiag"] = true
			}
			keys = append(keys, state+"|"+word+"|"+strings.Join(acl, ","))
			hx.E.Class("cmd."+word, 1)
			hx.E.Class("state."+state, 1)
			hx.E.Class(fmt.Sprintf("arity.%d", len(st.Args)), 1)
			for _, a := range acl {
				hx.E.Class("arg."+a, 1)
			}

			res, err, f := s.call(line)
			if f != nil {
				f.Msg = fmt.Sprintf("step %d: HandleInput(%q) in state %s: %s", i, line, state, f.Msg)
				return f
			}
			if err != nil {
				hx.E.Class("outcome.error", 1)
			} else {
				if res == nil {
					hx.E.Class("outcome.nil", 1)
				} else {
					hx.E.Class("outcome.result", 1)
				}
				if merr := marshal(res); merr != nil {
					return hx.Failf("not-json:"+word, "step %d: HandleInput(%q) in state %s returned a result which json.Marshal rejects: %s", i, line, state, short(merr.Error()))
				}
			}
			if f := s.writeProbe(); f != nil {
				f.Msg = fmt.Sprintf("step %d: after HandleInput(%q) in state %s: %s", i, line, state, f.Msg)
				return f
			}
			pres, f := s.status()
			if f != nil {
				f.Msg = fmt.Sprintf("step %d: after HandleInput(%q) in state %s: %s", i, line, state, f.Msg)
				return f
			}
			if !s.quiesce() {
				return hx.Failf("no-quiescence", "step %d: after HandleInput(%q) in state %s; program goroutines: %s", i, line, state, s.where())
			}
			if merr := marshal(pres); merr != nil {
				return hx.Failf("not-json:status", "step %d: status after HandleInput(%q) in state %s returned a result which json.Marshal rejects: %s", i, line, state, short(merr.Error()))
			}
			continue
		default:
			hx.E.Class("step.noop", 1)
			continue
		}
		if !s.quiesce() {
			return hx.Failf("no-quiescence", "step %d (%s); program goroutines: %s", i, st.Op, s.where())
		}
	}

	if f := s.finish(); f != nil {
		f.Msg = "at the end of the case: " + f.Msg
		return f
	}
	for _, th := range s.threads {
		if th.pan != nil {
			return th.pan
		}
	}
	return nil
}

// ---------------------------------------------------------------------------
// Tests
// ---------------------------------------------------------------------------

func TestRegress(t *testing.T) { hx.Regress(t, runCase) }

func assume() {
	hx.E.Assume("lock-held rule: HandleInput(\"status\") only takes the debugger's RWMutex for reading (ecalDebugger.Status), HandleInput(\"rmbreak <unused source>\") only takes it for writing (RemoveBreakPoint) and changes nothing; neither waits on a condition nor calls into a thread, and suspended threads do not hold that lock while they wait (VisitState, VisitStepInState and VisitStepOutState release it before cond.Wait); if one of the two has not answered after 5 s while the harness issues no other command, a debugger lock is held for good. Every other call into the debugger is bounded the same way (signature hang:<what>)")
	hx.E.Assume("commands are issued from one goroutine and only at quiescent points: every program thread is finished, inside the harness' blocking Go function, or parked in sync.Cond.Wait below a debugger frame (read from a goroutine dump), so the lost-wake-up window between publishing 'suspended' and waiting (property C15) is not entered")
	hx.E.Assume("command x state scenario: StopThreads is only called at quiescent points; commands which meet threads that are executing statements are the subject of the spinning scenario (TestPropSpin)")
	hx.E.Assume("program threads are started the way cli/tool/interpret.go does: Eval on a new thread id, RecordThreadFinished deferred")
}

// enumerate all command lines of the table for one setup
func tuples(word string, yield func([]string) bool) bool {
	shape := shapes[word]
	var rec func(pos int, cur []string) bool
	rec = func(pos int, cur []string) bool {
		if !yield(append([]string(nil), cur...)) {
			return false
		}
		if pos == len(shape) {
			return true
		}
		for _, t := range shape[pos] {
			if !rec(pos+1, append(cur, t.s)) {
				return false
			}
		}
		return true
	}
	return rec(0, nil)
}

// walkLen is the number of (probe, cont, release) rounds of a walk case; the
// longest program needs fewer than 60 single steps.
const walkLen = 70

func tableWords() []string {
	return append(append(append([]string{}, words...), unknownWords...), "")
}

func TestExhaustive(t *testing.T) {
	assume()
	hx.Enumerate(t, "table", func(yield func(Case) bool) {
		for _, w := range tableWords() {
			ok := tuples(w, func(args []string) bool {
				for _, su := range setups {
					if !yield(Case{Setup: su, Steps: []Step{{Op: "cmd", Word: w, Args: args}}}) {
						return false
					}
				}
				return true
			})
			if !ok {
				return
			}
		}
	}, runCase)
	// walk: single-step through every program from its first statement and
	// send one probing command at every stop, so that describe / extract /
	// inject / lockstate meet every kind of statement a thread can stop at
	kindsW := []string{"stepin", "stepover", "stepout", "resume"}
	probes := [][]string{{"describe", "$susp"}, {"extract", "$susp", "x", "y"}, {"inject", "$susp", "x", "1+1"},
		{"lockstate"}, {"status"}, {"describe", "$run"}, {"break", "$src:$bp2"}, {"describe", "$susp", "x"}}
	hx.Enumerate(t, "walk", func(yield func(Case) bool) {
		for _, prog := range progNames {
			for _, k := range kindsW {
				for _, pr := range probes {
					for _, boe := range []bool{true, false} {
						steps := []Step{{Op: "boe", Flag: boe}, {Op: "cmd", Word: "breakonstart", Args: []string{"true"}}, {Op: "start", Prog: prog}}
						for i := 0; i < walkLen; i++ {
							steps = append(steps, Step{Op: "cmd", Word: pr[0], Args: pr[1:]},
								Step{Op: "cmd", Word: "cont", Args: []string{"$susp", k}}, Step{Op: "release"})
						}
						if !yield(Case{Setup: "fresh", Steps: steps}) {
							return
						}
					}
				}
			}
		}
	}, runCase)
	hx.E.Exhaustive("walk", map[string]interface{}{"programs": progNames, "cont": kindsW, "probes": probes, "break_on_error": []bool{true, false}, "stops_per_case": walkLen})

	sh := map[string][]string{}
	for w, pos := range shapes {
		for _, p := range pos {
			var l []string
			for _, t := range p {
				l = append(l, t.class)
			}
			sh[w] = append(sh[w], strings.Join(l, " "))
		}
	}
	hx.E.Exhaustive("table", map[string]interface{}{"setups": setups, "words": tableWords(), "positions": sh})
}

// commands first: rapid favours small indices
var opWeights = func() []string {
	var w []string
	for _, e := range []struct {
		op string
		n  int
	}{{"cmd", 20}, {"start", 4}, {"release", 3}, {"stop", 1}, {"boe", 1}, {"finish", 1}} {
		for i := 0; i < e.n; i++ {
			w = append(w, e.op)
		}
	}
	return w
}()

func drawStep(rt *rapid.T) Step {
	switch rapid.SampledFrom(opWeights).Draw(rt, "op") {
	case "start":
		return Step{Op: "start", Prog: rapid.SampledFrom(progNames).Draw(rt, "prog"), Flag: rapid.Bool().Draw(rt, "bp"), Reuse: rapid.Bool().Draw(rt, "reuse")}
	case "release":
		return Step{Op: "release"}
	case "stop":
		return Step{Op: "stop"}
	case "boe":
		return Step{Op: "boe", Flag: rapid.Bool().Draw(rt, "flag")}
	case "finish":
		return Step{Op: "finish"}
	}
	var w string
	if rapid.IntRange(0, 11).Draw(rt, "unk") == 0 {
		w = rapid.SampledFrom(append(append([]string{}, unknownWords...), "")).Draw(rt, "uword")
	} else {
		w = rapid.SampledFrom(words).Draw(rt, "word")
	}
	// cont gets extra weight with good arguments: it is what moves the state
	if rapid.IntRange(0, 5).Draw(rt, "move") == 0 {
		return Step{Op: "cmd", Word: "cont", Args: []string{"$susp", rapid.SampledFrom(kinds[:4]).Draw(rt, "k").s}}
	}
	shape := shapes[w]
	// mostly the arity the command expects, otherwise anything in 0..4
	n := len(shape) - 1
	if n < 0 {
		n = 0
	}
	if rapid.IntRange(0, 9).Draw(rt, "arity") < 4 {
		n = rapid.IntRange(0, 4).Draw(rt, "n")
	}
	var args []string
	for i := 0; i < n; i++ {
		if i < len(shape) && len(shape[i]) > 0 && rapid.IntRange(0, 9).Draw(rt, "typed") < 8 {
			args = append(args, rapid.SampledFrom(shape[i]).Draw(rt, "arg").s)
		} else {
			args = append(args, rapid.SampledFrom(allToks).Draw(rt, "any"))
		}
	}
	return Step{Op: "cmd", Word: w, Args: args}
}

func TestProp(t *testing.T) {
	assume()
	hx.Check(t, func(rt *rapid.T) Case {
		// several slices: rapid's slice lengths are geometric (mean about 6),
		// and slice elements (unlike a drawn length) shrink by deletion
		step := rapid.Custom(drawStep)
		steps := rapid.SliceOfN(step, 1, 20).Draw(rt, "steps")
		steps = append(steps, rapid.SliceOfN(step, 0, 20).Draw(rt, "steps2")...)
		if hx.Thorough() {
			steps = append(steps, rapid.SliceOfN(step, 0, 20).Draw(rt, "steps3")...)
		}
		return Case{
			Setup: rapid.SampledFrom(setups).Draw(rt, "setup"),
			Steps: steps,
		}
	}, runCase)
}
