//go:build race

package c16

// raceEnabled is true in a build with the race detector: the spinning
// scenario then reads the detector's log after every case (spin_test.go).
const raceEnabled = true
