// C16, state "threads running" taken literally: program threads which keep
// executing statements (not parked in a blocking Go function) while one or two
// clients - the interactive console and a debug-server connection both call
// HandleInput - send command lines without waiting for quiescence.
//
// Oracle: every HandleInput returns within the bound, without a panic, with an
// error or a result json.Marshal accepts (encoded right away, as the debug
// server does, i.e. while the other client keeps sending commands); the
// process survives (the Go runtime aborts with "fatal error: concurrent map
// ..." when a debugger table is touched without its lock; the case is written
// ahead so the driver can report it); afterwards, with all break points
// removed, every suspended thread can be resumed and every program ends.
//
// Only the runtime's own abort counts; plain word-sized data races are not
// C16 violations and are not looked for. The abort needs a read to fall into
// the few nanoseconds of a map write, so the same scenario is also run in a
// race-detector build (second pass of ./check C16): there a report counts if
// and only if BOTH accesses are Go map operations (top frame runtime.map* /
// reflect.map*), at least one of them writes, and a frame of the interpreter
// package is on one of the stacks - exactly the pairs on which the runtime
// aborts the process when the timing is unlucky. Every other report is
// counted and ignored.
package c16

import (
	"encoding/json"
	"fmt"
	"os"
	"runtime"
	"strconv"
	"strings"
	"sync"
	"sync/atomic"
	"testing"
	"time"

	"github.com/krotik/ecal/interpreter"
	"github.com/krotik/ecal/parser"
	"github.com/krotik/ecal/scope"
	"github.com/krotik/ecal/util"
	"pgregory.net/rapid"

	"verif/internal/hx"
	"verif/internal/racefilter"
)

// SpinCase is the part of a Case which describes a spinning scenario.
type SpinCase struct {
	Threads int        `json:"threads"` // 1..3 program threads
	Clients [][]string `json:"clients"` // command lines per client ("yield" = runtime.Gosched)
	NoBOE   bool       `json:"no_boe,omitempty"` // break-on-error switched off (the default of the ecal debug command line; NewECALDebugger starts with it on)
}

const spinSource = `func k(p) {
  return p + 1
}
n := 0
for spin() {
  n := k(n)
  m := n
}
`

type spinFunc struct {
	stop  *int32
	calls *int64
}

func (f *spinFunc) Run(instanceID string, vs parser.Scope, is map[string]interface{}, tid uint64, args []interface{}) (interface{}, error) {
	atomic.AddInt64(f.calls, 1)
	return atomic.LoadInt32(f.stop) == 0, nil
}
func (f *spinFunc) DocString() (string, error) { return "spin is true until the harness ends the case", nil }

func boundedCall(sig, what string, f func()) *hx.Failure {
	ch := make(chan *hx.Failure, 1)
	go func() { ch <- hx.Guard(f) }()
	t := time.NewTimer(2 * callBound)
	defer t.Stop()
	select {
	case fl := <-ch:
		return fl
	case <-t.C:
		return hx.Failf(sig, "%s did not return within %v", what, 2*callBound)
	}
}

func runSpin(c Case) *hx.Failure {
	sc := c.Spin
	defer runtime.GOMAXPROCS(runtime.GOMAXPROCS(8))
	hx.WriteInflight(c) // the runtime's concurrent map abort cannot be recovered
	defer hx.ClearInflight()

	var stop int32
	var calls int64
	vs := scope.NewScope(scope.GlobalScope)
	erp := interpreter.NewECALRuntimeProvider("c16spin", nil, util.NewNullLogger())
	stopCron(erp)
	dbg := interpreter.NewECALDebugger(vs)
	erp.Debugger = dbg
	if sc.NoBOE {
		dbg.BreakOnError(false)
	}
	vs.SetValue("spin", &spinFunc{&stop, &calls})

	type thr struct {
		tid  uint64
		done chan struct{}
		pan  *hx.Failure
		err  error
	}
	var threads []*thr
	for i := 0; i < sc.Threads; i++ {
		ast, err := parser.ParseWithRuntime("spin", spinSource, erp)
		if err == nil {
			err = ast.Runtime.Validate()
		}
		if err != nil {
			return hx.Failf("setup-error", "spin program: %v", err)
		}
		th := &thr{tid: uint64(i + 1), done: make(chan struct{})}
		threads = append(threads, th)
		go func() {
			defer close(th.done)
			defer func() {
				if r := recover(); r != nil {
					th.pan = hx.PanicFailure(r, 3)
					th.pan.Sig = "thread-" + th.pan.Sig
				}
			}()
			defer dbg.RecordThreadFinished(th.tid)
			// every thread has its own scope: the program's variables are not
			// shared, only the debugger is
			_, th.err = ast.Runtime.Eval(vs.NewChild(fmt.Sprint("t", th.tid)), make(map[string]interface{}), th.tid)
		}()
	}
	// the threads are executing statements before the first command arrives
	for dl := time.Now().Add(callBound); atomic.LoadInt64(&calls) < int64(2*sc.Threads); {
		if time.Now().After(dl) {
			atomic.StoreInt32(&stop, 1)
			return hx.Failf("setup-error", "spin threads did not start")
		}
		runtime.Gosched()
	}

	send := func(line string) *hx.Failure {
		var res interface{}
		var err error
		var merr error
		var mpanic *hx.Failure
		f := boundedCall("spin-hang", fmt.Sprintf("HandleInput(%q) with %d threads executing", line, sc.Threads), func() {
			res, err = dbg.HandleInput(line)
			if err == nil {
				// encoded right away, like cli/tool's debug server does with
				// every result, while the other client carries on
				mpanic = hx.Guard(func() { _, merr = json.Marshal(res) })
			}
		})
		if f != nil {
			if f.Sig != "spin-hang" {
				f.Msg = fmt.Sprintf("HandleInput(%q) with %d threads executing: %s", line, sc.Threads, f.Msg)
			}
			return f
		}
		if mpanic != nil {
			return hx.Failf("not-json:spin-live-state", "json.Marshal panics on the result of HandleInput(%q) while another client sends commands (the result shares a table with the debugger): %s", line, short(mpanic.Msg))
		}
		if merr != nil {
			return hx.Failf("not-json:spin", "HandleInput(%q) with %d threads executing returned a result which json.Marshal rejects: %s", line, sc.Threads, short(merr.Error()))
		}
		return nil
	}

	started := atomic.LoadInt64(&calls)
	var wg sync.WaitGroup
	fails := make([]*hx.Failure, len(sc.Clients))
	var sent int64
	for ci, lines := range sc.Clients {
		wg.Add(1)
		go func() {
			defer wg.Done()
			for _, l := range lines {
				if l == "yield" {
					runtime.Gosched()
					continue
				}
				if n, ok := strings.CutPrefix(l, "burst "); ok {
					// a client which keeps editing break points no thread
					// arrives at (an IDE re-sending its break point set)
					k, _ := strconv.Atoi(n)
					for i := 0; i < k && fails[ci] == nil; i++ {
						for _, bl := range []string{"break other:1", "break other:" + strconv.Itoa(2+i%7), "rmbreak other:" + strconv.Itoa(2+i%7), "status"} {
							if fails[ci] = send(bl); fails[ci] != nil {
								break
							}
						}
					}
					if fails[ci] != nil {
						return
					}
					atomic.AddInt64(&sent, int64(4*k))
					continue
				}
				if fails[ci] = send(l); fails[ci] != nil {
					return
				}
				atomic.AddInt64(&sent, 1)
			}
		}()
	}
	wg.Wait()
	before := atomic.LoadInt64(&calls)
	atomic.StoreInt32(&stop, 1)
	for _, f := range fails {
		if f != nil {
			return f
		}
	}

	// wind down: no break point is left, every suspended thread is resumed
	// until all programs have ended
	deadline := time.Now().Add(4 * callBound)
	for {
		alive := 0
		for _, th := range threads {
			select {
			case <-th.done:
			default:
				alive++
			}
		}
		if alive == 0 {
			break
		}
		if time.Now().After(deadline) {
			return hx.Failf("spin-no-termination", "%d of %d threads still alive %v after the loop condition became false, all break points were removed and every suspended thread was resumed", alive, len(threads), 4*callBound)
		}
		for _, l := range []string{"breakonstart false", "rmbreak spin"} {
			if f := send(l); f != nil {
				return f
			}
		}
		for _, th := range threads {
			if f := send("cont " + strconv.FormatUint(th.tid, 10) + " resume"); f != nil && f.Sig != "" {
				return f
			}
		}
		time.Sleep(200 * time.Microsecond)
	}
	for _, th := range threads {
		if th.pan != nil {
			return th.pan
		}
		if th.err != nil {
			return hx.Failf("spin-thread-error", "program thread %d ended with an error although debugging only observes: %v", th.tid, th.err)
		}
	}
	if f := mapRaces(); f != nil {
		return f
	}
	hx.E.Class(fmt.Sprintf("spin.threads=%d.clients=%d", sc.Threads, len(sc.Clients)), 1)
	switch d := before - started; {
	case d > 1000:
		hx.E.Class("spin.loop-iterations-during-commands>1000", 1)
	case d > 10:
		hx.E.Class("spin.loop-iterations-during-commands>10", 1)
	default:
		hx.E.Class("spin.loop-iterations-during-commands<=10", 1)
	}
	return nil
}

var (
	raceTail     *racefilter.Tail
	raceTailOnce sync.Once
)

func isMapOp(a racefilter.Access) bool {
	if len(a.Stack) == 0 {
		return false
	}
	f := a.Stack[0].Func
	return strings.HasPrefix(f, "runtime.map") || strings.HasPrefix(f, "reflect.map")
}

func onInterpreter(a racefilter.Access) (string, bool) {
	for _, fr := range a.Stack {
		if strings.HasPrefix(fr.Func, "github.com/krotik/ecal/interpreter.") {
			return fr.Site(), true
		}
	}
	return "", false
}

// mapRaces reads the race detector's reports since the previous case and
// returns a failure for a pair of unsynchronised Go map operations.
func mapRaces() *hx.Failure {
	if !raceEnabled {
		return nil
	}
	raceTailOnce.Do(func() {
		if p := racefilter.LogPath(os.Getenv("GORACE")); p != "" {
			raceTail = racefilter.NewTail(p)
		} else {
			hx.E.Assume("race build without GORACE log_path: reports went to stderr and were not evaluated")
		}
	})
	if raceTail == nil {
		return nil
	}
	rs, err := raceTail.Next()
	if err != nil {
		return nil
	}
	for _, r := range rs {
		a, b := r.Access[0], r.Access[1]
		sa, oka := onInterpreter(a)
		sb, okb := onInterpreter(b)
		write := strings.Contains(strings.ToLower(a.Op), "write") || strings.Contains(strings.ToLower(b.Op), "write")
		if isMapOp(a) && isMapOp(b) && write && (oka || okb) {
			hx.E.Class("spin.race-reports.map-pair", 1)
			if sa > sb {
				sa, sb = sb, sa
			}
			return hx.Failf("map-race:"+sa+"|"+sb, "two unsynchronised Go map operations on a debugger table (the runtime aborts the process with 'fatal error: concurrent map ...' when they overlap):\n%s", trunc(r.Text, 1800))
		}
		hx.E.Class("spin.race-reports.ignored(not a map pair)", 1)
	}
	return nil
}

var spinLines = func() []string {
	l := []string{"status", "status", "status", "lockstate", "breakonstart", "breakonstart false", "rmbreak spin", "rmbreak other", "rmbreak other", "yield", "yield",
		"burst 50", "burst 200", "burst 1000"}
	for _, n := range []int{2, 5, 6, 7, 9} {
		l = append(l, fmt.Sprintf("break spin:%d", n), fmt.Sprintf("rmbreak spin:%d", n), fmt.Sprintf("disablebreak spin:%d", n))
		// break points no thread arrives at: the table changes, the threads keep executing
		for i := 0; i < 3; i++ {
			l = append(l, fmt.Sprintf("break other:%d", n), fmt.Sprintf("rmbreak other:%d", n), fmt.Sprintf("disablebreak other:%d", n))
		}
	}
	for tid := 1; tid <= 3; tid++ {
		for _, k := range []string{"resume", "stepin", "stepover", "stepout"} {
			l = append(l, fmt.Sprintf("cont %d %s", tid, k))
		}
		l = append(l, fmt.Sprintf("describe %d", tid), fmt.Sprintf("extract %d n x", tid), fmt.Sprintf("inject %d m n + 1", tid))
	}
	return l
}()

func drawSpin(rt *rapid.T) Case {
	line := rapid.SampledFrom(spinLines)
	n := rapid.IntRange(1, 2).Draw(rt, "clients")
	sc := &SpinCase{Threads: rapid.IntRange(1, 3).Draw(rt, "threads"), NoBOE: rapid.Bool().Draw(rt, "noboe")}
	for i := 0; i < n; i++ {
		sc.Clients = append(sc.Clients, rapid.SliceOfN(line, 1, 40).Draw(rt, "lines"))
	}
	return Case{Setup: "spin", Spin: sc}
}

func TestPropSpin(t *testing.T) {
	hx.E.Assume("spinning scenario: the only crash which counts is the Go runtime's own abort (fatal error: concurrent map ...) or a recovered panic; word-sized data races on debugger fields are not reported; a thread which ends with an error is a violation because no generated command changes the variables the loop uses (inject targets m only, which the program overwrites and never reads)")
	hx.Check(t, drawSpin, runCase)
}

func trunc(s string, n int) string {
	if len(s) > n {
		return s[:n] + "..."
	}
	return s
}
