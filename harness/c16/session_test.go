package c16

// A session is one debugger plus the program threads the harness started
// against it. Everything a case starts is owned by its session and torn down
// by close().

import (
	"bytes"
	"fmt"
	"runtime"
	"sort"
	"strconv"
	"strings"
	"sync/atomic"
	"time"

	"github.com/krotik/ecal/interpreter"
	"github.com/krotik/ecal/parser"
	"github.com/krotik/ecal/scope"
	"github.com/krotik/ecal/util"

	"verif/internal/hx"
)

// ---------------------------------------------------------------------------
// Programs. All of them terminate whatever value is injected into whatever
// variable: the only loop runs over a literal range and no variable takes
// part in a loop condition.
// ---------------------------------------------------------------------------

type program struct {
	Src   string // source name given to the parser (= <source> of break targets)
	Text  string
	BP    int // canonical breakpoint line ($bp)
	BP2   int // a second line with code ($bp2)
	Holds int // number of hold() calls executed by a complete run
}

var programs = map[string]*program{
	// top level statements only; container / non-string-key / non-finite values in scope
	"flat": {Src: "flat", BP: 5, BP2: 9, Text: `a := 1
b := "s"
c := [1, 2, {"k": a}]
d := {1: "x", "y": [b]}
e := a + 2
log("flat", e)
inf := 99999999999999999999999999999999999999
inf := inf * inf * inf * inf * inf * inf * inf * inf * inf
g := e + 1
`},
	// call stack depth 3 at line 2
	"nest": {Src: "nest", BP: 2, BP2: 7, Text: `func h(z) {
  w := z + 1
  q := {"m": [w], 2: z}
  return w
}
func g(y) {
  v := h(y + 1)
  return v + 1
}
func f(x) {
  u := g(x + 1)
  return u
}
r := f(1)
s := f(2)
t := r + s
`},
	// a thread which is running from the debugger's point of view: hold() is a
	// Go function which blocks on a channel owned by the harness
	"hold": {Src: "hold", BP: 3, BP2: 5, Holds: 3, Text: `n := 0
for i in [1, 2] {
  n := n + i
  hold(i)
  m := n
}
func k(p) {
  hold(p)
  return p
}
o := k(7)
`},
	// function calls which return errors: at top level (empty call stack),
	// inside two calls, and finally uncaught at top level
	"err": {Src: "err", BP: 6, BP2: 20, Text: `func bad(x) {
  raise("MyError", "detail", {1: x, "l": [x]})
}
func mid(x) {
  y := x
  bad(y)
  return 1
}
p := 99999999999999999999999999999999999999
try {
  raise("Top", "d", [1, p * p * p * p * p * p * p * p * p])
} except e {
  q := 2
}
try {
  mid(1)
} except e {
  q := 3
}
z := 3
raise("Final", "f", {"a": {2: 3}})
w := 4
`},
}

var progNames = []string{"flat", "nest", "hold", "err"}

// ---------------------------------------------------------------------------

type thread struct {
	tid     uint64
	prog    *program
	done    chan struct{}
	holdCh  chan struct{}
	entered int32 // atomic: number of hold() calls entered
	exited  int32 // atomic: number of hold() calls left
	open    bool  // holdCh has been closed: hold() no longer blocks
	over    bool  // harness has observed done
	res     interface{}
	err     error
	pan     *hx.Failure
}

type session struct {
	vs       parser.Scope
	erp      *interpreter.ECALRuntimeProvider
	dbg      util.ECALDebugger
	threads  []*thread
	lastSrc  *program
	parsed   bool
	stopped  bool
	dumpBuf  []byte
	lastDump string
}

const maxActive = 2

func newSession() *session {
	s := &session{}
	s.vs = scope.NewScope(scope.GlobalScope)
	s.erp = interpreter.NewECALRuntimeProvider("c16", &util.MemoryImportLocator{Files: map[string]string{}}, util.NewNullLogger())
	s.dbg = interpreter.NewECALDebugger(s.vs)
	s.erp.Debugger = s.dbg
	s.vs.SetValue("hold", &holdFunc{s})
	s.dumpBuf = make([]byte, 1<<16)
	return s
}

// holdFunc is the ECAL function hold(): it blocks until the harness releases it.
type holdFunc struct {
	s *session
}

func (h *holdFunc) Run(instanceID string, vs parser.Scope, is map[string]interface{}, tid uint64, args []interface{}) (interface{}, error) {
	if th := h.s.thread(tid); th != nil {
		atomic.AddInt32(&th.entered, 1)
		<-th.holdCh
		atomic.AddInt32(&th.exited, 1)
	}
	return nil, nil
}

func (h *holdFunc) DocString() (string, error) { return "hold blocks until released", nil }

// inHold is true while the thread is inside hold().
func (th *thread) inHold() bool {
	x := atomic.LoadInt32(&th.exited)
	return atomic.LoadInt32(&th.entered) > x
}

func (s *session) thread(tid uint64) *thread {
	for _, th := range s.threads {
		if th.tid == tid {
			return th
		}
	}
	return nil
}

func (s *session) active() []*thread {
	var r []*thread
	for _, th := range s.threads {
		if !th.over {
			r = append(r, th)
		}
	}
	return r
}

// parse parses a program without running it.
func (s *session) parse(name string) (*parser.ASTNode, error) {
	p := programs[name]
	ast, err := parser.ParseWithRuntime(p.Src, p.Text, s.erp)
	if err == nil {
		err = ast.Runtime.Validate()
	}
	if err == nil {
		s.parsed = true
		s.lastSrc = p
	}
	return ast, err
}

// start runs a program on a new thread (the way cli/tool/interpret.go does it:
// Eval, then RecordThreadFinished in a deferred call).
func (s *session) start(name string) error {
	ast, err := s.parse(name)
	if err != nil {
		return err
	}
	th := &thread{tid: s.erp.NewThreadID(), prog: programs[name], done: make(chan struct{}), holdCh: make(chan struct{})}
	s.threads = append(s.threads, th)
	go s.threadMain(th, ast)
	return nil
}

func (s *session) threadMain(th *thread, ast *parser.ASTNode) {
	defer close(th.done)
	defer func() {
		if r := recover(); r != nil {
			th.pan = hx.PanicFailure(r, 3)
			th.pan.Sig = "thread-" + th.pan.Sig
		}
	}()
	defer s.dbg.RecordThreadFinished(th.tid)
	th.res, th.err = ast.Runtime.Eval(s.vs, make(map[string]interface{}), th.tid)
}

// ---------------------------------------------------------------------------
// Quiescence. The harness issues a command only when every program thread is
// (a) finished, (b) inside hold(), or (c) parked inside sync.Cond.Wait below
// a debugger frame. (c) is read from a goroutine dump: the goroutine state
// "sync.Cond.Wait" is set after the waiter has been added to the condition's
// notify list, so a Continue issued afterwards cannot be lost. (The suspend
// protocol publishes "not running" before it waits; a Continue in between is
// lost. That window belongs to property C15, not to C16.)
// ---------------------------------------------------------------------------

type gstate struct {
	state    string
	debugger bool // has an ecalDebugger frame
	hold     bool // is inside holdFunc.Run
}

func (s *session) dump() []gstate {
	for {
		n := runtime.Stack(s.dumpBuf, true)
		if n < len(s.dumpBuf) {
			return parseDump(s.dumpBuf[:n], []byte(fmt.Sprintf("c16.(*session).threadMain(%p,", s)))
		}
		s.dumpBuf = make([]byte, 2*len(s.dumpBuf))
	}
}

var (
	markDbg  = []byte("interpreter.(*ecalDebugger).")
	markHold = []byte("c16.(*holdFunc).Run")
)

// parseDump returns the state of this session's program goroutines (the
// receiver pointer printed in the threadMain frame identifies the session).
func parseDump(b []byte, markMain []byte) []gstate {
	var out []gstate
	for _, blk := range bytes.Split(b, []byte("\n\n")) {
		if !bytes.Contains(blk, markMain) {
			continue
		}
		g := gstate{}
		if i, j := bytes.IndexByte(blk, '['), bytes.IndexByte(blk, ']'); i >= 0 && j > i {
			st := string(blk[i+1 : j])
			if k := strings.IndexByte(st, ','); k >= 0 {
				st = st[:k]
			}
			g.state = st
		}
		g.debugger = bytes.Contains(blk, markDbg)
		g.hold = bytes.Contains(blk, markHold)
		out = append(out, g)
	}
	return out
}

// where describes where this session's program goroutines are (diagnostics).
func (s *session) where() string {
	buf := make([]byte, 1<<20)
	n := runtime.Stack(buf, true)
	mark := []byte(fmt.Sprintf("c16.(*session).threadMain(%p,", s))
	var out []string
	for _, blk := range bytes.Split(buf[:n], []byte("\n\n")) {
		if !bytes.Contains(blk, mark) {
			continue
		}
		var fr []string
		for _, l := range strings.Split(string(blk), "\n") {
			if strings.HasPrefix(l, "\t") {
				if i := strings.LastIndex(l, "/"); i >= 0 {
					l = l[i+1:]
				}
				if j := strings.Index(l, " +0x"); j >= 0 {
					l = l[:j]
				}
				fr = append(fr, l)
			}
			if len(fr) == 6 {
				break
			}
		}
		out = append(out, strings.SplitN(string(blk), "\n", 2)[0]+" "+strings.Join(fr, " < "))
	}
	return strings.Join(out, " || ")
}

// parked is true if the goroutine cannot move without the harness: it waits
// on the debugger's condition, inside hold(), or for a lock (with every other
// program thread parked and no command in flight nobody is left to release a
// lock; the status probe reports that case). Other blocked states (e.g.
// "semacquire" inside encoding/json's type cache) are transient.
func (g gstate) parked() bool {
	switch g.state {
	case "sync.Cond.Wait":
		return g.debugger
	case "chan receive":
		return g.hold
	case "sync.Mutex.Lock", "sync.RWMutex.Lock", "sync.RWMutex.RLock":
		return true
	}
	return false
}

// quiesce waits until no program thread can move without the harness.
// It returns false if that state was not reached within the bound.
func (s *session) quiesce() bool {
	deadline := time.Now().Add(20 * time.Second)
	for i := 0; ; i++ {
		n := 0
		for _, th := range s.threads {
			if th.over {
				continue
			}
			select {
			case <-th.done:
				th.over = true
			default:
				n++
			}
		}
		if n == 0 {
			return true
		}
		if i == 0 {
			runtime.Gosched() // let a thread which was just woken run to its next stop
		}
		held := 0
		for _, th := range s.threads {
			if !th.over && !th.open && th.inHold() {
				held++
			}
		}
		if held == n {
			return true // all inside hold(): nothing left for them to do but block
		}
		gs := s.dump()
		ok := len(gs) == n
		for _, g := range gs {
			if !g.parked() {
				ok = false
			}
		}
		if ok {
			s.lastDump = fmt.Sprintf("%+v", gs)
			return true
		}
		if time.Now().After(deadline) {
			return false
		}
		if i < 20 {
			runtime.Gosched()
		} else {
			time.Sleep(50 * time.Microsecond)
		}
	}
}

// ---------------------------------------------------------------------------
// The debugger's own view (used for labels and for finding thread ids).
// ---------------------------------------------------------------------------

type tview struct {
	tid       uint64
	known     bool // has an interrogation state
	suspended bool // threadRunning == false
	hasErr    bool
	depth     int
}

func (s *session) view() (map[uint64]tview, *hx.Failure) {
	var res interface{}
	var err error
	if f := hx.Guard(func() { res, err = s.dbg.HandleInput("status") }); f != nil {
		return nil, f
	}
	if err != nil {
		return nil, hx.Failf("status-error", "status returned an error: %v", err)
	}
	out := map[uint64]tview{}
	m, ok := res.(map[string]interface{})
	if !ok {
		return out, nil
	}
	ths, ok := m["threads"].(map[string]map[string]interface{})
	if !ok {
		return out, nil
	}
	for k, v := range ths {
		tid, e := strconv.ParseUint(k, 10, 64)
		if e != nil {
			continue
		}
		tv := tview{tid: tid}
		if cs, ok := v["callStack"].([]string); ok {
			tv.depth = len(cs)
		}
		if r, ok := v["threadRunning"]; ok {
			tv.known = true
			if b, ok := r.(bool); ok && !b {
				tv.suspended = true
			}
		}
		if e, ok := v["error"]; ok && e != nil {
			if ee, ok := e.(error); !ok || ee != nil {
				tv.hasErr = true
			}
		}
		out[tid] = tv
	}
	return out, nil
}

func sortedTids(m map[uint64]tview) []uint64 {
	var r []uint64
	for k := range m {
		r = append(r, k)
	}
	sort.Slice(r, func(i, j int) bool { return r[i] < r[j] })
	return r
}

// stateLabel names the debugger state a command meets.
func (s *session) stateLabel(v map[uint64]tview) string {
	var parts []string
	for _, th := range s.active() {
		tv := v[th.tid]
		switch {
		case th.inHold():
			l := "running"
			if tv.known {
				l = "running-interrogated"
			}
			if tv.depth >= 2 {
				l += "-deep"
			}
			parts = append(parts, l)
		case tv.suspended && tv.hasErr:
			if tv.depth == 0 {
				parts = append(parts, "err-top")
			} else {
				parts = append(parts, "err-nested")
			}
		case tv.suspended:
			if tv.depth == 0 {
				parts = append(parts, "susp-top")
			} else if tv.depth == 1 {
				parts = append(parts, "susp-call")
			} else {
				parts = append(parts, "susp-nested")
			}
		default:
			parts = append(parts, "other")
		}
	}
	if len(parts) > 0 {
		sort.Strings(parts)
		return strings.Join(parts, "+")
	}
	switch {
	case s.stopped:
		return "stopped"
	case len(s.threads) > 0:
		for _, tid := range sortedTids(v) {
			if v[tid].known {
				return "finished-stale"
			}
		}
		return "finished"
	case s.parsed:
		return "parsed"
	}
	return "fresh"
}

// ---------------------------------------------------------------------------
// Driving.
// ---------------------------------------------------------------------------

func (s *session) cmd(line string) *hx.Failure {
	var err error
	if f := hx.Guard(func() { _, err = s.dbg.HandleInput(line) }); f != nil {
		return f
	}
	if err != nil {
		return hx.Failf("setup-error", "%q returned %v", line, err)
	}
	if !s.quiesce() {
		return hx.Failf("no-quiescence", "after %q", line)
	}
	return nil
}

// release lets the lowest running thread inside hold() return from it.
func (s *session) release() bool {
	for _, th := range s.active() {
		if th.inHold() {
			if !th.open {
				x := atomic.LoadInt32(&th.exited)
				th.holdCh <- struct{}{}
				// the token has been taken; wait until this hold() call has been
				// left so that the next look at inHold belongs to the next call
				for atomic.LoadInt32(&th.exited) == x {
					select {
					case <-th.done:
						return true
					default:
						runtime.Gosched()
					}
				}
			}
			return true
		}
	}
	return false
}

// stopThreads calls StopThreads the way cli/tool/debug.go LoadInitialFile does.
// It iterates the interrogation table without the debugger lock while woken
// threads delete from it, so with two suspended threads the Go runtime may
// abort the process ("concurrent map iteration and map write"): a data race,
// which C16 does not cover. The harness therefore calls it only with at most
// one suspended thread.
func (s *session) stopThreads() (bool, *hx.Failure) {
	v, f := s.view()
	if f != nil {
		return false, f
	}
	n := 0
	for _, tv := range v {
		if tv.suspended {
			n++
		}
	}
	if n > 1 {
		return false, nil
	}
	if f := hx.Guard(func() { s.dbg.StopThreads(200 * time.Microsecond) }); f != nil {
		return false, f
	}
	s.stopped = true
	return true, nil
}

// openHolds makes hold() non-blocking for all threads started so far.
func (s *session) openHolds() {
	for _, th := range s.threads {
		if !th.open {
			th.open = true
			close(th.holdCh)
		}
	}
}

// finish is the end-of-sequence obligation: with all breakpoints removed and
// all holds open, every thread the debugger reports as suspended is resumed
// (repeatedly) and every program must complete.
func (s *session) finish() *hx.Failure {
	if !s.quiesce() {
		return hx.Failf("no-quiescence", "before the final resume")
	}
	if len(s.active()) == 0 {
		return nil
	}
	var res interface{}
	if f := hx.Guard(func() {
		s.dbg.BreakOnStart(false)
		res, _ = s.dbg.HandleInput("status")
	}); f != nil {
		return f
	}
	if m, ok := res.(map[string]interface{}); ok {
		if bps, ok := m["breakpoints"].(map[string]bool); ok {
			var keys []string
			for k := range bps {
				keys = append(keys, k)
			}
			sort.Strings(keys)
			for _, k := range keys {
				src := strings.Split(k, ":")[0]
				if f := hx.Guard(func() { s.dbg.RemoveBreakPoint(src, -1) }); f != nil {
					return f
				}
			}
		}
	}
	s.openHolds()
	for round := 0; round < 400; round++ {
		if !s.quiesce() {
			return hx.Failf("no-quiescence", "during the final resume")
		}
		if len(s.active()) == 0 {
			return nil
		}
		v, f := s.view()
		if f != nil {
			return f
		}
		n := 0
		for _, tid := range sortedTids(v) {
			if v[tid].suspended {
				n++
				var err error
				if f := hx.Guard(func() { _, err = s.dbg.HandleInput(fmt.Sprintf("cont %d resume", tid)) }); f != nil {
					return f
				}
				if err != nil {
					return hx.Failf("resume-error", "cont %d resume returned %v", tid, err)
				}
			}
		}
		if n == 0 {
			// quiescent, holds open, nothing reported as suspended, threads left:
			// no command can move them any more
			var ids []string
			for _, th := range s.active() {
				ids = append(ids, fmt.Sprint(th.tid))
			}
			return hx.Failf("stuck-thread", "threads %v are parked but the debugger reports no suspended thread; status threads: %+v; goroutines: %s; last dump %s", ids, v, s.where(), s.lastDump)
		}
	}
	return hx.Failf("stuck-thread", "threads still suspended after 400 resume rounds")
}

// close tears the session down. Threads which could not be finished are
// killed through StopThreads as a last resort.
func (s *session) close() {
	if len(s.active()) > 0 {
		s.openHolds()
		for round := 0; round < 100 && s.quiesce() && len(s.active()) > 0; round++ {
			hx.Guard(func() {
				s.dbg.BreakOnStart(false)
				s.dbg.BreakOnError(false)
				if v, f := s.view(); f == nil {
					for tid, tv := range v {
						if tv.suspended {
							s.dbg.Continue(tid, util.Resume)
						}
					}
				}
				s.dbg.StopThreads(0)
			})
		}
		if len(s.active()) > 0 {
			hx.E.Class("teardown.leaked-thread", 1)
		}
	}
	s.erp.Cron.Stop()
}
