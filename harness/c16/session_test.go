package c16

// A session is one debugger plus the program threads the harness started
// against it. Everything a case starts is owned by its session and torn down
// by close().

import (
	"bytes"
	"fmt"
	"os"
	"reflect"
	"runtime"
	"sort"
	"strconv"
	"strings"
	"sync"
	"sync/atomic"
	"time"
	"unsafe"

	"github.com/krotik/ecal/interpreter"
	"github.com/krotik/ecal/parser"
	"github.com/krotik/ecal/scope"
	"github.com/krotik/ecal/util"

	"verif/internal/hx"
)

// ---------------------------------------------------------------------------
// Programs. All of them terminate whatever the generated commands inject or
// extract: loops run over literal lists / ranges, the one condition loop
// counts in a variable (cnt) which no token of the command vocabulary names.
// ---------------------------------------------------------------------------

type program struct {
	Src  string // source name given to the parser (= <source> of break targets)
	Text string
	BP   int // canonical breakpoint line ($bp)
	BP2  int // a second line with code ($bp2)
}

var programs = map[string]*program{
	// top level statements only; container / non-string-key / non-finite values in scope
	"flat": {Src: "flat", BP: 5, BP2: 9, Text: `a := 1
b := "s"
c := [1, 2, {"k": a}]
d := {1: "x", "y": [b]}
e := a + 2
log("flat", e)
inf := 99999999999999999999999999999999999999
inf := inf * inf * inf * inf * inf * inf * inf * inf * inf
g := e + 1
`},
	// call stack depth 3 at line 2
	"nest": {Src: "nest", BP: 5, BP2: 10, Text: `func plain(a) {
  return a + 1
}
func h(z) {
  w := z + 1
  q := {"m": [w], 2: z}
  return w
}
func g(y) {
  v := h(y + 1)
  return v + 1
}
func f(x) {
  u := g(x + 1)
  return u
}
r := f(1)
s := f(2)
t := r + s
`},
	// a thread which is running from the debugger's point of view: hold() is a
	// Go function which blocks on a channel owned by the harness
	"hold": {Src: "hold", BP: 3, BP2: 5, Text: `n := 0
for i in [1, 2] {
  n := n + i
  hold(i)
  m := n
}
func k(p) {
  hold(p)
  return p
}
o := k(7)
mutex mx {
  hold(9)
}
`},
	// function calls which return errors: at top level (empty call stack),
	// inside two calls, and finally uncaught at top level
	"err": {Src: "err", BP: 6, BP2: 20, Text: `func bad(x) {
  raise("MyError", "detail", {1: x, "l": [x], "f": bad})
}
func mid(x) {
  y := x
  bad(y)
  return 1
}
p := 99999999999999999999999999999999999999
try {
  raise("Top", "d", [1, p * p * p * p * p * p * p * p * p])
} except e {
  q := 2
}
try {
  mid(1)
} except e {
  q := 3
}
z := 3
raise("Final", "f", {"a": {2: 3}})
w := 4
`},
	// one of every kind of statement a thread can be stopped at (for describe,
	// which pretty prints and serialises the node); none of its variables is
	// an inject / extract target of the vocabulary
	// containers which exist when a function is entered and are changed IN PLACE inside it: what the debugger
	// remembered about the caller's scope at call time must stay what it was (and stay encodable)
	"alias": {Src: "alias", BP: 7, BP2: 13, Text: `lst := [1, 2]
plain := [3, [4]]
mp := {"k" : [5]}
func ch(y) {
  lst[0] := {"a" : y}
  plain[1][0] := 99999999999999999999999999999999999999 * 99999999999999999999999999999999999999 * 99999999999999999999999999999999999999 * 99999999999999999999999999999999999999 * 99999999999999999999999999999999999999 * 99999999999999999999999999999999999999 * 99999999999999999999999999999999999999 * 99999999999999999999999999999999999999 * 99999999999999999999999999999999999999
  v := y + 1
  mp.k[0] := {2 : lst}
  return v
}
func outer(x) {
  w := ch(x)
  return w + 1
}
r := outer(1)
s := ch(2)
`},
	// every variable the command vocabulary names (x a z c d y) holds something json.Marshal has trouble with when
	// the thread stops at line 10: +Inf, -Inf, NaN (also nested), number keys, a function value
	"hostile": {Src: "hostile", BP: 10, BP2: 8, Text: `x := 99999999999999999999999999999999999999
x := x * x * x * x * x * x * x * x * x
a := [x, -x, x - x]
z := {"n" : x - x, 1 : x}
c := [x, func () {
  return 1
}, {2 : a}]
d := {"y" : [x - x], 3 : -x}
y := x - x
e := 1
`},
	"misc": {Src: "misc", BP: 10, BP2: 26, Text: `import "lib" as lib
sink s1
  kindmatch ["a.b"],
  priority 1
{
  log("x")
}
ll := [1, 2, 3]
mm := {"k": 1, "j": [ll]}
ll[0] := mm.k + lib.v
if ll[0] == 2 {
  yy := 1
} elif false {
  yy := 2
} else {
  yy := 3
}
for [kk, vv] in mm {
  zz := kk
}
for ii in range(1, 2) {
  continue
}
cnt := 0
for cnt < 2 {
  cnt := cnt + 1
}
try {
  raise("E1", "msg", ll)
} except "E1" as ee {
  rr := ee.type
} finally {
  ff := 1
}
fn := func (aa, bb=2) {
  return aa * bb
}
ss := "v={{fn(3)}} {{ll[0]}}"
oo := not (ll[1] > 1 and true) or -ll[2] < 0
len(ll)
`},
}

var progNames = []string{"flat", "nest", "hold", "err", "misc", "alias", "hostile"}

// file served by the import locator
const libSource = "v := 1\n"

// ---------------------------------------------------------------------------

type thread struct {
	tid     uint64
	prog    *program
	done    chan struct{}
	holdCh  chan struct{}
	entered int32 // atomic: number of hold() calls entered
	exited  int32 // atomic: number of hold() calls left
	open    bool  // holdCh has been closed: hold() no longer blocks
	over    bool  // harness has observed done
	res     interface{}
	err     error
	pan     *hx.Failure
}

type session struct {
	vs       parser.Scope
	erp      *interpreter.ECALRuntimeProvider
	dbg      util.ECALDebugger
	threads  []*thread
	lastSrc  *program
	parsed   bool
	stopped  bool
	peek     peeker
	dumpBuf  []byte
	hung     bool          // a call into the debugger never returned
	patience time.Duration // bound of quiesce
}

const maxActive = 2

func newSession() *session {
	s := &session{}
	s.vs = scope.NewScope(scope.GlobalScope)
	s.erp = interpreter.NewECALRuntimeProvider("c16", &util.MemoryImportLocator{Files: map[string]string{"lib": libSource}}, util.NewNullLogger())
	stopCron(s.erp)
	s.dbg = interpreter.NewECALDebugger(s.vs)
	s.erp.Debugger = s.dbg
	s.vs.SetValue("hold", &holdFunc{s})
	if os.Getenv("VERIF_C16_DUMP") == "" { // (set to exercise the fallback)
		s.peek = newPeeker(s.dbg)
	}
	s.patience = 20 * time.Second
	if !s.peek.ok {
		s.dumpBuf = make([]byte, 1<<16)
		hx.E.Class("quiescence.by-goroutine-dump", 1)
	}
	return s
}

// stopCron stops the provider's cron thread right after it was created (no
// program here uses cron triggers). Stopping it at the end of a case instead
// can deadlock inside krotik/common once a session is older than one tick
// (1 s): Cron.Stop holds cronLock while it hands "stop" to the cron goroutine,
// which after a tick waits for that same lock. That library is outside /repo,
// so the harness keeps away from the window and bounds the wait anyway.
func stopCron(erp *interpreter.ECALRuntimeProvider) {
	done := make(chan struct{})
	go func() {
		erp.Cron.Stop()
		close(done)
	}()
	t := time.NewTimer(callBound)
	defer t.Stop()
	select {
	case <-done:
	case <-t.C:
		hx.E.Class("teardown.cron-stop-stuck", 1)
	}
}

// holdFunc is the ECAL function hold(): it blocks until the harness releases it.
type holdFunc struct {
	s *session
}

func (h *holdFunc) Run(instanceID string, vs parser.Scope, is map[string]interface{}, tid uint64, args []interface{}) (interface{}, error) {
	if th := h.s.thread(tid); th != nil {
		atomic.AddInt32(&th.entered, 1)
		<-th.holdCh
		atomic.AddInt32(&th.exited, 1)
	}
	return nil, nil
}

func (h *holdFunc) DocString() (string, error) { return "hold blocks until released", nil }

// inHold is true while the thread is inside hold().
func (th *thread) inHold() bool {
	x := atomic.LoadInt32(&th.exited)
	return atomic.LoadInt32(&th.entered) > x
}

// thread returns the youngest thread with the given id (ids can be reused).
func (s *session) thread(tid uint64) *thread {
	for i := len(s.threads) - 1; i >= 0; i-- {
		if s.threads[i].tid == tid {
			return s.threads[i]
		}
	}
	return nil
}

func (s *session) active() []*thread {
	var r []*thread
	for _, th := range s.threads {
		if !th.over {
			r = append(r, th)
		}
	}
	return r
}

// running is true if a thread of the named program is active.
func (s *session) running(name string) bool {
	for _, th := range s.active() {
		if th.prog == programs[name] {
			return true
		}
	}
	return false
}

// parse parses a program without running it.
func (s *session) parse(name string) (*parser.ASTNode, error) {
	p := programs[name]
	ast, err := parser.ParseWithRuntime(p.Src, p.Text, s.erp)
	if err == nil {
		err = ast.Runtime.Validate()
	}
	if err == nil {
		s.parsed = true
		s.lastSrc = p
	}
	return ast, err
}

// start runs a program on a new thread (the way cli/tool/interpret.go does it:
// Eval, then RecordThreadFinished in a deferred call).
//
// reuse: run on the id of the last finished thread, as the console and the
// debug server do (one thread id per console / connection, used for every
// line which is evaluated).
func (s *session) start(name string, reuse bool) error {
	ast, err := s.parse(name)
	if err != nil {
		return err
	}
	var tid uint64
	if reuse {
		for i := len(s.threads) - 1; i >= 0 && tid == 0; i-- {
			if old := s.threads[i]; old.over && s.thread(old.tid) == old {
				tid = old.tid
			}
		}
	}
	if tid == 0 {
		tid = s.erp.NewThreadID()
	}
	th := &thread{tid: tid, prog: programs[name], done: make(chan struct{}), holdCh: make(chan struct{})}
	s.threads = append(s.threads, th)
	go s.threadMain(th, ast)
	return nil
}

func (s *session) threadMain(th *thread, ast *parser.ASTNode) {
	defer close(th.done)
	defer func() {
		if r := recover(); r != nil {
			th.pan = hx.PanicFailure(r, 3)
			th.pan.Sig = "thread-" + th.pan.Sig
		}
	}()
	defer s.dbg.RecordThreadFinished(th.tid)
	th.res, th.err = ast.Runtime.Eval(s.vs, make(map[string]interface{}), th.tid)
}

// ---------------------------------------------------------------------------
// Quiescence. The harness issues a command only when every program thread is
// (a) finished, (b) inside hold(), or (c) registered as a waiter on the
// condition variable of its interrogation state, so that a Continue issued
// afterwards cannot be lost. (The suspend protocol publishes "not running"
// before it waits; a Continue in between is lost. That window belongs to
// property C15, not to C16.)
//
// (c) is read in O(1) from the debugger's private tables (reflect/unsafe, read
// only, under the debugger's own read lock): sync.Cond.Wait registers the
// waiter (notifyList.wait++) before it releases L, Broadcast sets
// notifyList.notify = wait. If the private layout is not the expected one
// the harness falls back to reading goroutine dumps (state "sync.Cond.Wait"
// below a debugger frame), which is exact as well but costs a stop-the-world.
// Neither is used for a verdict, only to decide when to send the next command.
// ---------------------------------------------------------------------------

type peeker struct {
	ok     bool
	lock   *sync.RWMutex
	states reflect.Value // map[uint64]*interrogationState
}

func newPeeker(dbg util.ECALDebugger) (p peeker) {
	defer func() {
		if recover() != nil {
			p = peeker{}
		}
	}()
	ed := reflect.ValueOf(dbg).Elem()
	lk := ed.FieldByName("lock")
	st := ed.FieldByName("interrogationStates")
	if !lk.IsValid() || !st.IsValid() || st.Kind() != reflect.Map || st.Type().Key().Kind() != reflect.Uint64 ||
		lk.Type() != reflect.TypeOf((*sync.RWMutex)(nil)) {
		return peeker{}
	}
	et := st.Type().Elem()
	if et.Kind() != reflect.Ptr || et.Elem().Kind() != reflect.Struct {
		return peeker{}
	}
	cf, found := et.Elem().FieldByName("cond")
	if !found || cf.Type != reflect.TypeOf((*sync.Cond)(nil)) {
		return peeker{}
	}
	nf, found := reflect.TypeOf(sync.Cond{}).FieldByName("notify")
	if !found || nf.Type.Kind() != reflect.Struct {
		return peeker{}
	}
	w, ok1 := nf.Type.FieldByName("wait")
	n, ok2 := nf.Type.FieldByName("notify")
	if !ok1 || !ok2 || w.Type.Kind() != reflect.Uint32 || n.Type.Kind() != reflect.Uint32 {
		return peeker{}
	}
	return peeker{ok: true, lock: (*sync.RWMutex)(lk.UnsafePointer()), states: st}
}

// waiting reports whether the thread is registered as a waiter on its
// interrogation condition. known=false: the answer could not be read now.
func (p peeker) waiting(tid uint64) (waiting, known bool) {
	defer func() {
		if recover() != nil {
			waiting, known = false, false
		}
	}()
	if !p.lock.TryRLock() {
		return false, false
	}
	defer p.lock.RUnlock()
	is := p.states.MapIndex(reflect.ValueOf(tid))
	if !is.IsValid() || is.IsNil() {
		return false, true
	}
	cond := is.Elem().FieldByName("cond")
	if cond.IsNil() {
		return false, true
	}
	nl := cond.Elem().FieldByName("notify")
	w := atomic.LoadUint32((*uint32)(unsafe.Pointer(nl.FieldByName("wait").UnsafeAddr())))
	n := atomic.LoadUint32((*uint32)(unsafe.Pointer(nl.FieldByName("notify").UnsafeAddr())))
	return w != n, true
}

type gstate struct {
	state    string
	debugger bool // has an ecalDebugger frame
	hold     bool // is inside holdFunc.Run
}

func (s *session) dump() []gstate {
	for {
		n := runtime.Stack(s.dumpBuf, true)
		if n < len(s.dumpBuf) {
			return parseDump(s.dumpBuf[:n], []byte(fmt.Sprintf("c16.(*session).threadMain(%p,", s)))
		}
		s.dumpBuf = make([]byte, 2*len(s.dumpBuf))
	}
}

var (
	markDbg  = []byte("interpreter.(*ecalDebugger).")
	markHold = []byte("c16.(*holdFunc).Run")
)

// parseDump returns the state of this session's program goroutines (the
// receiver pointer printed in the threadMain frame identifies the session).
func parseDump(b []byte, markMain []byte) []gstate {
	var out []gstate
	for _, blk := range bytes.Split(b, []byte("\n\n")) {
		if !bytes.Contains(blk, markMain) {
			continue
		}
		g := gstate{}
		if i, j := bytes.IndexByte(blk, '['), bytes.IndexByte(blk, ']'); i >= 0 && j > i {
			st := string(blk[i+1 : j])
			if k := strings.IndexByte(st, ','); k >= 0 {
				st = st[:k]
			}
			g.state = st
		}
		g.debugger = bytes.Contains(blk, markDbg)
		g.hold = bytes.Contains(blk, markHold)
		out = append(out, g)
	}
	return out
}

// where describes where this session's program goroutines are (diagnostics).
func (s *session) where() string {
	buf := make([]byte, 1<<20)
	n := runtime.Stack(buf, true)
	for n == len(buf) && len(buf) < 1<<27 {
		buf = make([]byte, 2*len(buf))
		n = runtime.Stack(buf, true)
	}
	mark := []byte(fmt.Sprintf("c16.(*session).threadMain(%p,", s))
	var out []string
	for _, blk := range bytes.Split(buf[:n], []byte("\n\n")) {
		if !bytes.Contains(blk, mark) {
			continue
		}
		var fr []string
		for _, l := range strings.Split(string(blk), "\n") {
			if strings.HasPrefix(l, "\t") {
				if i := strings.LastIndex(l, "/"); i >= 0 {
					l = l[i+1:]
				}
				if j := strings.Index(l, " +0x"); j >= 0 {
					l = l[:j]
				}
				fr = append(fr, l)
			}
			if len(fr) == 6 {
				break
			}
		}
		// (no goroutine ids: rapid only shrinks failures whose message repeats)
		head := strings.SplitN(string(blk), "\n", 2)[0]
		if i, j := strings.IndexByte(head, '['), strings.IndexByte(head, ']'); i >= 0 && j > i {
			head = head[i : j+1]
			if k := strings.IndexByte(head, ','); k >= 0 {
				head = head[:k] + "]"
			}
		}
		out = append(out, head+" "+strings.Join(fr, " < "))
	}
	return strings.Join(out, " || ")
}

// parked is true if the goroutine cannot move without the harness: it waits
// on the debugger's condition, inside hold(), or for a lock (with every other
// program thread parked and no command in flight nobody is left to release a
// lock; the status probe reports that case). Other blocked states (e.g.
// "semacquire" inside encoding/json's type cache) are transient.
func (g gstate) parked() bool {
	switch g.state {
	case "sync.Cond.Wait":
		return g.debugger
	case "chan receive":
		return g.hold
	case "sync.Mutex.Lock", "sync.RWMutex.Lock", "sync.RWMutex.RLock":
		return true
	}
	return false
}

// quiesce waits until no program thread can move without the harness.
// It returns false if that state was not reached within the bound.
func (s *session) quiesce() bool {
	deadline := time.Now().Add(s.patience)
	for i := 0; ; i++ {
		n := 0
		for _, th := range s.threads {
			if th.over {
				continue
			}
			select {
			case <-th.done:
				th.over = true
			default:
				n++
			}
		}
		if n == 0 {
			return true
		}
		if i == 0 {
			runtime.Gosched() // let a thread which was just woken run to its next stop
		}
		ok := true
		if s.peek.ok {
			for _, th := range s.threads {
				if th.over || (!th.open && th.inHold()) {
					continue
				}
				if w, known := s.peek.waiting(th.tid); !known || !w {
					ok = false
					break
				}
			}
		} else {
			held := 0
			for _, th := range s.threads {
				if !th.over && !th.open && th.inHold() {
					held++
				}
			}
			if held < n {
				gs := s.dump()
				ok = len(gs) == n
				for _, g := range gs {
					if !g.parked() {
						ok = false
					}
				}
			}
		}
		if ok {
			return true
		}
		if time.Now().After(deadline) {
			return false
		}
		if i < 20 {
			runtime.Gosched()
		} else {
			time.Sleep(50 * time.Microsecond)
		}
	}
}

// ---------------------------------------------------------------------------
// The debugger's own view (used for labels and for finding thread ids).
// ---------------------------------------------------------------------------

type tview struct {
	tid       uint64
	known     bool // has an interrogation state
	suspended bool // threadRunning == false
	hasErr    bool
	depth     int
}

func (s *session) view() (map[uint64]tview, *hx.Failure) {
	res, f := s.status()
	if f != nil {
		return nil, f
	}
	out := map[uint64]tview{}
	m, ok := res.(map[string]interface{})
	if !ok {
		return out, nil
	}
	ths, ok := m["threads"].(map[string]map[string]interface{})
	if !ok {
		return out, nil
	}
	for k, v := range ths {
		tid, e := strconv.ParseUint(k, 10, 64)
		if e != nil {
			continue
		}
		tv := tview{tid: tid}
		if cs, ok := v["callStack"].([]string); ok {
			tv.depth = len(cs)
		}
		if r, ok := v["threadRunning"]; ok {
			tv.known = true
			if b, ok := r.(bool); ok && !b {
				tv.suspended = true
			}
		}
		if e, ok := v["error"]; ok && e != nil {
			if ee, ok := e.(error); !ok || ee != nil {
				tv.hasErr = true
			}
		}
		out[tid] = tv
	}
	return out, nil
}

func sortedTids(m map[uint64]tview) []uint64 {
	var r []uint64
	for k := range m {
		r = append(r, k)
	}
	sort.Slice(r, func(i, j int) bool { return r[i] < r[j] })
	return r
}

// owns is true if the thread owns an ECAL mutex.
func (s *session) owns(tid uint64) bool {
	s.erp.MutexesMutex.Lock()
	defer s.erp.MutexesMutex.Unlock()
	for _, o := range s.erp.MutexeOwners {
		if o == tid {
			return true
		}
	}
	return false
}

// stateLabel names the debugger state a command meets.
func (s *session) stateLabel(v map[uint64]tview) string {
	var parts []string
	for _, th := range s.active() {
		tv := v[th.tid]
		switch {
		case th.inHold():
			l := "running"
			if tv.known {
				l = "running-interrogated"
			}
			if tv.depth >= 2 {
				l += "-deep"
			}
			if s.owns(th.tid) {
				l += "-mutex"
			}
			parts = append(parts, l)
		case tv.suspended && tv.hasErr:
			if tv.depth == 0 {
				parts = append(parts, "err-top")
			} else {
				parts = append(parts, "err-nested")
			}
		case tv.suspended:
			if tv.depth == 0 {
				parts = append(parts, "susp-top")
			} else if tv.depth == 1 {
				parts = append(parts, "susp-call")
			} else {
				parts = append(parts, "susp-nested")
			}
		default:
			parts = append(parts, "other")
		}
	}
	if len(parts) > 0 {
		sort.Strings(parts)
		return strings.Join(parts, "+")
	}
	switch {
	case s.stopped:
		return "stopped"
	case len(s.threads) > 0:
		for _, tid := range sortedTids(v) {
			if v[tid].known {
				return "finished-stale"
			}
		}
		return "finished"
	case s.parsed:
		return "parsed"
	}
	return "fresh"
}

// ---------------------------------------------------------------------------
// Driving.
// ---------------------------------------------------------------------------

// callBound bounds every call into the debugger. No debugger entry point waits
// for a thread by design (StopThreads with a duration only sleeps), so a call
// which has not returned after this time is stuck on a lock which is held for
// good (or, for inject, inside a non-terminating expression - the generated
// expressions terminate).
const callBound = 5 * time.Second

// bounded runs a call into the debugger on its own goroutine, contains a
// panic and bounds the wait. After a timeout the session is unusable.
func (s *session) bounded(sig, what string, f func()) *hx.Failure {
	if s.hung {
		return hx.Failf(sig, "%s: not attempted, an earlier call never returned", what)
	}
	ch := make(chan *hx.Failure, 1)
	go func() { ch <- hx.Guard(f) }()
	t := time.NewTimer(callBound)
	defer t.Stop()
	select {
	case fl := <-ch:
		return fl
	case <-t.C:
		s.hung = true
		return hx.Failf(sig, "%s did not return within %v; program goroutines: %s", what, callBound, s.where())
	}
}

// call sends one command line.
func (s *session) call(line string) (res interface{}, err error, f *hx.Failure) {
	w := ""
	if fl := strings.Fields(line); len(fl) > 0 {
		w = fl[0]
	}
	f = s.bounded("hang:"+w, fmt.Sprintf("HandleInput(%q)", line), func() { res, err = s.dbg.HandleInput(line) })
	return
}

// status is the probe which follows every command: it must answer.
func (s *session) status() (res interface{}, f *hx.Failure) {
	var err error
	if f = s.bounded("lock-held", "HandleInput(\"status\")", func() { res, err = s.dbg.HandleInput("status") }); f != nil {
		return nil, f
	}
	if err != nil {
		return nil, hx.Failf("status-error", "status returned an error: %v", err)
	}
	return res, nil
}

// probeSource is a source name no breakpoint uses: "rmbreak <probeSource>"
// takes the debugger's write lock and changes nothing.
const probeSource = "c16probe"

// writeProbe checks that the debugger's lock can still be taken for writing
// (a read lock which was left held does not stop "status", which only reads).
func (s *session) writeProbe() *hx.Failure {
	var err error
	line := "rmbreak " + probeSource
	if f := s.bounded("lock-held", fmt.Sprintf("HandleInput(%q)", line), func() { _, err = s.dbg.HandleInput(line) }); f != nil {
		return f
	}
	if err != nil {
		return hx.Failf("probe-error", "%q returned an error: %v", line, err)
	}
	return nil
}

// cmd sends a command which is part of building a state: it must succeed.
func (s *session) cmd(line string) *hx.Failure {
	_, err, f := s.call(line)
	if f != nil {
		return f
	}
	if err != nil {
		return hx.Failf("setup-error", "%q returned %v", line, err)
	}
	if !s.quiesce() {
		return hx.Failf("no-quiescence", "after %q; program goroutines: %s", line, s.where())
	}
	return nil
}

// release lets the lowest running thread inside hold() return from it.
func (s *session) release() bool {
	for _, th := range s.active() {
		if th.inHold() {
			if !th.open {
				x := atomic.LoadInt32(&th.exited)
				th.holdCh <- struct{}{}
				// the token has been taken; wait until this hold() call has been
				// left so that the next look at inHold belongs to the next call
				for atomic.LoadInt32(&th.exited) == x {
					select {
					case <-th.done:
						return true
					default:
						runtime.Gosched()
					}
				}
			}
			return true
		}
	}
	return false
}

// stopThreads calls StopThreads the way cli/tool/debug.go LoadInitialFile does.
// It iterates the interrogation table without the debugger lock while woken
// threads delete from it, so with two suspended threads the Go runtime may
// abort the process ("concurrent map iteration and map write"): a data race,
// which C16 does not cover. The harness therefore calls it only with at most
// one suspended thread.
func (s *session) stopThreads() (bool, *hx.Failure) {
	v, f := s.view()
	if f != nil {
		return false, f
	}
	n := 0
	for _, tv := range v {
		if tv.suspended {
			n++
		}
	}
	if n > 1 {
		return false, nil
	}
	if f := s.bounded("hang:StopThreads", "StopThreads", func() { s.dbg.StopThreads(200 * time.Microsecond) }); f != nil {
		return false, f
	}
	s.stopped = true
	return true, nil
}

// openHolds makes hold() non-blocking for all threads started so far.
func (s *session) openHolds() {
	for _, th := range s.threads {
		if !th.open {
			th.open = true
			close(th.holdCh)
		}
	}
}

// finish is the end-of-sequence obligation: with all breakpoints removed and
// all holds open, every thread the debugger reports as suspended is resumed
// (repeatedly) and every program must complete.
func (s *session) finish() *hx.Failure {
	if !s.quiesce() {
		return hx.Failf("no-quiescence", "before the final resume; program goroutines: %s", s.where())
	}
	if len(s.active()) == 0 {
		return nil
	}
	if f := s.bounded("hang:BreakOnStart", "BreakOnStart(false)", func() { s.dbg.BreakOnStart(false) }); f != nil {
		return f
	}
	res, f := s.status()
	if f != nil {
		return f
	}
	if m, ok := res.(map[string]interface{}); ok {
		if bps, ok := m["breakpoints"].(map[string]bool); ok {
			var keys []string
			for k := range bps {
				keys = append(keys, k)
			}
			sort.Strings(keys)
			for _, k := range keys {
				src := strings.Split(k, ":")[0]
				if f := s.bounded("hang:RemoveBreakPoint", "RemoveBreakPoint", func() { s.dbg.RemoveBreakPoint(src, -1) }); f != nil {
					return f
				}
			}
		}
	}
	s.openHolds()
	for round := 0; round < 400; round++ {
		if !s.quiesce() {
			return hx.Failf("no-quiescence", "during the final resume; program goroutines: %s", s.where())
		}
		if len(s.active()) == 0 {
			return nil
		}
		v, f := s.view()
		if f != nil {
			return f
		}
		n := 0
		for _, tid := range sortedTids(v) {
			if v[tid].suspended {
				n++
				_, err, f := s.call(fmt.Sprintf("cont %d resume", tid))
				if f != nil {
					return f
				}
				if err != nil {
					return hx.Failf("resume-error", "cont %d resume returned %v", tid, err)
				}
			}
		}
		if n == 0 {
			// quiescent, holds open, nothing reported as suspended, threads left:
			// no command can move them any more
			var ids []string
			for _, th := range s.active() {
				ids = append(ids, fmt.Sprint(th.tid))
			}
			return hx.Failf("stuck-thread", "threads %v are parked but the debugger reports no suspended thread; status threads: %+v; goroutines: %s", ids, v, s.where())
		}
	}
	return hx.Failf("stuck-thread", "threads still suspended after 400 resume rounds")
}

// close tears the session down. Threads which could not be finished are
// killed through StopThreads as a last resort.
func (s *session) close() {
	if !s.hung && len(s.active()) > 0 {
		s.patience = 2 * time.Second
		s.openHolds()
		for round := 0; round < 100 && !s.hung && s.quiesce() && len(s.active()) > 0; round++ {
			s.bounded("teardown", "teardown", func() {
				s.dbg.BreakOnStart(false)
				s.dbg.BreakOnError(false)
				res, _ := s.dbg.HandleInput("status")
				m, _ := res.(map[string]interface{})
				bps, _ := m["breakpoints"].(map[string]bool)
				var srcs []string
				for k := range bps {
					srcs = append(srcs, strings.Split(k, ":")[0])
				}
				for _, src := range srcs {
					s.dbg.RemoveBreakPoint(src, -1)
				}
				ths, _ := m["threads"].(map[string]map[string]interface{})
				for k, v := range ths {
					if r, ok := v["threadRunning"].(bool); ok && !r {
						if tid, err := strconv.ParseUint(k, 10, 64); err == nil {
							s.dbg.Continue(tid, util.Resume)
						}
					}
				}
			})
		}
	}
	if len(s.active()) > 0 {
		hx.E.Class("teardown.leaked-thread", 1)
	}
}
