// C17 — file imports cannot escape the configured root directory.
//
// Domain: (root, path) pairs; exhaustive over a 7-segment alphabet up to a
// length bound, random beyond. Oracle: every file in the sentinel tree holds
// its own canonical path; content returned by Resolve must name a location
// lexically inside the root.
package c17

import (
	"flag"
	"fmt"
	"io"
	"os"
	"path/filepath"
	"strings"
	"testing"

	"pgregory.net/rapid"

	"github.com/krotik/ecal/cli/tool"
	"github.com/krotik/ecal/interpreter"
	"github.com/krotik/ecal/parser"
	"github.com/krotik/ecal/scope"
	"github.com/krotik/ecal/util"

	"verif/internal/hx"
)

const rule = "case = (root form, import path, route); paths enumerated exhaustively over segments {f, r, ., .., '', 'r x', x.y} joined with '/' up to the tier's length bound and drawn at random beyond; non-trivial = path contains '..' or an empty segment (leading/doubled/trailing separator); distinct by (root, path, route)"

// Case is one import attempt.
type Case struct {
	Root      string   `json:"root"` // as given to FileImportLocator (relative to the harness cwd or $BASE-absolute)
	Path      string   `json:"path"`
	ViaImport bool     `json:"via_import"`         // through `import "<path>" as x` instead of Resolve
	Pre       []string `json:"pre,omitempty"`      // paths resolved on the SAME locator first (their results are judged like every other); whatever they leave behind in the locator must not open the root
	ViaArgs   bool     `json:"via_args,omitempty"` // like ViaCLI, but the root arrives as -dir <root> on a parsed command line which also names an entry file outside the root (ParseArgs)
	ViaCLI    bool     `json:"via_cli,omitempty"`  // the locator is the one cli/tool's interpreter configures for -dir <root> (CreateRuntimeProvider)
}

var (
	base string // temp dir
	cwd  string // base/l1/../l6 — the process works from here
)

var segs = []string{"f", "r", ".", "..", "", "r x", "x.y"}

// root forms; $P is replaced by the absolute cwd
// (r/lnk is a symbolic link with the RELATIVE target "r", i.e. the directory r/r: the statement is about the lexical
// root, so for a root which is itself a link "inside" is judged against the directory the link names)
var roots = []string{"$P/r", "$P/r/", "r", "r/", "./r", ".", "r/r", "r/r/..", "r/../r", "../l6/r", "r//r", "$P/r/../r x", "$P/r/lnk", "r/lnk", "$P"}

const prefix = "v := \""

func TestMain(m *testing.M) {
	var err error
	if base, err = os.MkdirTemp("", "verif-c17-"); err != nil {
		panic(err)
	}
	if base, err = filepath.EvalSymlinks(base); err != nil {
		panic(err)
	}
	cwd = base
	populate(base, 1)
	for i := 1; i <= 6; i++ {
		cwd = filepath.Join(cwd, fmt.Sprintf("l%d", i))
		if err := os.Mkdir(cwd, 0755); err != nil {
			panic(err)
		}
		populate(cwd, 5)
	}
	// the root and its look-alike sibling get deeper trees
	populate(filepath.Join(cwd, "r"), 6)
	if err := os.Symlink("r", filepath.Join(cwd, "r", "lnk")); err != nil {
		panic(err)
	}
	if err := os.Chdir(cwd); err != nil {
		panic(err)
	}
	defer os.RemoveAll(base)
	func() {
		defer os.RemoveAll(base)
		hx.Main(m, "C17", rule)
	}()
}

// populate creates files f, x.y and directories r, "r x" recursively; every directory and every file has a twin FILE
// next to it whose name is the same plus the language's file extension (r.ecal beside r, f.ecal beside f): a locator
// which completes names must not reach the twin of the root itself, which lies outside.
func populate(dir string, depth int) {
	os.MkdirAll(dir, 0755)
	if dir != base {
		if err := os.WriteFile(dir+".ecal", []byte(prefix+dir+".ecal\"\n"), 0644); err != nil {
			panic(err)
		}
	}
	for _, f := range []string{"f", "x.y", "f.ecal", "x.y.ecal"} {
		p := filepath.Join(dir, f)
		if err := os.WriteFile(p, []byte(prefix+p+"\"\n"), 0644); err != nil {
			panic(err)
		}
	}
	if depth == 0 {
		return
	}
	for _, d := range []string{"r", "r x"} {
		populate(filepath.Join(dir, d), depth-1)
	}
}

// norm is the harness's own lexical normaliser (stack based).
func norm(p string) string {
	var st []string
	for _, s := range strings.Split(p, "/") {
		switch s {
		case "", ".":
		case "..":
			if len(st) > 0 {
				st = st[:len(st)-1]
			}
		default:
			st = append(st, s)
		}
	}
	return "/" + strings.Join(st, "/")
}

func absRoot(root string) string {
	r := strings.ReplaceAll(root, "$P", cwd)
	if !strings.HasPrefix(r, "/") {
		r = cwd + "/" + r
	}
	r = norm(r)
	if st, err := os.Lstat(r); err == nil && st.Mode()&os.ModeSymlink != 0 {
		// the root itself is a link: the directory it names
		if t, err := filepath.EvalSymlinks(r); err == nil {
			return t
		}
	}
	return r
}

func inside(root, loc string) bool {
	return loc == root || strings.HasPrefix(loc, root+"/")
}

func runCase(c Case) *hx.Failure {
	rootArg := strings.ReplaceAll(c.Root, "$P", cwd)
	ar := absRoot(c.Root)
	var il util.ECALImportLocator = &util.FileImportLocator{Root: rootArg}
	if c.ViaCLI || c.ViaArgs {
		interp := tool.NewCLIInterpreter()
		if c.ViaArgs {
			flag.CommandLine = flag.NewFlagSet("c17", flag.ContinueOnError)
			flag.CommandLine.SetOutput(io.Discard)
			restore := tool.VerifSetIO([]string{"ecal", "run", "-dir", rootArg, "-loglevel", "Error", "../x.y"}, func(int) {}, io.Discard, nil)
			f := hx.Guard(func() { interp.ParseArgs() })
			restore()
			if f != nil {
				return f
			}
			hx.E.Class("route.cli-parsed-command-line", 1)
		} else {
			dir, none, lvl := rootArg, "", "Error"
			interp.Dir, interp.LogFile, interp.LogLevel = &dir, &none, &lvl
		}
		if f := hx.Guard(func() {
			if err := interp.CreateRuntimeProvider("c17"); err != nil {
				panic(err)
			}
		}); f != nil {
			return f
		}
		go interp.RuntimeProvider.Cron.Stop() // never wait for Cron.Stop()
		il = interp.RuntimeProvider.ImportLocator
	}

	var content string
	var err error
	var fail *hx.Failure

	for _, pp := range c.Pre {
		var pc string
		var perr error
		if f := hx.Guard(func() { pc, perr = il.Resolve(pp) }); f != nil {
			return f
		}
		if perr == nil && strings.HasPrefix(pc, prefix) {
			if loc := strings.TrimSuffix(strings.TrimPrefix(pc, prefix), "\"\n"); !inside(ar, loc) {
				return hx.Failf("escape", "root=%q (=%s) path=%q (resolved first) returned the content of %s which lies outside the root", c.Root, ar, pp, loc)
			}
		}
	}
	if len(c.Pre) > 0 {
		hx.E.Class("locator.used-before", 1)
	}

	if !c.ViaImport {
		fail = hx.Guard(func() { content, err = il.Resolve(c.Path) })
	} else {
		if strings.ContainsAny(c.Path, "\"\\{}\n\r") {
			hx.E.Exclude("import-literal-needs-escaping")
			return nil
		}
		fail = hx.Guard(func() {
			erp := interpreter.NewECALRuntimeProvider("c17", il, util.NewNullLogger())
			go erp.Cron.Stop() // never wait for Cron.Stop(): it can deadlock against the cron tick
			var ast *parser.ASTNode
			if ast, err = parser.ParseWithRuntime("c17", fmt.Sprintf("import %q as x\nx.v", c.Path), erp); err != nil {
				return
			}
			if err = ast.Runtime.Validate(); err != nil {
				return
			}
			var res interface{}
			vs := scope.NewScope(scope.GlobalScope)
			if res, err = ast.Runtime.Eval(vs, make(map[string]interface{}), erp.NewThreadID()); err == nil {
				content = prefix + fmt.Sprint(res) + "\"\n"
			}
		})
	}

	nontrivial := false
	for _, s := range strings.Split(c.Path, "/") {
		if s == ".." || s == "" {
			nontrivial = true
		}
	}
	key := fmt.Sprintf("%s|%s|%v|%v|%v|%q", c.Root, c.Path, c.ViaImport, c.ViaCLI, c.ViaArgs, c.Pre)
	if c.ViaCLI {
		hx.E.Class("route.cli-configured-locator", 1)
	}

	// what the harness expects (evidence only)
	target := norm(ar + "/" + c.Path)
	_, statErr := os.Stat(target)
	isFile := false
	if st, e := os.Stat(target); e == nil && st.Mode().IsRegular() {
		isFile = true
	}
	_ = statErr
	cls := "outside"
	if inside(ar, target) {
		cls = "inside"
	}
	if isFile {
		cls += ".file"
	} else {
		cls += ".nofile"
	}
	hx.E.Case(nontrivial, key, "target."+cls)
	if nontrivial {
		hx.E.Sample(key, map[string]interface{}{"root": c.Root, "path": c.Path, "via_import": c.ViaImport, "target": cls, "error": err != nil})
	}

	if fail != nil {
		return fail
	}
	if err != nil {
		if cls == "inside.file" {
			hx.E.Class("inside_file_refused", 1) // allowed by the statement; reported
		}
		return nil
	}
	if !strings.HasPrefix(content, prefix) {
		return hx.Failf("not-a-sentinel", "root=%q path=%q returned content which is no sentinel: %q", c.Root, c.Path, content)
	}
	loc := strings.TrimSuffix(strings.TrimPrefix(content, prefix), "\"\n")
	if !inside(ar, loc) {
		return hx.Failf("escape", "root=%q (=%s) path=%q returned the content of %s which lies outside the root", c.Root, ar, c.Path, loc)
	}
	if loc != target {
		hx.E.Class("resolved_other_inside_file", 1)
	} else {
		hx.E.Class("inside_file_found", 1)
	}
	return nil
}

func maxLen() int {
	if hx.Thorough() {
		return 6
	}
	return 4
}

func TestRegress(t *testing.T) { hx.Regress(t, runCase) }

func TestExhaustive(t *testing.T) {
	n := maxLen()
	total := hx.Enumerate(t, "paths", func(yield func(Case) bool) {
		idx := make([]int, 0, n)
		var rec func() bool
		rec = func() bool {
			parts := make([]string, len(idx))
			for i, k := range idx {
				parts[i] = segs[k]
			}
			p := strings.Join(parts, "/")
			for ri, r := range roots {
				if !yield(Case{Root: r, Path: p}) {
					return false
				}
				// the same locator used before: paths that clean to the root itself, inside files, refused paths
				if (len(p)+ri)%3 == 0 {
					if !yield(Case{Root: r, Path: p, Pre: preLists[(len(p)/3+ri)%len(preLists)]}) {
						return false
					}
				}
				// every 5th path also through the interpreter
				if (len(p)+ri)%5 == 0 {
					if !yield(Case{Root: r, Path: p, ViaImport: true}) {
						return false
					}
				}
				// every 7th through the locator which the command line tool configures for -dir <root>
				if (len(p)+ri)%7 == 0 || (len(idx) <= 2 && strings.Contains(r, "lnk")) {
					if !yield(Case{Root: r, Path: p, ViaCLI: true}) {
						return false
					}
				}
				if (len(p)+ri)%11 == 0 || (len(idx) <= 2 && r == "$P") {
					if !yield(Case{Root: r, Path: p, ViaArgs: true}) {
						return false
					}
				}
			}
			if len(idx) == n {
				return true
			}
			for k := range segs {
				idx = append(idx, k)
				if !rec() {
					return false
				}
				idx = idx[:len(idx)-1]
			}
			return true
		}
		rec()
	}, runCase)
	hx.E.Exhaustive("paths", map[string]interface{}{"segments": segs, "max_len": n, "roots": roots})
	_ = total
}

var preLists = [][]string{{""}, {"."}, {"r/.."}, {"f"}, {"../f"}, {"r/f", "../f"}, {"..", "f"}, {"r x/../..", "r/f"}, {"x.y", "x.y"}, {"../r/f"}}

var extraSegs = []string{"f", "r", ".", "..", "", "r x", "x.y", "...", "..f", "f..", ". .", " ", "..\\", "\\..", "~", "%2e%2e", "..%2f", "l6", "l5", "\x00", "é", "..\t", "r\\..\\..", "C:", "*"}

func TestProp(t *testing.T) {
	hx.Check(t, func(rt *rapid.T) Case {
		n := rapid.IntRange(1, 14).Draw(rt, "n")
		parts := make([]string, n)
		for i := range parts {
			if rapid.IntRange(0, 9).Draw(rt, "kind") < 7 {
				parts[i] = rapid.SampledFrom(segs).Draw(rt, "seg")
			} else {
				parts[i] = rapid.SampledFrom(extraSegs).Draw(rt, "xseg")
			}
		}
		root := rapid.SampledFrom(roots).Draw(rt, "root")
		if rapid.IntRange(0, 3).Draw(rt, "rootgen") == 0 {
			// generated root: cwd-relative walk that stays below base
			m := rapid.IntRange(0, 5).Draw(rt, "rn")
			rp := []string{"r"}
			for i := 0; i < m; i++ {
				rp = append(rp, rapid.SampledFrom([]string{"r", "r x", ".", "", "..", "r/.."}).Draw(rt, "rs"))
			}
			root = strings.Join(rp, "/")
			if rapid.Bool().Draw(rt, "abs") {
				root = "$P/" + root
			}
		}
		via := rapid.IntRange(0, 5).Draw(rt, "via")
		c := Case{Root: root, Path: strings.Join(parts, "/"), ViaImport: via == 0, ViaCLI: via == 1, ViaArgs: via == 2}
		if rapid.IntRange(0, 2).Draw(rt, "pre") == 0 {
			c.Pre = rapid.SampledFrom(preLists).Draw(rt, "prelist")
		}
		return c
	}, runCase)
}
