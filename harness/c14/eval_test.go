package c14

import (
	"errors"
	"fmt"
	"sync/atomic"
	"time"

	"github.com/krotik/common/datautil"
	"github.com/krotik/ecal/engine/pool"
	"github.com/krotik/ecal/interpreter"
	"github.com/krotik/ecal/parser"
	"github.com/krotik/ecal/scope"
	"github.com/krotik/ecal/util"

	"verif/internal/hx"
)

// stepBudget is the number of node visits one evaluation may use. The largest
// legitimate case of this package (24 pieces, every one an expression) needs
// fewer than 100 visits.
const stepBudget = 5000

// wallBound only guards against a loop that never visits a node; it is never
// a verdict about the property (see runCase).
const wallBound = 20 * time.Second

var errBudget = errors.New("verif step budget exhausted")

// stepDbg is a util.ECALDebugger which only counts node visits and fails every
// visit once the budget is gone (baseRuntime.Eval consults it for every node).
type stepDbg struct {
	visits int64
	budget int64
}

func (d *stepDbg) VisitState(node *parser.ASTNode, vs parser.Scope, tid uint64) util.TraceableRuntimeError {
	if atomic.AddInt64(&d.visits, 1) > d.budget {
		return util.NewRuntimeError("c14", errBudget, "more than the allowed node visits", node).(util.TraceableRuntimeError)
	}
	return nil
}
func (d *stepDbg) exhausted() bool { return atomic.LoadInt64(&d.visits) > d.budget }

func (d *stepDbg) HandleInput(string) (interface{}, error)                 { return nil, nil }
func (d *stepDbg) StopThreads(time.Duration) bool                          { return false }
func (d *stepDbg) BreakOnStart(bool)                                       {}
func (d *stepDbg) BreakOnError(bool)                                       {}
func (d *stepDbg) SetLockingState(map[string]uint64, *datautil.RingBuffer) {}
func (d *stepDbg) SetThreadPool(*pool.ThreadPool)                          {}
func (d *stepDbg) VisitStepInState(*parser.ASTNode, parser.Scope, uint64) util.TraceableRuntimeError {
	return nil
}
func (d *stepDbg) VisitStepOutState(*parser.ASTNode, parser.Scope, uint64, error) util.TraceableRuntimeError {
	return nil
}
func (d *stepDbg) RecordThreadFinished(uint64)               {}
func (d *stepDbg) SetBreakPoint(string, int)                 {}
func (d *stepDbg) DisableBreakPoint(string, int)             {}
func (d *stepDbg) RemoveBreakPoint(string, int)              {}
func (d *stepDbg) ExtractValue(uint64, string, string) error { return nil }
func (d *stepDbg) InjectValue(uint64, string, string) error  { return nil }
func (d *stepDbg) Continue(uint64, util.ContType)            {}
func (d *stepDbg) Status() interface{}                       { return nil }
func (d *stepDbg) LockState() interface{}                    { return nil }
func (d *stepDbg) Describe(uint64) interface{}               { return nil }

// tickFn is the side-effecting Go function `tick()`: it counts its calls and
// returns <T><ordinal of the call>.
type tickFn struct {
	n   int64
	ret string
}

func (t *tickFn) Run(instanceID string, vs parser.Scope, is map[string]interface{}, tid uint64, args []interface{}) (interface{}, error) {
	n := atomic.AddInt64(&t.n, 1)
	return fmt.Sprintf("%s%d", t.ret, n), nil
}
func (t *tickFn) DocString() (string, error) { return "counts its calls", nil }

type outcome struct {
	parseErr  error
	res       interface{}
	err       error
	ticks     int64
	visits    int64
	exhausted bool
	wall      bool
	panicked  *hx.Failure
}

// evaluate parses and evaluates src with x, y and tick() defined. Everything
// the case starts is torn down again.
func evaluate(src string, env Env, assignInSource bool) outcome {
	dbg := &stepDbg{budget: stepBudget}
	tick := &tickFn{ret: env.T}
	ch := make(chan outcome, 1)

	go func() {
		var o outcome
		o.panicked = hx.Guard(func() {
			erp := interpreter.NewECALRuntimeProvider("c14", nil, util.NewMemoryLogger(10))
			// Tear down the only thing the provider starts (the cron goroutine; the
			// processor is never started here). Cron.Stop() of krotik/common can
			// deadlock with its own 1 s tick (Stop holds the lock and waits for a
			// receiver, the tick handler waits for the lock), so it is called at
			// once - microseconds after Start instead of a case duration later -
			// and never on the path which produces the verdict.
			go erp.Cron.Stop()
			erp.Debugger = dbg
			ast, err := parser.ParseWithRuntime("c14", src, erp)
			if err == nil {
				err = ast.Runtime.Validate()
			}
			if err != nil {
				o.parseErr = err
				return
			}
			vs := scope.NewScope(scope.GlobalScope)
			if !assignInSource {
				vs.SetValue("x", env.X)
			}
			vs.SetValue("y", env.Y)
			vs.SetValue("tick", tick)
			o.res, o.err = ast.Runtime.Eval(vs, make(map[string]interface{}), erp.NewThreadID())
		})
		ch <- o
	}()

	tm := time.NewTimer(wallBound)
	defer tm.Stop()
	var o outcome
	select {
	case o = <-ch:
	case <-tm.C:
		o.wall = true
	}
	o.ticks = atomic.LoadInt64(&tick.n)
	o.visits = atomic.LoadInt64(&dbg.visits)
	o.exhausted = dbg.exhausted()
	return o
}
