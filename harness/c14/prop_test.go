// C14 — string interpolation evaluates only the literal's own expressions, once.
//
// Domain: string literals assembled from pieces (text, "{{", "}}", "{", "}",
// quotes, escapes, newlines, whole {{expr}} blocks, bare expression text) in
// every order, in double-quoted, single-quoted and raw form; environments in
// which x, y and the result of tick() are *data* that themselves contain
// markers and expressions.
//
// Oracle: a reference single pass written from the property text (leftmost
// "{{", nearest following "}}", substitute, continue behind the substituted
// text); raw strings untouched; tick() is called exactly as often as the pass
// reaches a tick() written in the literal; no panic; within the step budget.
package c14

import (
	"fmt"
	"regexp"
	"strings"
	"testing"

	"pgregory.net/rapid"

	"verif/internal/hx"
)

const rule = "case = (form dq|sq|raw, piece sequence, environment x/y/tick-result); pieces {a, {{, }}, {, }, quote, \\n, \\\\, {{1+1}}, {{x}}, {{tick()}}, {{1+\"a\"}}, {{}}, {{len({})}}, tick()} enumerated exhaustively in every order up to the tier's length bound (x over 6 marker-bearing values whenever the literal mentions x) and drawn at random up to 8 pieces from a larger alphabet with generated environments; non-trivial = the reference pass finds >= 1 {{...}} in a quoted literal and (a stray {{ or }} is left over or a substituted value contains {{ or }}), for raw literals >= 1 {{...}} plus a stray marker; distinct by (source text of the literal, x, y, tick result, way x is defined)"

// Env is the data the literal can refer to.
type Env struct {
	X string `json:"x"` // value of variable x
	Y string `json:"y"` // value of variable y
	T string `json:"t"` // tick() returns T followed by the ordinal of the call
}

// Case is one literal in one environment.
type Case struct {
	Form   string   `json:"form"`   // dq | sq | raw
	Pieces []string `json:"pieces"` // names from the piece table; an unknown name stands for itself as text
	Env
	Assign bool `json:"assign,omitempty"` // define x by the statement x := r"..." in front of the literal instead of through the scope

	Nest *NestCase `json:"nest,omitempty"` // instead of one literal: the same literal evaluated re-entrantly / repeatedly (see nest_test.go)
}

// piece is one building block of a literal.
type piece struct {
	name   string
	val    string // what the piece contributes to the value of a quoted literal
	src    string // source text in quoted forms; "" = quote(val)
	rawVal string // text (= value) in a raw literal; "" = val
}

var pieceTable = []piece{
	// core alphabet (exhaustive tier)
	{name: "a", val: "a"},
	{name: "{{", val: "{{"},
	{name: "}}", val: "}}"},
	{name: "{", val: "{"},
	{name: "}", val: "}"},
	{name: "dq", val: `"`},
	{name: `\n`, val: "\n", src: `\n`, rawVal: `\n`},
	{name: `\\`, val: `\`, src: `\\`, rawVal: `\\`},
	{name: "{{1+1}}", val: "{{1+1}}"},
	{name: "{{x}}", val: "{{x}}"},
	{name: "{{tick()}}", val: "{{tick()}}"},
	{name: "{{1+s}}", val: `{{1+"a"}}`},
	{name: "{{}}", val: "{{}}"},
	{name: "{{len({})}}", val: "{{len({})}}"},
	{name: "tick()", val: "tick()"},
	// raw core only
	{name: "nl", val: "\n"},
	// extended alphabet (random tier, fuzzing)
	{name: "sq", val: `'`},
	{name: "bs", val: `\`, src: `\\`, rawVal: `\`},           // ONE backslash: in a raw literal it is an ordinary character, also directly before the closing quote
	{name: "crlf", val: "\r\n", src: `\r\n`, rawVal: "\r\n"}, // CR LF: two characters of the value, in a raw literal two bytes of the source
	{name: `\"`, val: `"`, src: `\"`, rawVal: `\"`},          // the documented escape written out, also inside '...'
	{name: "ä", val: "ä"},
	{name: `\u00e4`, val: "ä", src: `\u00e4`, rawVal: `\u00e4`},
	{name: `\t`, val: "\t", src: `\t`, rawVal: `\t`},
	{name: `\r`, val: "\r", src: `\r`, rawVal: `\r`},
	{name: `\a`, val: "\a", src: `\a`, rawVal: `\a`},
	{name: `\u20ac`, val: "€", src: `\u20ac`, rawVal: `\u20ac`},
	{name: "€", val: "€"},
	{name: "😀", val: "😀"},
	{name: "{{y}}", val: "{{y}}"},
	{name: "{{ x }}", val: "{{ x }}"},
	{name: "{{\\ntick()\\n}}", val: "{{\ntick()\n}}"},
	{name: "{{1+'a'}}", val: `{{1+'a'}}`},
	{name: "{{ }}", val: "{{ }}"},
	{name: "x", val: "x"},
	{name: "y", val: "y"},
	{name: "1+1", val: "1+1"},
	{name: " ", val: " "},
	{name: "b", val: "b"},
	{name: "0", val: "0"},
	{name: "(", val: "("},
	{name: ")", val: ")"},
	{name: ":", val: ":"},
	{name: ",", val: ","},
	{name: "+", val: "+"},
	{name: ".", val: "."},
	{name: "#", val: "#"},
	{name: "$", val: "$"},
	{name: "}}{{", val: "}}{{"},
	{name: "{{{", val: "{{{"},
	{name: "}}}", val: "}}}"},
}

const (
	nCoreQuoted = 15 // pieceTable[:15]
	nCoreRaw    = 16 // pieceTable[:16]
)

var pieceByName = func() map[string]*piece {
	m := map[string]*piece{}
	for i := range pieceTable {
		m[pieceTable[i].name] = &pieceTable[i]
	}
	return m
}()

func lookup(name string) piece {
	if p, ok := pieceByName[name]; ok {
		return *p
	}
	return piece{name: name, val: name}
}

// values of x used by the exhaustive tier
var envXs = []string{"v", "{{tick()}}", "{{x}}", "}}", "{{", "}}{{tick()}}{{"}

// quote writes val as the body of a quoted literal using only what ecal.md
// documents: plain characters, \\ \n \t \r \" and \uhhhh.
func quote(val string, form string) string {
	var b strings.Builder
	for _, r := range val {
		switch r {
		case '\\':
			b.WriteString(`\\`)
		case '\n':
			b.WriteString(`\n`)
		case '\t':
			b.WriteString(`\t`)
		case '\r':
			b.WriteString(`\r`)
		case '\a':
			b.WriteString(`\a`)
		case '"':
			if form == "dq" {
				b.WriteString(`\"`)
			} else {
				b.WriteRune(r)
			}
		case '\'':
			if form == "sq" {
				b.WriteString(`\u0027`)
			} else {
				b.WriteRune(r)
			}
		default:
			b.WriteRune(r)
		}
	}
	return b.String()
}

// build returns the source text of the literal and the value the literal
// denotes before interpolation. ok=false: not expressible (raw literal which
// needs both kinds of quotes).
func build(c Case) (src, body string, ok bool) {
	var sb, vb strings.Builder
	switch c.Form {
	case "dq", "sq":
		for _, n := range c.Pieces {
			p := lookup(n)
			if p.src != "" {
				sb.WriteString(p.src)
			} else {
				sb.WriteString(quote(p.val, c.Form))
			}
			vb.WriteString(p.val)
		}
		q := `"`
		if c.Form == "sq" {
			q = `'`
		}
		return q + sb.String() + q, vb.String(), true
	case "raw":
		for _, n := range c.Pieces {
			p := lookup(n)
			if p.rawVal != "" {
				vb.WriteString(p.rawVal)
			} else {
				vb.WriteString(p.val)
			}
		}
		body = vb.String()
		hasD, hasS := strings.Contains(body, `"`), strings.Contains(body, `'`)
		q := `"`
		switch {
		case hasD && hasS:
			return "", "", false
		case hasD:
			q = `'`
		case !hasS && len(body)%2 == 1:
			q = `'`
		}
		return "r" + q + body + q, body, true
	}
	return "", "", false
}

const (
	segLit = iota // exact text
	segErr        // inline error marker: any non-empty text
	segAny        // unspecified: any text
)

type seg struct {
	kind int
	text string
}

type expectation struct {
	segs            []seg
	tmin, tmax      int
	slots           int
	strayOpen       bool
	strayClose      bool
	closeBeforeOpen bool
	substMarker     string // "", "open", "close", "both", "full"
	unknown         int
	empty           int
	errSlots        int
	selfRepro       bool
	foreignRisk     bool
}

// a complete brace pair with non-blank content inside code the reference
// cannot evaluate may be a map literal with a child which is no key:value pair;
// evaluating such a map panics in mapValueRuntime.Eval whether or not it is
// written inside a string (property C06, DESIGN section 6) - not this property.
var bracePair = regexp.MustCompile(`\{[^{}]*[^\s{}][^{}]*\}`)

var fullMarker = regexp.MustCompile(`(?s)\{\{.*\}\}`)

func (e *expectation) lit(s string) {
	if s == "" {
		return
	}
	if n := len(e.segs); n > 0 && e.segs[n-1].kind == segLit {
		e.segs[n-1].text += s
		return
	}
	e.segs = append(e.segs, seg{segLit, s})
}

// reference is the single pass of the property statement.
func reference(body string, raw bool, env Env) *expectation {
	e := &expectation{}
	if i, j := strings.Index(body, "}}"), strings.Index(body, "{{"); i >= 0 && j >= 0 && i < j+2 {
		e.closeBeforeOpen = true
	}
	rest := body
	ord := 0 // calls of tick() so far; -1 = not known exactly
	for {
		s := strings.Index(rest, "{{")
		if s < 0 {
			break
		}
		n := strings.Index(rest[s+2:], "}}")
		if n < 0 {
			break
		}
		code := rest[s+2 : s+2+n]
		e.slots++
		if strings.Contains(rest[:s], "}}") {
			e.strayClose = true
		}
		if strings.Contains(code, "{{") {
			e.strayOpen = true
		}
		if raw {
			e.lit(rest[:s+4+n])
			rest = rest[s+4+n:]
			continue
		}
		e.lit(rest[:s])
		exact := func(v string) {
			e.lit(v)
			o, c := strings.Contains(v, "{{"), strings.Contains(v, "}}")
			m := ""
			switch {
			case fullMarker.MatchString(v):
				m = "full"
			case o && c:
				m = "both"
			case o:
				m = "open"
			case c:
				m = "close"
			}
			if m != "" && (e.substMarker == "" || m == "full") {
				e.substMarker = m
			}
		}
		switch strings.Trim(code, " \n\t\r") {
		case "":
			e.empty++
			e.segs = append(e.segs, seg{kind: segAny})
		case "1+1":
			exact("2")
		case "len({})":
			exact("0")
		case "x":
			exact(env.X)
			if strings.Contains(env.X, "{{x}}") || (strings.Contains(env.X, "{{y}}") && strings.Contains(env.Y, "{{x}}")) {
				e.selfRepro = true
			}
		case "y":
			exact(env.Y)
			if strings.Contains(env.Y, "{{y}}") || (strings.Contains(env.Y, "{{x}}") && strings.Contains(env.X, "{{y}}")) {
				e.selfRepro = true
			}
		case "tick()":
			e.tmin++
			e.tmax++
			if ord >= 0 {
				ord++
				exact(fmt.Sprintf("%s%d", env.T, ord))
				if strings.Contains(env.T, "{{tick()}}") {
					e.selfRepro = true
				}
			} else {
				e.segs = append(e.segs, seg{kind: segAny})
			}
		case `1+"a"`, `1+'a'`:
			e.errSlots++
			e.segs = append(e.segs, seg{kind: segErr})
		default:
			e.unknown++
			e.segs = append(e.segs, seg{kind: segAny})
			if k := strings.Count(code, "tick"); k > 0 {
				e.tmax += k
				ord = -1
			}
			if bracePair.MatchString(code) {
				e.foreignRisk = true
			}
		}
		rest = rest[s+4+n:]
	}
	if strings.Contains(rest, "}}") {
		e.strayClose = true
	}
	if strings.Contains(rest, "{{") {
		e.strayOpen = true
	}
	e.lit(rest)
	return e
}

// match reports whether s consists of the segments in order.
func match(segs []seg, s string) bool {
	// normalise into lit0 W1 lit1 W2 ... where Wi has a minimal length
	type gap struct {
		min int
		lit string
	}
	first := ""
	var gaps []gap
	i := 0
	if len(segs) > 0 && segs[0].kind == segLit {
		first = segs[0].text
		i = 1
	}
	for i < len(segs) {
		g := gap{}
		for i < len(segs) && segs[i].kind != segLit {
			if segs[i].kind == segErr {
				g.min++
			}
			i++
		}
		if i < len(segs) {
			g.lit = segs[i].text
			i++
		}
		gaps = append(gaps, g)
	}
	if len(gaps) == 0 {
		return s == first
	}
	if !strings.HasPrefix(s, first) {
		return false
	}
	cur := len(first)
	for k, g := range gaps {
		if k == len(gaps)-1 {
			// the last literal must be the suffix
			return len(s)-len(g.lit) >= cur+g.min && strings.HasSuffix(s, g.lit)
		}
		if cur+g.min > len(s) {
			return false
		}
		j := strings.Index(s[cur+g.min:], g.lit)
		if j < 0 {
			return false
		}
		cur = cur + g.min + j + len(g.lit)
	}
	return true
}

func describe(segs []seg) string {
	var b strings.Builder
	for _, s := range segs {
		switch s.kind {
		case segLit:
			fmt.Fprintf(&b, "%q ", s.text)
		case segErr:
			b.WriteString("<error-marker> ")
		case segAny:
			b.WriteString("<unspecified> ")
		}
	}
	return strings.TrimSpace(b.String())
}

func bucket(n int) string {
	if n >= 3 {
		return "3+"
	}
	return fmt.Sprint(n)
}

func short(s string) string {
	if len(s) > 300 {
		return fmt.Sprintf("%s...(%d bytes)", s[:300], len(s))
	}
	return s
}

var maxVisits int64

func runCase(c Case) *hx.Failure {
	if c.Nest != nil {
		return runNest(*c.Nest)
	}
	lit, body, ok := build(c)
	if !ok {
		hx.E.Exclude("raw.needs-both-quotes")
		return nil
	}
	raw := c.Form == "raw"
	exp := reference(body, raw, c.Env)
	if exp.foreignRisk {
		hx.E.Exclude("foreign.C06-map-child-without-key-inside-unknown-code")
		return nil
	}
	assign := c.Assign && !strings.ContainsAny(c.X, "\"\n")
	src := lit
	if assign {
		src = "x := r\"" + c.X + "\"\n" + lit
	}

	o := evaluate(src, c.Env, assign)

	nontrivial := exp.slots >= 1 && (exp.strayOpen || exp.strayClose || exp.substMarker != "")
	key := fmt.Sprintf("%s\x00%s\x00%s\x00%s\x00%v", lit, c.X, c.Y, c.T, assign)
	classes := []string{"form." + c.Form, "slots." + bucket(exp.slots), "pieces." + fmt.Sprint(len(c.Pieces))}
	add := func(b bool, cl string) {
		if b {
			classes = append(classes, cl)
		}
	}
	add(exp.strayOpen, "stray.open")
	add(exp.strayClose, "stray.close")
	add(exp.closeBeforeOpen, "stray.close-before-open")
	add(exp.substMarker != "", "subst-has-marker."+exp.substMarker)
	add(exp.selfRepro, "subst-self-reproducing")
	add(exp.unknown > 0, "slot.unknown-code")
	add(exp.empty > 0, "slot.empty")
	add(exp.errSlots > 0, "slot.failing-expr")
	add(exp.tmin > 0, "ticks-expected."+bucket(exp.tmin))
	add(exp.tmax > exp.tmin, "ticks-range")
	add(assign, "x-assigned-in-source")
	add(strings.ContainsAny(lit, "\\"), "src.has-escape")
	add(o.parseErr != nil, "outcome.parse-error")
	add(o.panicked != nil, "outcome.panic")
	add(o.exhausted, "outcome.budget-exhausted")
	hx.E.Case(nontrivial, key, classes...)
	if nontrivial {
		hx.E.Sample(key, map[string]interface{}{"literal": lit, "x": c.X, "y": c.Y, "t": c.T, "x_assigned_in_source": assign,
			"expected": describe(exp.segs), "ticks_expected": [2]int{exp.tmin, exp.tmax}, "got": fmt.Sprint(o.res), "ticks": o.ticks})
	}
	if o.visits > maxVisits {
		maxVisits = o.visits
		hx.E.Set("max_node_visits_in_one_case", maxVisits)
	}

	where := fmt.Sprintf("literal %s (x=%q y=%q tick()->%q..)", lit, c.X, c.Y, c.T)
	if assign {
		where = fmt.Sprintf("program %q (y=%q tick()->%q..)", src, c.Y, c.T)
	}
	switch {
	case o.wall:
		// not a verdict about the property: the evaluation neither returned nor used up its steps
		return hx.Failf("inconclusive:wall-bound", "%s: no result after %v, %d node visits (budget %d, exhausted=%v) - INCONCLUSIVE, not a verdict", where, wallBound, o.visits, stepBudget, o.exhausted)
	case o.panicked != nil:
		o.panicked.Msg = where + ": " + o.panicked.Msg
		return o.panicked
	case o.parseErr != nil:
		return hx.Failf("valid-literal-rejected", "%s: a literal which uses only documented syntax does not parse: %v", where, o.parseErr)
	case o.exhausted:
		return hx.Failf("endless-evaluation", "%s: evaluation used up %d node visits (the reference pass needs one evaluation per slot, %d slots); tick() ran %d times; result so far %q", where, stepBudget, exp.slots, o.ticks, short(fmt.Sprint(o.res)))
	case o.err != nil:
		return hx.Failf("eval-error", "%s: evaluation of the literal returned the error %v", where, o.err)
	}
	got, isStr := o.res.(string)
	if !isStr {
		return hx.Failf("not-a-string", "%s: result is %T %v", where, o.res, o.res)
	}
	if raw {
		if got != body {
			return hx.Failf("raw-modified", "%s: raw string came back as %q", where, short(got))
		}
		if o.ticks != 0 {
			return hx.Failf("tick-count:raw", "%s: tick() ran %d times for a raw string", where, o.ticks)
		}
		return nil
	}
	if int(o.ticks) < exp.tmin || int(o.ticks) > exp.tmax {
		return hx.Failf("tick-count", "%s: tick() ran %d times, the literal's own expressions call it %d..%d times; result %q, expected %s", where, o.ticks, exp.tmin, exp.tmax, short(got), describe(exp.segs))
	}
	if !match(exp.segs, got) {
		return hx.Failf("output-mismatch", "%s: result %q, expected %s", where, short(got), describe(exp.segs))
	}
	return nil
}

func TestMain(m *testing.M) { hx.Main(m, "C14", rule) }

func TestRegress(t *testing.T) { hx.Regress(t, runCase) }

// depth of the exhaustive enumeration: quoted forms, raw form
func depths() (int, int) {
	if hx.Thorough() {
		return 5, 4
	}
	return 4, 3
}

func TestExhaustive(t *testing.T) {
	dq, dr := depths()
	names := func(n int) []string {
		r := make([]string, n)
		for i := range r {
			r[i] = pieceTable[i].name
		}
		return r
	}
	hx.Enumerate(t, "literals", func(yield func(Case) bool) {
		// by increasing length, so that the first violation is a short one
		var rec func(form string, alpha []string, left int, cur []string, usesX bool) bool
		rec = func(form string, alpha []string, left int, cur []string, usesX bool) bool {
			if left == 0 {
				ps := append([]string(nil), cur...)
				xs := envXs
				if !usesX || form == "raw" {
					xs = envXs[:1]
				}
				for i, x := range xs {
					if !yield(Case{Form: form, Pieces: ps, Env: Env{X: x, Y: "w", T: "T"}, Assign: (len(cur)+i)%3 == 0}) {
						return false
					}
				}
				return true
			}
			for _, a := range alpha {
				if !rec(form, alpha, left-1, append(cur, a), usesX || a == "{{x}}") {
					return false
				}
			}
			return true
		}
		for n := 1; n <= dq; n++ {
			if !rec("dq", names(nCoreQuoted), n, nil, false) || !rec("sq", names(nCoreQuoted), n, nil, false) {
				return
			}
			if n <= dr && !rec("raw", names(nCoreRaw), n, nil, false) {
				return
			}
		}
	}, runCase)
	// a raw literal is untouched whatever it ends in: single backslashes (an odd number of them) before the closing quote
	hx.Enumerate(t, "raw-backslash-tail", func(yield func(Case) bool) {
		for _, head := range append([][]string{nil}, [][]string{{"a"}, {"{{1+1}}"}, {`\\`}, {"{{"}, {"}}"}, {"dq"}, {"sq"}, {"nl"}, {"bs", "a"}, {"{{x}}"}, {"crlf"}, {"a", "crlf", "{{1+1}}"}}...) {
			for _, tail := range [][]string{{"bs"}, {"bs", "bs", "bs"}, {`\\`, "bs"}, {"bs", "dq"}, {"bs", "sq"}, {"bs", "n"}, {"crlf"}, {"crlf", "a"}} {
				if !yield(Case{Form: "raw", Pieces: append(append([]string(nil), head...), tail...), Env: Env{X: "v", Y: "w", T: "T"}, Assign: len(head)%2 == 0}) {
					return
				}
			}
		}
	}, runCase)
	hx.E.Exhaustive("raw-backslash-tail", "raw literals of 11 heads x 6 tails made of single backslashes directly before the closing quote (or before a quote character of the other kind)")
	hx.E.Exhaustive("literals", map[string]interface{}{
		"quoted_forms": []string{"dq", "sq"}, "quoted_pieces": names(nCoreQuoted), "quoted_max_pieces": dq,
		"raw_pieces": names(nCoreRaw), "raw_max_pieces": dr,
		"x_values_when_literal_mentions_x": envXs, "y": "w", "tick_result": "T<n>"})
}

// pieces from which generated values of x, y and the tick() result are made
var dataPieces = []string{"{{", "}}", "{{x}}", "{{y}}", "{{tick()}}", "{{1+1}}", "tick()", "x", "1+1", "a", "{", "}", " ", "{{}}", "{{1+'a'}}"}

func drawData(rt *rapid.T, label string, plain string) string {
	switch k := rapid.IntRange(0, 9).Draw(rt, label+"kind"); {
	case k < 2:
		return plain
	case k < 5:
		return rapid.SampledFrom(envXs[1:]).Draw(rt, label+"fixed")
	default:
		n := rapid.IntRange(1, 4).Draw(rt, label+"n")
		var b strings.Builder
		for i := 0; i < n; i++ {
			b.WriteString(rapid.SampledFrom(dataPieces).Draw(rt, label+"piece"))
		}
		return b.String()
	}
}

func drawCase(rt *rapid.T) Case {
	if rapid.IntRange(0, 11).Draw(rt, "nest") == 0 {
		return Case{Form: "dq", Nest: drawNest(rt)}
	}
	c := Case{Form: rapid.SampledFrom([]string{"dq", "dq", "dq", "sq", "sq", "raw"}).Draw(rt, "form")}
	n := rapid.IntRange(1, 8).Draw(rt, "n")
	for i := 0; i < n; i++ {
		var p string
		switch k := rapid.IntRange(0, 9).Draw(rt, "kind"); {
		case k < 3: // markers
			p = rapid.SampledFrom([]string{"{{", "}}", "{", "}", "}}{{", "{{{", "}}}"}).Draw(rt, "marker")
		case k < 6: // expressions reading data
			p = rapid.SampledFrom([]string{"{{x}}", "{{y}}", "{{tick()}}", "{{ x }}", "{{\\ntick()\\n}}", "{{x}}", "{{tick()}}"}).Draw(rt, "expr")
		default:
			p = pieceTable[rapid.IntRange(0, len(pieceTable)-1).Draw(rt, "piece")].name
		}
		c.Pieces = append(c.Pieces, p)
	}
	c.X = drawData(rt, "x", "v")
	c.Y = drawData(rt, "y", "w")
	c.T = "T"
	if rapid.IntRange(0, 3).Draw(rt, "tkind") == 0 {
		c.T = drawData(rt, "t", "T")
	}
	c.Assign = rapid.IntRange(0, 3).Draw(rt, "assign") == 0
	return c
}

func TestProp(t *testing.T) { hx.Check(t, drawCase, runCase) }
