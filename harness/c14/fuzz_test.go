package c14

import (
	"testing"

	"verif/internal/hx"
)

// values x and y can take in the fuzz target (index = byte % len)
var fuzzData = []string{
	"v", "{{tick()}}", "{{x}}", "}}", "{{", "}}{{tick()}}{{", "{{y}}", "{{1+1}}", "tick()}}", "{{tick()",
	"{{x}}{{x}}", "a}}b{{", "{{}}", "{{1+'a'}}", "{", "}", "{{{", "}}}", "{{tick()}}{{tick()}}", "x",
}

var fuzzTicks = []string{"T", "{{tick()}}", "}}", "{{", "{{x}}"}

const fuzzMaxPieces = 24

// decodeFuzz turns fuzz input into a case: byte 0 = form and tick result,
// byte 1 = x, byte 2 = y, every further byte one piece of the literal.
func decodeFuzz(b []byte) Case {
	at := func(i int) int {
		if i < len(b) {
			return int(b[i])
		}
		return 0
	}
	c := Case{Form: []string{"dq", "dq", "sq", "sq", "raw"}[at(0)%5]}
	c.T = fuzzTicks[(at(0)/5)%len(fuzzTicks)]
	c.Assign = at(0) >= 128
	c.X = fuzzData[at(1)%len(fuzzData)]
	c.Y = fuzzData[at(2)%len(fuzzData)]
	for i := 3; i < len(b) && len(c.Pieces) < fuzzMaxPieces; i++ {
		c.Pieces = append(c.Pieces, pieceTable[int(b[i])%len(pieceTable)].name)
	}
	return c
}

func encodeFuzz(form, x, y int, pieces ...string) []byte {
	b := []byte{byte(form), byte(x), byte(y)}
	for _, n := range pieces {
		for i := range pieceTable {
			if pieceTable[i].name == n {
				b = append(b, byte(i))
			}
		}
	}
	return b
}

// FuzzInterpolate: bytes -> literal (pieces in any order, up to 24) evaluated
// with x, y and tick() defined; the full oracle of runCase applies.
func FuzzInterpolate(f *testing.F) {
	f.Add(encodeFuzz(0, 0, 0, "a", "{{1+1}}", "b"))
	f.Add(encodeFuzz(0, 1, 0, "{{x}}"))
	f.Add(encodeFuzz(0, 2, 0, "{{x}}"))
	f.Add(encodeFuzz(0, 3, 4, "{{x}}", "{{", "{{y}}", "}}"))
	f.Add(encodeFuzz(2, 4, 3, "{{x}}", "tick()", "}}", "{{tick()}}"))
	f.Add(encodeFuzz(0, 0, 0, "}}", "{{"))
	f.Add(encodeFuzz(0, 5, 6, "}}", "{{x}}", "{{", "{{y}}", "}}", `\\`))
	f.Add(encodeFuzz(2, 0, 0, "dq", "sq", `\n`, `\\`, "{{1+s}}", "{{}}", "{{len({})}}", `\\`))
	f.Add(encodeFuzz(4, 0, 0, "{{1+1}}", "nl", `\n`, `\\`, "dq"))
	f.Add(encodeFuzz(5, 1, 1, "{{tick()}}", "{{", " ", "{{tick()}}", " ", "}}", "{{y}}"))
	f.Add(encodeFuzz(135, 10, 0, "{{{", "x", "}}}", "{{ x }}", "}}{{", "tick()", "}}"))
	f.Fuzz(func(t *testing.T, b []byte) {
		c := decodeFuzz(b)
		if fl := hx.Handle(c, runCase(c)); fl != nil {
			t.Fatalf("VIOLATION C14: %s", fl)
		}
	})
}
