package c14

import (
	"fmt"
	"strings"

	"pgregory.net/rapid"

	"verif/internal/erun"
	"verif/internal/hx"
	"verif/internal/lang"
)

// NestCase: ONE literal whose own expressions make the interpreter evaluate
// the same literal again before the first evaluation is complete (recursion
// through a function), or repeatedly with changing values (loop). Each
// evaluation must still yield "the literal with its own expressions replaced,
// left to right, once".
type NestCase struct {
	A, B, C, Leaf string // static text of the literal "A{{nest(n - 1)}}B{{nest(n - D)}}C" and of the leaf
	D             int    // second recursive call uses n - D (0: the literal has one expression only)
	Depth         int    // nest(Depth) is evaluated
	Loop          int    // additionally the literal "A{{i}}B{{i * 2}}C" is evaluated for i = 1..Loop
	BadFront      bool   `json:"bad_front,omitempty"` // the bad expression is the FIRST one of the loop literal (the good ones follow it)
	Bad           int    `json:"bad,omitempty"`       // > 0: the loop literal ends in a third expression, badCodes[Bad], which does not validate / parse / evaluate: an inline marker (any text) must appear, every time
}

// code which parses but does not validate, does not parse, or fails when evaluated
var badCodes = []string{"", " {1} ", " {a} ", "1 := 2", "[1, 2] := 3", "1 +", "1 + [2]", "for a.b in [[]] { }"}

// no braces here: marker arithmetic is the business of the piece enumeration, this scenario is about overlapping evaluations
var nestTexts = []string{"", "(", ")", "<", ">", "a", "bc", " ", ".", "|", "[[", "]]", "x=", "#", "\\u00e9"}

func drawNest(rt *rapid.T) *NestCase {
	t := func(l string) string { return rapid.SampledFrom(nestTexts).Draw(rt, l) }
	return &NestCase{A: t("a"), B: t("b"), C: t("c"), Leaf: rapid.SampledFrom([]string{".", "leaf", "", "0"}).Draw(rt, "leaf"),
		D: rapid.IntRange(0, 2).Draw(rt, "d"), Depth: rapid.IntRange(1, 4).Draw(rt, "depth"), Loop: rapid.IntRange(0, 4).Draw(rt, "loop"),
		Bad: rapid.IntRange(0, len(badCodes)-1).Draw(rt, "bad"), BadFront: rapid.Bool().Draw(rt, "badfront")}
}

func (n NestCase) expect(k int) string {
	if k <= 0 {
		return n.Leaf
	}
	s := n.A + n.expect(k-1) + n.B
	if n.D > 0 {
		s += n.expect(k-n.D) + n.C
	} else {
		s += n.C
	}
	return s
}

func runNest(n NestCase) *hx.Failure {
	q := func(s string) string { r, _ := lang.QuoteString(s, `"`); return r[1 : len(r)-1] }
	second := ""
	if n.D > 0 {
		second = fmt.Sprintf("{{nest(n - %d)}}", n.D)
	}
	var b strings.Builder
	fmt.Fprintf(&b, "func nest(n) {\n    if n <= 0 {\n        return \"%s\"\n    }\n    return \"%s{{nest(n - 1)}}%s%s%s\"\n}\n", q(n.Leaf), q(n.A), q(n.B), second, q(n.C))
	fmt.Fprintf(&b, "t.rec(nest(%d))\n", n.Depth)
	if n.Loop > 0 {
		bad := ""
		if n.Bad > 0 && n.Bad < len(badCodes) {
			bad = "{{" + badCodes[n.Bad] + "}}"
		}
		if n.BadFront {
			fmt.Fprintf(&b, "for i in range(1, %d) {\n    t.rec(\"%s%s{{i}}%s{{i * 2}}%s\")\n}\n", n.Loop, bad, q(n.A), q(n.B), q(n.C))
		} else {
			fmt.Fprintf(&b, "for i in range(1, %d) {\n    t.rec(\"%s{{i}}%s{{i * 2}}%s%s\")\n}\n", n.Loop, q(n.A), q(n.B), q(n.C), bad)
		}
	}
	src := b.String()
	key := "nest:" + src
	hx.E.Case(true, key, "nest", fmt.Sprintf("nest.depth.%d", n.Depth))
	if n.Loop > 0 && n.Bad > 0 {
		hx.E.Class(fmt.Sprintf("nest.loop-literal-with-bad-code.%d", n.Bad), 1)
	}
	hx.E.Sample(key, map[string]interface{}{"nest_program": src})
	res := erun.Run(src, erun.Options{})
	if res.Panic != nil {
		return &hx.Failure{Sig: res.Panic.Sig, Msg: src + "\n" + res.Panic.Msg}
	}
	if res.ParseErr != nil || res.ValidateErr != nil || res.Err != nil {
		return hx.Failf("nest:program-fails", "parse=%v validate=%v eval=%v\n%s", res.ParseErr, res.ValidateErr, res.Err, src)
	}
	want := []string{n.expect(n.Depth)}
	for i := 1; i <= n.Loop; i++ {
		want = append(want, fmt.Sprintf("%s%d%s%d%s", n.A, i, n.B, i*2, n.C))
	}
	if len(res.Trace) != len(want) {
		return hx.Failf("nest:observations", "got %d observations, expected %d\n%s", len(res.Trace), len(want), src)
	}
	for i, w := range want {
		if i > 0 && n.Bad > 0 && n.Bad < len(badCodes) {
			// the text of the inline marker is not specified: the part before it is
			if got, ok := res.Trace[i].(string); !ok || got == w || (!n.BadFront && !strings.HasPrefix(got, w)) || (n.BadFront && !strings.HasSuffix(got, w)) {
				return hx.Failf("nest:output-mismatch", "evaluation %d of the literal yields %q; expected %q with an inline error marker for the code %q behind it (or in front of it if the bad expression comes first)\n%s", i, res.Trace[i], w, badCodes[n.Bad], src)
			}
			continue
		}
		if res.Trace[i] != w {
			return hx.Failf("nest:output-mismatch", "evaluation %d of the literal yields %q; replacing its own expressions left to right gives %q\n%s", i, res.Trace[i], w, src)
		}
	}
	return nil
}
