package c12

import (
	"encoding/json"
	"fmt"
	"os"
)

func dbgCase(c Case, st *probeState, src string) {
	if os.Getenv("C12_DBG") == "" {
		return
	}
	if st.maxDepth == 0 {
		b, _ := json.Marshal(c)
		fmt.Fprintf(os.Stderr, "DEPTH0 %s\n%s\n%s\n", b, src, st.describe())
	}
}
