package c12

// Go-side probes called from generated ECAL code (stdlib package "probe").
// All state lives in a per-case probeState; the functions are registered once
// per process and find the state of the running case through the runtime
// provider which the interpreter puts into the instance state (is["erp"]).

import (
	"fmt"
	"runtime"
	"sort"
	"strings"
	"sync"
	"sync/atomic"
	"time"

	"github.com/krotik/ecal/interpreter"
	"github.com/krotik/ecal/parser"
	"github.com/krotik/ecal/stdlib"

	"verif/internal/hx"
)

type occupancy struct {
	owner int // logical thread id, valid if depth > 0
	depth int
	tid   uint64 // interpreter thread id of the owner
	// last exit of this name: who and whether it was a fallthrough
	lastExitBy   int
	lastExitFell bool
	exits        int
}

type frame struct {
	name    string
	fell    bool
	leaving string
}

type threadState struct {
	started bool
	done    bool   // probe.done seen: the thread has left its body (authoritative)
	goDone  bool   // the Go side call (Eval / AddEventAndWait) returned
	want    string // name the thread asked for and has not entered yet
	parked  string // key of the rendezvous the thread is blocked on
	stack   []frame
	tid     uint64
	events  int
	// directly started thread: the id the provider handed out for it
	direct    bool
	directTid uint64
}

type probeState struct {
	erp *interpreter.ECALRuntimeProvider

	mu     sync.Mutex
	seq    atomic.Uint64 // progress counter: every probe event and every thread completion
	abort  chan struct{} // closed when the case is given up; releases rendezvous waits
	occ    map[string]*occupancy
	thr    []*threadState
	did    map[string]int
	sigs   map[string]chan struct{}
	fail   *hx.Failure // first violation seen by a probe
	failed atomic.Bool

	// evidence
	contended   int // want() while another thread was inside the name
	overlap     int // enter() while another thread was inside a different name
	reentries   int // nested same-name enters
	exitsDyn    map[string]int
	afterNonFal int // enters by another thread after a non-fallthrough exit of that name
	caught      int
	maxDepth    int
	tableStale  int // monitor saw an owner table entry disagreeing with a thread provably inside
	monitorObs  int
}

var current atomic.Pointer[probeState]

func newProbeState(erp *interpreter.ECALRuntimeProvider, nthreads int) *probeState {
	st := &probeState{erp: erp, abort: make(chan struct{}), occ: map[string]*occupancy{}, did: map[string]int{},
		sigs: map[string]chan struct{}{}, exitsDyn: map[string]int{}}
	for i := 0; i < nthreads; i++ {
		st.thr = append(st.thr, &threadState{})
	}
	return st
}

func (st *probeState) violation(sig, format string, a ...interface{}) {
	if st.fail == nil {
		st.fail = hx.Failf(sig, format, a...)
		st.failed.Store(true)
	}
}

func (st *probeState) occOf(name string) *occupancy {
	o := st.occ[name]
	if o == nil {
		o = &occupancy{lastExitBy: -1, lastExitFell: true}
		st.occ[name] = o
	}
	return o
}

func (st *probeState) sig(key string) chan struct{} {
	c := st.sigs[key]
	if c == nil {
		c = make(chan struct{})
		st.sigs[key] = c
	}
	return c
}

// describe renders the occupancy / thread table (deterministic order). Caller holds st.mu.
func (st *probeState) describe() string {
	var sb strings.Builder
	names := make([]string, 0, len(st.occ))
	for n := range st.occ {
		names = append(names, n)
	}
	sort.Strings(names)
	for _, n := range names {
		o := st.occ[n]
		if o.depth > 0 {
			fmt.Fprintf(&sb, "[%s held by thread %d (tid %d) depth %d] ", n, o.owner, o.tid, o.depth)
		} else {
			fmt.Fprintf(&sb, "[%s free] ", n)
		}
	}
	for i, t := range st.thr {
		state := "not-started"
		switch {
		case t.done || (t.goDone && !t.started):
			state = "finished"
		case t.want != "":
			state = "waiting-for-" + t.want
		case t.parked != "":
			state = "parked-on-" + t.parked
		case t.started:
			state = "running"
		}
		var in []string
		for _, f := range t.stack {
			in = append(in, f.name)
		}
		fmt.Fprintf(&sb, "(t%d %s inside=%v) ", i, state, in)
	}
	return sb.String()
}

// probeFunc adapts a Go function to util.ECALFunction.
type probeFunc struct {
	name string
	f    func(st *probeState, tid uint64, args []interface{})
}

func (p *probeFunc) Run(instanceID string, vs parser.Scope, is map[string]interface{}, tid uint64, args []interface{}) (interface{}, error) {
	st := current.Load()
	if st == nil {
		return nil, nil
	}
	if erp, ok := is["erp"].(*interpreter.ECALRuntimeProvider); !ok || erp != st.erp {
		return nil, nil // straggler of an abandoned case
	}
	p.f(st, tid, args)
	return nil, nil
}

func (p *probeFunc) DocString() (string, error) { return "verification probe " + p.name, nil }

func argStr(args []interface{}, i int) string {
	if i < len(args) {
		return fmt.Sprint(args[i])
	}
	return ""
}

func argInt(args []interface{}, i int) int {
	if i < len(args) {
		switch v := args[i].(type) {
		case float64:
			return int(v)
		case int:
			return v
		}
	}
	return -1
}

// thread returns the state of logical thread id (nil if out of range). Caller holds st.mu.
func (st *probeState) thread(id int) *threadState {
	if id < 0 || id >= len(st.thr) {
		st.violation("harness-bad-thread-id", "probe called with thread id %d", id)
		return nil
	}
	return st.thr[id]
}

func registerProbes() {
	if err := stdlib.AddStdlibPkg("probe", "verification probes"); err != nil {
		panic(err)
	}
	reg := func(name string, f func(st *probeState, tid uint64, args []interface{})) {
		if err := stdlib.AddStdlibFunc("probe", name, &probeFunc{name, f}); err != nil {
			panic(err)
		}
	}

	// locked wraps a probe that only manipulates the state table.
	locked := func(f func(st *probeState, tid uint64, args []interface{})) func(st *probeState, tid uint64, args []interface{}) {
		return func(st *probeState, tid uint64, args []interface{}) {
			st.mu.Lock()
			f(st, tid, args)
			st.mu.Unlock()
			st.seq.Add(1)
		}
	}

	reg("start", locked(func(st *probeState, tid uint64, args []interface{}) {
		if t := st.thread(argInt(args, 0)); t != nil {
			t.started, t.tid = true, tid
			// a directly started thread owns the id the provider gave it for as long as its goroutine runs: nothing
			// else may run under that id meanwhile (two threads with one id are one re-entrant owner of every mutex)
			for j := range st.thr {
				o := st.thr[j]
				if o != t && o.direct && !o.goDone && o.directTid == tid {
					st.violation("thread-id-shared", "thread %d runs under interpreter thread id %d, the id the provider handed to the directly started thread %d which is still running; state: %s", argInt(args, 0), tid, j, st.describe())
				}
			}
		}
	}))

	reg("done", locked(func(st *probeState, tid uint64, args []interface{}) {
		if t := st.thread(argInt(args, 0)); t != nil {
			t.done = true
			t.want = ""
		}
	}))

	// want(name, id): the thread is about to reach the block
	reg("want", locked(func(st *probeState, tid uint64, args []interface{}) {
		name, id := argStr(args, 0), argInt(args, 1)
		t := st.thread(id)
		if t == nil {
			return
		}
		t.want = name
		if o := st.occOf(name); o.depth > 0 && o.owner != id {
			st.contended++
		}
	}))

	// enter(name, id): first statement inside the block
	reg("enter", locked(func(st *probeState, tid uint64, args []interface{}) {
		name, id := argStr(args, 0), argInt(args, 1)
		t := st.thread(id)
		if t == nil {
			return
		}
		t.want = ""
		o := st.occOf(name)
		if o.depth > 0 && o.owner != id {
			st.violation("not-exclusive", "thread %d (tid %d) entered a block of mutex %s while thread %d (tid %d) was inside a block of the same name (depth %d); state: %s",
				id, tid, name, o.owner, o.tid, o.depth, st.describe())
		}
		if o.depth > 0 && o.owner == id {
			st.reentries++
		}
		if o.depth == 0 {
			if o.exits > 0 && !o.lastExitFell && o.lastExitBy != id {
				st.afterNonFal++
			}
			o.owner, o.tid = id, tid
		}
		o.depth++
		for n, oo := range st.occ {
			if n != name && oo.depth > 0 && oo.owner != id {
				st.overlap++
				break
			}
		}
		t.stack = append(t.stack, frame{name: name})
		if len(t.stack) > st.maxDepth {
			st.maxDepth = len(t.stack)
		}
	}))

	// fall(name, id): the regular end of the block body was reached
	reg("fall", locked(func(st *probeState, tid uint64, args []interface{}) {
		if t := st.thread(argInt(args, 1)); t != nil && len(t.stack) > 0 {
			t.stack[len(t.stack)-1].fell = true
		}
	}))

	// leaving(name, id, kind): the next statement leaves the block in the given way
	reg("leaving", locked(func(st *probeState, tid uint64, args []interface{}) {
		if t := st.thread(argInt(args, 1)); t != nil && len(t.stack) > 0 {
			t.stack[len(t.stack)-1].leaving = argStr(args, 2)
		}
	}))

	// exit(name, id): runs in a finally clause which is the last thing inside the block
	reg("exit", locked(func(st *probeState, tid uint64, args []interface{}) {
		name, id := argStr(args, 0), argInt(args, 1)
		t := st.thread(id)
		if t == nil {
			return
		}
		if len(t.stack) == 0 || t.stack[len(t.stack)-1].name != name {
			st.violation("harness-probe-protocol", "exit(%s) of thread %d does not match its block stack; state: %s", name, id, st.describe())
			return
		}
		f := t.stack[len(t.stack)-1]
		t.stack = t.stack[:len(t.stack)-1]
		kind := "fall"
		if !f.fell {
			kind = f.leaving
			if kind == "" {
				kind = "propagated"
			}
		}
		st.exitsDyn[kind]++
		o := st.occOf(name)
		if o.depth > 0 && o.owner == id {
			o.depth--
			if o.depth == 0 {
				o.lastExitBy, o.lastExitFell = id, f.fell
				o.exits++
			}
		}
	}))

	// did(name, id): one increment of the shared ECAL counter of that name was performed
	reg("did", locked(func(st *probeState, tid uint64, args []interface{}) {
		st.did[argStr(args, 0)]++
	}))

	reg("caught", locked(func(st *probeState, tid uint64, args []interface{}) {
		st.caught++
	}))

	// yield(k): perturbation only
	reg("yield", func(st *probeState, tid uint64, args []interface{}) {
		doYield(argInt(args, 0))
	})

	// hold(name, id, micros): stay (inside the block) until another thread asks for the
	// name or the time is up; perturbation only, never a verdict
	reg("hold", func(st *probeState, tid uint64, args []interface{}) {
		name, id, max := argStr(args, 0), argInt(args, 1), argInt(args, 2)
		deadline := time.Now().Add(time.Duration(max) * time.Microsecond)
		for {
			st.mu.Lock()
			other := false
			for i, t := range st.thr {
				if i != id && t.want == name {
					other = true
				}
			}
			st.mu.Unlock()
			if other || !time.Now().Before(deadline) {
				break
			}
			select {
			case <-st.abort:
				return
			default:
			}
			runtime.Gosched()
		}
		// give a waiting thread the time to (wrongly) get in
		doYield(20)
	})

	// signal(key, id) / await(key, id): rendezvous for directed cases
	reg("signal", func(st *probeState, tid uint64, args []interface{}) {
		st.mu.Lock()
		c := st.sig(argStr(args, 0))
		select {
		case <-c:
		default:
			close(c)
		}
		st.mu.Unlock()
		st.seq.Add(1)
	})
	reg("await", func(st *probeState, tid uint64, args []interface{}) {
		key, id := argStr(args, 0), argInt(args, 1)
		st.mu.Lock()
		c := st.sig(key)
		t := st.thread(id)
		if t != nil {
			t.parked = key
		}
		st.mu.Unlock()
		st.seq.Add(1)
		select {
		case <-c:
		case <-st.abort:
		}
		st.mu.Lock()
		if t != nil {
			t.parked = ""
		}
		st.mu.Unlock()
		st.seq.Add(1)
	})
}

func doYield(k int) {
	switch {
	case k <= 0:
		runtime.Gosched()
	case k < 10:
		for i := 0; i < k; i++ {
			runtime.Gosched()
		}
	default:
		time.Sleep(time.Duration(k) * time.Microsecond)
	}
}
