// C12 — mutex blocks of one name are mutually exclusive, re-entrant and always released.
//
// Domain: 2..16 threads (direct Eval goroutines with NewThreadID ids, sink
// invocations on 2..16 pool workers started by AddEventAndWait from Go or by
// addEvent from a starter sink) running generated bodies with mutex blocks over
// 1..3 names, nesting <= 3 (same name = re-entrant, different names only in the
// global order m1 < m2 < m3), every exit kind from inside a block.
//
// Oracle (Go probes called from the ECAL code, see probe_test.go): at every
// enter(name) no other thread is inside name; the shared ECAL counters, which
// are only updated by read-yield-write inside blocks of their name, equal the
// number of increments performed; all threads finish; afterwards nothing is
// occupied, the owner table shows every name free and every named mutex can be
// taken. Blocks of different names must be able to overlap (directed cases).
package c12

import (
	"crypto/sha1"
	"encoding/hex"
	"fmt"
	"os"
	"sort"
	"strconv"
	"sync"
	"sync/atomic"
	"testing"
	"time"

	"github.com/krotik/ecal/engine"
	"github.com/krotik/ecal/interpreter"
	"github.com/krotik/ecal/parser"
	"github.com/krotik/ecal/scope"
	"github.com/krotik/ecal/util"

	"verif/internal/hx"
)

const rule = "case = (ECAL program with 1..4 thread bodies made of mutex blocks over 1..3 names, nesting <= 3, exit kinds fall/runtime error/raise/return/break/continue, optional enclosing try, loops, helper functions; 2..16 threads each started directly (Eval goroutine, NewThreadID), by AddEventAndWait or by addEvent from a starter sink; 2..16 workers; start delays; optional owner-table reader); generated with rapid plus a fixed list of directed cases; non-trivial = at least two threads contended for one name (a thread announced its entry while another thread was inside a block of that name) and at least one block was left by a non-fallthrough exit; distinct by (program text, thread count)"

// how a thread is created
const (
	viaDirect  = "direct"  // goroutine calling Runtime.Eval with erp.NewThreadID()
	viaEvent   = "event"   // Processor.AddEventAndWait from a Go goroutine -> sink on a pool worker
	viaCascade = "cascade" // addEvent(...) from a starter sink -> sink on a pool worker
)

// Thread is one thread of a case.
type Thread struct {
	Body  int    `json:"body"`
	Via   string `json:"via"`
	Delay int    `json:"delay,omitempty"` // start delay (yield amount), perturbation only
}

// Monitor describes the optional owner-table reader: a goroutine which, like the
// debugger's lock state view, reads erp.MutexeOwners under erp.MutexesMutex.
type Monitor struct {
	On   bool `json:"on,omitempty"`
	Hold int  `json:"hold,omitempty"` // microseconds the table lock is kept
	Gap  int  `json:"gap,omitempty"`  // microseconds between two reads
}

// Case is one program plus its threads.
type Case struct {
	Bodies  []Body   `json:"bodies"`
	Threads []Thread `json:"threads"`
	Workers int      `json:"workers,omitempty"`
	Monitor Monitor  `json:"monitor,omitempty"`
	Restart bool     `json:"restart,omitempty"` // the directly started threads take their ids BEFORE the processor is started, and the processor is started, finished and started again before the threads run (a host which reloads its rules)
	Note    string   `json:"note,omitempty"`    // directed cases: what the case is about
	// Expect names rendezvous keys whose not being reached is a violation of the
	// non-exclusion of different names (directed cases): key -> signature
	Expect map[string]string `json:"expect,omitempty"`
}

func TestMain(m *testing.M) {
	registerProbes()
	hx.Main(m, "C12", rule)
}

func noteAssumptions() {
	hx.E.Assume("a finally clause runs on every way out of its try block (the exit probe sits in one; property C04)")
	hx.E.Assume("probe.enter is the first and probe.exit the last statement inside a block, so the observed occupancy interval lies strictly inside the interval in which the mutex is held")
	hx.E.Assume(fmt.Sprintf("a state without any probe event or thread completion for %v in which every unfinished thread waits at a block entry is taken as final (expected time: milliseconds)", stuckBound()))
	hx.E.Assume("schedules are sampled (Go scheduler, start delays, in-block yields/sleeps/holds, an owner-table reader), not enumerated")
}

// stuckBound is the time without any probe event or thread completion after
// which an unfinished case is looked at as a stuck state.
//
// The first stuck verdict of a process needs the full bound (60 s where the
// expected time is milliseconds). Once one has been reached the bound is cut to
// a sixth (>= 5 s) so that minimising the failing case stays affordable.
func stuckBound() time.Duration {
	b := 60 * time.Second
	if v, err := strconv.Atoi(os.Getenv("VERIF_C12_STUCK_SECONDS")); err == nil && v > 0 {
		b = time.Duration(v) * time.Second
	}
	if stuckSeen {
		if b /= 6; b < 5*time.Second {
			b = 5 * time.Second
		}
	}
	return b
}

var (
	stuckSeen bool // a stuck-state violation was found in this process
	violated  bool // the directed cases already found a violation
)

var inconclusive []string

func noteInconclusive(reason, detail string) {
	hx.E.Exclude("inconclusive." + reason)
	inconclusive = append(inconclusive, reason+": "+detail)
	fmt.Fprintf(os.Stderr, "C12 INCONCLUSIVE %s: %s\n", reason, detail)
}

func validCase(c Case) bool {
	if len(c.Bodies) == 0 || len(c.Threads) == 0 || len(c.Threads) > 64 {
		return false
	}
	for _, t := range c.Threads {
		if t.Body < 0 || t.Body >= len(c.Bodies) {
			return false
		}
		if t.Via != viaDirect && t.Via != viaEvent && t.Via != viaCascade {
			return false
		}
	}
	return true
}

func runCase(c Case) *hx.Failure {
	if !validCase(c) {
		hx.E.Exclude("malformed-case")
		return nil
	}
	src := program(c)
	nthreads := len(c.Threads)
	useSinks, useCascade := false, false
	for _, t := range c.Threads {
		if t.Via != viaDirect {
			useSinks = true
		}
		if t.Via == viaCascade {
			useCascade = true
		}
	}
	workers := c.Workers
	if workers < 1 {
		workers = 2
	}
	if workers > 16 {
		workers = 16
	}

	// --- set up the interpreter -------------------------------------------------
	erp := interpreter.NewECALRuntimeProvider("c12", nil, util.NewNullLogger())
	// No cron triggers are used. The cron thread is stopped at once and not at the end of
	// the case: Cron.Stop (krotik/common) deadlocks when it coincides with the one second tick.
	go erp.Cron.Stop() // detached: never wait for it
	proc := engine.NewProcessor(workers)
	proc.SetFailOnFirstErrorInTriggerSequence(true)
	erp.Processor = proc

	st := newProbeState(erp, nthreads)
	current.Store(st)
	defer current.Store(nil)

	gvs := scope.NewScope(scope.GlobalScope)
	var setupErr error
	callAST := make([]*parser.ASTNode, len(c.Bodies))
	if f := hx.Guard(func() {
		var ast *parser.ASTNode
		if ast, setupErr = parser.ParseWithRuntime("c12", src, erp); setupErr != nil {
			return
		}
		if setupErr = ast.Runtime.Validate(); setupErr != nil {
			return
		}
		if _, setupErr = ast.Runtime.Eval(gvs, make(map[string]interface{}), erp.NewThreadID()); setupErr != nil {
			return
		}
		for i := range c.Bodies {
			if callAST[i], setupErr = parser.ParseWithRuntime(fmt.Sprintf("c12-call%d", i), fmt.Sprintf("body%d(id)", i), erp); setupErr != nil {
				return
			}
			if setupErr = callAST[i].Runtime.Validate(); setupErr != nil {
				return
			}
		}
	}); f != nil {
		f.Sig = "setup-" + f.Sig
		return f
	}
	if setupErr != nil {
		// the generator only prints documented constructs; a program that does not load is a harness bug
		return hx.Failf("harness-program-rejected", "generated program was rejected: %v\n%s", setupErr, src)
	}

	var earlyTids []uint64
	if c.Restart && useSinks {
		for range c.Threads {
			earlyTids = append(earlyTids, erp.NewThreadID())
		}
	}
	if useSinks {
		hx.WriteInflight(c)
		defer hx.ClearInflight()
		proc.Start()
		if c.Restart {
			proc.Finish()
			proc.Start()
			hx.E.Class("processor.restarted-before-threads-run", 1)
		}
	}

	// --- run the threads ----------------------------------------------------------
	var (
		wg        sync.WaitGroup
		startGate = make(chan struct{})
		guardMu   sync.Mutex
		guardFail *hx.Failure
		threadErr = make([]error, nthreads)
		tids      = make(map[uint64]bool)
		dupTid    bool
	)
	finish := func(i int) {
		st.mu.Lock()
		st.thr[i].goDone = true
		st.mu.Unlock()
		st.seq.Add(1)
	}
	for i, t := range c.Threads {
		i, t := i, t
		switch t.Via {
		case viaDirect:
			tvs := scope.NewScopeWithParent(fmt.Sprintf("thread %d", i), gvs)
			tvs.SetLocalValue("id", float64(i))
			wg.Add(1)
			go func() {
				defer wg.Done()
				defer finish(i)
				<-startGate
				// every thread asks the provider for its id itself, at the same moment as the others (a host
				// starting threads from several goroutines does the same); a short burst of requests per
				// thread makes overlapping requests likely. Ids must be distinct: the owner table is keyed by them.
				var tid uint64
				for k := 0; k < 64; k++ {
					tid = erp.NewThreadID()
					guardMu.Lock()
					if tids[tid] || tid == 0 {
						dupTid = true
					}
					tids[tid] = true
					guardMu.Unlock()
				}
				if earlyTids != nil {
					tid = earlyTids[i] // taken before the processor was restarted
				}
				st.mu.Lock()
				st.thr[i].direct, st.thr[i].directTid = true, tid
				st.mu.Unlock()
				doYield(t.Delay)
				if f := hx.Guard(func() {
					_, threadErr[i] = callAST[t.Body].Runtime.Eval(tvs, make(map[string]interface{}), tid)
				}); f != nil {
					guardMu.Lock()
					if guardFail == nil {
						guardFail = f
					}
					guardMu.Unlock()
				}
			}()
		case viaEvent:
			wg.Add(1)
			go func() {
				defer wg.Done()
				defer finish(i)
				<-startGate
				doYield(t.Delay)
				kind := fmt.Sprintf("c12.b%d", t.Body)
				ev := engine.NewEvent(kind, []string{"c12", fmt.Sprintf("b%d", t.Body)}, map[interface{}]interface{}{"id": float64(i)})
				_, threadErr[i] = proc.AddEventAndWait(ev, nil)
			}()
		case viaCascade:
			// started by the starter sink; known as finished through probe.done only
		}
	}
	if useCascade {
		wg.Add(1)
		go func() {
			defer wg.Done()
			defer st.seq.Add(1)
			<-startGate
			ev := engine.NewEvent("c12.start", []string{"c12", "start"}, map[interface{}]interface{}{})
			proc.AddEventAndWait(ev, nil)
		}()
	}

	stopAux := make(chan struct{})
	stopKick := make(chan struct{})
	var auxWg, kickWg sync.WaitGroup
	if useSinks {
		// The pool can miss a wake-up (a task pushed between a worker's empty pop and its
		// wait is only picked up at the next signal; that is property C09, not C12): keep
		// nudging it with events of an empty sink until every wait has returned.
		kickWg.Add(1)
		go func() {
			defer kickWg.Done()
			pause := 200 * time.Microsecond
			for {
				select {
				case <-stopKick:
					return
				case <-stopAux:
					return
				case <-time.After(pause):
				}
				proc.AddEvent(engine.NewEvent("c12.kick", []string{"c12", "kick"}, map[interface{}]interface{}{}), nil)
				if pause < 20*time.Millisecond {
					pause *= 2
				}
			}
		}()
	}
	if c.Monitor.On {
		auxWg.Add(1)
		go func() {
			defer auxWg.Done()
			for {
				select {
				case <-stopAux:
					return
				default:
				}
				st.observeTable(c.Monitor.Hold)
				doYield(c.Monitor.Gap)
			}
		}()
	}

	// finished = every Go side wait has returned and (sink threads) the processor has
	// worked off its queue and stopped its workers
	allDone := make(chan struct{})
	var waitsReturned atomic.Bool
	go func() {
		wg.Wait()
		waitsReturned.Store(true)
		if useSinks {
			// no event may be added while Finish runs (it would be left in the queue)
			close(stopKick)
			kickWg.Wait()
			proc.Finish()
		}
		close(allDone)
	}()

	close(startGate)

	// --- wait: finished, or no progress at all for the stuck bound -----------------
	bound := stuckBound()
	stuck := false
	lastSeq, lastChange := st.seq.Load(), time.Now()
	tick := 500 * time.Microsecond
wait:
	for {
		select {
		case <-allDone:
			break wait
		case <-time.After(tick):
		}
		if tick < 50*time.Millisecond {
			tick *= 2
		}
		if st.failed.Load() && bound > 2*time.Second {
			bound = 2 * time.Second // a violation is already established: do not wait long for the rest
		}
		if s := st.seq.Load(); s != lastSeq {
			lastSeq, lastChange = s, time.Now()
		} else if time.Since(lastChange) > bound {
			stuck = true
			break wait
		}
	}
	close(stopAux)
	auxWg.Wait()
	kickWg.Wait()

	if stuck {
		// threads (and possibly pool workers) stay blocked; nothing can be torn down
		st.mu.Lock()
		f := st.classifyStuck(c, bound, fmt.Sprintf("note=%q waits-returned=%v pool=%v", c.Note, waitsReturned.Load(), proc.ThreadPool().Status()))
		first := st.fail
		recordCase(c, src, st, "stuck")
		st.mu.Unlock()
		close(st.abort)
		if first != nil {
			return first
		}
		if f != nil {
			stuckSeen = true
		}
		return f
	}
	close(st.abort)

	// --- verdict -------------------------------------------------------------------
	errOut := 0
	for _, e := range threadErr {
		if e != nil {
			errOut++
		}
	}
	hx.E.Class("n.threads-ended-with-error", int64(errOut))
	if f := st.verdict(c, src, guardFail, dupTid, gvs); f != nil {
		return f
	}
	return checkTables(erp)
}

// verdict looks at the probe state of a finished case.
func (st *probeState) verdict(c Case, src string, guardFail *hx.Failure, dupTid bool, gvs parser.Scope) *hx.Failure {
	st.mu.Lock()
	defer st.mu.Unlock()
	recordCase(c, src, st, "finished")

	if guardFail != nil {
		return guardFail
	}
	if st.fail != nil {
		return st.fail
	}
	if dupTid {
		return hx.Failf("thread-id-not-unique", "NewThreadID, asked by %d threads at the same time (64 requests each), returned 0 or the same id twice: two threads with one id are one re-entrant owner for every mutex", len(c.Threads))
	}
	// every thread which started also reached the end of its body
	for i, t := range st.thr {
		if t.started && !t.done {
			noteInconclusive("probe-protocol", fmt.Sprintf("thread %d returned without running its finally clause; %s", i, st.describe()))
			return nil
		}
		if !t.started {
			hx.E.Class("thread.never-ran", 1) // the sink was not invoked (outside C12: see C01/C11)
		}
	}
	for _, n := range sortedNames(st.occ) {
		if o := st.occ[n]; o.depth != 0 {
			noteInconclusive("probe-protocol", "occupancy of "+n+" is not zero although all threads finished; "+st.describe())
			return nil
		}
	}
	// shared counters: no lost update
	for n := 1; n <= 3; n++ {
		v, _, err := gvs.GetValue(fmt.Sprintf("g%d", n))
		got, ok := v.(float64)
		if err != nil || !ok {
			return hx.Failf("counter-unreadable", "g%d = %v (%v)", n, v, err)
		}
		if want := st.did[mname(n)]; int(got) != want {
			return hx.Failf("lost-update", "shared counter g%d, incremented only inside blocks of mutex %s, is %v after %d increments", n, mname(n), got, want)
		}
	}
	return nil
}

// checkTables looks at the bookkeeping visible through the API after all threads
// have finished: every name free, every lock available.
func checkTables(erp *interpreter.ECALRuntimeProvider) *hx.Failure {
	erp.MutexesMutex.Lock()
	defer erp.MutexesMutex.Unlock()
	for _, n := range sortedOwnerNames(erp.MutexeOwners) {
		if o := erp.MutexeOwners[n]; o != 0 {
			return hx.Failf("owner-table-not-free", "all threads finished but MutexeOwners[%s] = %d", n, o)
		}
	}
	mnames := make([]string, 0, len(erp.Mutexes))
	for n := range erp.Mutexes {
		mnames = append(mnames, n)
	}
	sort.Strings(mnames)
	for _, n := range mnames {
		m := erp.Mutexes[n]
		if !m.TryLock() {
			return hx.Failf("not-released", "all threads finished but mutex %s is still locked", n)
		}
		m.Unlock()
	}
	return nil
}

func sortedNames(m map[string]*occupancy) []string {
	r := make([]string, 0, len(m))
	for n := range m {
		r = append(r, n)
	}
	sort.Strings(r)
	return r
}

func sortedOwnerNames(m map[string]uint64) []string {
	r := make([]string, 0, len(m))
	for n := range m {
		r = append(r, n)
	}
	sort.Strings(r)
	return r
}

// observeTable is one read of the owner table under its guard (what a lock
// state view does). An entry which disagrees with a thread that is provably
// inside the block is counted as evidence.
func (st *probeState) observeTable(holdMicros int) {
	erp := st.erp
	erp.MutexesMutex.Lock()
	st.mu.Lock()
	st.monitorObs++
	for n, o := range st.occ {
		if o.depth > 0 {
			if owner := erp.MutexeOwners[n]; owner != o.tid {
				st.tableStale++
			}
		}
	}
	st.mu.Unlock()
	if holdMicros > 0 {
		doYield(holdMicros)
	}
	erp.MutexesMutex.Unlock()
}

// classifyStuck decides what a state without progress means. Caller holds st.mu.
//
// Violations are only states which are final for a correct implementation:
//   - a thread waits for a name it is itself inside of (re-entry must not block);
//   - a thread waits for a name held by a thread that has finished;
//   - a thread waits for a name nobody is inside of while every other thread is
//     finished, waiting for a mutex as well or parked by the harness (the mutex
//     must have been released when its last block was left);
//   - directed cases: a thread parked inside a block of one name waits for
//     another thread to enter a block of a different name, and that thread waits
//     for exactly that.
//
// Everything else is inconclusive.
func (st *probeState) classifyStuck(c Case, bound time.Duration, extra string) *hx.Failure {
	desc := st.describe() + extra
	quiet := true // every started, unfinished thread is waiting for a mutex or parked
	for _, t := range st.thr {
		if t.started && !t.done && t.want == "" && t.parked == "" {
			quiet = false
		}
	}
	for i, t := range st.thr {
		if t.done || t.want == "" {
			continue
		}
		o := st.occOf(t.want)
		switch {
		case o.depth > 0 && o.owner == i:
			return hx.Failf("reentry-blocked", "thread %d is inside a block of mutex %s and has been waiting to enter a nested block of the same name for %v without any progress anywhere; state: %s", i, t.want, bound, desc)
		case o.depth > 0 && st.thr[o.owner].done:
			return hx.Failf("not-released", "thread %d waits for mutex %s which is still held by thread %d which has finished; state: %s", i, t.want, o.owner, desc)
		case o.depth == 0 && quiet:
			for key, sig := range c.Expect {
				for _, p := range st.thr {
					if p.parked == key {
						return hx.Failf(sig, "thread %d cannot enter a block of mutex %s (nobody is inside one) while another thread is parked inside a block of a different name; no progress for %v; state: %s", i, t.want, bound, desc)
					}
				}
			}
			return hx.Failf("later-entrant-blocked", "thread %d has been waiting for mutex %s for %v although no thread is inside a block of that name and every other thread is finished or waiting as well; state: %s", i, t.want, bound, desc)
		}
	}
	noteInconclusive("stuck", fmt.Sprintf("no progress for %v; state: %s", bound, desc))
	return nil
}

// recordCase writes the evidence of one executed case. Caller holds st.mu (or the case is over).
func recordCase(c Case, src string, st *probeState, outcome string) {
	nonfall := 0
	for k, v := range st.exitsDyn {
		if k != "fall" {
			nonfall += v
		}
	}
	nontrivial := st.contended > 0 && nonfall > 0
	h := sha1.Sum([]byte(src))
	key := hex.EncodeToString(h[:]) + "|" + strconv.Itoa(len(c.Threads))

	vias := map[string]bool{}
	for _, t := range c.Threads {
		vias[t.Via] = true
	}
	mode := "mixed"
	if len(vias) == 1 {
		mode = c.Threads[0].Via
	}
	names := map[int]bool{}
	var walk func(ss []Stmt)
	walk = func(ss []Stmt) {
		for _, s := range ss {
			if s.K == kBlock {
				names[s.N] = true
				hx.E.Class("exit.planned."+s.X, 1)
			}
			walk(s.B)
		}
	}
	for _, b := range c.Bodies {
		walk(b.Stmts)
	}
	tb := "2"
	switch n := len(c.Threads); {
	case n < 2:
		tb = "1"
	case n <= 2:
		tb = "2"
	case n <= 4:
		tb = "3-4"
	case n <= 8:
		tb = "5-8"
	default:
		tb = "9-16"
	}
	classes := []string{"outcome." + outcome, "mode." + mode, "threads." + tb, fmt.Sprintf("names.%d", len(names)), fmt.Sprintf("depth.%d", st.maxDepth)}
	if st.contended > 0 {
		classes = append(classes, "contended")
	}
	if nonfall > 0 {
		classes = append(classes, "nonfall-exit")
	}
	if len(names) >= 2 && len(c.Threads) >= 2 {
		if st.overlap > 0 {
			classes = append(classes, "overlap.observed")
		} else {
			classes = append(classes, "overlap.not-observed")
		}
	}
	if st.reentries > 0 {
		classes = append(classes, "reentry")
	}
	if st.afterNonFal > 0 {
		classes = append(classes, "later-entrant-after-nonfall-exit")
	}
	if c.Monitor.On {
		classes = append(classes, "monitor.on")
	}
	if c.Note != "" {
		classes = append(classes, "directed")
	}
	hx.E.Case(nontrivial, key, classes...)
	for k, v := range st.exitsDyn {
		hx.E.Class("exit.dyn."+k, int64(v))
	}
	hx.E.Class("n.contended-wants", int64(st.contended))
	hx.E.Class("n.overlaps", int64(st.overlap))
	hx.E.Class("n.reentries", int64(st.reentries))
	hx.E.Class("n.caught", int64(st.caught))
	hx.E.Class("n.later-entrant-after-nonfall-exit", int64(st.afterNonFal))
	hx.E.Class("n.monitor-reads", int64(st.monitorObs))
	if st.tableStale > 0 {
		hx.E.Class("monitor.table-disagrees-with-thread-inside", int64(st.tableStale))
	}
	if nontrivial {
		hx.E.Sample(key, map[string]interface{}{"threads": c.Threads, "workers": c.Workers, "program": src,
			"contended": st.contended, "exits": st.exitsDyn, "overlaps": st.overlap, "reentries": st.reentries})
	}
}

// TestRegress replays committed cases. Outcomes depend on the schedule, so every
// case is executed several times.
func TestRegress(t *testing.T) {
	hx.Regress(t, func(c Case) *hx.Failure {
		for i := 0; i < 25; i++ {
			if f := runCase(c); f != nil {
				return f
			}
		}
		return nil
	})
}

// TestExhaustive runs the fixed list of directed cases (sharded).
func TestExhaustive(t *testing.T) {
	noteAssumptions()
	cases := directedCases()
	hx.Enumerate(t, "directed", func(yield func(Case) bool) {
		for _, c := range cases {
			if !yield(c) {
				return
			}
		}
	}, func(c Case) *hx.Failure {
		f := runCase(c)
		violated = violated || f != nil
		return f
	})
	hx.E.Exhaustive("directed", map[string]interface{}{"cases": len(cases), "what": "different names overlap (every ordered pair x creation kinds); exclusion with a parked holder x every exit kind x caught/propagating; re-entry depth 3 under contention"})
	failInconclusive(t)
}

func TestProp(t *testing.T) {
	if violated {
		t.Skip("the directed cases already found a violation (its replay file is kept)")
	}
	noteAssumptions()
	hx.Check(t, drawCase, runCase)
	failInconclusive(t)
}

// failInconclusive makes the shard exit non-zero without a replay file, which
// the driver reports as INCONCLUSIVE (exit 2), never as a violation.
func failInconclusive(t *testing.T) {
	if len(inconclusive) > 0 {
		t.Fatalf("INCONCLUSIVE (not a verdict): %d case(s): %v", len(inconclusive), inconclusive[0])
	}
}
