package c12

// The statement language of generated thread bodies and its ECAL printer.

import (
	"fmt"
	"strings"
)

// Stmt kinds
const (
	kBlock  = "block"  // mutex block over name N with body B, left by exit X
	kIncr   = "incr"   // read - yield(I) - write increment of the shared ECAL counter of name N (only inside a block of N)
	kYield  = "yield"  // probe.yield(I)
	kHold   = "hold"   // probe.hold(name N, I microseconds) (only inside a block of N)
	kTry    = "try"    // try { B } except { probe.caught }
	kLoop   = "loop"   // for v in [1, .., I] { B }
	kCall   = "call"   // helper function with body B, called once
	kAwait  = "await"  // block on rendezvous Key (directed cases)
	kSignal = "signal" // release rendezvous Key (directed cases)
)

// Exit kinds of a block
const (
	xFall     = "fall"
	xRtErr    = "rterr"    // runtime error: 1 + "a"
	xRaise    = "raise"    // raise("c12err", ...)
	xReturn   = "return"   // return from the enclosing function
	xBreak    = "break"    // break of the enclosing loop
	xContinue = "continue" // continue of the enclosing loop
)

var exitKinds = []string{xFall, xRtErr, xRaise, xReturn, xBreak, xContinue}

// Stmt is one statement of a thread body.
type Stmt struct {
	K   string `json:"k"`
	N   int    `json:"n,omitempty"` // mutex name index (1..3)
	X   string `json:"x,omitempty"` // exit kind of a block
	I   int    `json:"i,omitempty"` // yield amount / loop count / hold microseconds
	Key string `json:"key,omitempty"`
	B   []Stmt `json:"b,omitempty"`
}

// Body is the code of one kind of thread.
type Body struct {
	Stmts  []Stmt `json:"stmts"`
	Inline bool   `json:"inline,omitempty"` // sink threads: statements directly in the sink body instead of a function call
}

func mname(n int) string { return fmt.Sprintf("m%d", n) }

type printer struct {
	body    int
	uniq    int
	helpers []string
}

func (p *printer) next() int { p.uniq++; return p.uniq }

func (p *printer) stmts(ss []Stmt, ind string) string {
	var sb strings.Builder
	for _, s := range ss {
		sb.WriteString(p.stmt(s, ind))
	}
	return sb.String()
}

func (p *printer) stmt(s Stmt, ind string) string {
	var sb strings.Builder
	w := func(format string, a ...interface{}) {
		sb.WriteString(ind)
		fmt.Fprintf(&sb, format, a...)
		sb.WriteString("\n")
	}
	switch s.K {
	case kBlock:
		m := mname(s.N)
		w(`probe.want("%s", id)`, m)
		w(`mutex %s {`, m)
		w(`    probe.enter("%s", id)`, m)
		w(`    try {`)
		sb.WriteString(p.stmts(s.B, ind+"        "))
		in := ind + "        "
		switch s.X {
		case xRtErr:
			sb.WriteString(in + fmt.Sprintf("probe.leaving(\"%s\", id, \"rterr\")\n", m))
			sb.WriteString(in + "let z := 1 + \"a\"\n")
		case xRaise:
			sb.WriteString(in + fmt.Sprintf("probe.leaving(\"%s\", id, \"raise\")\n", m))
			sb.WriteString(in + "raise(\"c12err\", \"left the block\", [id])\n")
		case xReturn:
			sb.WriteString(in + fmt.Sprintf("probe.leaving(\"%s\", id, \"return\")\n", m))
			sb.WriteString(in + "return id\n")
		case xBreak:
			sb.WriteString(in + fmt.Sprintf("probe.leaving(\"%s\", id, \"break\")\n", m))
			sb.WriteString(in + "break\n")
		case xContinue:
			sb.WriteString(in + fmt.Sprintf("probe.leaving(\"%s\", id, \"continue\")\n", m))
			sb.WriteString(in + "continue\n")
		}
		w(`        probe.fall("%s", id)`, m)
		w(`    } finally {`)
		w(`        probe.exit("%s", id)`, m)
		w(`    }`)
		w(`}`)
	case kIncr:
		v := fmt.Sprintf("c%d", p.next())
		w(`let %s := g%d`, v, s.N)
		w(`probe.yield(%d)`, s.I)
		w(`g%d := %s + 1`, s.N, v)
		w(`probe.did("%s", id)`, mname(s.N))
	case kYield:
		w(`probe.yield(%d)`, s.I)
	case kHold:
		w(`probe.hold("%s", id, %d)`, mname(s.N), s.I)
	case kTry:
		w(`try {`)
		sb.WriteString(p.stmts(s.B, ind+"    "))
		w(`} except {`)
		w(`    probe.caught(id)`)
		w(`}`)
	case kLoop:
		n := s.I
		if n < 1 {
			n = 1
		}
		items := make([]string, n)
		for i := range items {
			items[i] = fmt.Sprint(i + 1)
		}
		w(`for i%d in [%s] {`, p.next(), strings.Join(items, ", "))
		sb.WriteString(p.stmts(s.B, ind+"    "))
		w(`}`)
	case kCall:
		name := fmt.Sprintf("h%dx%d", p.body, p.next())
		h := fmt.Sprintf("func %s(id) {\n%s}\n", name, p.stmts(s.B, "    "))
		p.helpers = append(p.helpers, h)
		w(`%s(id)`, name)
	case kAwait:
		w(`probe.await("%s", id)`, s.Key)
	case kSignal:
		w(`probe.signal("%s", id)`, s.Key)
	}
	return sb.String()
}

// program renders the whole ECAL program of a case: shared counters, helper
// functions, one function and one sink per body, the cascade starter and the
// kick sink.
func program(c Case) string {
	var sb strings.Builder
	sb.WriteString("g1 := 0\ng2 := 0\ng3 := 0\n")
	var helpers, funcs, sinks []string
	for bi, b := range c.Bodies {
		p := &printer{body: bi}
		inner := p.stmts(b.Stmts, "        ")
		funcs = append(funcs, fmt.Sprintf("func body%d(id) {\n    probe.start(id)\n    try {\n%s    } finally {\n        probe.done(id)\n    }\n}\n", bi, inner))
		helpers = append(helpers, p.helpers...)
		if b.Inline {
			// helper functions are shared with the function form (same names, same text)
			sinks = append(sinks, fmt.Sprintf("sink s%d kindmatch [\"c12.b%d\"] {\n    let id := event.state.id\n    probe.start(id)\n    try {\n%s    } finally {\n        probe.done(id)\n    }\n}\n", bi, bi, inner))
		} else {
			sinks = append(sinks, fmt.Sprintf("sink s%d kindmatch [\"c12.b%d\"] {\n    body%d(event.state.id)\n}\n", bi, bi, bi))
		}
	}
	for _, h := range helpers {
		sb.WriteString(h)
	}
	for _, f := range funcs {
		sb.WriteString(f)
	}
	needSinks := false
	var cascade []string
	for i, t := range c.Threads {
		if t.Via != viaDirect {
			needSinks = true
		}
		if t.Via == viaCascade {
			cascade = append(cascade, fmt.Sprintf("    addEvent(\"c12.b%d\", \"c12.b%d\", {\"id\": %d})\n", t.Body, t.Body, i))
		}
	}
	if needSinks {
		for _, s := range sinks {
			sb.WriteString(s)
		}
		sb.WriteString("sink kick kindmatch [\"c12.kick\"] {\n    probe.yield(0)\n}\n")
		if len(cascade) > 0 {
			sb.WriteString("sink start kindmatch [\"c12.start\"] {\n" + strings.Join(cascade, "") + "}\n")
		}
	}
	return sb.String()
}
