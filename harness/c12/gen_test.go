package c12

// Generators: rapid draw of random cases and the fixed list of directed cases.

import (
	"fmt"

	"pgregory.net/rapid"

	"verif/internal/hx"
)

type gctx struct {
	rt     *rapid.T
	names  int
	held   []int // names of the blocks the thread is inside of, outermost first
	inLoop bool  // a loop of the same function encloses the position
	level  int   // statement nesting (bounds the recursion)
	blocks *int  // blocks left for this body
}

func (g gctx) maxHeld() int {
	m := 0
	for _, h := range g.held {
		if h > m {
			m = h
		}
	}
	return m
}

func (g gctx) holds(n int) bool {
	for _, h := range g.held {
		if h == n {
			return true
		}
	}
	return false
}

var yieldAmounts = []int{0, 1, 2, 3, 20, 50, 100}

func drawStmts(g gctx, max int) []Stmt {
	n := rapid.IntRange(1, max).Draw(g.rt, "nstmts")
	var out []Stmt
	for i := 0; i < n; i++ {
		out = append(out, drawStmt(g)...)
	}
	return out
}

func drawStmt(g gctx) []Stmt {
	type opt struct {
		k string
		w int
	}
	var opts []opt
	if len(g.held) < 3 && *g.blocks > 0 && g.level < 7 {
		opts = append(opts, opt{kBlock, 6})
	}
	if len(g.held) > 0 {
		opts = append(opts, opt{kIncr, 3}, opt{kHold, 1})
	}
	opts = append(opts, opt{kYield, 1})
	if g.level < 5 && *g.blocks > 0 {
		opts = append(opts, opt{kTry, 1}, opt{kLoop, 1}, opt{kCall, 1})
	}
	total := 0
	for _, o := range opts {
		total += o.w
	}
	pick := rapid.IntRange(0, total-1).Draw(g.rt, "kind")
	kind := ""
	for _, o := range opts {
		if pick < o.w {
			kind = o.k
			break
		}
		pick -= o.w
	}
	sub := g
	sub.level++
	switch kind {
	case kBlock:
		return drawBlock(g)
	case kIncr:
		return []Stmt{{K: kIncr, N: rapid.SampledFrom(g.held).Draw(g.rt, "incrname"), I: rapid.SampledFrom(yieldAmounts).Draw(g.rt, "incryield")}}
	case kHold:
		return []Stmt{{K: kHold, N: rapid.SampledFrom(g.held).Draw(g.rt, "holdname"), I: rapid.SampledFrom([]int{50, 100, 300}).Draw(g.rt, "holdus")}}
	case kTry:
		return []Stmt{{K: kTry, B: drawStmts(sub, 2)}}
	case kLoop:
		sub.inLoop = true
		return []Stmt{{K: kLoop, I: rapid.IntRange(1, 3).Draw(g.rt, "loopn"), B: drawStmts(sub, 2)}}
	case kCall:
		sub.inLoop = false
		return []Stmt{{K: kCall, B: drawStmts(sub, 2)}}
	}
	return []Stmt{{K: kYield, I: rapid.SampledFrom(yieldAmounts).Draw(g.rt, "yield")}}
}

func drawBlock(g gctx) []Stmt {
	*g.blocks--
	// name: re-enter a held name, or take a new one above everything held (global order)
	var cands []int
	for n := 1; n <= g.names; n++ {
		if g.holds(n) || n > g.maxHeld() {
			cands = append(cands, n)
		}
	}
	name := rapid.SampledFrom(cands).Draw(g.rt, "name")
	x := xFall
	if rapid.IntRange(0, 9).Draw(g.rt, "exitfall") >= 5 {
		x = rapid.SampledFrom(exitKinds[1:]).Draw(g.rt, "exit")
	}
	sub := g
	sub.level += 2
	sub.held = append(append([]int{}, g.held...), name)

	wrap := ""
	switch x {
	case xBreak, xContinue:
		if !g.inLoop {
			wrap = kLoop
			sub.inLoop = true
		}
	case xRtErr, xRaise:
		if rapid.IntRange(0, 9).Draw(g.rt, "catch") < 6 {
			wrap = kTry
		}
	case xReturn:
		if rapid.IntRange(0, 9).Draw(g.rt, "infunc") < 7 {
			wrap = kCall
			sub.inLoop = false
		}
	}
	var body []Stmt
	if rapid.IntRange(0, 9).Draw(g.rt, "incrfirst") < 6 {
		body = append(body, Stmt{K: kIncr, N: name, I: rapid.SampledFrom(yieldAmounts).Draw(g.rt, "incryield")})
	}
	body = append(body, drawStmts(sub, 2)...)
	blk := Stmt{K: kBlock, N: name, X: x, B: body}
	switch wrap {
	case kLoop:
		return []Stmt{{K: kLoop, I: rapid.IntRange(1, 3).Draw(g.rt, "loopn"), B: []Stmt{blk}}}
	case kTry:
		return []Stmt{{K: kTry, B: []Stmt{blk}}}
	case kCall:
		return []Stmt{{K: kCall, B: []Stmt{blk}}}
	}
	return []Stmt{blk}
}

func drawCase(rt *rapid.T) Case {
	names := rapid.SampledFrom([]int{1, 2, 2, 3, 3}).Draw(rt, "names")
	nthreads := rapid.OneOf(rapid.IntRange(2, 4), rapid.IntRange(2, 8), rapid.IntRange(2, 16)).Draw(rt, "threads")
	nb := 4
	if nthreads < nb {
		nb = nthreads
	}
	nbodies := rapid.IntRange(1, nb).Draw(rt, "bodies")
	c := Case{}
	for i := 0; i < nbodies; i++ {
		maxBlocks := 6
		if hx.Thorough() {
			maxBlocks = 10
		}
		blocks := rapid.IntRange(1, maxBlocks).Draw(rt, "blocks")
		g := gctx{rt: rt, names: names, blocks: &blocks}
		// a body starts with a block so that every thread takes part
		stmts := drawBlock(g)
		stmts = append(stmts, drawStmts(g, 3)...)
		c.Bodies = append(c.Bodies, Body{Stmts: stmts, Inline: rapid.Bool().Draw(rt, "inline")})
	}
	mode := rapid.SampledFrom([]string{viaDirect, viaEvent, viaCascade, "mixed", viaDirect, viaEvent}).Draw(rt, "mode")
	delays := []int{0, 0, 1, 3, 20, 100}
	sinks := false
	for i := 0; i < nthreads; i++ {
		via := mode
		if mode == "mixed" {
			via = rapid.SampledFrom([]string{viaDirect, viaEvent, viaCascade}).Draw(rt, "via")
		}
		if via != viaDirect {
			sinks = true
		}
		c.Threads = append(c.Threads, Thread{Body: rapid.IntRange(0, nbodies-1).Draw(rt, "body"), Via: via, Delay: rapid.SampledFrom(delays).Draw(rt, "delay")})
	}
	if sinks {
		c.Workers = rapid.OneOf(rapid.IntRange(2, 4), rapid.IntRange(2, 16)).Draw(rt, "workers")
		c.Restart = rapid.IntRange(0, 3).Draw(rt, "restart") == 0
	}
	if rapid.IntRange(0, 2).Draw(rt, "monitor") == 0 {
		c.Monitor = Monitor{On: true, Hold: rapid.SampledFrom([]int{0, 1, 20, 50}).Draw(rt, "mhold"), Gap: rapid.SampledFrom([]int{0, 1, 20, 100}).Draw(rt, "mgap")}
	}
	return c
}

// ---------------------------------------------------------------------------------
// directed cases

func wrapFor(x string, blk Stmt, caught bool) []Stmt {
	s := blk
	switch x {
	case xBreak, xContinue:
		s = Stmt{K: kLoop, I: 2, B: []Stmt{s}}
	case xReturn:
		s = Stmt{K: kCall, B: []Stmt{s}}
	}
	if caught {
		s = Stmt{K: kTry, B: []Stmt{s}}
	}
	return []Stmt{s}
}

func directedCases() []Case {
	var out []Case
	type vp struct{ a, b string }
	pairs := []vp{{viaDirect, viaDirect}, {viaEvent, viaEvent}, {viaDirect, viaEvent}, {viaCascade, viaCascade}}

	// D1: blocks of different names do not exclude each other. Thread 0 stays inside a
	// block of name a until thread 1 is inside a block of name b.
	for a := 1; a <= 3; a++ {
		for b := 1; b <= 3; b++ {
			if a == b {
				continue
			}
			for _, p := range pairs {
				out = append(out, Case{
					Note: fmt.Sprintf("D1 different names m%d/m%d overlap (%s,%s)", a, b, p.a, p.b),
					Bodies: []Body{
						{Stmts: []Stmt{{K: kBlock, N: a, X: xFall, B: []Stmt{{K: kSignal, Key: "a-inside"}, {K: kAwait, Key: "b-inside"}, {K: kIncr, N: a, I: 1}}}}},
						{Stmts: []Stmt{{K: kAwait, Key: "a-inside"}, {K: kBlock, N: b, X: xFall, B: []Stmt{{K: kSignal, Key: "b-inside"}, {K: kIncr, N: b, I: 1}}}}},
					},
					Threads: []Thread{{Body: 0, Via: p.a}, {Body: 1, Via: p.b}},
					Workers: 2 + (a+b)%3,
					Expect:  map[string]string{"b-inside": "different-names-exclude"},
				})
			}
		}
	}

	// D2: exclusion and release with a holder that stays inside until the other thread
	// has announced itself, for every exit kind, caught or propagating.
	for _, x := range exitKinds {
		for _, caught := range []bool{false, true} {
			for _, p := range pairs[:3] {
				holder := Stmt{K: kBlock, N: 1, X: x, B: []Stmt{{K: kSignal, Key: "a-inside"}, {K: kHold, N: 1, I: 2000}, {K: kIncr, N: 1, I: 50}}}
				out = append(out, Case{
					Note: fmt.Sprintf("D2 holder leaves by %s caught=%v (%s,%s)", x, caught, p.a, p.b),
					Bodies: []Body{
						{Stmts: wrapFor(x, holder, caught)},
						{Stmts: []Stmt{{K: kAwait, Key: "a-inside"}, {K: kBlock, N: 1, X: xFall, B: []Stmt{{K: kIncr, N: 1, I: 0}}}}},
					},
					Threads: []Thread{{Body: 0, Via: p.a}, {Body: 1, Via: p.b}, {Body: 1, Via: p.b}},
					Workers: 3,
				})
			}
		}
	}

	// D3: re-entry three deep (also with another name in between) under contention.
	for _, x := range []string{xFall, xRaise, xReturn} {
		for _, mid := range []int{1, 2} {
			for _, p := range pairs[:3] {
				inner := Stmt{K: kBlock, N: 1, X: x, B: []Stmt{{K: kIncr, N: 1, I: 20}}}
				middle := Stmt{K: kBlock, N: mid, X: xFall, B: []Stmt{{K: kIncr, N: mid, I: 3}, inner, {K: kIncr, N: 1, I: 3}}}
				outer := Stmt{K: kBlock, N: 1, X: xFall, B: []Stmt{{K: kSignal, Key: "a-inside"}, {K: kHold, N: 1, I: 2000}, middle, {K: kIncr, N: 1, I: 3}}}
				out = append(out, Case{
					Note: fmt.Sprintf("D3 re-entry m1>m%d>m1 inner exit %s (%s,%s)", mid, x, p.a, p.b),
					Bodies: []Body{
						{Stmts: wrapFor(x, outer, x != xFall)},
						{Stmts: []Stmt{{K: kAwait, Key: "a-inside"}, {K: kBlock, N: 1, X: xFall, B: []Stmt{{K: kBlock, N: 1, X: xFall, B: []Stmt{{K: kIncr, N: 1, I: 0}}}}}}},
					},
					Threads: []Thread{{Body: 0, Via: p.a}, {Body: 1, Via: p.b}, {Body: 1, Via: p.b}},
					Workers: 4,
					Monitor: Monitor{On: mid == 2, Hold: 5, Gap: 5},
				})
			}
		}
	}
	return out
}
