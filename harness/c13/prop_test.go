// C13 - parsing is a pure, re-entrant function of its input.
//
// Domain: sets of 2-16 program texts (own grammar + example corpus + invalid
// mutations) parsed concurrently from 2-16 goroutines, every text about
// 50-500 times, without a runtime provider, with ONE shared
// interpreter.ECALRuntimeProvider (the documented embedding pattern) or with a
// provider per goroutine (what a debug console does); with a provider the
// parsing goroutines also Validate every tree and evaluate small terminating
// programs which interpolate strings and import files (both parse at run
// time); optionally, at the same time, sinks on a started processor with
// several workers import files through a MemoryImportLocator and interpolate
// strings.
//
// Oracle: every concurrent result (canonical rendering of tree + token data +
// runtime component types + pretty print, or the error text) equals the
// result of the same text parsed first on one goroutine; the sink output
// equals the output of the same events processed one by one; runtime
// component ids built concurrently are unique; the process does not die with
// the runtime's "concurrent map" abort (write-ahead case file); in a -race
// build no race report whose two racing accesses are in parser/ or in the
// construction of runtime components (interpreter: newBaseRuntime, *Inst,
// provider) - internal/racefilter reads the detector's log after every case.
package c13

import (
	"fmt"
	"os"
	"reflect"
	"regexp"
	"runtime"
	"sort"
	"strconv"
	"strings"
	"sync"
	"sync/atomic"
	"syscall"
	"testing"
	"time"

	"pgregory.net/rapid"

	"github.com/krotik/ecal/engine"
	"github.com/krotik/ecal/interpreter"
	"github.com/krotik/ecal/parser"
	"github.com/krotik/ecal/scope"
	"github.com/krotik/ecal/util"

	"verif/internal/hx"
	"verif/internal/racefilter"
)

const rule = "case = (set of 2-16 program texts from an own ECAL grammar / the example corpus / invalid mutations, goroutine count 2-16, repetitions, provider mode none|shared|fresh, optional sink workload with run-time imports and string interpolation on a started processor); every program is parsed concurrently and compared with its sequential result; non-trivial = at least one program of the set contains an if/for token and at least one OTHER program parses to a tree with a map literal, and >= 2 goroutines parse; distinct by (sorted program set, goroutine count)"

// Event is one event sent to the sinks of Case.Main.
type Event struct {
	Kind string `json:"kind"`
	N    int    `json:"n"`
}

// Case is one concurrent workload. Everything random is in here.
type Case struct {
	Progs      []string `json:"progs"`
	Goroutines int      `json:"goroutines"`
	Reps       int      `json:"reps"`            // every program is parsed about Reps times in total (erroneous ones less, see invalidCap)
	Provider   string   `json:"provider"`        // none | shared | fresh
	Pretty     bool     `json:"pretty"`          // also pretty print every tree concurrently
	Evals      []string `json:"evals,omitempty"` // terminating programs which the parsing goroutines also validate and evaluate (provider attached only)

	// evaluation workload running at the same time (Main == "" : none)
	Main    string            `json:"main,omitempty"`  // sink declarations
	Files   map[string]string `json:"files,omitempty"` // import path -> text
	Workers int               `json:"workers,omitempty"`
	Posters int               `json:"posters,omitempty"` // host goroutines sending the events
	Events  []Event           `json:"events,omitempty"`
}

// Programs whose parse fails may leave their lexer goroutine blocked for ever
// (C07 behaviour of older trees). TestMain probes for that; if it happens such
// programs are parsed at most invalidCap times per case (in total, spread over
// the first goroutines) so that 10^5 cases do not accumulate goroutines. This
// is resource protection only - no verdict depends on it.
var invalidCap = 1 << 30

func probeLexerLeak() {
	before := runtime.NumGoroutine()
	text := "a := 1\n)\n" + strings.Repeat("b := [1, 2, 3, 4]\n", 20)
	for i := 0; i < 30; i++ {
		func() {
			defer func() { recover() }()
			parser.Parse("c13probe", text)
		}()
	}
	for i := 0; i < 100 && runtime.NumGoroutine() > before+3; i++ {
		time.Sleep(2 * time.Millisecond)
	}
	if runtime.NumGoroutine() > before+3 {
		invalidCap = 8
	}
}

var (
	racePkgs = []string{"github.com/krotik/ecal/parser", "github.com/krotik/ecal/interpreter"}
	// a map literal node in the canonical rendering
	mapNodeRe = regexp.MustCompile(`(?m)^ *` + parser.NodeMAP + ` t\d+@`)
	// functions of package interpreter which construct runtime components
	constructionRe = regexp.MustCompile(`^interpreter\.(newBaseRuntime|[A-Za-z0-9_]*Inst|\(\*ECALRuntimeProvider\)\.Runtime|NewECALRuntimeProvider)(\.func\d+)*$`)

	raceTail     *racefilter.Tail
	raceSeen     int64 // reports read by runCase
	raceKept     int64
	lastCase     *Case
	lastCaseLock sync.Mutex
	caseFailed   atomic.Bool // a case of TestProp has already been reported
)

func TestMain(m *testing.M) {
	if raceEnabled {
		lp := racefilter.LogPath(os.Getenv("GORACE"))
		if lp == "" && os.Getenv("VERIF_C13_REEXEC") == "" {
			// started by hand without a log path: run again with one, so that reports can be read back
			if dir, err := os.MkdirTemp("", "verif-c13-race-"); err == nil {
				if exe, err := os.Executable(); err == nil {
					env := append(os.Environ(), "VERIF_C13_REEXEC="+dir,
						"GORACE=log_path="+dir+"/race halt_on_error=0 exitcode=0 "+os.Getenv("GORACE"))
					syscall.Exec(exe, os.Args, env)
				}
			}
		}
		if lp != "" {
			raceTail = racefilter.NewTail(lp)
		}
	}
	loadCorpus()
	probeLexerLeak()
	hx.Main(m, "C13", rule)
}

// ---------------------------------------------------------------------------
// canonical rendering

var idIndex sync.Map // reflect.Type -> []int (index path of instanceID) or nil

// instanceID reads the id of a runtime component (unexported string field
// instanceID of the embedded baseRuntime).
func instanceID(rt parser.Runtime) (uint64, bool) {
	v := reflect.ValueOf(rt)
	if v.Kind() != reflect.Ptr || v.IsNil() {
		return 0, false
	}
	v = v.Elem()
	if v.Kind() != reflect.Struct {
		return 0, false
	}
	t := v.Type()
	idx, ok := idIndex.Load(t)
	if !ok {
		var path []int
		if f, found := t.FieldByName("instanceID"); found && f.Type.Kind() == reflect.String {
			path = f.Index
		}
		idx, _ = idIndex.LoadOrStore(t, path)
	}
	path := idx.([]int)
	if path == nil {
		return 0, false
	}
	var s string
	func() {
		defer func() { recover() }()
		s = v.FieldByIndex(path).String()
	}()
	n, err := strconv.ParseUint(s, 10, 64)
	return n, err == nil
}

func walk(sb *strings.Builder, n *parser.ASTNode, depth int, ids *[]uint64) {
	for i := 0; i < depth; i++ {
		sb.WriteString("  ")
	}
	if n == nil {
		sb.WriteString("<nil>\n")
		return
	}
	sb.WriteString(n.Name)
	if t := n.Token; t != nil {
		sb.WriteString(" t")
		sb.WriteString(strconv.Itoa(int(t.ID)))
		sb.WriteString("@")
		sb.WriteString(strconv.Itoa(t.Pos))
		sb.WriteString(" ")
		sb.WriteString(strconv.Itoa(t.Lline))
		sb.WriteString(":")
		sb.WriteString(strconv.Itoa(t.Lpos))
		sb.WriteString(" ")
		sb.WriteString(strconv.Quote(t.Val))
		if t.Identifier {
			sb.WriteString(" ident")
		}
		if t.AllowEscapes {
			sb.WriteString(" esc")
		}
		sb.WriteString(" src=")
		sb.WriteString(t.Lsource)
	}
	for _, m := range n.Meta {
		sb.WriteString(" #")
		sb.WriteString(m.Type())
		sb.WriteString("=")
		sb.WriteString(strconv.Quote(m.Value()))
	}
	if n.Runtime != nil {
		sb.WriteString(" rt=")
		sb.WriteString(reflect.TypeOf(n.Runtime).String())
		if ids != nil {
			if id, ok := instanceID(n.Runtime); ok {
				*ids = append(*ids, id)
			}
		}
	}
	sb.WriteString("\n")
	for _, c := range n.Children {
		walk(sb, c, depth+1, ids)
	}
}

func prettyGuarded(ast *parser.ASTNode) (out string) {
	defer func() {
		if r := recover(); r != nil {
			out = "PP-PANIC: " + fmt.Sprint(r)
		}
	}()
	s, err := parser.PrettyPrint(ast)
	if err != nil {
		return "PP-ERROR: " + err.Error()
	}
	return s
}

// parseOnce parses a text and renders the outcome. A panic inside the parser
// is an outcome like any other here (it is the business of C07): it only has
// to be the same outcome as on one goroutine.
// a statement whose identifiers are replaced by never seen ones for every concurrent parse
const (
	freshA        = "fwAAAAAAAAAA"
	freshB        = "gwBBBBBBBBBB"
	freshTemplate = freshA + " := " + freshB + "." + freshA + "(" + freshB + ", 1) + " + freshA + " # " + freshB + "\nif " + freshA + " {\n    " + freshB + " := {\"" + freshA + "\" : " + freshB + "}\n}\n"
)

var (
	freshSerial atomic.Int64
	freshOnce   [2]sync.Once
	freshExp    [2]string
)

// freshExpected is the sequential result for the template (placeholder names), without / with a runtime provider.
func freshExpected(withProvider bool) string {
	k := 0
	if withProvider {
		k = 1
	}
	freshOnce[k].Do(func() {
		var rp *interpreter.ECALRuntimeProvider
		if withProvider {
			rp = newProvider(nil, nil, 0)
			defer closeProvider(rp, false)
		}
		freshExp[k] = parseOnce(freshTemplate, rp, false, nil)
	})
	return freshExp[k]
}

func parseOnce(text string, rp *interpreter.ECALRuntimeProvider, pretty bool, ids *[]uint64) (out string) {
	defer func() {
		if r := recover(); r != nil {
			out = "PANIC: " + fmt.Sprint(r)
		}
	}()
	var ast *parser.ASTNode
	var err error
	if rp == nil {
		ast, err = parser.Parse("c13", text)
	} else {
		ast, err = parser.ParseWithRuntime("c13", text, rp)
	}
	var sb strings.Builder
	if err != nil {
		sb.WriteString("ERROR: ")
		sb.WriteString(err.Error())
		sb.WriteString("\n")
	}
	if ast != nil {
		walk(&sb, ast, 0, ids)
		if pretty && err == nil {
			sb.WriteString("PRETTY:\n")
			sb.WriteString(prettyGuarded(ast))
		}
		if rp != nil && err == nil && ast.Runtime != nil {
			sb.WriteString("\nVALIDATE: ")
			sb.WriteString(fmt.Sprint(ast.Runtime.Validate()))
		}
	}
	return sb.String()
}

// evalOnce parses, validates and evaluates a (terminating) program in a fresh scope.
func evalOnce(text string, rp *interpreter.ECALRuntimeProvider, tid uint64) (out string) {
	defer func() {
		if r := recover(); r != nil {
			out = "PANIC: " + fmt.Sprint(r)
		}
	}()
	ast, err := parser.ParseWithRuntime("c13eval", text, rp)
	if err != nil {
		return "PARSE ERROR: " + err.Error()
	}
	if err = ast.Runtime.Validate(); err != nil {
		return "VALIDATE ERROR: " + err.Error()
	}
	res, err := ast.Runtime.Eval(scope.NewScope(scope.GlobalScope), make(map[string]interface{}), tid)
	if err != nil {
		return "EVAL ERROR: " + err.Error()
	}
	return "RESULT: " + fmt.Sprint(res)
}

// ---------------------------------------------------------------------------
// evaluation environment

type collectLogger struct {
	mu    sync.Mutex
	lines []string
}

func (l *collectLogger) add(level string, v []interface{}) {
	s := level + " " + fmt.Sprint(v...)
	l.mu.Lock()
	l.lines = append(l.lines, s)
	l.mu.Unlock()
}
func (l *collectLogger) LogError(v ...interface{}) { l.add("error", v) }
func (l *collectLogger) LogInfo(v ...interface{})  { l.add("info", v) }
func (l *collectLogger) LogDebug(v ...interface{}) { l.add("debug", v) }

type evalEnv struct {
	erp    *interpreter.ECALRuntimeProvider
	logger *collectLogger
}

func newProvider(files map[string]string, logger util.Logger, workers int) *interpreter.ECALRuntimeProvider {
	if logger == nil {
		logger = util.NewNullLogger()
	}
	erp := interpreter.NewECALRuntimeProvider("c13", &util.MemoryImportLocator{Files: files}, logger)
	// No workload here uses cron triggers. Stop the cron goroutine right away: later
	// (after its first 1 s tick) Cron.Stop of krotik/common can deadlock with the
	// tick - Stop holds the cron lock while it hands over on an unbuffered channel
	// and the cron loop takes that lock after every tick. Before the first tick the
	// loop can only be in its select, so this handshake always completes.
	// (Guarded all the same: should the handshake ever get stuck the two goroutines are
	// abandoned and counted - never a verdict.)
	stopped := make(chan struct{})
	go func() { erp.Cron.Stop(); close(stopped) }()
	select {
	case <-stopped:
	case <-time.After(10 * time.Second):
		hx.E.Class("cron-stop-stuck", 1)
	}
	if workers > 0 && workers != erp.Processor.Workers() {
		erp.Processor = engine.NewProcessor(workers)
		erp.Processor.SetFailOnFirstErrorInTriggerSequence(true)
	}
	return erp
}

func closeProvider(erp *interpreter.ECALRuntimeProvider, started bool) {
	if started {
		erp.Processor.Finish()
	}
	// the cron goroutine was already stopped in newProvider
}

// newEvalEnv declares the sinks of c.Main on a fresh provider and starts the processor.
func newEvalEnv(c Case, workers int) (env *evalEnv, err error) {
	env = &evalEnv{logger: &collectLogger{}}
	env.erp = newProvider(c.Files, env.logger, workers)
	defer func() {
		if r := recover(); r != nil {
			err = fmt.Errorf("panic: %v", r)
		}
		if err != nil {
			closeProvider(env.erp, false)
		}
	}()
	ast, err := parser.ParseWithRuntime("main", c.Main, env.erp)
	if err != nil {
		return env, err
	}
	if err = ast.Runtime.Validate(); err != nil {
		return env, err
	}
	vs := scope.NewScope(scope.GlobalScope)
	if _, err = ast.Runtime.Eval(vs, make(map[string]interface{}), env.erp.NewThreadID()); err != nil {
		return env, err
	}
	env.erp.Processor.Start()
	return env, nil
}

func (env *evalEnv) close() { closeProvider(env.erp, true) }

// post sends the events from the given number of host goroutines and returns
// the sorted outcome lines (log lines of the sinks and sink errors).
func (env *evalEnv) post(events []Event, posters int, start <-chan struct{}) []string {
	var mu sync.Mutex
	var errs []string
	var wg sync.WaitGroup
	proc := env.erp.Processor
	stopKick, kickDone := make(chan struct{}), make(chan struct{})
	{
		// Keep the pool ticking: a task queued between a worker's empty poll and its
		// wait is only picked up at the next AddTask (known C09 behaviour), and
		// AddEventAndWait would then wait for ever. The generated sink program
		// declares an empty sink for kind c13.tick; an event for it every
		// millisecond is that next AddTask. No verdict depends on it or on time.
		go func() {
			defer close(kickDone)
			tk := time.NewTicker(time.Millisecond)
			defer tk.Stop()
			var outstanding atomic.Int32
			last := time.Now()
			for {
				select {
				case <-stopKick:
					return
				case <-tk.C:
					if outstanding.Load() > 0 && time.Since(last) < 20*time.Millisecond {
						continue // at most one tick in the queue (unless it is the one which got stuck)
					}
					rm := proc.NewRootMonitor(nil, nil)
					rm.SetFinishHandler(func(engine.Processor) { outstanding.Add(-1) })
					outstanding.Add(1)
					if m, _ := proc.AddEvent(engine.NewEvent("tick", []string{"c13", "tick"}, map[interface{}]interface{}{}), rm); m == nil {
						outstanding.Add(-1)
					}
					last = time.Now()
				}
			}
		}()
	}
	for p := 0; p < posters; p++ {
		wg.Add(1)
		go func(p int) {
			defer wg.Done()
			if start != nil {
				<-start
			}
			for i := p; i < len(events); i += posters {
				e := events[i]
				ev := engine.NewEvent("ev-"+e.Kind, strings.Split(e.Kind, "."),
					map[interface{}]interface{}{"id": float64(i), "n": float64(e.N), "go": true})
				m, err := proc.AddEventAndWait(ev, nil)
				var out []string
				if err != nil {
					out = append(out, fmt.Sprintf("ERROR event %d: %v", i, err))
				}
				if m == nil {
					out = append(out, fmt.Sprintf("SKIPPED event %d", i))
				} else {
					for _, te := range m.RootMonitor().AllErrors() {
						var names []string
						for k := range te.ErrorMap {
							names = append(names, k)
						}
						sort.Strings(names)
						for _, k := range names {
							out = append(out, fmt.Sprintf("ERROR event %d sink %s: %v", i, k, te.ErrorMap[k]))
						}
					}
				}
				if len(out) > 0 {
					mu.Lock()
					errs = append(errs, out...)
					mu.Unlock()
				}
			}
		}(p)
	}
	done := make(chan struct{})
	go func() { wg.Wait(); close(done) }()
	select {
	case <-done:
	case <-time.After(10 * time.Minute):
		// not a verdict about C13: give up as infrastructure trouble
		hx.ClearInflight()
		buf := make([]byte, 1<<20)
		fmt.Fprintf(os.Stderr, "INFRA: C13 event workload did not finish within 10 minutes\n%s\n", buf[:runtime.Stack(buf, true)])
		os.Exit(4)
	}
	close(stopKick)
	<-kickDone // no AddEvent may be in flight when the processor is shut down: a task queued after the last worker left would make Finish spin for ever
	env.logger.mu.Lock()
	lines := append([]string{}, env.logger.lines...)
	env.logger.mu.Unlock()
	lines = append(lines, errs...)
	sort.Strings(lines)
	return lines
}

// ---------------------------------------------------------------------------
// the case

var ifForTokens = map[parser.LexTokenID]bool{parser.TokenIF: true, parser.TokenFOR: true}

func hasIfFor(text string) (res bool) {
	defer func() { recover() }()
	for _, t := range parser.LexToList("c13", text) {
		if ifForTokens[t.ID] {
			return true
		}
	}
	return false
}

func clamp(v, lo, hi int) int {
	if v < lo {
		return lo
	}
	if v > hi {
		return hi
	}
	return v
}

func firstDiff(a, b string) string {
	la, lb := strings.Split(a, "\n"), strings.Split(b, "\n")
	for i := 0; i < len(la) || i < len(lb); i++ {
		var x, y string
		if i < len(la) {
			x = la[i]
		}
		if i < len(lb) {
			y = lb[i]
		}
		if x != y {
			return fmt.Sprintf("line %d: sequential %q, concurrent %q", i+1, x, y)
		}
	}
	return "equal"
}

func short(s string, n int) string {
	if len(s) > n {
		return s[:n] + fmt.Sprintf("...(%d bytes)", len(s))
	}
	return s
}

type mismatch struct {
	prog      int
	goroutine int
	iter      int
	got       string
}

func runCase(c Case) *hx.Failure {
	if len(c.Progs) == 0 && c.Main == "" {
		hx.E.Exclude("empty-case")
		return nil
	}
	G := clamp(c.Goroutines, 1, 64)
	reps := clamp(c.Reps, 1, 5000)
	provider := c.Provider
	if provider != "shared" && provider != "fresh" {
		provider = "none"
	}
	evalMode := c.Main != "" && len(c.Events) > 0
	if evalMode {
		provider = "shared" // the sinks and the host parse with the one provider
	}
	P := len(c.Progs)

	lastCaseLock.Lock()
	cc := c
	lastCase = &cc
	lastCaseLock.Unlock()

	// A fatal "concurrent map read and map write" cannot be recovered: leave the case behind first.
	hx.WriteInflight(c)
	defer hx.ClearInflight()

	// --- sequential expectations -------------------------------------------
	var expLines []string
	if evalMode {
		env, err := newEvalEnv(c, 1)
		if err != nil {
			hx.E.Exclude("eval.main-not-runnable")
			evalMode = false
		} else {
			expLines = env.post(c.Events, 1, nil)
			env.close()
			for _, l := range expLines {
				if strings.HasPrefix(l, "ERROR") || strings.HasPrefix(l, "SKIPPED") || strings.Contains(l, "ECAL error") {
					// keep clear of error paths in sinks (shared error variable, C11)
					hx.E.Exclude("eval.baseline-has-errors")
					evalMode = false
					break
				}
			}
		}
	}

	var env *evalEnv
	var shared *interpreter.ECALRuntimeProvider
	if evalMode {
		var err error
		if env, err = newEvalEnv(c, clamp(c.Workers, 1, 16)); err != nil {
			// the same text was set up a moment ago: this is a result which depends on history
			return hx.Failf("wrong-result:setup", "declaring the sinks succeeded on a first provider and failed on a second one: %v\n%s", err, c.Main)
		}
		defer env.close()
		shared = env.erp
	} else if provider == "shared" {
		shared = newProvider(c.Files, nil, 0)
		defer closeProvider(shared, false)
	}

	exp := make([]string, P)
	quota := make([]int, P) // parses per goroutine
	stable := make([]bool, P)
	invalid := make([]bool, P)
	nInvalid, nMap, nIfFor := 0, 0, 0
	ifFor := make([]bool, P)
	isMap := make([]bool, P)
	var seqProvider *interpreter.ECALRuntimeProvider
	if provider == "shared" {
		seqProvider = shared
	} else if provider == "fresh" {
		seqProvider = newProvider(c.Files, nil, 0)
	}
	for i, text := range c.Progs {
		exp[i] = parseOnce(text, seqProvider, c.Pretty, nil)
		stable[i] = parseOnce(text, seqProvider, c.Pretty, nil) == exp[i]
		if !stable[i] {
			hx.E.Exclude("unspecified.sequential-result-varies")
		}
		quota[i] = 1 << 30
		if strings.HasPrefix(exp[i], "ERROR") || strings.HasPrefix(exp[i], "PANIC") {
			nInvalid++
			if invalidCap < 1<<30 {
				quota[i] = max(1, invalidCap/G) // and only on the first invalidCap goroutines, see below
			}
			invalid[i] = true
		} else if mapNodeRe.MatchString(exp[i]) {
			isMap[i] = true
			nMap++
		}
		if ifFor[i] = hasIfFor(text); ifFor[i] {
			nIfFor++
		}
	}
	expEval := make([]string, len(c.Evals))
	stableEval := make([]bool, len(c.Evals))
	if seqProvider != nil {
		tid := seqProvider.NewThreadID()
		for i, text := range c.Evals {
			expEval[i] = evalOnce(text, seqProvider, tid)
			stableEval[i] = evalOnce(text, seqProvider, tid) == expEval[i]
			if !stableEval[i] {
				hx.E.Exclude("unspecified.sequential-eval-varies")
			}
		}
	}
	if provider == "fresh" {
		closeProvider(seqProvider, false)
	}

	nontrivial := false
	if G >= 2 {
		for i := range c.Progs {
			for j := range c.Progs {
				if i != j && ifFor[i] && isMap[j] {
					nontrivial = true
				}
			}
		}
	}
	sorted := append([]string{}, c.Progs...)
	sort.Strings(sorted)
	key := fmt.Sprintf("%d|%s", G, strings.Join(sorted, "\x00"))

	classes := []string{"provider." + provider, "goroutines." + bucket(G), "progs." + bucket(P)}
	if evalMode {
		classes = append(classes, "mode.eval+parse", "workers."+strconv.Itoa(clamp(c.Workers, 1, 16)))
		if strings.Contains(c.Main, "    import ") {
			classes = append(classes, "eval.import-in-sink")
		}
		if strings.Contains(c.Main, "{{") {
			classes = append(classes, "eval.interpolation")
		}
		if strings.Contains(c.Main, "{{ for") {
			classes = append(classes, "eval.iffor-in-interpolation")
		}
	} else {
		classes = append(classes, "mode.parse")
	}
	if c.Pretty {
		classes = append(classes, "pretty")
	}
	if len(c.Evals) > 0 && provider != "none" {
		classes = append(classes, "host-evals")
	}
	if nIfFor > 0 {
		classes = append(classes, "set.has-iffor")
	}
	if nMap > 0 {
		classes = append(classes, "set.has-map")
	}
	if nInvalid > 0 {
		classes = append(classes, "set.has-invalid")
	}
	all := strings.Join(c.Progs, "\n")
	for _, f := range [][2]string{{"import ", "set.has-import"}, {"{{", "set.has-interpolation"}, {"sink ", "set.has-sink"}, {"func ", "set.has-func"}, {"try ", "set.has-try"}, {"#", "set.has-comment"}} {
		if strings.Contains(all, f[0]) {
			classes = append(classes, f[1])
		}
	}
	hx.E.Case(nontrivial, key, classes...)
	if nontrivial {
		hx.E.Sample(key, map[string]interface{}{"goroutines": G, "reps": reps, "provider": provider, "pretty": c.Pretty,
			"progs": shortAll(c.Progs, 160), "events": len(c.Events), "workers": c.Workers, "eval": evalMode})
	}

	// --- concurrent phase -----------------------------------------------------
	var (
		wg        sync.WaitGroup
		stop      atomic.Bool
		mmLock    sync.Mutex
		first     *mismatch
		firstEval *mismatch
		nEvals    atomic.Int64
		idLists   = make([][]uint64, G)
		nParses   atomic.Int64
		nFresh    atomic.Int64
		start     = make(chan struct{})
		gotLines  []string
	)
	iters := 0
	if P > 0 {
		iters = (P*reps + G - 1) / G
	}
	for g := 0; g < G && P > 0; g++ {
		wg.Add(1)
		go func(g int) {
			defer wg.Done()
			<-start
			rp := shared
			if provider == "fresh" {
				rp = newProvider(c.Files, nil, 0)
				defer closeProvider(rp, false)
			}
			var ids *[]uint64
			if rp != nil {
				ids = &idLists[g]
			}
			done := make([]int, P)
			n := 0
			var tid uint64
			if rp != nil {
				tid = rp.NewThreadID()
			}
			for i := 0; i < iters && !stop.Load(); i++ {
				if rp != nil && len(c.Evals) > 0 && i%4 == 3 {
					e := (g + i/4) % len(c.Evals)
					nEvals.Add(1)
					if out := evalOnce(c.Evals[e], rp, tid); out != expEval[e] && stableEval[e] {
						mmLock.Lock()
						if firstEval == nil {
							firstEval = &mismatch{e, g, i, out}
						}
						mmLock.Unlock()
						stop.Store(true)
					}
				}
				if i%2 == 0 {
					// words this process has never lexed before, first seen while other parses run: the expectation is
					// the sequential result of the same statement with placeholder names
					// (names of the placeholders' length: token positions are part of the result)
					n := freshSerial.Add(1)
					a, b := fmt.Sprintf("fw%010d", n), fmt.Sprintf("gw%010d", n)
					out := parseOnce(strings.NewReplacer(freshA, a, freshB, b).Replace(freshTemplate), rp, false, nil)
					if want := strings.NewReplacer(freshA, a, freshB, b).Replace(freshExpected(rp != nil)); out != want {
						mmLock.Lock()
						if first == nil {
							first = &mismatch{-1, g, i, "statement with fresh identifiers " + a + ", " + b + ": " + out + "\nexpected: " + want}
						}
						mmLock.Unlock()
						stop.Store(true)
					}
					nFresh.Add(1)
				}
				p := (g + i) % P
				if done[p] >= quota[p] || invalid[p] && g >= invalidCap {
					continue
				}
				done[p]++
				n++
				out := parseOnce(c.Progs[p], rp, c.Pretty, ids)
				if out != exp[p] && stable[p] {
					mmLock.Lock()
					if first == nil {
						first = &mismatch{p, g, i, out}
					}
					mmLock.Unlock()
					stop.Store(true)
				}
			}
			nParses.Add(int64(n))
		}(g)
	}
	if evalMode {
		wg.Add(1)
		go func() {
			defer wg.Done()
			gotLines = env.post(c.Events, clamp(c.Posters, 1, 8), start)
		}()
	}
	close(start)
	wg.Wait()
	hx.E.Class("parses.concurrent", nParses.Load())
	hx.E.Class("parses.concurrent.fresh-identifiers", nFresh.Load())
	hx.E.Class("host-evals.concurrent", nEvals.Load())
	if evalMode {
		hx.E.Class("events.concurrent", int64(len(c.Events)))
	}

	// --- verdicts -------------------------------------------------------------
	raceFail := checkRaceLog()

	if raceFail != nil {
		return raceFail
	}
	if first != nil && first.prog < 0 {
		return hx.Failf("wrong-result:parse-fresh-identifiers", "goroutine %d (iteration %d, %d goroutines, provider %s): %s", first.goroutine, first.iter, G, provider, short(first.got, 3000))
	}
	if first != nil {
		return hx.Failf("wrong-result:parse", "program %d parsed on goroutine %d (iteration %d, %d goroutines, provider %s) differs from its sequential result: %s\nprogram:\n%s\nsequential:\n%s\nconcurrent:\n%s",
			first.prog, first.goroutine, first.iter, G, provider, firstDiff(exp[first.prog], first.got), short(c.Progs[first.prog], 1500), short(exp[first.prog], 3000), short(first.got, 3000))
	}
	if firstEval != nil {
		return hx.Failf("wrong-result:host-eval", "program evaluated on goroutine %d (iteration %d, %d goroutines, provider %s) differs from its sequential result:\nprogram:\n%s\nsequential: %s\nconcurrent: %s",
			firstEval.goroutine, firstEval.iter, G, provider, short(c.Evals[firstEval.prog], 1500), short(expEval[firstEval.prog], 1500), short(firstEval.got, 1500))
	}
	if evalMode {
		if a, b := strings.Join(expLines, "\n"), strings.Join(gotLines, "\n"); a != b {
			return hx.Failf("wrong-result:eval", "%d events on %d workers from %d posters (while %d goroutines parse): sink output differs from the output of the same events processed one by one: %s\nsinks:\n%s\nsequential:\n%s\nconcurrent:\n%s",
				len(c.Events), c.Workers, c.Posters, G, firstDiff(a, b), short(c.Main, 3000), short(a, 3000), short(b, 3000))
		}
	}
	// ids of runtime components built during the concurrent phase must be unique
	total := 0
	for _, l := range idLists {
		total += len(l)
	}
	if total > 0 {
		allIDs := make([]uint64, 0, total)
		for _, l := range idLists {
			allIDs = append(allIDs, l...)
		}
		sort.Slice(allIDs, func(i, j int) bool { return allIDs[i] < allIDs[j] })
		dups := 0
		var ex uint64
		for i := 1; i < len(allIDs); i++ {
			if allIDs[i] == allIDs[i-1] {
				dups++
				ex = allIDs[i]
			}
		}
		hx.E.Class("instance-ids.checked", int64(total))
		if dups > 0 {
			return hx.Failf("duplicate-instance-id", "%d of %d runtime components constructed by %d concurrent goroutines (provider %s) share their instance id with another one (e.g. id %d); ids are documented as unique per component and key the instance state of iterators",
				dups, total, G, provider, ex)
		}
	}
	return nil
}

func bucket(n int) string {
	switch {
	case n <= 1:
		return "1"
	case n <= 4:
		return "2-4"
	case n <= 8:
		return "5-8"
	default:
		return "9+"
	}
}

func shortAll(xs []string, n int) []string {
	out := make([]string, len(xs))
	for i, x := range xs {
		out[i] = short(x, n)
	}
	return out
}

// inScope: both racing accesses are in the parser, or in the construction of
// runtime components.
func inScope(r racefilter.Report) bool {
	if mapPair(r) {
		return true
	}
	if !r.In(racePkgs, racefilter.SkipStdlib) {
		return false
	}
	a, b, _ := r.Sites(racefilter.SkipStdlib)
	for _, f := range []racefilter.Frame{a, b} {
		if f.Pkg() == "github.com/krotik/ecal/interpreter" && !constructionRe.MatchString(f.ShortFunc()) {
			return false
		}
	}
	return true
}

// mapPair: both accesses are Go map operations (top frame runtime.map* / reflect.map*), one of them writes, and
// both stacks pass through the parser or the interpreter: exactly the pairs on which the Go runtime aborts the
// process ("fatal error: concurrent map ...") when they overlap - wherever in the interpreter the table lives
// (e.g. a per-provider cache used by import statements or interpolation).
func mapPair(r racefilter.Report) bool {
	write := false
	for _, a := range r.Access {
		if len(a.Stack) == 0 {
			return false
		}
		if f := a.Stack[0].Func; !strings.HasPrefix(f, "runtime.map") && !strings.HasPrefix(f, "reflect.map") {
			return false
		}
		ours := false
		for _, fr := range a.Stack {
			if p := fr.Pkg(); p == "github.com/krotik/ecal/parser" || p == "github.com/krotik/ecal/interpreter" {
				ours = true
			}
		}
		if !ours {
			return false
		}
		write = write || strings.Contains(strings.ToLower(a.Op), "write")
	}
	return write
}

func raceFailure(kept []racefilter.Report) *hx.Failure {
	sigs := map[string]int{}
	for _, r := range kept {
		sigs[r.Sig(racefilter.SkipStdlib)]++
	}
	var names []string
	for s := range sigs {
		names = append(names, s)
	}
	sort.Strings(names)
	// the most frequent signature names the failure (ties: alphabetical)
	best := names[0]
	for _, s := range names {
		if sigs[s] > sigs[best] {
			best = s
		}
	}
	var sb strings.Builder
	fmt.Fprintf(&sb, "%d race report(s) with both racing accesses in parser/ or runtime component construction, or on a Go map below parser / interpreter frames:\n", len(kept))
	for _, s := range names {
		fmt.Fprintf(&sb, "  %4d x %s\n", sigs[s], s)
	}
	sb.WriteString(racefilter.Describe(kept, 2))
	return hx.Failf(best, "%s", sb.String())
}

// checkRaceLog reads the reports the detector wrote since the last call.
func checkRaceLog() *hx.Failure {
	if raceTail == nil {
		return nil
	}
	reports, err := raceTail.Next()
	if err != nil {
		hx.E.Class("race-log.read-error", 1)
		return nil
	}
	if len(reports) == 0 {
		return nil
	}
	var kept []racefilter.Report
	for _, r := range reports {
		if _, _, ok := r.Sites(racefilter.SkipStdlib); !ok {
			hx.E.Class("unattributed_races", 1)
		} else if inScope(r) {
			kept = append(kept, r)
		} else {
			hx.E.Class("ignored_foreign_races", 1)
			hx.E.Class("foreign:"+r.Sig(racefilter.SkipStdlib), 1)
		}
	}
	atomic.AddInt64(&raceSeen, int64(len(reports)))
	atomic.AddInt64(&raceKept, int64(len(kept)))
	if len(kept) == 0 {
		return nil
	}
	return raceFailure(kept)
}

// ---------------------------------------------------------------------------

func TestRegress(t *testing.T) { hx.Regress(t, runCase) }

func drawCase(rt *rapid.T) Case {
	g := &pgen{rt: rt}
	var c Case
	thorough := hx.Thorough()

	n := g.n("nprogs.small", 2, 6)
	if g.n("large", 0, 5) == 3 {
		n = g.n("nprogs", 7, 16)
	}
	forces := make([]string, n)
	if g.n("forced", 0, 9) < 9 {
		// the combination which exercises the shared grammar table
		forces[0] = g.pick("force.iffor", []string{"if", "for"})
		forces[1] = "map"
	}
	for i := 2; i < n; i++ {
		forces[i] = g.pick("force", []string{"", "", "if", "for", "map", "import", "interp", "sink", "func"})
	}
	invalidLeft := 0
	if g.n("invalid", 0, 3) == 0 {
		invalidLeft = g.n("ninvalid", 1, 2)
	}
	for i := 0; i < n; i++ {
		var p string
		if len(corpus) > 0 && i >= 2 && g.n("corpus", 0, 5) == 0 {
			p = g.pick("corpusprog", corpus)
		} else {
			p = g.program(forces[i])
		}
		if invalidLeft > 0 && i >= 2 {
			p = g.mutate(p)
			invalidLeft--
		}
		c.Progs = append(c.Progs, p)
	}
	c.Goroutines = g.n("goroutines", 2, 16)
	// every program is parsed 50-500 times; the total work of a case is bounded per tier
	// (the race detector needs overlap, not repetition, and costs about 10x; the plain
	// build, whose wrong-result oracle needs real collisions, repeats more)
	maxReps, budget := 150, 1500
	switch {
	case thorough && raceEnabled:
		maxReps, budget = 100, 800
	case thorough:
		maxReps, budget = 500, 2000
	case raceEnabled:
		maxReps, budget = 60, 600
	}
	c.Reps = g.n("reps", 50, maxReps)
	if n*c.Reps > budget {
		c.Reps = max(50, budget/n)
	}
	c.Provider = g.pick("provider", []string{"none", "shared", "shared", "fresh"})
	c.Pretty = g.n("pretty", 0, 3) == 0

	if c.Provider != "none" && g.n("hosteval", 0, 2) != 1 {
		c.Evals, c.Files = drawHostEvals(rt)
	}
	if g.n("eval", 0, 3) == 0 {
		var files map[string]string
		c.Main, files, c.Events, _, _ = drawEval(rt)
		if c.Files == nil {
			c.Files = map[string]string{}
		}
		for k, v := range files {
			c.Files[k] = v
		}
		c.Workers = g.n("workers", 2, 8)
		c.Posters = g.n("posters", 1, 4)
		c.Provider = "shared"
	}
	return c
}

func TestProp(t *testing.T) {
	hx.Check(t, drawCase, func(c Case) *hx.Failure {
		f := runCase(c)
		if f != nil {
			caseFailed.Store(true)
		}
		return f
	})
}
