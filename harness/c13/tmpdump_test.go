package c13

import (
	"fmt"
	"os"
	"sort"
	"strings"
	"testing"
	"time"

	"pgregory.net/rapid"

	"github.com/krotik/ecal/parser"

	"verif/internal/ev"
)

func TestTmpDump(t *testing.T) {
	if os.Getenv("C13_DUMP") == "" {
		t.Skip()
	}
	errs := map[string]int{}
	ex := map[string]string{}
	total, bad := 0, 0
	rapid.Check(t, func(rt *rapid.T) {
		g := &pgen{rt: rt}
		p := g.program(g.pick("force", []string{"", "if", "for", "map", "import", "interp", "sink", "func"}))
		total++
		_, err := parser.Parse("x", p)
		if err != nil {
			bad++
			m := err.Error()
			if i := strings.Index(m, "(Line"); i > 0 {
				m = m[:i]
			}
			errs[m]++
			if len(ex[m]) == 0 || len(p) < len(ex[m]) {
				ex[m] = p
			}
		}
	})
	fmt.Println("total", total, "bad", bad)
	var ks []string
	for k := range errs {
		ks = append(ks, k)
	}
	sort.Slice(ks, func(i, j int) bool { return errs[ks[i]] > errs[ks[j]] })
	for _, k := range ks[:min(len(ks), 25)] {
		fmt.Printf("%5d %s\n      %q\n", errs[k], k, ex[k])
	}
}

func TestTmpTiming(t *testing.T) {
	if os.Getenv("C13_DUMP") == "" {
		t.Skip()
	}
	rapid.Check(t, func(rt *rapid.T) {
		t0 := time.Now()
		c := drawCase(rt)
		t1 := time.Now()
		runCase(c)
		t2 := time.Now()
		sz := 0
		for _, p := range c.Progs {
			sz += len(p)
		}
		fmt.Printf("TIMING draw=%v run=%v progs=%d bytes=%d G=%d reps=%d prov=%s pretty=%v events=%d\n", t1.Sub(t0).Round(time.Millisecond), t2.Sub(t1).Round(time.Millisecond), len(c.Progs), sz, c.Goroutines, c.Reps, c.Provider, c.Pretty, len(c.Events))
	})
}

func TestTmpEvalOutputs(t *testing.T) {
	if os.Getenv("C13_DUMP") == "" {
		t.Skip()
	}
	files := map[string]string{}
	for i, b := range libBodies {
		files[fmt.Sprintf("hlib/h%d", i)] = fmt.Sprintf(b, 3, 4)
	}
	for li := range libBodies {
		fl := map[string]string{"hlib/h0": files[fmt.Sprintf("hlib/h%d", li)], "hlib/h1": files[fmt.Sprintf("hlib/h%d", li)]}
		erp := newProvider(fl, nil, 0)
		for _, b := range hostEvalBodies {
			p := fmt.Sprintf(b, 3)
			fmt.Printf("HOSTEVAL lib%d %q\n   => %s\n", li, p, evalOnce(p, erp, 1))
		}
		closeProvider(erp, false)
	}
	n := 0
	rapid.Check(t, func(rt *rapid.T) {
		mainText, fl, events, _, _ := drawEval(rt)
		c := Case{Main: mainText, Files: fl, Events: events}
		env, err := newEvalEnv(c, 1)
		if err != nil {
			fmt.Printf("SETUP ERROR %v\n%s\n", err, mainText)
			return
		}
		lines := env.post(events, 1, nil)
		env.close()
		bad := false
		for _, l := range lines {
			if strings.Contains(l, "ERROR") || strings.Contains(l, "rror") || strings.Contains(l, "SKIPPED") {
				bad = true
			}
		}
		if bad || n < 2 {
			n++
			fmt.Printf("EVALCASE bad=%v\n%s\nFILES %v\n%s\n", bad, mainText, fl, strings.Join(lines, "\n"))
		}
	})
}

func TestTmpSeqDump(t *testing.T) {
	out := os.Getenv("C13_SEQDUMP")
	if out == "" {
		t.Skip()
	}
	f, _ := os.Create(out)
	defer f.Close()
	erp := newProvider(nil, nil, 0)
	defer closeProvider(erp, false)
	n := 0
	rapid.Check(t, func(rt *rapid.T) {
		g := &pgen{rt: rt}
		p := g.program(g.pick("force", []string{"", "if", "for", "map", "import", "interp", "sink", "func"}))
		if g.n("mutate", 0, 2) == 1 {
			p = g.mutate(p)
		}
		if g.n("guardmap", 0, 3) == 2 {
			p = "if " + g.mapLit(1) + " == 1 {\n}\nfor " + g.expr(2) + " " + g.block(2) + "\n" + p
		}
		n++
		if os.Getenv("C13_SEQFULL") == fmt.Sprint(n) {
			fmt.Fprintf(f, "FULL %d\n%s\n----\n%s\n----\n%s\n", n, p, parseOnce(p, nil, true, nil), parseOnce(p, erp, false, nil))
		}
		fmt.Fprintf(f, "%d %x\n", n, ev.Hash(p+"\x00"+parseOnce(p, nil, true, nil)+"\x00"+strings.ReplaceAll(parseOnce(p, erp, false, nil), "", "")))
	})
	for _, p := range corpus {
		fmt.Fprintf(f, "corpus %x\n", ev.Hash(p+"\x00"+parseOnce(p, nil, true, nil)))
	}
}
