package c13

import (
	"fmt"
	"os"
	"sort"
	"strings"
	"testing"
	"time"

	"pgregory.net/rapid"

	"github.com/krotik/ecal/parser"
)

func TestTmpDump(t *testing.T) {
	if os.Getenv("C13_DUMP") == "" {
		t.Skip()
	}
	errs := map[string]int{}
	ex := map[string]string{}
	total, bad := 0, 0
	rapid.Check(t, func(rt *rapid.T) {
		g := &pgen{rt: rt}
		p := g.program(g.pick("force", []string{"", "if", "for", "map", "import", "interp", "sink", "func"}))
		total++
		_, err := parser.Parse("x", p)
		if err != nil {
			bad++
			m := err.Error()
			if i := strings.Index(m, "(Line"); i > 0 {
				m = m[:i]
			}
			errs[m]++
			if len(ex[m]) == 0 || len(p) < len(ex[m]) {
				ex[m] = p
			}
		}
	})
	fmt.Println("total", total, "bad", bad)
	var ks []string
	for k := range errs {
		ks = append(ks, k)
	}
	sort.Slice(ks, func(i, j int) bool { return errs[ks[i]] > errs[ks[j]] })
	for _, k := range ks[:min(len(ks), 25)] {
		fmt.Printf("%5d %s\n      %q\n", errs[k], k, ex[k])
	}
}

func TestTmpTiming(t *testing.T) {
	if os.Getenv("C13_DUMP") == "" {
		t.Skip()
	}
	rapid.Check(t, func(rt *rapid.T) {
		t0 := time.Now()
		c := drawCase(rt)
		t1 := time.Now()
		runCase(c)
		t2 := time.Now()
		sz := 0
		for _, p := range c.Progs {
			sz += len(p)
		}
		fmt.Printf("TIMING draw=%v run=%v progs=%d bytes=%d G=%d reps=%d prov=%s pretty=%v events=%d\n", t1.Sub(t0).Round(time.Millisecond), t2.Sub(t1).Round(time.Millisecond), len(c.Progs), sz, c.Goroutines, c.Reps, c.Provider, c.Pretty, len(c.Events))
	})
}
