package c13

// Generators: a small statement/expression grammar of ECAL written for this
// check (texts only - the Case holds plain strings), mutations which make
// programs invalid, the example corpus of the repository, and the templates
// of the evaluation workloads (sinks which import files and interpolate
// strings at run time).

import (
	"fmt"
	"os"
	"path/filepath"
	"reflect"
	"runtime"
	"sort"
	"strings"

	"pgregory.net/rapid"

	"github.com/krotik/ecal/parser"
)

var corpus []string // whole example files and their blank-line separated chunks (sorted, deduplicated)

// repoRoot finds the source tree the binary was compiled from (the harness
// module replaces github.com/krotik/ecal with a directory).
func repoRoot() string {
	if r := os.Getenv("VERIF_REPO"); r != "" {
		return r
	}
	if fn := runtime.FuncForPC(reflect.ValueOf(parser.Parse).Pointer()); fn != nil {
		file, _ := fn.FileLine(fn.Entry())
		if i := strings.LastIndex(file, "/parser/"); i > 0 {
			return file[:i]
		}
	}
	return "/repo"
}

func loadCorpus() {
	seen := map[string]bool{}
	root := filepath.Join(repoRoot(), "examples")
	filepath.Walk(root, func(p string, info os.FileInfo, err error) error {
		if err != nil || info.IsDir() || !strings.HasSuffix(p, ".ecal") {
			return nil
		}
		b, err := os.ReadFile(p)
		if err != nil {
			return nil
		}
		s := string(b)
		seen[s] = true
		for _, chunk := range strings.Split(s, "\n\n") {
			if c := strings.TrimSpace(chunk); len(c) > 8 {
				seen[c] = true
			}
		}
		return nil
	})
	for s := range seen {
		corpus = append(corpus, s)
	}
	sort.Strings(corpus)
}

var (
	idents  = []string{"a", "b", "c", "x", "y", "foo", "a.b", "m.k.l"}
	numbers = []string{"0", "1", "2", "7", "42", "1.5", "100"}
	strs    = []string{`"s"`, `'q'`, `""`, `"a b"`, `r"raw{{x}}"`, `"k1"`}
	interps = []string{`"i{{a}}"`, `"{{1+1}}"`, `"x{{a + b}}y{{c}}"`, `'{{len({1 : 2})}}'`, `"{{foo(1)}} and {{ [1,2] }}"`}
	binops  = []string{"+", "-", "*", "/", "//", "%", ">", "<", ">=", "<=", "==", "!=", "and", "or", "like", "in", "notin", "hasprefix", "hassuffix"}
	funcs   = []string{"f", "len", "range", "log", "foo.bar", "add", "concat", "type"}
	libsIDs = []string{"lib", "lib/lib.ecal", "x/y", "util"}
	kinds   = []string{"c13.k0", "c13.k1", "a.*", "foo.bar.*"}
)

type pgen struct {
	rt      *rapid.T
	inGuard int // > 0 while the guard of an if / for is generated: a map literal or a function body there is a parse error by design
}

func (g *pgen) pick(label string, xs []string) string {
	return rapid.SampledFrom(xs).Draw(g.rt, label)
}

func (g *pgen) n(label string, lo, hi int) int {
	return rapid.IntRange(lo, hi).Draw(g.rt, label)
}

func (g *pgen) mapLit(d int) string {
	n := g.n("mapn", 0, 3)
	parts := make([]string, n)
	for i := range parts {
		var k string
		switch g.n("mapkey", 0, 3) {
		case 0:
			k = g.pick("num", numbers)
		case 1:
			k = g.pick("id", idents[:6])
		default:
			k = fmt.Sprintf(`"k%d"`, i)
		}
		parts[i] = k + " : " + g.expr(d-1)
	}
	switch g.n("mapfmt", 0, 3) {
	case 0:
		return "{" + strings.Join(parts, ", ") + "}"
	case 1:
		return "{\n    " + strings.Join(parts, ",\n    ") + "\n}"
	default:
		return "{ " + strings.Join(parts, ", ") + " }"
	}
}

func (g *pgen) list(d int) string {
	n := g.n("listn", 0, 3)
	parts := make([]string, n)
	for i := range parts {
		parts[i] = g.expr(d - 1)
	}
	return "[" + strings.Join(parts, ", ") + "]"
}

func (g *pgen) call(d int) string {
	n := g.n("argn", 0, 3)
	parts := make([]string, n)
	for i := range parts {
		parts[i] = g.expr(d - 1)
	}
	return g.pick("fn", funcs) + "(" + strings.Join(parts, ", ") + ")"
}

func (g *pgen) atom() string {
	switch g.n("atom", 0, 5) {
	case 0:
		return g.pick("num", numbers)
	case 1:
		return g.pick("str", strs)
	case 2:
		return g.pick("interp", interps)
	case 3:
		return g.pick("const", []string{"true", "false", "null"})
	default:
		return g.pick("id", idents)
	}
}

func (g *pgen) expr(d int) string {
	if d <= 0 {
		return g.atom()
	}
	switch g.n("expr", 0, 11) {
	case 0, 1:
		return g.atom()
	case 2, 3:
		return g.expr(d-1) + " " + g.pick("op", binops) + " " + g.expr(d-1)
	case 4:
		return "(" + g.expr(d-1) + ")"
	case 5:
		return g.list(d)
	case 6, 7:
		if g.inGuard > 0 {
			return g.list(d)
		}
		return g.mapLit(d)
	case 8:
		return g.call(d)
	case 9:
		return g.pick("id", idents[:4]) + "[" + g.expr(d-1) + "]"
	case 10:
		return g.pick("pre", []string{"not ", "-", "+"}) + g.expr(d-1)
	default:
		if g.inGuard > 0 {
			return g.atom()
		}
		return "func (" + g.params() + ") " + g.block(d-1)
	}
}

func (g *pgen) params() string {
	n := g.n("paramn", 0, 3)
	parts := make([]string, n)
	for i := range parts {
		parts[i] = fmt.Sprintf("p%d", i)
		if g.n("preset", 0, 3) == 0 {
			parts[i] += "=" + g.atom()
		}
	}
	return strings.Join(parts, ", ")
}

func indent(s string) string {
	return "    " + strings.ReplaceAll(s, "\n", "\n    ")
}

func (g *pgen) block(d int) string {
	n := g.n("blockn", 0, 2)
	if n == 0 {
		return "{\n}"
	}
	parts := make([]string, n)
	for i := range parts {
		parts[i] = indent(g.stmt(d - 1))
	}
	if n == 1 && g.n("oneline", 0, 2) == 0 && !strings.Contains(parts[0], "#") && !strings.Contains(parts[0], "return") {
		return "{ " + strings.TrimSpace(parts[0]) + " }"
	}
	return "{\n" + strings.Join(parts, "\n") + "\n}"
}

// cond produces a guard expression; sometimes with a map literal in it (an
// error or a different tree - whatever the sequential parser says is the
// expectation).
func (g *pgen) cond(d int) string {
	if g.n("condmap", 0, 59) == 37 {
		switch g.n("cond", 0, 3) {
		case 0:
			return g.mapLit(1) + " == " + g.atom()
		case 1:
			return g.atom() + " in " + g.mapLit(1)
		case 2:
			return "(" + g.pick("id", idents) + " == " + g.mapLit(1) + ")"
		default:
			return "len(" + g.mapLit(1) + ") > 0"
		}
	}
	g.inGuard++
	defer func() { g.inGuard-- }()
	return g.expr(min(d, 2))
}

func (g *pgen) ifStmt(d int) string {
	s := "if " + g.cond(d) + " " + g.block(d)
	for i, n := 0, g.n("elifn", 0, 2); i < n; i++ {
		s += " elif " + g.cond(d) + " " + g.block(d)
	}
	if g.n("else", 0, 1) == 0 {
		s += " else " + g.block(d)
	}
	return s
}

func (g *pgen) guardExpr(d int) string {
	g.inGuard++
	defer func() { g.inGuard-- }()
	return g.expr(d)
}

func (g *pgen) forStmt(d int) string {
	switch g.n("forkind", 0, 8) {
	case 0, 1:
		return "for " + g.pick("id", idents[:4]) + " in range(" + g.pick("num", numbers) + ", " + g.pick("num", numbers) + ") " + g.block(d)
	case 2, 3:
		return "for [k, v] in " + g.guardExpr(1) + " " + g.block(d)
	case 4:
		if g.n("formap", 0, 11) == 5 {
			return "for " + g.pick("id", idents[:4]) + " in " + g.mapLit(1) + " " + g.block(d)
		}
		return "for " + g.pick("id", idents[:4]) + " in m " + g.block(d)
	case 5, 6:
		return "for " + g.cond(d) + " " + g.block(d)
	default:
		return "for " + g.pick("id", idents[:4]) + " in " + g.guardExpr(1) + " " + g.block(d)
	}
}

func (g *pgen) sinkStmt(d int) string {
	var hdr []string
	hdr = append(hdr, "kindmatch [\""+g.pick("kind", kinds)+"\"]")
	if g.n("scope", 0, 2) == 0 {
		hdr = append(hdr, `scopematch ["data.write"]`)
	}
	if g.n("state", 0, 1) == 0 {
		hdr = append(hdr, "statematch "+g.mapLit(1))
	}
	if g.n("prio", 0, 2) == 0 {
		hdr = append(hdr, "priority "+g.pick("num", numbers[:4]))
	}
	if g.n("supp", 0, 3) == 0 {
		hdr = append(hdr, `suppresses ["other"]`)
	}
	sep := ",\n    "
	if g.n("sinkfmt", 0, 1) == 0 {
		sep = " "
	}
	return fmt.Sprintf("sink s%d\n    %s\n%s", g.n("sinkid", 0, 9), strings.Join(hdr, sep), g.block(d))
}

func (g *pgen) tryStmt(d int) string {
	s := "try " + g.block(d)
	switch g.n("except", 0, 3) {
	case 0:
		s += " except " + g.block(d)
	case 1:
		s += ` except "err" as e ` + g.block(d)
	case 2:
		s += ` except "a", "b" e ` + g.block(d)
	}
	if g.n("otherwise", 0, 2) == 0 {
		s += " otherwise " + g.block(d)
	}
	if g.n("finally", 0, 2) == 0 {
		s += " finally " + g.block(d)
	}
	return s
}

func (g *pgen) comment(s string) string {
	switch g.n("comment", 0, 5) {
	case 0:
		return "# note " + g.pick("id", idents) + "\n" + s
	case 1:
		return "/* block\n comment */\n" + s
	case 2:
		if !strings.Contains(s, "\n") {
			return s + " # trailing"
		}
	}
	return s
}

// stmtKind: "" = any
func (g *pgen) stmtOf(kind string, d int) string {
	switch kind {
	case "if":
		return g.ifStmt(d)
	case "for":
		return g.forStmt(d)
	case "map":
		switch g.n("mapstmt", 0, 3) {
		case 0:
			return g.pick("id", idents) + " := " + g.mapLit(2)
		case 1:
			return g.pick("fn", funcs) + "(" + g.mapLit(2) + ")"
		case 2:
			return "return " + g.mapLit(2)
		default:
			return g.pick("id", idents[:4]) + " := [" + g.mapLit(1) + ", " + g.mapLit(1) + "]"
		}
	case "import":
		return "import \"" + g.pick("lib", libsIDs) + "\" as " + g.pick("id", idents[:6])
	case "interp":
		return g.pick("id", idents) + " := " + g.pick("interp", interps)
	case "sink":
		return g.sinkStmt(d)
	case "func":
		return "func " + g.pick("id", idents[:6]) + "(" + g.params() + ") " + g.block(d)
	case "try":
		return g.tryStmt(d)
	case "mutex":
		return "mutex " + g.pick("id", idents[:4]) + " " + g.block(d)
	case "assign":
		return g.pick("let", []string{"", "", "let "}) + g.pick("id", idents) + " := " + g.expr(d)
	case "call":
		return g.call(d)
	case "return":
		return g.pick("ret", []string{"return", "break", "continue", "return " + g.atom()})
	}
	return g.expr(d)
}

var stmtKinds = []string{"if", "if", "for", "for", "map", "map", "import", "interp", "sink", "func", "try", "mutex", "assign", "assign", "call", "return", "expr"}

func (g *pgen) stmt(d int) string {
	kind := g.pick("stmt", stmtKinds)
	if d <= 0 && (kind == "if" || kind == "for" || kind == "sink" || kind == "func" || kind == "try" || kind == "mutex") {
		kind = "assign"
	}
	return g.comment(g.stmtOf(kind, d))
}

// program draws one program whose first statement has the forced kind.
func (g *pgen) program(force string) string {
	n := g.n("stmts", 1, 3)
	parts := make([]string, 0, n)
	pos := g.n("forcepos", 0, n-1)
	for i := 0; i < n; i++ {
		if i == pos && force != "" {
			parts = append(parts, g.comment(g.stmtOf(force, 2)))
		} else {
			parts = append(parts, g.stmt(2))
		}
	}
	sep := "\n"
	if g.n("sep", 0, 5) == 0 {
		sep = "; "
		for _, p := range parts {
			if strings.Contains(p, "#") {
				sep = "\n" // a line comment would swallow the rest
			}
		}
	}
	return strings.Join(parts, sep)
}

// mutate makes a program (probably) invalid.
func (g *pgen) mutate(s string) string {
	if len(s) < 2 {
		return s + "{"
	}
	pos := g.n("mutpos", 0, len(s)-1)
	switch g.n("mut", 0, 3) {
	case 0:
		return s[:pos]
	case 1:
		end := min(len(s), pos+g.n("mutlen", 1, 3))
		return s[:pos] + s[end:]
	case 2:
		return s[:pos] + g.pick("ins", []string{"{", "}", "(", ")", "[", "]", ",", ":", ";", "\"", " if ", " for ", "{{", "\n"}) + s[pos:]
	default:
		return s[pos:] + "\n" + s[:pos]
	}
}

// ---------------------------------------------------------------------------
// Evaluation workloads

// library files served by the MemoryImportLocator; %d = a small number
var libBodies = []string{
	"# plain\nfunc f(n) {\n    return n + %d\n}\nk := %d\n",
	"# if and for\nfunc f(n) {\n    if n <= 1 {\n        return n\n    }\n    r := %d\n    for i in range(1, n) {\n        r := r + i\n    }\n    return r\n}\nk := %d\n",
	"# map literals\nm := {\"a\" : %d, \"b\" : {\"c\" : [1, 2]}}\nfunc f(n) {\n    return m.a + n + len({1 : 2, 3 : 4})\n}\nk := m.b.c[1] + %d\n",
	"# mixed\nfunc f(n) {\n    t := {\"x\" : n, \"y\" : %d}\n    if t.x > 2 {\n        n := n * 2\n    } elif t.x == 2 {\n        n := len({\"y\" : 5})\n    } else {\n        n := 0\n    }\n    for [k, v] in t {\n        n := n + v\n    }\n    return n\n}\nk := %d\n",
	"/* interpolating */\nfunc f(n) {\n    s := \"<{{n + %d}}>\"\n    return s\n}\nk := \"{{1 + %d}}\"\n",
}

type evalGen struct {
	files map[string]string
	main  strings.Builder
}

// drawEval builds the sink program, the import files and the events.
func drawEval(rt *rapid.T) (mainText string, files map[string]string, events []Event, sinkIf, sinkMap bool) {
	g := &pgen{rt: rt}
	files = map[string]string{}
	nlibs := g.n("nlibs", 1, 3)
	for i := 0; i < nlibs; i++ {
		body := g.pick("libbody", libBodies)
		files[fmt.Sprintf("lib/l%d", i)] = fmt.Sprintf(body, g.n("libk1", 0, 9), g.n("libk2", 0, 9))
	}
	lib := func() string { return fmt.Sprintf("lib/l%d", g.n("libsel", 0, nlibs-1)) }

	var sb strings.Builder
	top := g.n("top", 0, 1) == 0
	if top {
		fmt.Fprintf(&sb, "import %q as top\n", lib())
	}
	sb.WriteString("func g(x) {\n    return {\"v\" : x + 1}\n}\n")
	sb.WriteString("sink tick\n    kindmatch [\"c13.tick\"]\n{\n}\n") // see evalEnv.post

	nsinks := g.n("nsinks", 1, 4)
	for s := 0; s < nsinks; s++ {
		fmt.Fprintf(&sb, "sink s%d\n    kindmatch [\"c13.k%d\"],\n", s, s%3)
		if g.n("sm", 0, 1) == 0 {
			sb.WriteString("    statematch {\"go\" : true},\n")
		}
		fmt.Fprintf(&sb, "    priority %d\n{\n", s)
		var vars []string
		imported := ""
		nlines := g.n("nlines", 1, 6)
		for l := 0; l < nlines; l++ {
			v := fmt.Sprintf("v%d", l)
			k := g.n("k", 1, 4)
			piece := g.n("piece", 0, 10)
			if piece == 7 && imported == "" {
				piece = 0
			}
			if piece == 3 && !top {
				piece = 2
			}
			switch piece {
			case 0: // import inside the sink: parsed on the worker
				imported = fmt.Sprintf("l%d", l)
				fmt.Fprintf(&sb, "    import %q as %s\n    %s := %s.f(event.state.n)\n", lib(), imported, v, imported)
			case 1:
				fmt.Fprintf(&sb, "    %s := \"i{{event.state.n + %d}}\"\n", v, k)
			case 2:
				fmt.Fprintf(&sb, "    %s := \"m{{len({1 : 2, 3 : %d})}}\"\n", v, k)
				sinkMap = true
			case 3:
				fmt.Fprintf(&sb, "    %s := \"c{{top.f(%d)}}\"\n", v, k)
			case 4:
				fmt.Fprintf(&sb, "    %s := 0\n    for i in range(1, %d) {\n        %s := %s + i\n    }\n", v, k, v, v)
				sinkIf = true
			case 5:
				fmt.Fprintf(&sb, "    %s := \"lo\"\n    if event.state.n > %d {\n        %s := \"hi\"\n    } elif event.state.n == %d {\n        %s := \"eq\"\n    }\n", v, k, v, k, v)
				sinkIf = true
			case 6:
				fmt.Fprintf(&sb, "    %s := {\"a\" : event.state.n, \"b\" : [%d]}\n", v, k)
				sinkMap = true
			case 7:
				fmt.Fprintf(&sb, "    %s := \"{{%s.f(event.state.n)}}/{{%s.k}}\"\n", v, imported, imported)
			case 8:
				fmt.Fprintf(&sb, "    %s := \"n{{g(event.state.n).v}}\"\n", v)
			case 9: // if / for inside the interpolated code: ndGuard / ndLoop run on the worker
				fmt.Fprintf(&sb, "    %s := \"f{{ for i in [1, %d] { x := i } }}|{{ if event.state.n > %d { 1 } else { 2 } }}\"\n", v, k, k)
				sinkIf = true
			default:
				fmt.Fprintf(&sb, "    %s := 'w{{ [1, 2, %d] }}{{ {\"q\" : %d} }}'\n", v, k, k)
				sinkMap = true
			}
			vars = append(vars, v)
		}
		fmt.Fprintf(&sb, "    log(\"s%d:\", event.state.id, \"|\", %s)\n}\n", s, strings.Join(vars, ", \"|\", "))
	}

	nev := g.n("nevents", 4, 40)
	for i := 0; i < nev; i++ {
		events = append(events, Event{Kind: fmt.Sprintf("c13.k%d", g.n("evkind", 0, min(nsinks, 3)-1)), N: g.n("evn", 0, 5)})
	}
	return sb.String(), files, events, sinkIf, sinkMap
}

// terminating programs evaluated by the parsing goroutines; %d = a small number
var hostEvalBodies = []string{
	"a := %d\n\"v{{a + 1}}|{{len({1 : 2, 3 : a})}}\"",
	"r := 0\nfor i in range(1, %d) {\n    r := r + i\n}\n\"r={{r}}\"",
	"import \"hlib/h0\" as l\n\"{{l.f(%d)}}/{{l.k}}\"",
	"m := {\"a\" : %d, \"b\" : [1, 2]}\nif m.a > 2 {\n    m.a := 0\n}\n\"{{m}}\"",
	"f := func (x) {\n    if x > 1 {\n        return {\"k\" : x}\n    }\n    return {\"k\" : 0}\n}\nr := f(%d)\n\"{{r.k}}\"",
	"\"{{ if %d > 2 { 1 } else { 2 } }}{{ for i in [1, 2] { x := i } }}\"",
	// the iterator state of the two range calls is keyed by the instance ids of their runtime components
	"r := 0\nfor a in range(1, %d) {\n    for b in range(1, 3) {\n        r := r + a * b\n    }\n}\nr",
	"import \"hlib/h1\" as l\nx := l.f(%d)\n'{{x}} {{ {\"q\" : x} }}'",
}

func drawHostEvals(rt *rapid.T) (evals []string, files map[string]string) {
	g := &pgen{rt: rt}
	files = map[string]string{}
	for i := 0; i < 2; i++ {
		files[fmt.Sprintf("hlib/h%d", i)] = fmt.Sprintf(g.pick("hlibbody", libBodies), g.n("libk1", 0, 9), g.n("libk2", 0, 9))
	}
	n := g.n("nevals", 1, 4)
	for i := 0; i < n; i++ {
		evals = append(evals, fmt.Sprintf(g.pick("evalbody", hostEvalBodies), g.n("evalk", 1, 5)))
	}
	return evals, files
}
