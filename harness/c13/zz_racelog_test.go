package c13

import (
	"os"
	"sync/atomic"
	"testing"

	"verif/internal/hx"
	"verif/internal/racefilter"
)

// TestZRaceLog runs last (tests run in source order; this file sorts last and
// the driver's -run pattern lists it last). It evaluates what the race detector
// wrote after the last case returned (goroutines which outlive a case) and
// publishes the totals. A report which is in scope and was not yet attributed
// to a case is a violation, too: the most recent case is stored as its replay.
func TestZRaceLog(t *testing.T) {
	hx.E.Set("race_build", raceEnabled)
	hx.E.Set("failing_parse_leaks_lexer_goroutine", invalidCap < 1<<30)
	if !raceEnabled {
		return
	}
	if raceTail == nil {
		hx.E.Assume("race build without GORACE log_path: reports went to stderr and were not evaluated")
		return
	}
	late := checkRaceLog()
	all, _ := racefilter.ReadAll(racefilter.LogPath(os.Getenv("GORACE")), os.Getpid())
	hx.E.Set("race_reports_total", len(all))
	hx.E.Set("race_reports_in_scope", int(atomic.LoadInt64(&raceKept)))
	if dir := os.Getenv("VERIF_C13_REEXEC"); dir != "" {
		defer os.RemoveAll(dir)
	}
	if late != nil {
		lastCaseLock.Lock()
		c := lastCase
		lastCaseLock.Unlock()
		late.Msg = "(reported after the last case had returned)\n" + late.Msg
		if caseFailed.Load() {
			t.Logf("further reports after the failing case (its replay file is kept): %s", late.Sig)
		} else if c != nil && !hx.Tolerated(late) {
			hx.WriteReplay(*c, late)
			t.Fatalf("VIOLATION C13: %s", late)
		}
	}
}
