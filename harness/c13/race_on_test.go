//go:build race

package c13

// raceEnabled is true when the test binary was built with -race: the race
// detector then observes every generated workload and its log is evaluated.
const raceEnabled = true
