//go:build !race

package c13

// raceEnabled is false in a plain build: only the wrong-result, duplicate-id
// and fatal-abort oracles are active.
const raceEnabled = false
