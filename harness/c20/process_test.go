package c20

// The packed executable as a PROCESS: the real command line binary (cli/ecal.go) is built once, a project is packed
// onto it with CLIPacker.Pack, and the result is started with argument lists a user of the packed program might
// pass (none, free arguments, the names of the interpreter's own tools). Every start must run the entry file and
// exit with its value - never fall through to the interpreter's command line.

import (
	"bytes"
	"context"
	"fmt"
	"os"
	"os/exec"
	"path/filepath"
	"strings"
	"sync"
	"testing"
	"time"

	"verif/internal/hx"
)

// ProcCase is the process part of a Case.
type ProcCase struct {
	Args []string `json:"args"`
}

var procArgs = [][]string{nil, {"run"}, {"run", "job1"}, {"format"}, {"pack"}, {"debug"}, {"console"}, {"job1"}, {"-x", "run"}, {"-help"}, {"run", "-dir", "."}}

var (
	buildOnce sync.Once
	builtBin  string
	buildErr  string
	procDir   string
)

func buildCLI() {
	buildOnce.Do(func() {
		var err error
		if procDir, err = os.MkdirTemp("", "verif-c20-proc-"); err != nil {
			buildErr = err.Error()
			return
		}
		builtBin = filepath.Join(procDir, "ecal")
		cmd := exec.Command("go", "build", "-o", builtBin, "github.com/krotik/ecal/cli")
		cmd.Env = append(os.Environ(), "GOFLAGS=-mod=mod", "GOPROXY=off", "GOSUMDB=off", "GOTOOLCHAIN=local")
		if out, err := cmd.CombinedOutput(); err != nil {
			buildErr = fmt.Sprintf("%v: %s", err, out)
		}
	})
}

func runProc(c Case) *hx.Failure {
	e := cur
	tr := e.trees[c.Tree]
	if tr == nil {
		hx.E.Exclude("malformed-case")
		return nil
	}
	buildCLI()
	if buildErr != "" {
		// the repository's command line tool does not build: not a verdict about packing
		hx.Inconclusive("c20.cli-does-not-build: " + buildErr)
		return nil
	}
	key := fmt.Sprintf("proc|%s|%q", c.Tree, c.Proc.Args)
	hx.E.Case(true, key, "process", fmt.Sprintf("process.args.%d", len(c.Proc.Args)))
	hx.E.Sample(key, c)
	target := filepath.Join(procDir, "packed-"+c.Tree)
	os.Remove(target)
	var perr error
	if f := hx.Guard(func() { perr = doPack(tr.dir, builtBin, target, tr.entry) }); f != nil {
		return f
	}
	if perr != nil {
		return hx.Failf("pack-error", "%s: Pack onto the real binary returned %v", key, perr)
	}
	if err := os.Chmod(target, 0755); err != nil {
		panic(err)
	}
	work := filepath.Join(procDir, "cwd")
	os.MkdirAll(work, 0755)
	ctx, cancel := context.WithTimeout(context.Background(), 60*time.Second)
	defer cancel()
	cmd := exec.CommandContext(ctx, target, c.Proc.Args...)
	cmd.Dir = work
	cmd.Stdin = bytes.NewReader(nil)
	var out bytes.Buffer
	cmd.Stdout, cmd.Stderr = &out, &out
	err := cmd.Run()
	if ctx.Err() != nil {
		return hx.Failf("process:no-exit", "%s: the packed executable did not exit within 60 s (it fell through to an interactive tool?); output so far: %q", key, clipOut(out.String()))
	}
	code := 0
	if ee, ok := err.(*exec.ExitError); ok {
		code = ee.ExitCode()
	} else if err != nil {
		return hx.Failf("process:start", "%s: %v", key, err)
	}
	if code != tr.code%256 {
		return hx.Failf("process:fall-through", "%s: the packed executable started with arguments %q exits with %d, the entry file evaluates to %d; output: %q", key, c.Proc.Args, code, tr.code, clipOut(out.String()))
	}
	return nil
}

func clipOut(s string) string {
	s = strings.TrimSpace(s)
	if len(s) > 300 {
		s = s[:300] + "..."
	}
	return s
}

func TestExhaustiveProcess(t *testing.T) {
	setup(t)
	if i, _ := hx.Shard(); i != 0 {
		return // one build of the command line tool per run is enough
	}
	defer func() {
		if procDir != "" {
			os.RemoveAll(procDir)
		}
	}()
	// (not hx.Enumerate: that would spread the few cases over the shards, and only this shard has the binary)
	n := 0
	for _, tn := range []string{"nested", "flat"} {
		for _, a := range procArgs {
			c := Case{Tree: tn, Proc: &ProcCase{Args: a}}
			n++
			if f := hx.Handle(c, runCase(c)); f != nil {
				t.Fatalf("VIOLATION C20 (process case %d): %s", n, f)
			}
		}
	}
	hx.E.Class("enum.process", int64(n))
	hx.E.Exhaustive("process", map[string]interface{}{"trees": []string{"nested", "flat"}, "argument_lists": procArgs})
}
