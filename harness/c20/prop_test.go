// C20 — a packed executable always finds and runs its embedded program.
//
// Domain: "interpreter binaries" (filler files) of every length over at least
// one full period of the marker scanner's read geometry (4096-byte blocks plus
// a 28-byte overlap buffer: periods 4096 and 4124) x filler classes (without
// '#', '#' in every block, dense '#', marker look-alikes, fragments of the
// marker planted at every alignment before the true marker) x project trees
// (flat, nested, empty file, all 256 byte values, names with spaces, large).
// The single precondition: the interpreter binary does not contain the
// complete marker (the real one assembles it with Sprintf for that reason).
//
// Oracle: after CLIPacker.Pack, RunPackedBinary must call the exit function
// with the value of the entry file's last statement, the files it recovered
// from the archive ("pack.files" hook) must be the project tree byte for byte
// under the relative paths plus ".ecalsrc-entry", the error handler must not
// see an error and nothing may panic. Independently the harness opens the
// target at len(binary)+len(marker) with archive/zip and compares.
package c20

import (
	"archive/zip"
	"bytes"
	"fmt"
	"io"
	"os"
	"path/filepath"
	"sort"
	"strings"
	"testing"

	"pgregory.net/rapid"

	"github.com/krotik/ecal/cli/tool"
	"github.com/krotik/ecal/verifhook"

	"verif/internal/hx"
)

const rule = "case = (length of the interpreter binary, base filler class, marker fragment planted gap bytes before the end of the binary, project tree, through CLIPacker.Pack or assembled as binary+marker+Pack's archive bytes); lengths enumerated exhaustively over the tier's range, fragments x gaps exhaustively in windows around the read boundaries, random beyond; non-trivial = the marker lies within len(marker)+28 bytes of a read boundary (4096a+28b, b<=a) or the binary has a '#' within that distance before the marker; distinct by (length, base, fragment, gap, tree, mode)"

// the harness's own copy of the marker (the code under test builds it at run time)
const marker = "\n####ECALSRC####\n"

const (
	blockLen   = 4096
	overlapLen = len(marker) + 11 // 28
	period     = blockLen + overlapLen
	near       = len(marker) + overlapLen // 45
)

// Case is one packed executable.
type Case struct {
	Len  int    `json:"len"`  // length of the interpreter binary
	Base string `json:"base"` // base filler class, see baseByte
	Frag string `json:"frag"` // ASCII fragment written over the base filler (may be empty) ...
	Gap  int    `json:"gap"`  // ... so that it ends Gap bytes before the end of the binary (clipped at offset 0)
	Tree string `json:"tree"` // project tree, see buildTrees
	Pack bool   `json:"pack"` // true: target written by CLIPacker.Pack; false: target assembled as binary+marker+archive(tree)
	// Pack only: how the project directory is spelled on the command line (the same directory every time)
	Spell int `json:"spell,omitempty"`
	// Pack only: the target path already holds another, longer packed executable (tree "large") when Pack runs
	Over bool `json:"over,omitempty"`
	// the real command line binary is built, packed with the tree and started as a PROCESS with these arguments
	// (all other fields but Tree unused)
	Proc *ProcCase `json:"proc,omitempty"`
}

// spellings of one directory: 0 clean absolute, then trailing separator, /./ inside, /x/../ inside, doubled separator,
// relative to the working directory, ./relative
const nSpell = 7

func spell(dir string, how int) string {
	parent, base := filepath.Dir(dir), filepath.Base(dir)
	switch how % nSpell {
	case 1:
		return dir + "/"
	case 2:
		return parent + "/./" + base
	case 3:
		return parent + "/" + base + "/../" + base
	case 4:
		return parent + "//" + base
	case 5, 6:
		if wd, err := os.Getwd(); err == nil {
			if rel, err := filepath.Rel(wd, dir); err == nil {
				if how%nSpell == 6 {
					return "./" + rel
				}
				return rel
			}
		}
	}
	return dir
}

func TestMain(m *testing.M) { hx.Main(m, "C20", rule) }

// ---------------------------------------------------------------- filler

var bases = []string{"plain", "block", "dense", "mimic", "first", "second", "zero"}

const mimicUnit = "\n####ECALSRC###" // 15 bytes; repeated it never forms the marker

func plainByte(i int) byte {
	x := uint32(i)*2654435761 + 0x9e3779b9
	x ^= x >> 15
	x *= 0x85ebca6b
	x ^= x >> 13
	b := byte(x)
	if b == '#' {
		b = '$'
	}
	return b
}

// baseByte gives byte i of the base filler; every class is a function of the
// index only, so a shorter binary is a prefix of a longer one.
func baseByte(base string, i int) byte {
	switch base {
	case "plain": // no '#' at all
	case "block": // a '#' in every read block
		if i%1000 == 0 {
			return '#'
		}
	case "dense": // every second byte is '#'
		if i%2 == 0 {
			return '#'
		}
	case "mimic": // the marker without its last two bytes, repeated
		return mimicUnit[i%len(mimicUnit)]
	case "first": // '#' in the first block only
		if i == 10 {
			return '#'
		}
	case "second": // '#' in the second block only
		if i == 5000 {
			return '#'
		}
	case "zero": // like the zero pages of a real binary
		return 0
	default:
		panic("unknown base filler " + base)
	}
	return plainByte(i)
}

var baseCache = map[string][]byte{}

func filler(c Case) []byte {
	cached := baseCache[c.Base]
	if len(cached) < c.Len {
		n := c.Len + 4*period
		cached = make([]byte, n)
		for i := range cached {
			cached[i] = baseByte(c.Base, i)
		}
		baseCache[c.Base] = cached
	}
	f := append([]byte(nil), cached[:c.Len]...)
	if c.Frag != "" && c.Gap >= 0 {
		end := c.Len - c.Gap
		for k := len(c.Frag) - 1; k >= 0; k-- {
			if p := end - (len(c.Frag) - k); p >= 0 && p < c.Len {
				f[p] = c.Frag[k]
			}
		}
	}
	return f
}

// fragments of the marker and look-alikes
func fragments() []string {
	fr := []string{
		"#", "####", "\n", "\n#", "\n####", "\n####ECALSRC", "\n####ECALSRC###", "\n####ECALSRC####",
		"####ECALSRC####\n", "ECALSRC####\n", "\n####ECALSRC####\r\n", "\n####ECALSRC###\n####ECALSRC####",
		"\n\n\n####ECALSRC####", "####\n####",
	}
	for k := 1; k < len(marker); k++ { // the marker's own bytes split by one byte
		fr = append(fr, marker[:k]+"x"+marker[k:])
	}
	return fr
}

// boundaries which a block scanner with an optional overlap read can have
func nearBoundary(l int) (nearB, straddle bool) {
	lo, hi := l, l+len(marker)
	for a := 1; a <= (hi+near)/blockLen+1; a++ {
		for b := 0; b <= a; b++ {
			bd := blockLen*a + overlapLen*b
			if lo-near <= bd && bd <= hi+near {
				nearB = true
			}
			if lo < bd && bd < hi {
				straddle = true
			}
		}
	}
	return
}

// ---------------------------------------------------------------- project trees

type tfile struct {
	path string
	data string
	v    int // libraries: the value of v
	// a file with the language's suffix which the program never imports (a placeholder, notes, data): it is packed and
	// recovered like every other file and must not keep the program from running, whatever it holds
	noimport bool
}

type tree struct {
	name  string
	files []tfile
	code  int               // value of the entry's last statement
	want  map[string]string // what the packed program must see
	dir   string
	entry string
	zip   []byte      // archive bytes Pack writes for this tree (reference: empty interpreter binary)
	bad   *hx.Failure // Pack fails on this tree already with an empty binary
}

const entryName = "main.ecal"

var treeNames = []string{"flat", "nested", "empty", "binary", "spaces", "large"}

func allBytes() string {
	b := make([]byte, 256)
	for i := range b {
		b[i] = byte(i)
	}
	return string(b)
}

func noise(seed, n int) string {
	b := make([]byte, n)
	for i := range b {
		b[i] = plainByte(seed*7919 + i)
	}
	return string(b)
}

// buildTrees describes the project trees. Files ending in .ecal (other than
// the entry and files marked data) are libraries `v := <n>` which the entry
// imports; the entry's last statement is a weighted sum of all of them.
func buildTrees() []*tree {
	libText := func(v int) string {
		return fmt.Sprintf("# library\nv := %d\nfunc f(x) {\n    return x * v\n}\n", v)
	}
	specs := map[string][]tfile{
		"flat": {{path: "a.ecal", data: libText(3), v: 3}, {path: "b.ecal", data: libText(5), v: 5}, {path: "readme.txt", data: "plain text\n"},
			{path: "draft.ecal", data: "func ( {\n", noimport: true}},
		"nested": {{path: "lib/a.ecal", data: libText(2), v: 2}, {path: "lib/sub/b.ecal", data: libText(3), v: 3}, {path: "lib/sub/deep/er/c.ecal", data: libText(4), v: 4},
			{path: "other/d.ecal", data: libText(5), v: 5}, {path: "other/notes.md", data: "# notes\n#### not a marker\n"}},
		"empty": {{path: "lib/a.ecal", data: libText(4), v: 4}, {path: "empty.dat", data: ""}, {path: "lib/empty.txt", data: ""}, {path: "z/e.ecal", data: libText(9), v: 9},
			{path: "lib/placeholder.ecal", data: "", noimport: true}, {path: "todo.ecal", data: "# nothing yet\n", noimport: true}},
		"binary": {{path: "lib/a.ecal", data: libText(6), v: 6}, {path: "bin/all256.bin", data: allBytes()}, {path: "bin/table.ecal", data: allBytes(), noimport: true},
			// incompressible, so the archive stores it literally: the marker text occurs inside the archive
			{path: "bin/tricky.bin", data: noise(99, 500) + marker + "PK\x03\x04" + marker[:len(marker)-1] + "\r\n" + noise(98, 500)},
			{path: "bin/hashes.bin", data: strings.Repeat("####", 64) + "\n"}},
		"spaces": {{path: "my lib/b c.ecal", data: libText(8), v: 8}, {path: "my lib/ sub dir /d  e.ecal", data: libText(10), v: 10}, {path: "a file.txt", data: " \n "},
			{path: " lead.ecal", data: libText(12), v: 12}},
		"large": {{path: "lib/a.ecal", data: libText(1), v: 1}},
	}
	for i := 0; i < 12; i++ {
		specs["large"] = append(specs["large"], tfile{path: fmt.Sprintf("data/d%d/blob%02d.bin", i%3, i), data: noise(i+1, 700+i)})
	}
	for i := 0; i < 3; i++ {
		specs["large"] = append(specs["large"], tfile{path: fmt.Sprintf("mod/m%d.ecal", i), data: libText(2 + i), v: 2 + i})
	}

	var res []*tree
	for _, name := range treeNames {
		tr := &tree{name: name, files: specs[name], want: map[string]string{}}
		var imports, terms []string
		code, k := 1, 0
		weights := []int{1, 3, 5, 7, 11, 13, 17}
		for _, f := range tr.files {
			if !strings.HasSuffix(f.path, ".ecal") || f.noimport {
				continue
			}
			v := f.v
			w := weights[k%len(weights)]
			k++
			imports = append(imports, fmt.Sprintf("import %q as m%d", f.path, k))
			if k%2 == 0 {
				terms = append(terms, fmt.Sprintf("m%d.f(%d)", k, w))
			} else {
				terms = append(terms, fmt.Sprintf("m%d.v * %d", k, w))
			}
			code += v * w
		}
		entry := "# entry\n" + strings.Join(imports, "\n") + "\nres := " + strings.Join(terms, " + ") + "\nres + 1\n"
		tr.files = append(tr.files, tfile{path: entryName, data: entry})
		if code > 125 {
			panic("c20: keep the exit codes portable")
		}
		tr.code = code
		for _, f := range tr.files {
			tr.want[f.path] = f.data
		}
		tr.want[".ecalsrc-entry"] = entry
		res = append(res, tr)
	}
	return res
}

// ---------------------------------------------------------------- environment (per test function)

type env struct {
	dir      string
	src, dst string
	trees    map[string]*tree
}

var cur *env

// observation of one RunPackedBinary call
var obs struct {
	hookCalls int
	files     map[string]string
	filesErr  error
}

func doPack(dir, src, dst, entry string) error {
	p := tool.NewCLIPacker()
	p.Dir, p.SourceBinary, p.TargetBinary = &dir, &src, &dst
	p.EntryFile = entry
	p.LogOut = io.Discard
	return p.Pack()
}

func readZip(b []byte) (map[string]string, error) {
	r, err := zip.NewReader(bytes.NewReader(b), int64(len(b)))
	if err != nil {
		return nil, err
	}
	res := map[string]string{}
	for _, f := range r.File {
		rc, err := f.Open()
		if err != nil {
			return nil, err
		}
		data, err := io.ReadAll(rc)
		rc.Close()
		if err != nil {
			return nil, err
		}
		if _, dup := res[f.Name]; dup {
			return nil, fmt.Errorf("duplicate archive member %q", f.Name)
		}
		res[f.Name] = string(data)
	}
	return res, nil
}

func diffFiles(got, want map[string]string) string {
	var d []string
	for k, w := range want {
		if g, ok := got[k]; !ok {
			d = append(d, fmt.Sprintf("missing %q", k))
		} else if g != w {
			d = append(d, fmt.Sprintf("%q differs (%d bytes, want %d)", k, len(g), len(w)))
		}
	}
	for k := range got {
		if _, ok := want[k]; !ok {
			d = append(d, fmt.Sprintf("unexpected %q", k))
		}
	}
	sort.Strings(d)
	return strings.Join(d, "; ")
}

// workDir creates the per-test work directory, on a memory file system where
// there is one (every case writes and reads an executable-sized file; on a
// loaded disk that dominates the run time). VERIF_TMP overrides the location.
func workDir(t testing.TB) string {
	base := os.Getenv("VERIF_TMP")
	if base == "" {
		base = os.TempDir()
		if st, err := os.Stat("/dev/shm"); err == nil && st.IsDir() {
			if probe, err := os.MkdirTemp("/dev/shm", "verif-c20-probe-"); err == nil {
				os.Remove(probe)
				base = "/dev/shm"
			}
		}
	}
	dir, err := os.MkdirTemp(base, "verif-c20-")
	if err != nil {
		t.Fatal(err)
	}
	t.Cleanup(func() { os.RemoveAll(dir) })
	return dir
}

// setup creates the work directory (removed when the test function ends),
// writes the project trees and takes the reference archive of every tree
// from a real Pack run with an empty interpreter binary.
func setup(t testing.TB) {
	t.Helper()
	dir := workDir(t)
	e := &env{dir: dir, src: filepath.Join(dir, "interp.bin"), dst: filepath.Join(dir, "packed.bin"), trees: map[string]*tree{}}
	for _, tr := range buildTrees() {
		tr.dir = filepath.Join(dir, "trees", tr.name)
		tr.entry = filepath.Join(tr.dir, entryName)
		for _, f := range tr.files {
			p := filepath.Join(tr.dir, filepath.FromSlash(f.path))
			if err := os.MkdirAll(filepath.Dir(p), 0755); err != nil {
				t.Fatal(err)
			}
			if err := os.WriteFile(p, []byte(f.data), 0644); err != nil {
				t.Fatal(err)
			}
		}
		if err := os.WriteFile(e.src, nil, 0644); err != nil {
			t.Fatal(err)
		}
		tr.bad = reference(e, tr)
		e.trees[tr.name] = tr
	}
	verifhook.SetHandler(func(point string, args ...interface{}) {
		if point != "pack.files" {
			return
		}
		obs.hookCalls++
		if len(args) == 2 {
			if m, ok := args[0].(map[string]string); ok {
				obs.files = make(map[string]string, len(m))
				for k, v := range m {
					obs.files[k] = v
				}
			}
			obs.filesErr, _ = args[1].(error)
		}
	})
	cur = e
	t.Cleanup(func() { cur = nil; verifhook.SetHandler(nil) })
}

// reference packs a tree with an empty interpreter binary and keeps the
// archive bytes. A defect of Pack which shows already here is a violation of
// every case which uses the tree (returned by runCase, so it is replayable).
func reference(e *env, tr *tree) (fail *hx.Failure) {
	var perr error
	if f := hx.Guard(func() { perr = doPack(tr.dir, e.src, e.dst, tr.entry) }); f != nil {
		return f
	}
	if perr != nil {
		return hx.Failf("pack-error", "tree %s, empty binary: Pack returned %v", tr.name, perr)
	}
	b, err := os.ReadFile(e.dst)
	if err != nil || !bytes.HasPrefix(b, []byte(marker)) {
		return hx.Failf("pack-layout", "tree %s, empty binary: target does not start with the marker (%v)", tr.name, err)
	}
	tr.zip = b[len(marker):]
	got, err := readZip(tr.zip)
	if err != nil {
		return hx.Failf("pack-archive-unreadable", "tree %s, empty binary: archive at offset %d: %v", tr.name, len(marker), err)
	}
	if d := diffFiles(got, tr.want); d != "" {
		return hx.Failf("pack-archive-content", "tree %s, empty binary: archive written by Pack differs from the tree: %s", tr.name, d)
	}
	return nil
}

// ---------------------------------------------------------------- one case

func runCase(c Case) *hx.Failure {
	e := cur
	if e == nil {
		panic("c20: runCase without setup")
	}
	if c.Proc != nil {
		return runProc(c)
	}
	tr := e.trees[c.Tree]
	if tr == nil || c.Len < 0 || c.Len > 1<<24 {
		hx.E.Exclude("malformed-case")
		return nil
	}
	for i := 0; i < len(c.Frag); i++ {
		if c.Frag[i] >= 0x80 {
			hx.E.Exclude("malformed-case")
			return nil
		}
	}
	bin := filler(c)

	// the one precondition: the interpreter binary does not contain the marker
	if bytes.Contains(bin, []byte(marker)) {
		hx.E.Exclude("precondition.binary-contains-marker")
		return nil
	}
	whole := make([]byte, 0, len(bin)+len(marker)+len(tr.zip))
	whole = append(append(append(whole, bin...), marker...), tr.zip...)
	early := bytes.Index(whole[:len(bin)+len(marker)], []byte(marker)) < len(bin)

	// evidence
	nearB, straddle := nearBoundary(c.Len)
	lo := c.Len - near
	if lo < 0 {
		lo = 0
	}
	hashNear := bytes.IndexByte(bin[lo:], '#') >= 0
	nontrivial := nearB || hashNear
	key := fmt.Sprintf("%d|%s|%q|%d|%s|%v|%d|%v", c.Len, c.Base, c.Frag, c.Gap, c.Tree, c.Pack, c.Spell, c.Over)
	classes := []string{"base." + c.Base, "tree." + c.Tree}
	if c.Pack {
		classes = append(classes, "mode.pack")
	} else {
		classes = append(classes, "mode.assembled")
	}
	if c.Frag != "" {
		classes = append(classes, "frag.planted")
		if c.Gap <= near {
			classes = append(classes, "frag.near-marker")
		}
	}
	if nearB {
		classes = append(classes, "marker.near-boundary")
	}
	if straddle {
		classes = append(classes, "marker.straddles-boundary")
	}
	if hashNear {
		classes = append(classes, "hash.near-marker")
	}
	if bytes.IndexByte(bin, '#') >= 0 {
		classes = append(classes, "binary.has-hash")
	} else {
		classes = append(classes, "binary.no-hash")
	}
	if early {
		classes = append(classes, "binary-tail-completes-marker")
	}
	hx.E.Case(nontrivial, key, classes...)
	if nontrivial {
		hx.E.Sample(key, c)
	}
	if tr.bad != nil {
		return tr.bad
	}

	// build the target
	if c.Pack {
		if err := os.WriteFile(e.src, bin, 0644); err != nil {
			panic(err)
		}
		os.Remove(e.dst)
		if c.Over {
			// an earlier build of another project sits at the target path: longer, with its own archive at the end
			old := e.trees["large"]
			junk := append(append(append([]byte{}, bin...), bin...), []byte(marker)...)
			junk = append(junk, old.zip...)
			if err := os.WriteFile(e.dst, junk, 0755); err != nil {
				panic(err)
			}
			hx.E.Class("pack.over-existing-longer-target", 1)
		}
		var perr error
		pdir := spell(tr.dir, c.Spell)
		hx.E.Class(fmt.Sprintf("pack.dir-spelling.%d", c.Spell%nSpell), 1)
		if f := hx.Guard(func() { perr = doPack(pdir, e.src, e.dst, tr.entry) }); f != nil {
			return f
		}
		if perr != nil {
			return hx.Failf("pack-error", "%s: Pack (-dir %q) returned %v", key, pdir, perr)
		}
		got, err := os.ReadFile(e.dst)
		if err != nil {
			return hx.Failf("pack-no-target", "%s: %v", key, err)
		}
		// independent reading of the target
		if len(got) < len(bin)+len(marker) || !bytes.Equal(got[:len(bin)], bin) || string(got[len(bin):len(bin)+len(marker)]) != marker {
			return hx.Failf("pack-layout", "%s: target is not binary+marker+archive", key)
		}
		files, err := readZip(got[len(bin)+len(marker):])
		if err != nil {
			return hx.Failf("pack-archive-unreadable", "%s: archive at offset %d: %v", key, len(bin)+len(marker), err)
		}
		if d := diffFiles(files, tr.want); d != "" {
			return hx.Failf("pack-archive-content", "%s: archive written by Pack (-dir %q) differs from the tree: %s", key, pdir, d)
		}
		if !bytes.Equal(got, whole) {
			// the assembled mode relies on this
			return hx.Failf("pack-not-reproducible", "%s: Pack output differs from binary+marker+reference archive (%d vs %d bytes)", key, len(got), len(whole))
		}
	} else {
		if err := os.WriteFile(e.dst, whole, 0755); err != nil {
			panic(err)
		}
	}

	// run it
	var (
		exited int
		code   int
		herrs  []error
		stderr bytes.Buffer
	)
	obs.hookCalls, obs.files, obs.filesErr = 0, nil, nil
	restore := tool.VerifSetIO([]string{e.dst}, func(rc int) { exited++; code = rc }, &stderr,
		func(err error) {
			if err != nil {
				herrs = append(herrs, err)
			}
		})
	fail := hx.Guard(func() { tool.RunPackedBinary() })
	restore()

	if fail != nil {
		return fail
	}
	where := fmt.Sprintf("len=%d (mod 4096=%d, mod 4124=%d) base=%s frag=%q gap=%d tree=%s pack=%v", c.Len, c.Len%blockLen, c.Len%period, c.Base, c.Frag, c.Gap, c.Tree, c.Pack)
	if len(herrs) > 0 {
		return hx.Failf("error:"+errClass(herrs[0]), "%s: the packed executable fails with %q (archive is at offset %d)", where, herrs[0], c.Len+len(marker))
	}
	if obs.hookCalls == 0 && exited == 0 {
		return hx.Failf("fall-through", "%s: the marker at offset %d was not found, the packed executable falls through to the normal command line", where, c.Len)
	}
	if obs.hookCalls != 1 || obs.filesErr != nil {
		return hx.Failf("archive-read", "%s: archive read %d times, error %v", where, obs.hookCalls, obs.filesErr)
	}
	if d := diffFiles(obs.files, tr.want); d != "" {
		return hx.Failf("files-mismatch", "%s: files recovered by the packed executable differ: %s", where, d)
	}
	if stderr.Len() > 0 {
		return hx.Failf("entry-error", "%s: the entry program failed: %s", where, strings.TrimSpace(stderr.String()))
	}
	if exited != 1 {
		return hx.Failf("no-exit", "%s: exit called %d times after the entry ran", where, exited)
	}
	if code != tr.code {
		return hx.Failf("exit-code", "%s: exit code %d, the entry evaluates to %d", where, code, tr.code)
	}
	return nil
}

func errClass(err error) string {
	s := err.Error()
	if len(s) > 60 {
		s = s[:60]
	}
	return s
}

// ---------------------------------------------------------------- enumeration

func maxLen() int {
	if hx.Thorough() {
		return 2*period + 64
	}
	return period + 64
}

func sweepBases() []string {
	if hx.Thorough() {
		return bases
	}
	return []string{"plain", "block"}
}

// window lengths around the read boundaries for the fragment sweep
func windowLens() []int {
	var centres []int
	if hx.Thorough() {
		centres = []int{blockLen, period, 2 * blockLen, blockLen + period, 2 * period}
	} else {
		centres = []int{blockLen, period}
	}
	seen := map[int]bool{}
	var res []int
	for _, c := range centres {
		for l := c - near - 4; l <= c+overlapLen+4; l++ {
			if !seen[l] {
				seen[l] = true
				res = append(res, l)
			}
		}
	}
	sort.Ints(res)
	return res
}

func TestRegress(t *testing.T) { setup(t); hx.Regress(t, runCase) }

func TestExhaustive(t *testing.T) {
	setup(t)
	n := maxLen()
	sb := sweepBases()
	hx.Enumerate(t, "lengths", func(yield func(Case) bool) {
		i := 0
		for _, b := range sb {
			for l := 0; l <= n; l++ {
				i++
				c := Case{Len: l, Base: b, Tree: treeNames[(l/7+i)%len(treeNames)], Pack: i%5 == 0, Spell: (i / 5) % nSpell, Over: i%5 == 0 && (i/5)%3 == 1}
				if !yield(c) {
					return
				}
			}
		}
	}, runCase)
	hx.E.Exhaustive("lengths", map[string]interface{}{"len_from": 0, "len_to": n, "bases": sb, "tree": "rotating", "real_pack": "every 5th"})

	// every tree at every length around the boundaries
	wl := windowLens()
	hx.Enumerate(t, "trees", func(yield func(Case) bool) {
		i := 0
		for _, b := range sb {
			for _, tn := range treeNames {
				for _, l := range wl {
					i++
					if !yield(Case{Len: l, Base: b, Tree: tn, Pack: i%3 == 0, Spell: (i / 3) % nSpell, Over: i%3 == 0 && (i/3)%3 == 1}) {
						return
					}
				}
			}
		}
	}, runCase)
	hx.E.Exhaustive("trees", map[string]interface{}{"lens": fmt.Sprintf("%d lengths around %v", len(wl), "read boundaries"), "bases": sb, "trees": treeNames})

	// fragments of the marker at every alignment before the true marker
	frs := fragments()
	maxGap := overlapLen + 4
	fb := []string{"plain", "block"}
	if !hx.Thorough() {
		fb = []string{"plain"}
	}
	hx.Enumerate(t, "fragments", func(yield func(Case) bool) {
		i := 0
		for _, b := range fb {
			for _, fr := range frs {
				for g := 0; g <= maxGap; g++ {
					for _, l := range wl {
						i++
						if (hx.Thorough() && (l+g+len(fr))%2 != 0) || (!hx.Thorough() && (l+g+len(fr))%3 != 0) {
							continue // a half (thorough) / a third (quick) of the product; every length, gap and fragment occurs
						}
						if !yield(Case{Len: l, Base: b, Frag: fr, Gap: g, Tree: treeNames[i%len(treeNames)], Pack: i%16 == 0, Spell: (i / 16) % nSpell}) {
							return
						}
					}
				}
			}
		}
	}, runCase)
	hx.E.Exhaustive("fragments", map[string]interface{}{"fragments": len(frs), "gap_to": maxGap, "lens": len(wl), "bases": fb, "subsample": map[string]string{"quick": "(len+gap+len(frag))%3==0", "thorough": "(len+gap+len(frag))%2==0"}})
}

// ---------------------------------------------------------------- random

func TestProp(t *testing.T) {
	setup(t)
	frs := fragments()
	alphabet := []byte("\n####ECALSRC\r x\x00")
	hx.Check(t, func(rt *rapid.T) Case {
		var c Case
		// length: near a boundary of a scanner with blocks of 4096 and optional overlap of 28, or anywhere
		switch rapid.IntRange(0, 3).Draw(rt, "lenkind") {
		case 0:
			c.Len = rapid.IntRange(0, 5*period).Draw(rt, "len")
		default:
			a := rapid.IntRange(1, 5).Draw(rt, "a")
			b := rapid.IntRange(0, a).Draw(rt, "b")
			c.Len = blockLen*a + overlapLen*b + rapid.IntRange(-near-len(marker), near).Draw(rt, "off")
		}
		c.Base = rapid.SampledFrom(bases).Draw(rt, "base")
		switch rapid.IntRange(0, 3).Draw(rt, "fragkind") {
		case 0:
		case 1:
			c.Frag = rapid.SampledFrom(frs).Draw(rt, "frag")
		default:
			n := rapid.IntRange(1, 40).Draw(rt, "fraglen")
			b := make([]byte, n)
			for i := range b {
				b[i] = rapid.SampledFrom(alphabet).Draw(rt, "fb")
			}
			c.Frag = string(b)
		}
		if c.Frag != "" {
			if rapid.IntRange(0, 4).Draw(rt, "gapkind") == 0 {
				c.Gap = rapid.IntRange(0, 2*period).Draw(rt, "gap")
			} else {
				c.Gap = rapid.IntRange(0, near+8).Draw(rt, "gap")
			}
		}
		c.Tree = rapid.SampledFrom(treeNames).Draw(rt, "tree")
		c.Pack = rapid.IntRange(0, 3).Draw(rt, "pack") == 0
		if c.Pack {
			c.Spell = rapid.IntRange(0, nSpell-1).Draw(rt, "spell")
			c.Over = rapid.IntRange(0, 2).Draw(rt, "over") == 0
		}
		return c
	}, runCase)
}
