package c01

import (
	"fmt"
	"strings"
	"testing"

	"pgregory.net/rapid"

	"verif/internal/hx"
)

// ---------------------------------------------------------------------------
// generated cases
// ---------------------------------------------------------------------------

var (
	patSegs   = []string{"a", "a", "a", "b", "b", "c", "*", "*", "*"}
	evSegs    = []string{"a", "a", "a", "b", "b", "c"}
	scopeSet  = []string{"s", "s.t", "u"}
	scopeDefs = []string{"", "s", "s.t", "u"}
	keys      = []string{"k1", "k2", "k3"}
	regexes   = []string{"^a", "b$", "^[0-9]+$", ".*", "^$", "true", "a|1", "^.$"}
	scalars   = []Val{
		{T: "num", N: 1}, {T: "num", N: 2.5}, {T: "num", N: 0},
		{T: "str", S: "a"}, {T: "str", S: "ab"}, {T: "str", S: "1"}, {T: "str", S: ""}, {T: "str", S: "true"},
		{T: "bool", B: true}, {T: "bool", B: false},
	}
	containers = []Val{{T: "list", N: 0}, {T: "list", N: 2}, {T: "map", N: 0}, {T: "map", N: 1}}
)

// rapid's integer generators (IntRange, SampledFrom) favour small values, which
// distorts every probability chosen below; its Bool is a fair bit. All choices
// are therefore built from fair bits. All-false bits (what shrinking moves
// towards) mean: option off, lower bound, first element.

func bits(rt *rapid.T, n int, label string) int {
	u := 0
	for i := 0; i < n; i++ {
		u <<= 1
		if rapid.Bool().Draw(rt, label) {
			u |= 1
		}
	}
	return u
}

// pct is true with a probability of about p percent.
func pct(rt *rapid.T, p int, label string) bool {
	return bits(rt, 5, label) >= 32-(p*32+50)/100
}

// uni draws from lo..hi, (nearly) uniformly.
func uni(rt *rapid.T, lo, hi int, label string) int {
	n := 7
	if hi-lo >= 16 {
		n = 11
	}
	return lo + bits(rt, n, label)%(hi-lo+1)
}

func pick[E any](rt *rapid.T, from []E, label string) E {
	return from[uni(rt, 0, len(from)-1, label)]
}

func genPattern(rt *rapid.T) string {
	n := pick(rt, []int{1, 2, 2, 2, 3}, "plen")
	segs := make([]string, n)
	for i := range segs {
		segs[i] = pick(rt, patSegs, "pseg")
	}
	return strings.Join(segs, ".")
}

// genKinds draws 1..3 patterns; later patterns are often variations of the
// first one (copy, one segment generalised or specialised), so that two
// patterns of one rule match the same event.
func genKinds(rt *rapid.T) []string {
	n := pick(rt, []int{1, 1, 2, 2, 3}, "npat")
	out := []string{genPattern(rt)}
	for len(out) < n {
		if pct(rt, 55, "vary") {
			segs := strings.Split(out[0], ".")
			i := uni(rt, 0, len(segs)-1, "vseg")
			switch uni(rt, 0, 2, "vhow") {
			case 0: // exact copy
			case 1:
				segs[i] = "*"
			case 2:
				segs[i] = pick(rt, evSegs, "vlit")
			}
			out = append(out, strings.Join(segs, "."))
		} else {
			out = append(out, genPattern(rt))
		}
	}
	return out
}

func genReq(rt *rapid.T, allowContainers bool) Val {
	k := uni(rt, 0, 99, "reqkind")
	switch {
	case k < 25:
		return Val{T: "nil"}
	case k < 75:
		return pick(rt, scalars, "reqscalar")
	case k < 92 || !allowContainers:
		return Val{T: "re", S: pick(rt, regexes, "regex")}
	default:
		return pick(rt, containers, "reqcont")
	}
}

func genEvVal(rt *rapid.T, allowContainers bool) Val {
	k := uni(rt, 0, 99, "evkind")
	switch {
	case k < 8:
		return Val{T: "nil"}
	case k < 92 || !allowContainers:
		return pick(rt, scalars, "evscalar")
	default:
		return pick(rt, containers, "evcont")
	}
}

func genSubset(rt *rapid.T, from []string, p int, label string) []string {
	var out []string
	for _, s := range from {
		if pct(rt, p, label) {
			out = append(out, s)
		}
	}
	return out
}

func genRule(rt *rapid.T, name string, others []string, allowContainers bool) RuleC {
	r := RuleC{Name: name, Kinds: genKinds(rt)}
	switch uni(rt, 0, 9, "nscope") {
	case 0, 1, 2:
		r.Scopes = []string{pick(rt, scopeSet, "scope1")}
	case 3:
		r.Scopes = []string{pick(rt, scopeSet, "scope1"), pick(rt, scopeSet, "scope2")}
	}
	if pct(rt, 55, "hasstate") {
		r.HasState = true
		for _, k := range genSubset(rt, keys, 40, "reqkey") {
			r.State = append(r.State, KV{k, genReq(rt, allowContainers)})
		}
	}
	r.Prio = uni(rt, 0, 3, "prio")
	r.Supp = genSubset(rt, others, 18, "supp")
	if pct(rt, 8, "suppunknown") {
		r.Supp = append(r.Supp, "zz")
	}
	return r
}

func genScope(rt *rapid.T, e *EventC) {
	if pct(rt, 12, "defscope") {
		e.DefScope = true
		return
	}
	for _, p := range scopeDefs {
		if pct(rt, 55, "scopedef") {
			e.Scope = append(e.Scope, ScopeDef{p, pct(rt, 70, "scopeallow")})
		}
	}
}

// genEvent draws an event; kind and state are often derived from a rule so
// that matches are frequent.
func genEvent(rt *rapid.T, rules []RuleC, allowContainers bool) EventC {
	e := EventC{Name: pick(rt, []string{"e1", "e1", "e2"}, "ename")}
	var from *RuleC
	if pct(rt, 65, "fromrule") {
		from = &rules[uni(rt, 0, len(rules)-1, "fromidx")]
	}
	if from != nil {
		p := from.Kinds[uni(rt, 0, len(from.Kinds)-1, "frompat")]
		for _, s := range strings.Split(p, ".") {
			if s == "*" {
				s = pick(rt, evSegs, "star")
			}
			e.Kind = append(e.Kind, s)
		}
		if pct(rt, 10, "kindmut") {
			e.Kind[uni(rt, 0, len(e.Kind)-1, "kmi")] = pick(rt, evSegs, "kmv")
		}
		if pct(rt, 5, "kindlen") {
			if len(e.Kind) > 1 && pct(rt, 50, "shorter") {
				e.Kind = e.Kind[:len(e.Kind)-1]
			} else if len(e.Kind) < 3 {
				e.Kind = append(e.Kind, pick(rt, evSegs, "kext"))
			}
		}
	} else {
		n := pick(rt, []int{1, 2, 2, 2, 3}, "klen")
		for i := 0; i < n; i++ {
			e.Kind = append(e.Kind, pick(rt, evSegs, "kseg"))
		}
		if pct(rt, 2, "dotted") {
			// a single segment which contains the separator (possible through the Go API only)
			e.Kind = []string{strings.Join(e.Kind, ".")}
		}
	}
	if pct(rt, 8, "nilstate") {
		e.NilState = true
	} else {
		for _, k := range keys {
			var req *Val
			if from != nil {
				for i := range from.State {
					if from.State[i].K == k {
						req = &from.State[i].V
					}
				}
			}
			switch {
			case req != nil && pct(rt, 80, "satisfy"):
				switch req.T {
				case "nil", "re":
					e.State = append(e.State, KV{k, genEvVal(rt, allowContainers)})
				default:
					e.State = append(e.State, KV{k, *req})
				}
			case pct(rt, 45, "evkey"):
				e.State = append(e.State, KV{k, genEvVal(rt, allowContainers)})
			}
		}
	}
	genScope(rt, &e)
	if from != nil && !e.DefScope && pct(rt, 50, "scopefit") {
		// make the rule's scopes allowed
		e.Scope = nil
		seen := map[string]bool{}
		for _, p := range from.Scopes {
			if !seen[p] {
				seen[p] = true
				e.Scope = append(e.Scope, ScopeDef{p, true})
			}
		}
		if pct(rt, 50, "root") {
			e.Scope = append(e.Scope, ScopeDef{"", pct(rt, 50, "rootallow")})
		}
	}
	return e
}

func genNormal(rt *rapid.T) Case {
	c := Case{Workers: uni(rt, 1, 4, "workers"), Reused: uni(rt, 0, 3, "reused") == 0}
	allowContainers := pct(rt, 20, "containers")
	n := uni(rt, 1, 8, "nrules")
	names := make([]string, n)
	for i := range names {
		names[i] = fmt.Sprintf("r%d", i)
	}
	for i := 0; i < n; i++ {
		var others []string
		for j, o := range names {
			if j != i {
				others = append(others, o)
			}
		}
		c.Rules = append(c.Rules, genRule(rt, names[i], others, allowContainers))
	}
	ne := uni(rt, 1, 6, "nevents")
	for i := 0; i < ne; i++ {
		c.Events = append(c.Events, genEvent(rt, c.Rules, allowContainers))
	}
	if pct(rt, 12, "twin") {
		// a twin of one event goes first: the same segments written as ONE segment containing the separator (or,
		// for a one-segment kind, an empty kind / an empty segment) - other kinds, which print alike when joined
		i := uni(rt, 0, len(c.Events)-1, "twini")
		tw := c.Events[i]
		tw.Name = tw.Name + "t"
		switch {
		case len(tw.Kind) >= 2:
			tw.Kind = []string{strings.Join(tw.Kind, ".")}
		case pct(rt, 50, "twinempty"):
			tw.Kind = []string{}
		default:
			tw.Kind = []string{tw.Kind[0], ""}
		}
		c.Events = append(append(append([]EventC{}, c.Events[:i]...), tw), c.Events[i:]...)
	}
	c.Ecal = pct(rt, 25, "ecal")
	return c
}

// genWide: 60..70 state rules which all sit on one leaf of the index.
func genWide(rt *rapid.T) Case {
	c := Case{Workers: uni(rt, 1, 4, "workers"), Wide: true}
	n := uni(rt, 60, 70, "nwide")
	pat := pick(rt, []string{"a", "a.b", "*", "a.*", "*.b"}, "wpat")
	key := pick(rt, keys, "wkey")
	vals := []Val{{T: "nil"}, {T: "num", N: 1}, {T: "str", S: "a"}, {T: "bool", B: true}, {T: "re", S: "^a"}, {T: "num", N: 2.5}}
	for i := 0; i < n; i++ {
		r := RuleC{Name: fmt.Sprintf("w%d", i), Kinds: []string{pat}, HasState: true, Prio: uni(rt, 0, 3, "wprio")}
		if pct(rt, 92, "wreq") {
			r.State = []KV{{key, pick(rt, vals, "wval")}}
		}
		if pct(rt, 4, "wsecond") {
			r.State = append(r.State, KV{"kx", Val{T: "nil"}})
		}
		if pct(rt, 3, "wpat2") {
			r.Kinds = append(r.Kinds, genPattern(rt))
		}
		if pct(rt, 3, "wscope") {
			r.Scopes = []string{"s"}
		}
		if pct(rt, 3, "wsupp") {
			o := uni(rt, 0, n-1, "wsuppidx")
			if o != i {
				r.Supp = []string{fmt.Sprintf("w%d", o)}
			}
		}
		c.Rules = append(c.Rules, r)
	}
	ne := uni(rt, 1, 4, "nevents")
	evVals := []Val{{T: "num", N: 1}, {T: "str", S: "a"}, {T: "bool", B: true}, {T: "num", N: 2.5}, {T: "str", S: "b"}, {T: "nil"}}
	for i := 0; i < ne; i++ {
		e := EventC{Name: pick(rt, []string{"e1", "e2"}, "ename")}
		for _, s := range strings.Split(pat, ".") {
			if s == "*" {
				s = pick(rt, evSegs, "star")
			}
			e.Kind = append(e.Kind, s)
		}
		if pct(rt, 10, "wother") {
			e.Kind = []string{"c", "c", "c"}
		}
		if pct(rt, 90, "wevkey") {
			e.State = []KV{{key, pick(rt, evVals, "wevval")}}
		}
		if pct(rt, 30, "wevkx") {
			e.State = append(e.State, KV{"kx", Val{T: "num", N: 1}})
		}
		if pct(rt, 80, "wdef") {
			e.DefScope = true
		} else {
			genScope(rt, &e)
		}
		c.Events = append(c.Events, e)
	}
	return c
}

func TestProp(t *testing.T) {
	hx.Check(t, func(rt *rapid.T) Case {
		if pct(rt, 6, "wide") {
			return genWide(rt)
		}
		return genNormal(rt)
	}, runCase)
}

// ---------------------------------------------------------------------------
// exhaustive enumeration of a small universe
// ---------------------------------------------------------------------------

func patternLists(alphabet []string, maxPatterns int) [][]string {
	var pats []string
	for _, a := range alphabet {
		pats = append(pats, a)
	}
	for _, a := range alphabet {
		for _, b := range alphabet {
			pats = append(pats, a+"."+b)
		}
	}
	var out [][]string
	for _, p := range pats {
		out = append(out, []string{p})
	}
	if maxPatterns >= 2 {
		for _, p := range pats {
			for _, q := range pats {
				out = append(out, []string{p, q})
			}
		}
	}
	return out
}

func smallEvents() [][]string {
	var out [][]string
	for _, a := range []string{"a", "b"} {
		out = append(out, []string{a})
	}
	for _, a := range []string{"a", "b"} {
		for _, b := range []string{"a", "b"} {
			out = append(out, []string{a, b})
		}
	}
	return out
}

// enumPairs yields every ordered pair of rules whose pattern lists come from
// patternLists (the second rule with each of the state matches nil, {k1:NULL},
// {k1:1}) x every ordered two-event history sharing the name "e" (each event
// with each of the states {}, {k1:1}, {k1:2}). Every procEvery-th case also
// runs on a 1-worker processor, with one of four suppression relations between
// the two rules (procEvery is coprime to the shard counts, so every shard gets
// its share).
func enumPairs(maxPatterns, procEvery int) func(yield func(Case) bool) {
	return func(yield func(Case) bool) {
		lists := patternLists([]string{"a", "*"}, maxPatterns)
		events := smallEvents()
		ruleStates := []RuleC{{}, {HasState: true, State: []KV{{"k1", Val{T: "nil"}}}}, {HasState: true, State: []KV{{"k1", Val{T: "num", N: 1}}}}}
		evStates := [][]KV{nil, {{"k1", Val{T: "num", N: 1}}}, {{"k1", Val{T: "num", N: 2}}}}
		n := 0
		for _, k0 := range lists {
			for _, k1 := range lists {
				for _, rs := range ruleStates {
					for _, e0 := range events {
						for _, e1 := range events {
							for _, s0 := range evStates {
								for _, s1 := range evStates {
									c := Case{Workers: 1, NoProc: true, Note: "enum",
										Rules:  []RuleC{{Name: "r0", Kinds: k0}, {Name: "r1", Kinds: k1, HasState: rs.HasState, State: rs.State}},
										Events: []EventC{{Name: "e", Kind: e0, State: s0, DefScope: true}, {Name: "e", Kind: e1, State: s1, DefScope: true}}}
									if n%procEvery == 0 {
										c.NoProc = false
										switch (n / procEvery) % 4 {
										case 1:
											c.Rules[0].Supp = []string{"r1"}
										case 2:
											c.Rules[1].Supp = []string{"r0"}
										case 3:
											c.Rules[0].Supp = []string{"r1"}
											c.Rules[1].Supp = []string{"r0"}
										}
									}
									n++
									if !yield(c) {
										return
									}
								}
							}
						}
					}
				}
			}
		}
	}
}

func TestExhaustive(t *testing.T) {
	// quick: rules with one pattern; thorough: up to two patterns per rule
	maxPatterns, procEvery, name := 1, 3, "rule-pairs-1-pattern"
	if hx.Thorough() {
		maxPatterns, procEvery, name = 2, 11, "rule-pairs-2-patterns"
	}
	hx.Enumerate(t, name, enumPairs(maxPatterns, procEvery), runCase)
	hx.E.Exhaustive(name, map[string]interface{}{
		"rules":             "all ordered pairs of rules; the second rule with state match nil, {k1:NULL}, {k1:1}",
		"patterns_per_rule": fmt.Sprintf("1..%d (ordered, duplicates included)", maxPatterns),
		"pattern_segments":  "1..2 over {a,*}",
		"events":            "all ordered two-event histories sharing one name, kinds of 1..2 segments over {a,b}, each event with state {}, {k1:1}, {k1:2}",
		"routes":            fmt.Sprintf("RuleIndex.Match/IsTriggering for all; every %dth case also on a 1-worker processor, cycling through the 4 suppression relations between the two rules", procEvery),
	})
}
